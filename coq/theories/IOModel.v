(* Executable model of fileio.hpp (C13, C14, C15): bytes are numbers 0..255 (N).  Binary: little-endian fixed-width codec, one record per
   edge, the loader's read loop with the stream contract (a short read fails, leaves what it could read in the buffer, and ends the loop).
   Text: getline, the tokeniser findEdgeFromString with its npos arithmetic, std::stoi, std::to_string, the comment rule, the name table.
   Definitions only. *)
From Coq Require Import List Arith NArith ZArith Lia Bool.
From BG Require Import Base DirectedModel UndirectedModel.
Import ListNotations.
Local Open Scope N_scope.

Definition byte := N.
Definition bytes := list N.

(* ================= little-endian codec ================= *)
Fixpoint le_bytes (k : nat) (x : N) : bytes := match k with O => [] | S k' => (x mod 256) :: le_bytes k' (x / 256) end.
Fixpoint of_le_bytes (b : bytes) : N := match b with [] => 0 | x :: t => x + 256 * of_le_bytes t end.

(* ================= binary edge lists ================= *)
(* a record: source, destination (4 bytes each), label (w bytes, w = 0 for unlabelled graphs); labels are bit patterns *)
Definition brecord := (N * N * N)%type.
Definition enc_record (w : nat) (r : brecord) : bytes := let '(s, d, l) := r in le_bytes 4 s ++ le_bytes 4 d ++ le_bytes w l.
Definition enc_records (w : nat) (rs : list brecord) : bytes := flat_map (enc_record w) rs.
(* the repaired loader: a record counts only when all three reads succeeded *)
Fixpoint parse_records (fuel : nat) (w : nat) (b : bytes) : list brecord :=
  match fuel with O => [] | S f =>
    if Nat.ltb (length b) 4 then [] else
    let b1 := skipn 4 b in
    if Nat.ltb (length b1) 4 then [] else
    let b2 := skipn 4 b1 in
    if Nat.ltb (length b2) w then [] else
    (of_le_bytes (firstn 4 b), of_le_bytes (firstn 4 b1), of_le_bytes (firstn w b2)) :: parse_records f w (skipn w b2) end.
(* the pinned loader: only the first read is tested; a short read overwrites the low bytes of the local and keeps the rest *)
Definition short_read (k : nat) (avail : bytes) (old : option bytes) : option bytes :=
  if Nat.leb k (length avail) then Some (firstn k avail)
  else match old with Some o => Some (avail ++ skipn (length avail) o) | None => None end.         (* None: uninitialised local *)
Fixpoint parse_records_pinned (fuel : nat) (w : nat) (b : bytes) (v2 lab : option bytes) : outcome (list brecord) :=
  match fuel with O => Val [] | S f =>
    if Nat.ltb (length b) 4 then Val [] else
    let b1 := skipn 4 b in
    let v2' := short_read 4 b1 v2 in
    let b2 := skipn 4 b1 in
    let lab' := if Nat.eqb w 0 then Some [] else short_read w b2 lab in
    match v2', lab' with
    | Some x, Some y => omap (cons (of_le_bytes (firstn 4 b), of_le_bytes x, of_le_bytes y)) (parse_records_pinned f w (skipn w b2) v2' lab')
    | _, _ => Undef StaleRead end end.

Section BinGraph.
Variable V : variant.
Variable und : bool.
Notation dgraph := (@dgraph N).
Definition hs_of (w : nat) : bool := negb (Nat.eqb w 0).
Definition b_add (w : nat) (h : dgraph) (i j : nat) (l : N) : outcome dgraph :=
  DirectedModel.lift (if und then u_add_edge (hs_of w) V h i j l true else add_edge (hs_of w) V h i j l true).
(* if (v1 >= size) resize(v1 + 1); if (v2 >= size) resize(v2 + 1); addEdge(v1, v2, label, true) *)
Definition build_graph (w : nat) (rs : list brecord) : outcome dgraph :=
  fold_left (fun acc r => obind acc (fun h => let '(s, d, l) := r in
     let i := N.to_nat s in let j := N.to_nat d in
     obind (if Nat.leb (size h) i then DirectedModel.lift (resize h (S i)) else Val h) (fun h1 =>
     obind (if Nat.leb (size h1) j then DirectedModel.lift (resize h1 (S j)) else Val h1) (fun h2 => b_add w h2 i j l)))) rs (Val (init 0)).
Definition load_binary (w : nat) (b : bytes) : outcome dgraph := build_graph w (parse_records (S (length b)) w b).
Definition load_binary_pinned (w : nat) (b : bytes) : outcome dgraph := obind (parse_records_pinned (S (length b)) w b None None) (build_graph w).
(* the writer: one record per enumerated edge; the label is fetched with the throwing getter *)
Definition records_of (w : nat) (g : dgraph) : outcome (list brecord) :=
  obind (if und then u_iterate V g else iterate V g) (fun es =>
    omapM (fun e => omap (fun l => (N.of_nat (fst e), N.of_nat (snd e), l))
                         (if Nat.eqb w 0 then Val 0 else if und then u_get_label 0 true g (fst e) (snd e) true else get_label 0 true g (fst e) (snd e) true)) es).
Definition write_binary (w : nat) (g : dgraph) : outcome bytes := omap (enc_records w) (records_of w g).
End BinGraph.

(* ================= text ================= *)
Definition is_ws (c : N) : bool := (c =? 32) || (c =? 9) || (c =? 10) || (c =? 13) || (c =? 12) || (c =? 11).        (* " \t\n\r\f\v" *)
(* std::string::find_first_(not_)of(t, pos): None = npos; pos = None (npos) finds nothing *)
Fixpoint find_from (p : N -> bool) (l : bytes) (i : nat) : option nat :=
  match l with [] => None | c :: t => if p c then Some i else find_from p t (S i) end.
Definition find_first (p : N -> bool) (s : bytes) (pos : option nat) : option nat :=
  match pos with None => None | Some k => find_from p (skipn k s) k end.
(* s.substr(pos, len): throws std::out_of_range when pos > size(); npos as pos always throws (npos > size) *)
Definition substr (s : bytes) (pos : option nat) (len : option nat) : outcome bytes :=
  match pos with
  | None => Raise StdOutOfRange
  | Some k => if Nat.ltb (length s) k then Raise StdOutOfRange else Val (match len with None => skipn k s | Some n => firstn n (skipn k s) end) end.
(* pos2 - pos1 on size_t: npos - pos1 is huge (takes the rest); a proper difference otherwise *)
Definition span (p1 p2 : option nat) : option nat := match p1, p2 with Some a, Some b => Some (b - a)%nat | _, None => None | None, Some b => Some (S b) end.
Definition find_edge_from_string (s : bytes) : outcome (bytes * bytes * bytes) :=
  let pos1 := find_first (fun c => negb (is_ws c)) s (Some 0%nat) in
  let pos2 := find_first is_ws s pos1 in
  let pos3 := find_first (fun c => negb (is_ws c)) s pos2 in
  let pos4 := find_first is_ws s pos3 in
  let pos5 := find_first (fun c => negb (is_ws c)) s pos4 in
  obind (substr s pos1 (span pos1 pos2)) (fun t1 =>
  obind (substr s pos3 (span pos3 pos4)) (fun t2 =>
  match pos5 with None => Val (t1, t2, []) | Some _ => obind (substr s pos5 None) (fun t3 => Val (t1, t2, t3)) end)).
(* std::getline over the whole file: lines end at '\n'; a final line without '\n' counts when it is not empty *)
Fixpoint lines_of (b : bytes) (cur : bytes) : list bytes :=
  match b with
  | [] => match cur with [] => [] | _ => [rev cur] end
  | c :: t => if c =? 10 then rev cur :: lines_of t [] else lines_of t (c :: cur) end.
(* std::stoi: leading whitespace, optional sign, the longest digit prefix; no digit: invalid_argument; outside int: out_of_range *)
Definition is_digit (c : N) : bool := (48 <=? c) && (c <=? 57).
Fixpoint digits_val (l : bytes) (acc : Z) : Z * bool :=         (* value of the digit prefix, and whether it is non-empty *)
  match l with c :: t => if is_digit c then (fst (digits_val t (acc * 10 + Z.of_N (c - 48))%Z), true) else (acc, false) | [] => (acc, false) end.
Fixpoint drop_ws (l : bytes) : bytes := match l with c :: t => if is_ws c then drop_ws t else l | [] => [] end.
Definition stoi (s : bytes) : outcome Z :=
  let l := drop_ws s in
  let '(neg, l1) := match l with c :: t => if c =? 45 then (true, t) else if c =? 43 then (false, t) else (false, l) | [] => (false, []) end in
  match l1 with
  | c :: _ => if is_digit c then
                let v := fst (digits_val l1 0%Z) in let v := if neg then (- v)%Z else v in
                if ((-2147483648 <=? v) && (v <=? 2147483647))%Z then Val v else Raise StoiRange
              else Raise StoiInvalid
  | [] => Raise StoiInvalid end.
(* std::to_string of an unsigned *)
Fixpoint to_string_fuel (fuel : nat) (n : N) (acc : bytes) : bytes :=
  match fuel with O => acc | S f => let acc' := (48 + n mod 10) :: acc in if n / 10 =? 0 then acc' else to_string_fuel f (n / 10) acc' end.
Definition to_string (n : N) : bytes := to_string_fuel 40 n [].

Section TextGraph.
Variable V : variant.
Variable und : bool.
Variable strict_index : bool.     (* repaired: a negative vertex index is rejected; pinned: it wraps to unsigned *)
Context {L : Type}.
Variable ldef : L.
Variable has_store : bool.
Variable label_of_text : bytes -> outcome L.         (* edgeFromString, supplied by the caller *)
Variable text_of_label : L -> bytes.                 (* toString *)
Notation dgraph := (@dgraph L).
Definition vertex_of_text (t : bytes) : outcome nat :=
  obind (stoi t) (fun z => if (z <? 0)%Z then (if strict_index then Raise StdOutOfRange else Val (Z.to_nat (z + 4294967296)%Z)) else Val (Z.to_nat z)).
Definition t_add (h : dgraph) (i j : nat) (l : L) : outcome dgraph :=
  DirectedModel.lift (if und then u_add_edge has_store V h i j l true else add_edge has_store V h i j l true).
Fixpoint set_name (i : nat) (x : bytes) (l : list bytes) : list bytes := match l, i with [], _ => [] | _ :: t, O => x :: t | h :: t, S i' => h :: set_name i' x t end.
(* one data line of loadTextVertexLabeledEdgeList; [vmap] numbers a token (stoi, or the VertexCountMapper with its table) *)
Definition text_step {M} (vmap : M -> bytes -> outcome (M * nat)) (st : M * dgraph * list bytes) (line : bytes) : outcome (M * dgraph * list bytes) :=
  let '(m, h, names) := st in
  if (match line with c :: _ => c =? 35 | [] => false end) then Val st else
  obind (find_edge_from_string line) (fun tk => let '(t1, t2, t3) := tk in
  obind (vmap m t1) (fun mv1 => obind (vmap (fst mv1) t2) (fun mv2 =>
    let i := snd mv1 in let j := snd mv2 in let big := Nat.max i j in
    obind (if Nat.leb (size h) big then
             (if Nat.ltb 3000 big then Raise RuntimeError     (* "small enough to allocate": indices beyond the harness limit are outside the property *)
              else omap (fun h1 => (h1, names ++ repeat [] (S big - length names))) (DirectedModel.lift (resize h (S big))))
           else Val (h, names)) (fun hn =>
    let names1 := set_name j t2 (set_name i t1 (snd hn)) in
    obind (label_of_text t3) (fun l => omap (fun h2 => (fst mv2, h2, names1)) (t_add (fst hn) i j l)))))).
Definition load_text_with {M} (vmap : M -> bytes -> outcome (M * nat)) (m0 : M) (b : bytes) : outcome (dgraph * list bytes) :=
  omap (fun st => (snd (fst st), snd st)) (fold_left (fun acc line => obind acc (fun st => text_step vmap st line)) (lines_of b []) (Val (m0, init 0, []))).
Definition stoi_map (m : unit) (t : bytes) : outcome (unit * nat) := omap (fun v => (tt, v)) (vertex_of_text t).
Definition load_text (b : bytes) := load_text_with stoi_map tt b.
(* VertexCountMapper: names numbered in order of first appearance *)
Definition beq (a b : bytes) : bool := if list_eq_dec N.eq_dec a b then true else false.
Fixpoint name_index (t : bytes) (m : list bytes) (i : nat) : option nat := match m with [] => None | x :: r => if beq t x then Some i else name_index t r (S i) end.
Definition count_map (m : list bytes) (t : bytes) : outcome (list bytes * nat) :=
  match name_index t m 0 with Some k => Val (m, k) | None => Val (m ++ [t], length m) end.
Definition load_text_names (b : bytes) := load_text_with count_map [] b.
(* writers *)
Definition write_text (g : dgraph) : outcome bytes :=
  obind (if und then u_iterate V g else iterate V g) (fun es =>
    omap (fun ls => [35; 32; 86; 101; 114; 116; 101; 120; 49; 32; 86; 101; 114; 116; 101; 120; 50; 32; 76; 97; 98; 101; 108; 10] ++ concat ls)
      (omapM (fun e => omap (fun l => to_string (N.of_nat (fst e)) ++ [32] ++ to_string (N.of_nat (snd e)) ++ (if has_store then [32] ++ text_of_label l else []) ++ [10])
                            (if und then u_get_label ldef has_store g (fst e) (snd e) true else get_label ldef has_store g (fst e) (snd e) true)) es)).
End TextGraph.
