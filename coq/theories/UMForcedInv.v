(* C16, UndirectedMultigraph (and the shared core of UndirectedWeightedGraph, see WForced.v): the invariant kept by forced insertions
   whose copies all carry the stored multiplicity ("totalEdgeNumber = sum over the ENTRIES j of list i with i <= j of the multiplicity
   stored under the ordered key"), the fact that removeAllEdges keeps it, and that removeDuplicateEdges turns it back into the full
   multigraph invariant UTInv of UTotals.v (totalEdgeNumber = sum of the stored multiplicities).  The undirected analogue of MForcedInv.v. *)
From BG Require Import Base DirectedModel DirectedProofs DirectedIter DirectedUsers DirectedSpec DirectedRefine DirectedObs Equality EqualityMore
  UndirectedModel UndirectedProofs UndirectedIter UndirectedSpec UndirectedRefine UndirectedObs MultiModel Totals UTotals MultiRefine
  Forced UForced MForced MForcedInv.
Local Open Scope Z_scope.
Local Arguments Z.of_nat : simpl never.
Local Arguments Z.add : simpl never.
Local Arguments Z.sub : simpl never.
Local Arguments Z.mul : simpl never.

(* ---- sums over a neighbour list ---- *)
Lemma fsum_app f (a b : list nat) : fsum f (a ++ b) = fsum f a + fsum f b.
Proof. induction a as [|x t IH]; cbn [app]; [cbn; lia|]. rewrite !fsum_cons, IH. lia. Qed.
Lemma fsum_snoc f (l : list nat) x : fsum f (l ++ [x]) = fsum f l + f x.
Proof. rewrite fsum_app. cbn. lia. Qed.
(* list.remove(d) takes away (number of copies of d) * (what one copy weighs) *)
Lemma fsum_remove_all f d (l : list nat) : fsum f l = fsum f (remove_all d l) + Z.of_nat (count d l) * f d.
Proof. unfold remove_all. induction l as [|x t IH]; [cbn; lia|]. rewrite count_cons, fsum_cons. cbn [filter].
  destruct (Nat.eqb_spec x d) as [->|Ne]; cbn [negb].
  - rewrite Nat.eqb_refl, Nat2Z.inj_add, IH. lia.
  - destruct (Nat.eqb_spec d x) as [E|_]; [congruence|]. rewrite fsum_cons, IH. cbn [Nat.add]. lia. Qed.

(* what one entry j of list i weighs in the undirected classes: the stored value of the ordered key on the i <= j half, nothing otherwise *)
Definition ukey (lab : @lmap Z) (i x : nat) : Z := if Nat.leb i x then lget (ordered i x) lab else 0.
Lemma uwrow_fsum lab i l : uwrow lab i l = fsum (ukey lab i) l.
Proof. reflexivity. Qed.
Lemma ordered_leq i j : (i <= j)%nat -> ordered i j = (i, j).
Proof. intros H. unfold ordered. destruct (Nat.ltb_spec i j); [reflexivity|]. f_equal; lia. Qed.
Lemma ordered_eq_cases i x a b : ordered i x = ordered a b -> (i = a /\ x = b) \/ (i = b /\ x = a).
Proof. intros E. apply ordered_eq_iff in E. destruct E as [[? ?]|[? ?]]; subst; auto. Qed.
Lemma uwtotal_seq lab : forall rows k,
  uwtotal_from k lab rows = zsum (map (fun i => uwrow lab i (nth (i - k) rows [])) (seq k (length rows))).
Proof. induction rows as [|r rs IH]; intros k; cbn [uwtotal_from length seq map]; [reflexivity|]. rewrite zsum_cons, Nat.sub_diag. cbn [nth].
  rewrite (IH (S k)). f_equal. f_equal. apply map_ext_in. intros i Hi. apply in_seq in Hi. replace (i - k)%nat with (S (i - S k)) by lia. reflexivity. Qed.
Lemma uwtotal_nb (g : @dgraph Z) lab : length (adj g) = size g -> uwtotal lab (adj g) = zsum (map (fun i => uwrow lab i (nb g i)) (seq 0 (size g))).
Proof. intros E. unfold uwtotal. rewrite uwtotal_seq, E. f_equal. apply map_ext. intros i. rewrite Nat.sub_0_r. reflexivity. Qed.

(* sum of the stored multiplicities = weight of the i <= j entries, when every unordered pair has exactly one entry on that half *)
Lemma esum_filter h (p : edge -> bool) es : esum h (filter p es) = esum (fun e => if p e then h e else 0) es.
Proof. unfold esum. induction es as [|x t IH]; cbn [filter fold_right]; [reflexivity|]. destruct (p x); cbn [fold_right]; rewrite IH; lia. Qed.
Lemma esum_urow lab i l : esum (fun e => if up e then lget e lab else 0) (map (pair i) l) = uwrow lab i l.
Proof. unfold esum, uwrow. induction l as [|x t IH]; cbn [map fold_right]; [reflexivity|]. rewrite IH. unfold up; cbn [fst snd].
  destruct (Nat.leb_spec i x) as [H|_]; [rewrite (ordered_leq i x H)|]; reflexivity. Qed.
Lemma msum_uwtotal (g : @dgraph Z) : InvU true g -> KeysOK g -> msum (labels g) = uwtotal (labels g) (adj g).
Proof.
  intros I K. set (lab := labels g). set (m2 := map (fun e => (e, lget e lab)) (filter up (flatten g))).
  assert (K2 : NoDup (map fst m2)).
  { unfold m2. rewrite map_map. cbn [fst]. rewrite map_id. apply NoDup_filter. apply (NoDup_flatten_u true g I). }
  rewrite (msum_ext lab m2 K K2).
  - unfold m2. rewrite msum_graph, esum_filter. unfold flatten, rows_from. rewrite esum_flat_map. rewrite (uwtotal_nb g lab (u_len _ _ I)).
    f_equal. apply map_ext. intros i. unfold row. apply esum_urow.
  - intros [i j]. pose proof (u_lab _ _ I) as IL. cbn in IL. unfold m2. destruct (lfind (i, j) lab) as [v|] eqn:F.
    + assert (H : (i <= j)%nat /\ In j (nb g i)) by (apply IL; fold lab; congruence). destruct H as [Hle H].
      rewrite lfind_graph_in; [unfold lget; rewrite F; reflexivity|]. apply filter_In. split.
      * apply DirectedUsers.In_flatten. split; auto. apply (u_rng _ _ I) in H. tauto.
      * unfold up; cbn [fst snd]. apply Nat.leb_le. exact Hle.
    + rewrite lfind_graph_out; auto. intros H. apply filter_In in H as [H U]. apply DirectedUsers.In_flatten in H as [_ H].
      unfold up in U; cbn [fst snd] in U. apply Nat.leb_le in U.
      assert (X : lfind (i, j) (labels g) <> None) by (apply IL; auto). fold lab in X. congruence.
Qed.

Section UMWeak.
Notation V := repaired.
Notation WInvU := (@WInvU Z true).
Notation InvU := (@InvU Z true).
Implicit Types m : mgraph.
Implicit Types g : @dgraph Z.

(* ---- the labelled operations and the weight of the entries ---- *)
(* a forced insertion with value k: the entries weigh k more for the new copy, and every EARLIER copy of the pair is re-valued from the
   stored value to k (the store has one slot per pair) *)
Lemma u_forced_uwtotal_gen g a b k : WInvU g -> (a < size g)%nat -> (b < size g)%nat ->
  forall g', u_add_edge true V g a b k true = (g', Done) ->
  WInvU g' /\ uwtotal (labels g') (adj g') =
              uwtotal (labels g) (adj g) + k + Z.of_nat (count b (nb g a)) * (k - lget (ordered a b) (labels g)).
Proof.
  intros I Ha Hb g' E.
  destruct (u_forced_add_spec true g a b k I Ha Hb) as [g2 [E2 [I' [S' [_ [NB [_ [_ LB]]]]]]]]. rewrite E in E2. injection E2 as <-.
  split; [exact I'|].
  set (w := lget (ordered a b) (labels g)). set (c := Z.of_nat (count b (nb g a))).
  assert (LG : forall e, lget e (labels g') = if edge_eqb (ordered a b) e then k else lget e (labels g)).
  { intros e. unfold lget. rewrite LB. cbn [andb]. destruct (edge_eqb (ordered a b) e); reflexivity. }
  assert (HIT : forall i x, ordered i x = ordered a b -> ukey (labels g') i x = if Nat.leb i x then k else 0).
  { intros i x EQ. unfold ukey. rewrite LG, EQ, edge_eqb_refl. reflexivity. }
  assert (KEY : forall i x, ordered i x = ordered a b -> ukey (labels g) i x = if Nat.leb i x then w else 0).
  { intros i x EQ. unfold ukey. rewrite EQ. reflexivity. }
  assert (OLD : forall i x, ordered i x <> ordered a b -> ukey (labels g') i x = ukey (labels g) i x).
  { intros i x NE. unfold ukey. destruct (Nat.leb i x); [|reflexivity]. rewrite LG.
    destruct (edge_eqb_spec (ordered a b) (ordered i x)) as [EQ|_]; [congruence|reflexivity]. }
  set (lo := fst (ordered a b)).
  assert (Hlo : (lo < size g)%nat) by (unfold lo; destruct (ordered_cases a b) as [[-> _]|[-> _]]; cbn [fst]; auto).
  (* the old entries, re-valued *)
  assert (DIFF : forall i, fsum (ukey (labels g') i) (nb g i) = fsum (ukey (labels g) i) (nb g i) + (if Nat.eqb i lo then c * (k - w) else 0)).
  { intros i.
    assert (KEEPa : forall x, In x (remove_all b (nb g a)) -> ukey (labels g') a x = ukey (labels g) a x).
    { intros x Hx. apply In_remove_all in Hx as [_ Hx]. apply OLD. intros EQ. destruct (ordered_eq_cases _ _ _ _ EQ) as [[_ ?]|[? ?]]; congruence. }
    assert (KEEPb : forall x, In x (remove_all a (nb g b)) -> ukey (labels g') b x = ukey (labels g) b x).
    { intros x Hx. apply In_remove_all in Hx as [_ Hx]. apply OLD. intros EQ. destruct (ordered_eq_cases _ _ _ _ EQ) as [[? ?]|[_ ?]]; congruence. }
    destruct (Nat.eqb_spec i a) as [->|Hia]; [|destruct (Nat.eqb_spec i b) as [->|Hib]].
    - rewrite (fsum_remove_all (ukey (labels g') a) b (nb g a)), (fsum_remove_all (ukey (labels g) a) b (nb g a)), (fsum_ext _ _ _ KEEPa).
      rewrite (HIT a b eq_refl), (KEY a b eq_refl). fold c.
      unfold lo. destruct (ordered_cases a b) as [[-> H]|[-> H]]; cbn [fst].
      + rewrite Nat.eqb_refl. destruct (Nat.leb_spec a b); lia.
      + destruct (Nat.leb_spec a b), (Nat.eqb_spec a b); try lia.
    - rewrite (fsum_remove_all (ukey (labels g') b) a (nb g b)), (fsum_remove_all (ukey (labels g) b) a (nb g b)), (fsum_ext _ _ _ KEEPb).
      rewrite (HIT b a (ordered_sym b a)), (KEY b a (ordered_sym b a)), (wu_sym _ _ I b a). fold c.
      unfold lo. destruct (ordered_cases a b) as [[-> H]|[-> H]]; cbn [fst].
      + destruct (Nat.leb_spec b a), (Nat.eqb_spec b a); try lia.
      + rewrite Nat.eqb_refl. destruct (Nat.leb_spec b a); lia.
    - assert (X : Nat.eqb i lo = false).
      { apply Nat.eqb_neq. unfold lo. destruct (ordered_cases a b) as [[-> _]|[-> _]]; cbn [fst]; auto. }
      rewrite X, Z.add_0_r. apply fsum_ext. intros x _. apply OLD. intros EQ. destruct (ordered_eq_cases _ _ _ _ EQ) as [[? ?]|[? ?]]; congruence. }
  rewrite (uwtotal_nb g _ (wu_len _ _ I)), (uwtotal_nb g' _ (wu_len _ _ I')), S'.
  rewrite (zsum_point (fun i => uwrow (labels g) i (nb g i)) (fun i => uwrow (labels g') i (nb g' i)) lo (k + c * (k - w)) (size g) 0).
  - cbn [Nat.leb andb Nat.add]. rewrite (proj2 (Nat.ltb_lt _ _) Hlo). lia.
  - intros i. rewrite NB, !uwrow_fsum.
    destruct (Nat.eqb_spec i b) as [->|Hib]; [|destruct (Nat.eqb_spec i a) as [->|Hia]].
    + rewrite fsum_snoc, (HIT b a (ordered_sym b a)), DIFF.
      unfold lo. destruct (ordered_cases a b) as [[-> H]|[-> H]]; cbn [fst].
      * destruct (Nat.leb_spec b a), (Nat.eqb_spec b a); try lia.
      * rewrite Nat.eqb_refl. destruct (Nat.leb_spec b a); lia.
    + rewrite fsum_snoc, (HIT a b eq_refl), DIFF.
      unfold lo. destruct (ordered_cases a b) as [[-> H]|[-> H]]; cbn [fst].
      * rewrite Nat.eqb_refl. destruct (Nat.leb_spec a b); lia.
      * destruct (Nat.leb_spec a b), (Nat.eqb_spec a b); try lia.
    + rewrite DIFF.
      assert (X : Nat.eqb i lo = false).
      { apply Nat.eqb_neq. unfold lo. destruct (ordered_cases a b) as [[-> _]|[-> _]]; cbn [fst]; auto. }
      rewrite X. reflexivity.
Qed.
(* a forced insertion that repeats the stored value (or inserts an absent pair) adds exactly that value *)
Lemma u_forced_uwtotal g a b k : WInvU g -> (a < size g)%nat -> (b < size g)%nat ->
  (In b (nb g a) -> lget (ordered a b) (labels g) = k) ->
  forall g', u_add_edge true V g a b k true = (g', Done) ->
  WInvU g' /\ uwtotal (labels g') (adj g') = uwtotal (labels g) (adj g) + k.
Proof.
  intros I Ha Hb SAME g' E. destruct (u_forced_uwtotal_gen g a b k I Ha Hb g' E) as [I' W]. split; [exact I'|]. rewrite W.
  destruct (mem b (nb g a)) eqn:M.
  - apply mem_In in M. rewrite (SAME M). lia.
  - apply mem_false, count_zero in M. rewrite M. lia.
Qed.

(* removeEdge / removeAllEdges (all copies of the pair leave both lists, the key is erased) takes away copies * stored value *)
Lemma u_remove_uwtotal g a b : WInvU g -> (a < size g)%nat -> (b < size g)%nat ->
  forall g', u_remove_edge g a b = (g', Done) ->
  WInvU g' /\ uwtotal (labels g') (adj g') = uwtotal (labels g) (adj g) - lget (ordered a b) (labels g) * Z.of_nat (count b (nb g a)).
Proof.
  intros I Ha Hb g' E.
  destruct (u_remove_edge_weak true g a b I Ha Hb) as [g2 [E2 [I' [S' [_ [NB [_ LB]]]]]]]. rewrite E in E2. injection E2 as <-.
  split; [exact I'|].
  set (w := lget (ordered a b) (labels g)). set (c := Z.of_nat (count b (nb g a))).
  assert (LG : forall e, lget e (labels g') = if edge_eqb (ordered a b) e then 0 else lget e (labels g)).
  { intros e. unfold lget. rewrite LB. destruct (edge_eqb (ordered a b) e); reflexivity. }
  assert (OLD : forall i x, ordered i x <> ordered a b -> ukey (labels g') i x = ukey (labels g) i x).
  { intros i x NE. unfold ukey. destruct (Nat.leb i x); [|reflexivity]. rewrite LG.
    destruct (edge_eqb_spec (ordered a b) (ordered i x)) as [EQ|_]; [congruence|reflexivity]. }
  assert (KEY : forall i x, ordered i x = ordered a b -> ukey (labels g) i x = if Nat.leb i x then w else 0).
  { intros i x EQ. unfold ukey. rewrite EQ. reflexivity. }
  rewrite (uwtotal_nb g _ (wu_len _ _ I)), (uwtotal_nb g' _ (wu_len _ _ I')), S'.
  set (lo := fst (ordered a b)).
  assert (Hlo : (lo < size g)%nat) by (unfold lo; destruct (ordered_cases a b) as [[-> _]|[-> _]]; cbn [fst]; auto).
  rewrite (zsum_point (fun i => uwrow (labels g) i (nb g i)) (fun i => uwrow (labels g') i (nb g' i)) lo (- (w * c)) (size g) 0).
  - cbn [Nat.leb andb Nat.add]. rewrite (proj2 (Nat.ltb_lt _ _) Hlo). lia.
  - intros i. rewrite NB, !uwrow_fsum.
    (* entries that survive in the list of a (resp. b) are not the removed pair *)
    assert (KEEPa : forall x, In x (remove_all b (nb g a)) -> ukey (labels g') a x = ukey (labels g) a x).
    { intros x Hx. apply In_remove_all in Hx as [_ Hx]. apply OLD. intros EQ. destruct (ordered_eq_cases _ _ _ _ EQ) as [[_ ?]|[? ?]]; congruence. }
    assert (KEEPb : forall x, In x (remove_all a (nb g b)) -> ukey (labels g') b x = ukey (labels g) b x).
    { intros x Hx. apply In_remove_all in Hx as [_ Hx]. apply OLD. intros EQ. destruct (ordered_eq_cases _ _ _ _ EQ) as [[? ?]|[_ ?]]; congruence. }
    destruct (Nat.eqb_spec i a) as [->|Hia]; [|destruct (Nat.eqb_spec i b) as [->|Hib]].
    + rewrite (fsum_ext _ _ _ KEEPa), (fsum_remove_all (ukey (labels g) a) b (nb g a)), (KEY a b eq_refl). fold c.
      unfold lo. destruct (ordered_cases a b) as [[-> H]|[-> H]]; cbn [fst].
      * rewrite Nat.eqb_refl. destruct (Nat.leb_spec a b); lia.
      * destruct (Nat.leb_spec a b), (Nat.eqb_spec a b); try lia.
    + rewrite (fsum_ext _ _ _ KEEPb), (fsum_remove_all (ukey (labels g) b) a (nb g b)), (KEY b a (ordered_sym b a)), (wu_sym _ _ I b a). fold c.
      unfold lo. destruct (ordered_cases a b) as [[-> H]|[-> H]]; cbn [fst].
      * destruct (Nat.leb_spec b a), (Nat.eqb_spec b a); try lia.
      * rewrite Nat.eqb_refl. destruct (Nat.leb_spec b a); lia.
    + assert (X : Nat.eqb i lo = false).
      { apply Nat.eqb_neq. unfold lo. destruct (ordered_cases a b) as [[-> _]|[-> _]]; cbn [fst]; auto. }
      rewrite X, Z.add_0_r. apply fsum_ext. intros x _. apply OLD. intros EQ. destruct (ordered_eq_cases _ _ _ _ EQ) as [[? ?]|[? ?]]; congruence.
Qed.

(* ---- the state invariant of the undirected multigraph under forced insertions that repeat the stored multiplicity ---- *)
Record UMWInv m : Prop := { umw_inv : WInvU (mg m); umw_keys : KeysOK (mg m); umw_tot : mtot m = uwtotal (labels (mg m)) (adj (mg m)) }.

Theorem UTInv_UMWInv m : UTInv m -> UMWInv m.
Proof. intros [I K T]. constructor; [apply InvU_WInvU; exact I|exact K|]. rewrite T. apply msum_uwtotal; auto. Qed.
Theorem UMWInv_UTInv m : UMWInv m -> (forall i, NoDup (nb (mg m) i)) -> UTInv m.
Proof. intros [I K T] ND. pose proof (WInvU_InvU true (mg m) I ND) as I'. constructor; auto. rewrite T. symmetry. apply msum_uwtotal; auto. Qed.

(* a forced insertion that repeats the multiplicity already stored for the pair (or inserts an absent pair) keeps it *)
Theorem um_forced_add_keeps m a b k : UMWInv m -> (a < size (mg m))%nat -> (b < size (mg m))%nat -> k <> 0 ->
  (In b (nb (mg m) a) -> lget (ordered a b) (labels (mg m)) = k) ->
  exists m', um_add_multiedge V m a b k true = (m', Done) /\ UMWInv m' /\ mtot m' = mtot m + k /\ enum (mg m') = enum (mg m) + 1.
Proof.
  intros [I K T] Ha Hb Hk SAME.
  destruct (um_forced_add_spec m a b k I Ha Hb Hk) as [m' [E [AE [I' [S' [T' [N' _]]]]]]].
  exists m'. split; auto. split; [|split; auto].
  destruct (u_forced_uwtotal (mg m) a b k I Ha Hb SAME (mg m') AE) as [_ W].
  constructor; auto.
  - pose proof (EqualityMore.keys_u_add_edge true V (mg m) a b k true K) as KA. rewrite AE in KA. exact KA.
  - rewrite T', T, W. reflexivity.
Qed.

(* removeAllEdges (setEdgeMultiplicity(i,j,0), removeSelfLoops) keeps it: all copies leave, the total drops by copies * stored multiplicity *)
Theorem um_remove_all_keeps m a b : UMWInv m -> (a < size (mg m))%nat -> (b < size (mg m))%nat ->
  exists m', um_remove_all m a b = (m', Done) /\ u_remove_edge (mg m) a b = (mg m', Done) /\ UMWInv m' /\
    enum (mg m') = enum (mg m) - Z.of_nat (count b (nb (mg m) a)) /\
    mtot m' = mtot m - lget (ordered a b) (labels (mg m)) * Z.of_nat (count b (nb (mg m) a)) /\
    (forall i j, count j (nb (mg m') i) = if hit a b i j then 0%nat else count j (nb (mg m) i)).
Proof.
  intros [I K T] Ha Hb.
  destruct (u_remove_edge_weak true (mg m) a b I Ha Hb) as [g' [E [I' [S' [N' [NB [C' LB]]]]]]].
  destruct (u_remove_uwtotal (mg m) a b I Ha Hb g' E) as [_ W].
  pose proof (EqualityMore.keys_u_remove_edge (mg m) a b K) as KR. rewrite E in KR. cbn [fst] in KR.
  pose proof (length_remove_all b (nb (mg m) a)) as LEN. pose proof E as E0.
  unfold um_remove_all. rewrite (in2_true m a b Ha Hb).
  unfold u_remove_edge, in_range in E.
  rewrite (proj2 (Nat.ltb_lt _ _) Ha), (proj2 (Nat.ltb_lt _ _) Hb) in E. cbn [andb] in E.
  rewrite (wu_len _ _ I), (proj2 (Nat.ltb_lt _ _) Ha), (proj2 (Nat.ltb_lt _ _) Hb) in E |- *. cbn [andb] in E |- *.
  change (nbl (mg m) a) with (nb (mg m) a). change (nth a (adj (mg m)) []) with (nb (mg m) a) in E.
  set (diff := Z.of_nat (length (nb (mg m) a)) - Z.of_nat (length (remove_all b (nb (mg m) a)))) in *.
  assert (TOT : mtot m - lget (ordered a b) (labels (mg m)) * diff = mtot m - lget (ordered a b) (labels (mg m)) * Z.of_nat (count b (nb (mg m) a))).
  { f_equal. f_equal. unfold diff. lia. }
  destruct (Z.ltb_spec 0 diff) as [POS|ZERO]; injection E as E.
  - exists (mk g' (mtot m - lget (ordered a b) (labels (mg m)) * diff)). split; [rewrite <- E; reflexivity|]. cbn [mg mk mtot].
    split; [exact E0|]. split; [|split; [exact N'|split; [exact TOT|exact C']]].
    constructor; cbn [mg mk mtot]; auto. rewrite W, TOT, T. reflexivity.
  - assert (Z0 : count b (nb (mg m) a) = 0%nat) by (unfold diff in ZERO; lia).
    exists (mk g' (mtot m)). split; [rewrite <- E; reflexivity|]. cbn [mg mk mtot].
    split; [exact E0|]. split; [|split; [exact N'|split; [rewrite Z0; lia|exact C']]].
    constructor; cbn [mg mk mtot]; auto. rewrite W, T, Z0. lia.
Qed.

(* removeDuplicateEdges then restores the full multigraph invariant: one entry per connected pair in each list,
   totalEdgeNumber = sum of the stored multiplicities *)
Theorem um_remove_duplicates_restores m : UMWInv m ->
  exists m', um_remove_duplicates m = (m', Done) /\ UTInv m' /\ size (mg m') = size (mg m) /\ labels (mg m') = labels (mg m) /\
    (forall i j, In j (nb (mg m') i) <-> In j (nb (mg m) i)) /\
    mtot m' = msum (labels (mg m)).
Proof.
  intros [I K T]. destruct (um_remove_duplicates_spec m I) as [m' [E [RD [I' [L' [NB' [_ T']]]]]]].
  destruct (u_remove_duplicates_spec true (mg m) I) as [g' [E' [_ [S' [_ [_ [M' _]]]]]]]. rewrite RD in E'. injection E' as <-.
  assert (K' : KeysOK (mg m')) by (unfold KeysOK; rewrite L'; exact K).
  assert (TT : mtot m' = msum (labels (mg m'))).
  { rewrite T', T, (msum_uwtotal (mg m') I' K'), L'. lia. }
  exists m'. split; auto. split; [constructor; auto|]. split; auto. split; auto. split; auto. rewrite TT, L'. reflexivity.
Qed.
End UMWeak.

(* non-vacuity: three forced copies of {0,1} with multiplicity 3 (given in both orders), two of the loop at 1 with multiplicity 2:
   total 13 = 3*3 + 2*2 as UMWInv says; removeDuplicateEdges leaves 3 + 2; removeAllEdges(1,0) instead takes away 3 * 3 *)
Example um_forced_inv_example :
  let m0 := dm_init 2 in
  let '(m1, _) := um_add_multiedge repaired m0 0 1 3 true in
  let '(m2, _) := um_add_multiedge repaired m1 1 0 3 true in
  let '(m3, _) := um_add_multiedge repaired m2 0 1 3 true in
  let '(m4, _) := um_add_multiedge repaired m3 1 1 2 true in
  let '(m5, _) := um_add_multiedge repaired m4 1 1 2 true in
  let '(m6, _) := um_remove_duplicates m5 in
  let '(m7, _) := um_remove_all m5 1 0 in
  mtot m5 = 13 /\ enum (mg m5) = 5 /\ uwtotal (labels (mg m5)) (adj (mg m5)) = 13 /\
  mtot m6 = 5 /\ enum (mg m6) = 2 /\ msum (labels (mg m6)) = 5 /\
  mtot m7 = 4 /\ enum (mg m7) = 2 /\ adj (mg m7) = [[]; [1; 1]]%nat.
Proof. vm_compute. repeat split; reflexivity. Qed.
