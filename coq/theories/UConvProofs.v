(* C09 (undirected <-> directed conversions): getDirectedGraph, the LabeledUndirectedGraph(const Directed&) constructor, and their round trip. *)
From BG Require Import Base DirectedModel DirectedProofs DirectedIter DirectedUsers DirectedSpec DirectedRefine DirectedObs Equality ConvProofs
  UndirectedModel UndirectedProofs UndirectedIter UndirectedRefine UndirectedObs UFoldProofs.
Local Open Scope Z_scope.
Local Arguments Z.of_nat : simpl never.

Section UConv.
Context {L : Type}.
Variable ldef : L.
Variable has_store : bool.
Notation dgraph := (@dgraph L).
Implicit Types g h : dgraph.
Notation Inv := (Inv has_store).
Notation InvU := (InvU has_store).
Notation V := repaired.
Notation ledge := (nat * nat * L)%type.
Notation add_all := (@ConvProofs.add_all L has_store).
Notation u_add_all := (@UFoldProofs.u_add_all L has_store).
Notation ulab_of := (@UFoldProofs.ulab_of L ldef).

(* ================= getDirectedGraph ================= *)
(* a forced insertion of an edge that is not there is the ordinary insertion *)
Lemma forced_as_unforced h s d l : Inv h -> (s < size h)%nat -> (d < size h)%nat -> ~ In d (nb h s) ->
  add_edge has_store V h s d l true = add_edge has_store V h s d l false.
Proof.
  intros I Hs Hd N. unfold add_edge. cbn [v_force_checks repaired].
  rewrite (proj2 (in_range_true h s) Hs), (proj2 (in_range_true h d) Hd). cbn [andb].
  rewrite (has_edge_val has_store h s d I Hs Hd), (proj2 (mem_false _ _) N). reflexivity.
Qed.
Lemma add_all_cons x es h :
  add_all (x :: es) (Val h) = add_all es (DirectedModel.lift (add_edge has_store V h (fst (fst x)) (snd (fst x)) (snd x) false)).
Proof. reflexivity. Qed.
Lemma add_all_app' es1 es2 o : add_all (es1 ++ es2) o = add_all es2 (add_all es1 o).
Proof. unfold ConvProofs.add_all. apply fold_left_app. Qed.
Lemma first_label_In i j (es : list ledge) l : first_label i j es = Some l -> In (i, j, l) es.
Proof. induction es as [|[[a b] l'] t IH]; cbn [first_label]; [discriminate|].
  destruct (Nat.eqb_spec a i) as [->|]; cbn [andb]; [destruct (Nat.eqb_spec b j) as [->|]|]; try (intros X; right; apply IH; exact X).
  intros X; injection X as ->. left; reflexivity. Qed.
Lemma first_label_const i j (es : list ledge) l : (forall l', In (i, j, l') es -> l' = l) -> (exists l', In (i, j, l') es) -> first_label i j es = Some l.
Proof. intros C EX. destruct (first_label i j es) as [v|] eqn:F.
  - f_equal. apply C. apply first_label_In; auto.
  - exfalso. apply (proj1 (first_label_some i j es)) in EX. congruence. Qed.

(* what the loop of getDirectedGraph inserts for one entry (i <= j) of edges(): both orientations, a loop once, with the label of {i,j} *)
Definition dir_pair g (e : edge) : list ledge :=
  let l := ulab_of g (fst e) (snd e) in
  if Nat.ltb (fst e) (snd e) then [(fst e, snd e, l); (snd e, fst e, l)] else if Nat.eqb (fst e) (snd e) then [(fst e, snd e, l)] else [].
Definition dir_edges g (es : list edge) : list ledge := flat_map (dir_pair g) es.
Lemma In_dir_edges g es a b l : In (a, b, l) (dir_edges g es) -> l = ulab_of g a b /\ (In (a, b) es \/ In (b, a) es).
Proof.
  unfold dir_edges. rewrite in_flat_map. intros [[i j] [He H]]. unfold dir_pair in H. cbn [fst snd] in H.
  destruct (Nat.ltb i j); [|destruct (Nat.eqb i j)]; cbn [In] in H.
  - destruct H as [H|[H|[]]]; injection H as <- <- <-; [auto|]. split; [apply ulab_of_sym|auto].
  - destruct H as [H|[]]. injection H as <- <- <-. auto.
  - destruct H.
Qed.
Lemma dir_edges_In g es i j : In (i, j) es -> (i <= j)%nat ->
  In (i, j, ulab_of g i j) (dir_edges g es) /\ In (j, i, ulab_of g i j) (dir_edges g es).
Proof.
  intros He Hle. unfold dir_edges. rewrite !in_flat_map. unfold dir_pair.
  split; exists (i, j); (split; [exact He|]); cbn [fst snd]; destruct (Nat.ltb_spec i j); cbn [In]; auto;
    assert (i = j) by lia; subst j; rewrite Nat.eqb_refl; cbn [In]; auto.
Qed.

(* the loop of getDirectedGraph (labels kept) over a duplicate-free list of entries i <= j, none of which is in h yet (in either orientation),
   is the plain fold of unforced insertions *)
Lemma to_directed_as_add_all g : InvU g -> forall (es : list edge) h, Inv h -> size h = size g -> NoDup es ->
  (forall i j, In (i, j) es -> (i <= j)%nat /\ In j (nb g i)) ->
  (forall i j, In (i, j) es -> ~ In j (nb h i) /\ ~ In i (nb h j)) ->
  fold_left (fun acc e => obind acc (fun h =>
      let '(i, j) := e in
      if Nat.ltb i j then
        obind (if true then u_get_label ldef has_store g i j true else Val ldef) (fun l => UndirectedModel.lift (add_reciprocal has_store V h i j l true))
      else if Nat.eqb i j then obind (u_get_label ldef has_store g i j true) (fun l => UndirectedModel.lift (add_edge has_store V h i j l true))
      else Val h)) es (Val h)
  = add_all (dir_edges g es) (Val h).
Proof.
  intros IG. induction es as [|[i j] t IH]; intros h I Sz ND UP AB; [reflexivity|].
  cbn [fold_left dir_edges flat_map]. fold (dir_edges g t). rewrite add_all_app'. cbn [obind].
  destruct (UP i j (or_introl eq_refl)) as [Hle Hin]. destruct (u_rng _ _ IG _ _ Hin) as [Hi Hj]. rewrite <- Sz in Hi, Hj.
  destruct (AB i j (or_introl eq_refl)) as [N1 N2].
  inversion ND as [|x y NI ND' EQ]; subst x y.
  rewrite (u_get_label_val ldef has_store g i j IG Hin). cbn [obind]. unfold dir_pair. cbn [fst snd].
  set (l := ulab_of g i j).
  destruct (Nat.ltb_spec i j) as [Lt|Ge].
  - (* i < j: two insertions *)
    unfold add_reciprocal. rewrite (forced_as_unforced h i j l I Hi Hj N1). rewrite add_all_cons. cbn [fst snd].
    pose proof (add_edge_spec has_store h i j l I Hi Hj) as AS.
    destruct (add_edge has_store V h i j l false) as [h1 r1]. destruct AS as [-> [I1 [S1 [E1 _]]]]. cbn [DirectedModel.lift].
    assert (N2' : ~ In i (nb h1 j)) by (rewrite E1; intros [X|[X Y]]; [auto|lia]).
    assert (Hi1 : (i < size h1)%nat) by lia. assert (Hj1 : (j < size h1)%nat) by lia.
    rewrite (forced_as_unforced h1 j i l I1 Hj1 Hi1 N2'). rewrite add_all_cons. cbn [fst snd].
    pose proof (add_edge_spec has_store h1 j i l I1 Hj1 Hi1) as AS.
    destruct (add_edge has_store V h1 j i l false) as [h2 r2]. destruct AS as [-> [I2 [S2 [E2 _]]]]. cbn [DirectedModel.lift UndirectedModel.lift].
    change (add_all [] (Val h2)) with (Val h2).
    apply IH; auto; [lia|intros a b H; apply UP; right; exact H|].
    intros a b H. destruct (UP a b (or_intror H)) as [Hab _]. destruct (AB a b (or_intror H)) as [M1 M2].
    rewrite !E2, !E1. split.
    + intros [[X|[X Y]]|[X Y]]; [auto|subst; auto|lia].
    + intros [[X|[X Y]]|[X Y]]; [auto|lia|subst; auto].
  - (* i = j: one insertion *)
    assert (i = j) by lia. subst j. rewrite Nat.eqb_refl.
    rewrite (forced_as_unforced h i i l I Hi Hi N1). rewrite add_all_cons. cbn [fst snd].
    pose proof (add_edge_spec has_store h i i l I Hi Hi) as AS.
    destruct (add_edge has_store V h i i l false) as [h1 r1]. destruct AS as [-> [I1 [S1 [E1 _]]]]. cbn [DirectedModel.lift UndirectedModel.lift].
    change (add_all [] (Val h1)) with (Val h1).
    apply IH; auto; [lia|intros a b H; apply UP; right; exact H|].
    intros a b H. destruct (AB a b (or_intror H)) as [M1 M2]. rewrite !E1. split; intros [X|[X Y]]; auto; subst; auto.
Qed.

(* getDirectedGraph (keeping labels): same vertices, both orientations of every edge, each carrying the label of the undirected edge *)
Theorem to_directed_spec g : InvU g ->
  exists d, to_directed ldef has_store V true g = Val d /\ Inv d /\ KeysOK d /\ size d = size g /\
    (forall i j, In j (nb d i) <-> In j (nb g i)) /\
    (has_store = true -> forall i j, lfind (i, j) (labels d) = if mem j (nb g i) then lfind (ordered i j) (labels g) else None) /\
    (forall i j, In j (nb g i) -> get_label ldef has_store d i j true = u_get_label ldef has_store g i j true).
Proof.
  intros IG. unfold to_directed. rewrite (u_iterate_flatten has_store g IG). cbn [obind].
  destruct (init_inv (L := L) has_store (size g)) as [I0 K0].
  assert (UP : forall i j, In (i, j) (filter up (flatten g)) -> (i <= j)%nat /\ In j (nb g i)) by (intros i j; apply (In_filter_up_flatten' has_store g i j IG)).
  rewrite (to_directed_as_add_all g IG (filter up (flatten g)) (init (size g)) I0 eq_refl); auto.
  2:{ apply NoDup_filter, (NoDup_flatten_u has_store g IG). }
  2:{ intros i j _. rewrite !nb_init. auto. }
  set (es := filter up (flatten g)) in *.
  destruct (add_all_spec has_store (dir_edges g es) (init (size g)) I0 K0) as [d [F [I' [K' [S' [E' L']]]]]].
  { intros [[a b] l] He. apply In_dir_edges in He as [_ He]. cbn [fst snd init size].
    destruct He as [He|He]; apply UP in He as [_ He]; apply (u_rng _ _ IG) in He; tauto. }
  assert (EDGES : forall i j, In j (nb d i) <-> In j (nb g i)).
  { intros i j. rewrite E', nb_init. split.
    - intros [[]|[l H]]. apply In_dir_edges in H as [_ [H|H]]; apply UP in H as [_ H]; [auto|apply (u_sym _ _ IG); auto].
    - intros H. right. destruct (Nat.le_gt_cases i j) as [Le|Gt].
      + exists (ulab_of g i j). apply dir_edges_In; auto. apply (In_filter_up_flatten' has_store g i j IG); auto.
      + exists (ulab_of g j i). apply dir_edges_In; [|lia]. apply (In_filter_up_flatten' has_store g j i IG). split; [lia|apply (u_sym _ _ IG); auto]. }
  assert (LABS : has_store = true -> forall i j, lfind (i, j) (labels d) = if mem j (nb g i) then lfind (ordered i j) (labels g) else None).
  { intros HS i j. rewrite (L' HS). cbn [init labels lfind]. destruct (mem j (nb g i)) eqn:M.
    - apply mem_In in M. pose proof (u_label_present has_store g i j IG HS M) as P.
      destruct (lfind (ordered i j) (labels g)) as [v|] eqn:FF; [|congruence].
      assert (LV : ulab_of g i j = v) by (unfold UFoldProofs.ulab_of; rewrite FF; reflexivity).
      apply first_label_const.
      + intros l' H. apply In_dir_edges in H as [-> _]. exact LV.
      + destruct (proj1 (E' i j) (proj2 (EDGES i j) M)) as [X|X]; [rewrite nb_init in X; destruct X|exact X].
    - apply mem_false in M. destruct (first_label i j (dir_edges g es)) as [v|] eqn:FF; [|reflexivity].
      exfalso. apply M, EDGES, E'. right. exists v. apply first_label_In; auto. }
  cbn [init size] in S'.
  exists d. split; [exact F|]. split; auto. split; auto. split; [exact S'|]. split; [exact EDGES|]. split; [exact LABS|].
  intros i j Hin. rewrite (u_get_label_val ldef has_store g i j IG Hin).
  destruct (u_rng _ _ IG _ _ Hin) as [Hi Hj]. unfold get_label, in_range. rewrite S', (proj2 (Nat.ltb_lt _ _) Hi), (proj2 (Nat.ltb_lt _ _) Hj). cbn [andb].
  unfold UFoldProofs.ulab_of. pose proof (u_label_present has_store g i j IG) as P. pose proof (u_lab _ _ IG) as LG. destruct has_store; [|rewrite LG; reflexivity].
  rewrite (LABS eq_refl i j), (proj2 (mem_In _ _) Hin). destruct (lfind (ordered i j) (labels g)); [reflexivity|]. exfalso. apply P; auto.
Qed.

(* ================= LabeledUndirectedGraph(const Directed&) ================= *)
Definition dlab_of d (i j : nat) : L := match lfind (i, j) (labels d) with Some l => l | None => ldef end.
Definition od_row d (i : nat) : list ledge := map (fun j => (i, j, dlab_of d i j)) (nb d i).
Definition od_edges d (vs : list nat) : list ledge := flat_map (od_row d) vs.
Lemma In_od_edges d vs a b l : In (a, b, l) (od_edges d vs) <-> In a vs /\ In b (nb d a) /\ l = dlab_of d a b.
Proof. unfold od_edges, od_row. rewrite in_flat_map. split.
  - intros [i [Hi H]]. apply in_map_iff in H as [j [E Hj]]. injection E as <- <- <-. auto.
  - intros [Ha [Hb ->]]. exists a. split; auto. apply in_map_iff. exists b. auto. Qed.
Lemma get_label_val d i j : Inv d -> In j (nb d i) -> get_label ldef has_store d i j true = Val (dlab_of d i j).
Proof.
  intros I Hin. destruct (i_rng _ _ I _ _ Hin) as [Hi Hj]. unfold get_label, dlab_of.
  rewrite (proj2 (in_range_true d i) Hi), (proj2 (in_range_true d j) Hj). cbn [andb].
  pose proof (i_lab _ _ I) as IL. destruct has_store; [|rewrite IL; reflexivity].
  destruct (lfind (i, j) (labels d)) eqn:FF; [reflexivity|]. exfalso. apply (proj2 (IL i j)) in Hin. congruence.
Qed.
Lemma od_inner d i : Inv d -> forall (l : list nat) o, (forall j, In j l -> In j (nb d i)) ->
  fold_left (fun acc2 j => obind acc2 (fun h2 => obind (get_label ldef has_store d i j true) (fun lb => UndirectedModel.lift (u_add_edge has_store V h2 i j lb false)))) l o
  = u_add_all (map (fun j => (i, j, dlab_of d i j)) l) o.
Proof.
  intros I. induction l as [|j t IH]; intros o R; cbn [fold_left map]; auto.
  rewrite IH by (intros; apply R; simpl; auto). rewrite u_add_all_cons. f_equal.
  destruct o as [h| |]; cbn [obind]; auto. cbn [fst snd]. rewrite (get_label_val d i j I (R j (or_introl eq_refl))). reflexivity.
Qed.
Lemma od_outer d : Inv d -> forall vs o, (forall i, In i vs -> (i < size d)%nat) ->
  fold_left (fun acc i => obind acc (fun h => obind (out_neighbours d i) (fun l =>
     fold_left (fun acc2 j => obind acc2 (fun h2 => obind (get_label ldef has_store d i j true) (fun lb => UndirectedModel.lift (u_add_edge has_store V h2 i j lb false)))) l (Val h)))) vs o
  = u_add_all (od_edges d vs) o.
Proof.
  intros I. induction vs as [|i t IH]; intros o R; cbn [fold_left od_edges flat_map]; auto.
  rewrite IH by (intros; apply R; simpl; auto). fold (od_edges d t). rewrite u_add_all_app. f_equal.
  pose proof (R i (or_introl eq_refl)) as Hi.
  destruct o as [h|e|k]; cbn [obind]; [|rewrite u_add_all_raise; auto|rewrite u_add_all_undef; auto].
  rewrite (out_nb d i (i_len _ _ I) Hi). cbn [obind]. rewrite (od_inner d i I (nb d i) (Val h)) by auto. reflexivity.
Qed.

(* which label wins: the entries for the unordered pair {i,j} (i <= j) in source-vertex order *)
Lemma ordered_le_eq i j : (i <= j)%nat -> ordered i j = (i, j).
Proof. intros H. exact (ordered_fst_snd (i, j) H). Qed.
Lemma ufirst_row d i j : (i <= j)%nat -> ufirst (i, j) (od_row d i) = if mem j (nb d i) then Some (dlab_of d i j) else None.
Proof.
  intros Le. rewrite <- (ordered_le_eq i j Le). destruct (mem j (nb d i)) eqn:M.
  - apply mem_In in M. apply ufirst_const.
    + intros a b l' H Eo. assert (H' : In (a, b, l') (od_edges d [i])) by (unfold od_edges; cbn [flat_map]; rewrite app_nil_r; exact H).
      apply In_od_edges in H' as [[<-|[]] [Hb ->]]. apply ordered_eq_iff in Eo as [[_ E2]|[E1 E2]]; subst; reflexivity.
    + exists i, j, (dlab_of d i j). split; [|reflexivity]. unfold od_row. apply in_map_iff. exists j. auto.
  - apply mem_false in M. apply ufirst_none. intros a b l' H Eo.
    assert (H' : In (a, b, l') (od_edges d [i])) by (unfold od_edges; cbn [flat_map]; rewrite app_nil_r; exact H).
    apply In_od_edges in H' as [[<-|[]] [Hb _]]. apply ordered_eq_iff in Eo as [[_ E2]|[E1 E2]]; subst; auto.
Qed.
Lemma ufirst_other_rows d i j vs : (i <= j)%nat -> ~ In i vs ->
  ufirst (i, j) (od_edges d vs) = if mem j vs && mem i (nb d j) then Some (dlab_of d j i) else None.
Proof.
  intros Le Ni. rewrite <- (ordered_le_eq i j Le). destruct (mem j vs && mem i (nb d j)) eqn:M.
  - apply andb_prop in M as [M1 M2]. apply mem_In in M1, M2. apply ufirst_const.
    + intros a b l' H Eo. apply In_od_edges in H as [Ha [Hb ->]]. apply ordered_eq_iff in Eo as [[E1 E2]|[E1 E2]]; subst; [contradiction|reflexivity].
    + exists j, i, (dlab_of d j i). split; [|apply ordered_sym]. apply In_od_edges. auto.
  - apply ufirst_none. intros a b l' H Eo. apply In_od_edges in H as [Ha [Hb _]].
    apply ordered_eq_iff in Eo as [[E1 E2]|[E1 E2]]; subst; [contradiction|].
    rewrite (proj2 (mem_In _ _) Ha), (proj2 (mem_In _ _) Hb) in M. discriminate.
Qed.
Lemma ufirst_od_edges d i j : Inv d -> (i <= j)%nat ->
  ufirst (i, j) (od_edges d (seq 0 (size d))) =
    if mem j (nb d i) then Some (dlab_of d i j) else if mem i (nb d j) then Some (dlab_of d j i) else None.
Proof.
  intros I Le. destruct (Nat.lt_ge_cases i (size d)) as [Hi|Hi].
  - replace (size d) with (i + S (size d - S i))%nat at 1 by lia. rewrite seq_app. cbn [seq plus].
    unfold od_edges. rewrite flat_map_app. cbn [flat_map]. rewrite !ufirst_app. fold (od_edges d (seq 0 i)) (od_edges d (seq (S i) (size d - S i))).
    rewrite (ufirst_other_rows d i j (seq 0 i) Le) by (rewrite in_seq; lia).
    assert (mem j (seq 0 i) = false) as -> by (apply mem_false; rewrite in_seq; lia). cbn [andb].
    rewrite (ufirst_row d i j Le). destruct (mem j (nb d i)) eqn:M1; [reflexivity|].
    rewrite (ufirst_other_rows d i j (seq (S i) (size d - S i)) Le) by (rewrite in_seq; lia).
    destruct (mem i (nb d j)) eqn:M2; [|rewrite andb_false_r; reflexivity].
    assert (mem j (seq (S i) (size d - S i)) = true) as ->; [|reflexivity].
    apply mem_In, in_seq. apply mem_In in M2. destruct (i_rng _ _ I _ _ M2) as [Hj _].
    assert (j <> i) by (intros ->; apply mem_false in M1; contradiction). lia.
  - rewrite (ufirst_other_rows d i j (seq 0 (size d)) Le) by (rewrite in_seq; lia).
    assert (mem j (nb d i) = false) as -> by (apply mem_false; intros X; apply (i_rng _ _ I) in X; lia).
    assert (mem i (nb d j) = false) as -> by (apply mem_false; intros X; apply (i_rng _ _ I) in X; lia).
    rewrite andb_false_r. reflexivity.
Qed.

(* the undirected graph built from a directed one: {i,j} is an edge iff (i,j) or (j,i) is; when both orientations exist the label is that of
   the orientation met first by the constructor's loop, i.e. the one whose SOURCE is the smaller vertex: for i <= j the label of (i,j) if it
   is an edge of d, otherwise the label of (j,i) *)
Theorem of_directed_spec d : Inv d ->
  exists u, of_directed ldef has_store V d = Val u /\ InvU u /\ KeysOK u /\ size u = size d /\
    (forall i j, In j (nb u i) <-> In j (nb d i) \/ In i (nb d j)) /\
    (has_store = true -> forall i j, (i <= j)%nat ->
       lfind (i, j) (labels u) = if mem j (nb d i) then lfind (i, j) (labels d) else if mem i (nb d j) then lfind (j, i) (labels d) else None) /\
    (forall i j, (i <= j)%nat -> (In j (nb d i) \/ In i (nb d j)) ->
       u_get_label ldef has_store u i j true = if mem j (nb d i) then get_label ldef has_store d i j true else get_label ldef has_store d j i true).
Proof.
  intros I. unfold of_directed. rewrite (od_outer d I (seq 0 (size d)) (Val (init (size d)))) by (intros i Hi; apply in_seq in Hi; lia).
  destruct (init_invU (L := L) has_store (size d)) as [I0 K0].
  destruct (u_add_all_spec has_store (od_edges d (seq 0 (size d))) (init (size d)) I0 K0) as [u [F [I' [K' [S' [E' L']]]]]].
  { intros [[a b] l] He. apply In_od_edges in He as [_ [He _]]. cbn [fst snd init size]. apply (i_rng _ _ I) in He. exact He. }
  cbn [init size] in S'.
  assert (EDGES : forall i j, In j (nb u i) <-> In j (nb d i) \/ In i (nb d j)).
  { intros i j. rewrite E', nb_init. split.
    - intros [[]|[l [H|H]]]; apply In_od_edges in H as [_ [H _]]; auto.
    - intros [H|H]; right; [exists (dlab_of d i j); left|exists (dlab_of d j i); right]; apply In_od_edges; repeat split; auto;
        apply in_seq; apply (i_rng _ _ I) in H; lia. }
  assert (DL : has_store = true -> forall a b, In b (nb d a) -> Some (dlab_of d a b) = lfind (a, b) (labels d)).
  { intros HS a b H. unfold dlab_of. pose proof (i_lab _ _ I) as IL. rewrite HS in IL. apply IL in H. destruct (lfind (a, b) (labels d)); congruence. }
  assert (LABS : has_store = true -> forall i j, (i <= j)%nat ->
       lfind (i, j) (labels u) = if mem j (nb d i) then lfind (i, j) (labels d) else if mem i (nb d j) then lfind (j, i) (labels d) else None).
  { intros HS i j Le. rewrite (L' HS). cbn [init labels lfind]. rewrite (ufirst_od_edges d i j I Le).
    destruct (mem j (nb d i)) eqn:M1; [apply DL; auto; apply mem_In; auto|].
    destruct (mem i (nb d j)) eqn:M2; [apply DL; auto; apply mem_In; auto|reflexivity]. }
  exists u. split; [exact F|]. split; auto. split; auto. split; [exact S'|]. split; [exact EDGES|]. split; [exact LABS|].
  intros i j Le H. assert (Hin : In j (nb u i)) by (apply EDGES; exact H).
  rewrite (u_get_label_val ldef has_store u i j I' Hin). unfold UFoldProofs.ulab_of. rewrite (ordered_le_eq i j Le).
  pose proof (u_lab _ _ I') as LU. pose proof (i_lab _ _ I) as LD.
  assert (G : forall a b, In b (nb d a) -> get_label ldef has_store d a b true = Val (dlab_of d a b)) by (intros a b; apply get_label_val; auto).
  destruct (mem j (nb d i)) eqn:M1.
  - apply mem_In in M1. rewrite (G i j M1). f_equal. unfold dlab_of. destruct has_store; [|rewrite LU, LD; reflexivity].
    rewrite (LABS eq_refl i j Le), (proj2 (mem_In _ _) M1). reflexivity.
  - destruct H as [H|H]; [apply mem_In in H; congruence|]. rewrite (G j i H). f_equal. unfold dlab_of. destruct has_store; [|rewrite LU, LD; reflexivity].
    rewrite (LABS eq_refl i j Le), M1, (proj2 (mem_In _ _) H). reflexivity.
Qed.

(* ================= round trip ================= *)
(* undirected -> directed -> undirected gives back the same vertices, edges and label store contents, hence a graph operator== finds equal *)
Theorem undirected_round_trip_same g : InvU g ->
  exists d u, to_directed ldef has_store V true g = Val d /\ of_directed ldef has_store V d = Val u /\
    InvU u /\ KeysOK u /\ size u = size g /\ (forall i j, In j (nb u i) <-> In j (nb g i)) /\ enum u = enum g /\
    (forall e, lfind e (labels u) = lfind e (labels g)).
Proof.
  intros IG. destruct (to_directed_spec g IG) as [d [F1 [Id [Kd [Sd [Ed [Ld _]]]]]]].
  destruct (of_directed_spec d Id) as [u [F2 [Iu [Ku [Su [Eu [Lu _]]]]]]].
  assert (EDGES : forall i j, In j (nb u i) <-> In j (nb g i)).
  { intros i j. rewrite Eu, !Ed. split; [intros [H|H]; auto; apply (u_sym _ _ IG); auto|auto]. }
  exists d, u. split; [exact F1|]. split; [exact F2|]. split; auto. split; auto. split; [congruence|]. split; [exact EDGES|]. split.
  - apply (u_same_edges_enum has_store u g Iu IG); [congruence|exact EDGES].
  - intros [i j]. pose proof (u_lab _ _ Iu) as LU. pose proof (u_lab _ _ IG) as LG. destruct has_store; [|rewrite LU, LG; reflexivity].
    destruct (Nat.le_gt_cases i j) as [Le|Gt].
    + rewrite (Lu eq_refl i j Le), !(Ld eq_refl), (ordered_le_eq i j Le).
      assert (M : mem j (nb d i) = mem j (nb g i)).
      { destruct (mem j (nb g i)) eqn:M; [apply mem_In, Ed, mem_In; auto|apply mem_false; rewrite Ed; apply mem_false; auto]. }
      rewrite M. destruct (mem j (nb g i)) eqn:M1; [reflexivity|].
      assert (M2 : mem i (nb d j) = false).
      { apply mem_false. rewrite Ed. intros X. apply (u_sym _ _ IG) in X. apply mem_false in M1. contradiction. }
      rewrite M2. symmetry. apply mem_false in M1.
      destruct (lfind (i, j) (labels g)) eqn:FF; [|reflexivity]. exfalso. apply M1. apply LG. congruence.
    + assert (A : forall (x : dgraph), (forall a b, lfind (a, b) (labels x) <> None <-> (a <= b)%nat /\ In b (nb x a)) -> lfind (i, j) (labels x) = None).
      { intros x Hx. destruct (lfind (i, j) (labels x)) eqn:FF; [|reflexivity]. exfalso.
        assert (X : lfind (i, j) (labels x) <> None) by congruence. apply Hx in X. lia. }
      rewrite (A u LU), (A g LG). reflexivity.
Qed.
End UConv.

Section URound.
Context {L : Type}.
Variable leqb : L -> L -> bool.
Variable ldef : L.
Variable has_store : bool.
Notation dgraph := (@dgraph L).
Implicit Types g h : dgraph.
Notation InvU := (InvU has_store).
Notation V := repaired.
Theorem undirected_round_trip g : (forall x, leqb x x = true) -> InvU g -> KeysOK g ->
  exists d u, to_directed ldef has_store V true g = Val d /\ of_directed ldef has_store V d = Val u /\ graph_eqb leqb u g = Val true.
Proof.
  intros RF IG KG. destruct (undirected_round_trip_same ldef has_store g IG) as [d [u [F1 [F2 [Iu [Ku [Su [Eu [_ Lu]]]]]]]]].
  exists d, u. split; [exact F1|]. split; [exact F2|].
  destruct (u_graph_eqb_spec leqb has_store u g Iu IG Ku KG) as [b [EB HB]]. rewrite EB. f_equal. apply HB.
  split; [exact Su|]. split; [exact Eu|]. intros e v v' X1 X2. rewrite Lu, X2 in X1. injection X1 as <-. apply RF.
Qed.
End URound.

(* closed instances: the label of {0,1} comes from (0,1) - the orientation with the smaller source - whichever was inserted first;
   {1,2} exists only as (2,1) and takes that label; the round trip of a small undirected graph *)
Example of_directed_example :
  let d := fst (run true repaired (init 3) [AddEdge 1 0 9 false; AddEdge 0 1 7 false; AddEdge 2 1 5 false; AddEdge 2 2 3 false]) in
  omap (fun u => (adj u, enum u, labels u)) (of_directed 0 true repaired d)
    = Val ([[1%nat]; [0%nat; 2%nat]; [1%nat; 2%nat]], 3, [((2%nat, 2%nat), 3); ((1%nat, 2%nat), 5); ((0%nat, 1%nat), 7)]).
Proof. vm_compute. reflexivity. Qed.
Example round_trip_example :
  let g := fst (urun true repaired (init 3) [UAdd 2 0 9 false; UAdd 1 1 4 false; UAdd 0 1 7 false]) in
  obind (to_directed 0 true repaired true g) (fun d => obind (of_directed 0 true repaired d) (fun u => graph_eqb Z.eqb u g)) = Val true.
Proof. vm_compute. reflexivity. Qed.
