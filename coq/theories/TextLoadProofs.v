(* C13 / C15 (text): what the text loaders return on ARBITRARY files.
   (A) a declarative description of a well-formed file (comment lines and edge lines, in any order) and the exact result of
       loadTextVertexLabeledEdgeList (load_text_names) on it: the name table is the sequence of distinct vertex tokens in order of first
       appearance, the graph has one vertex per name and one forced insertion per edge line, in file order;
   (B) the same for loadTextEdgeList (load_text) with decimal vertex tokens;
   (C) "invents nothing": on EVERY byte string, every edge of a loaded graph comes from a data line of the file whose first two tokens
       parse to its endpoints; and the edge counter is the number of data lines.
   (D) the converse of (A) and (B): the loaders return a graph EXACTLY on the well-formed files (tokeniser_complete,
       load_text_names_accepts_exactly, load_text_accepts_exactly); on every other byte string they throw.
   Deviations of the model from the informal format, each with a closed example in section 9: a blank line, a line of blanks and a line
   with one token are NOT skipped - std::string::substr throws std::out_of_range and the load fails; '#' starts a comment only in column 0
   (after blanks "#x" is a vertex name); blanks are everything std::isspace accepts (' ', '\t', '\r', '\f', '\v'), not only spaces and tabs;
   a repeated pair is inserted again (force = true) and the label written last stays; std::stoi reads a digit prefix ("2x" is 2);
   indices above 3000 (more than 3001 names) are refused by the model ("small enough to allocate"), not by the format. *)
From Coq Require Import List Arith NArith ZArith Lia Bool.
From BG Require Import Base DirectedModel DirectedProofs UndirectedModel IOModel TextProofs RoundTrip URoundTrip TextRoundTrip.
Import ListNotations.
Local Open Scope nat_scope.
Local Arguments Z.of_nat : simpl never.

(* ================= 0. lines ================= *)
Lemma no_ws_no_nl l : no_ws l -> no_nl l.
Proof. induction 1 as [|c t Hc Ht IH]; constructor; auto. unfold is_ws in Hc. destruct (N.eqb_spec c 10) as [->|]; [discriminate|reflexivity]. Qed.
Lemma no_nl_app a b : no_nl a -> no_nl b -> no_nl (a ++ b).
Proof. intros; apply Forall_app; split; auto. Qed.
(* getline on a last line without '\n' *)
Lemma lines_of_last l : no_nl l -> forall cur, lines_of l cur = match rev cur ++ l with [] => [] | _ => [rev cur ++ l] end.
Proof. induction 1 as [|c t Hc Ht IH]; intros cur; cbn [lines_of].
  - rewrite app_nil_r. destruct cur as [|x cur']; cbn [rev]; [reflexivity|]. destruct (rev cur' ++ [x]) eqn:E; [destruct (rev cur'); discriminate|reflexivity].
  - rewrite Hc, IH. cbn [rev]. rewrite <- app_assoc. reflexivity. Qed.
Lemma lines_of_lines_then (ls : list bytes) tail : Forall no_nl ls -> lines_of (concat (map (fun l => l ++ [10%N]) ls) ++ tail) [] = ls ++ lines_of tail [].
Proof. induction 1 as [|l t Hl Ht IH]; cbn [map concat app]; [reflexivity|]. rewrite <- !app_assoc. cbn [app]. rewrite lines_of_line by auto.
  cbn [rev app]. rewrite IH. reflexivity. Qed.

(* ================= 1. the format ================= *)
Inductive item := Comment (text : bytes) | EdgeLine (w0 t1 w1 t2 w2 rest : bytes).
Definition item_line (it : item) : bytes :=
  match it with Comment t => 35%N :: t | EdgeLine w0 t1 w1 t2 w2 rest => w0 ++ t1 ++ w1 ++ t2 ++ w2 ++ rest end.
Definition render (its : list item) : bytes := concat (map (fun it => item_line it ++ [10%N]) its).
(* a run of blanks inside a line: spaces and tabs (and '\r', '\f', '\v': everything std::isspace accepts, except the line terminator) *)
Definition blanks (w : bytes) : Prop := all_ws w /\ no_nl w.
Definition is_comment (line : bytes) : bool := match line with c :: _ => (c =? 35)%N | [] => false end.
Definition edge_line_ok (w0 t1 w1 t2 w2 rest : bytes) : Prop :=
  blanks w0 /\ no_ws t1 /\ t1 <> [] /\ (w0 = [] -> is_comment t1 = false) /\ blanks w1 /\ w1 <> [] /\ no_ws t2 /\ t2 <> [] /\ blanks w2 /\ no_nl rest /\
  match rest with [] => True | c :: _ => is_ws c = false /\ w2 <> [] end.
Lemma spaces_tabs_blanks w : Forall (fun c => c = 32%N \/ c = 9%N) w -> blanks w.
Proof. intros H. split; (eapply Forall_impl; [|exact H]); intros c [->| ->]; reflexivity. Qed.

Lemma edge_line_no_nl w0 t1 w1 t2 w2 rest : edge_line_ok w0 t1 w1 t2 w2 rest -> no_nl (w0 ++ t1 ++ w1 ++ t2 ++ w2 ++ rest).
Proof. intros [[_ A] [B [_ [_ [[_ C] [_ [D [_ [[_ E] [F _]]]]]]]]]]. repeat apply no_nl_app; auto using no_ws_no_nl. Qed.
Lemma edge_line_not_comment w0 t1 w1 t2 w2 rest : edge_line_ok w0 t1 w1 t2 w2 rest -> is_comment (w0 ++ t1 ++ w1 ++ t2 ++ w2 ++ rest) = false.
Proof. intros [[A _] [B [N1 [HC _]]]]. destruct w0 as [|c w0'].
  - specialize (HC eq_refl). destruct t1 as [|c t1']; [congruence|]. exact HC.
  - cbn [app is_comment]. inversion A; subst. unfold is_ws in H1. destruct (N.eqb_spec c 35) as [->|]; [discriminate|reflexivity]. Qed.
Lemma edge_line_tokens w0 t1 w1 t2 w2 rest : edge_line_ok w0 t1 w1 t2 w2 rest ->
  find_edge_from_string (w0 ++ t1 ++ w1 ++ t2 ++ w2 ++ rest) = Val (t1, t2, rest).
Proof. intros [[A _] [B [N1 [_ [[C _] [N2 [D [N3 [[E _] [_ R]]]]]]]]]]. destruct rest as [|c r].
  - rewrite app_nil_r. apply tokeniser_two_tokens; auto.
  - destruct R as [R1 R2]. apply tokeniser_three_tokens; auto. Qed.

(* ================= 2. the graph denoted by a list of labelled insertions ================= *)
Section Spec.
Context {L : Type}.
Variable und : bool.
Variable hs : bool.
Notation dgraph := (@dgraph L).
Definition ledge := (nat * nat * L)%type.
(* what the insertion of e = (i, j) appends to the neighbour list of k: directed, j when k = i; undirected, j when k = i and i when k = j
   (once for a self-loop) *)
Definition contrib (k : nat) (e : edge) : list nat := if und then ucontrib k e else if Nat.eqb k (fst e) then [snd e] else [].
Definition nbs (k : nat) (es : list ledge) : list nat := flat_map (fun e => contrib k (fst e)) es.
Definition key (e : edge) : edge := if und then ordered (fst e) (snd e) else e.
(* the label store: every insertion (re)binds its key, so the LAST label written for a pair is the one that stays *)
Definition labs (es : list ledge) : @lmap L := fold_left (fun m e => set_label hs (key (fst e)) (snd e) m) es [].
Definition graph_of (n : nat) (es : list ledge) : dgraph :=
  {| adj := map (fun k => nbs k es) (seq 0 n); size := n; enum := Z.of_nat (length es); labels := labs es |}.
Lemma nbs_app k a b : nbs k (a ++ b) = nbs k a ++ nbs k b.
Proof. apply flat_map_app. Qed.
Lemma labs_app a e : labs (a ++ [e]) = set_label hs (key (fst e)) (snd e) (labs a).
Proof. unfold labs. rewrite fold_left_app. reflexivity. Qed.

Record Is (n : nat) (es : list ledge) (h : dgraph) : Prop := {
  is_len : length (adj h) = n; is_size : size h = n; is_nb : forall k, nb h k = nbs k es;
  is_enum : enum h = Z.of_nat (length es); is_labels : labels h = labs es }.
Lemma is_init : Is 0 [] (init 0).
Proof. constructor; auto. intros [|k]; reflexivity. Qed.
Lemma is_graph_of n es h : Is n es h -> h = graph_of n es.
Proof. intros [A B C D E]. destruct h as [a s e l]. cbn [adj size enum labels] in *. unfold graph_of. subst s. rewrite D, E. f_equal.
  apply (nth_ext _ _ [] []); [rewrite map_length, seq_length; auto|]. intros k Hk. specialize (C k). unfold nb in C; cbn [adj] in C. rewrite C.
  rewrite A in Hk. rewrite nth_map_seq by auto. reflexivity. Qed.

Variable V : variant.
(* the forced insertion after the resize *)
Lemma t_add_spec (h : dgraph) i j l : length (adj h) = size h -> i < size h -> j < size h ->
  exists h3, t_add V und hs h i j l = Val h3 /\ length (adj h3) = size h3 /\ size h3 = size h /\
    (forall k, nb h3 k = nb h k ++ contrib k (i, j)) /\ enum h3 = (enum h + 1)%Z /\ labels h3 = set_label hs (key (i, j)) l (labels h).
Proof.
  intros E Hi Hj. unfold t_add, contrib, key. destruct und.
  - destruct (u_add_forced_spec hs h i j l E Hi Hj) as [h3 [A R]]. exists h3. split; [|exact R].
    unfold u_add_edge in *. cbn [v_force_checks repaired] in A. unfold in_range in *.
    rewrite (proj2 (Nat.ltb_lt _ _) Hi), (proj2 (Nat.ltb_lt _ _) Hj) in *. cbn [andb] in *. destruct (v_force_checks V); rewrite A; reflexivity.
  - destruct (add_forced_spec hs h i j l E Hi Hj) as [h3 [A [R1 [R2 [R3 R4]]]]]. exists h3. split; [|split; [exact R1|split; [exact R2|split; [|exact R4]]]].
    + unfold add_edge in *. cbn [v_force_checks repaired] in A. unfold in_range in *.
      rewrite (proj2 (Nat.ltb_lt _ _) Hi), (proj2 (Nat.ltb_lt _ _) Hj) in *. cbn [andb] in *. destruct (v_force_checks V); rewrite A; reflexivity.
    + intros k. rewrite R3. cbn [fst snd]. destruct (Nat.eqb_spec k i) as [->|]; [reflexivity|rewrite app_nil_r; reflexivity].
Qed.
Lemma is_step n es h i j h2 l : Is n es h -> Grown h i j h2 ->
  exists h3, t_add V und hs h2 i j l = Val h3 /\ Is (Nat.max n (S (Nat.max i j))) (es ++ [(i, j, l)]) h3.
Proof.
  intros [A B C D E] [E2 [S2 [N2 [M2 L2]]]].
  destruct (t_add_spec h2 i j l E2) as [h3 [T [E3 [S3 [N3 [M3 L3]]]]]]; [lia|lia|].
  exists h3. split; auto. constructor.
  - rewrite E3, S3, S2, B. reflexivity.
  - rewrite S3, S2, B. reflexivity.
  - intros k. rewrite N3, N2, C, nbs_app. cbn [nbs flat_map fst]. rewrite app_nil_r. reflexivity.
  - rewrite M3, M2, D, app_length. cbn [length]. lia.
  - rewrite L3, L2, E, labs_app. reflexivity.
Qed.
End Spec.

(* ================= 3. one step of the loader, any token numbering ================= *)
Section Step.
Context {L : Type}.
Variable V : variant.
Variable und : bool.
Variable hs : bool.
Variable label_of_text : bytes -> outcome L.
Notation dgraph := (@dgraph L).
Context {M : Type}.
Variable vmap : M -> bytes -> outcome (M * nat).
Notation step := (text_step V und hs label_of_text vmap).
(* the name vector after a data line *)
Definition names_after (sz : nat) (names : list bytes) i t1 j t2 : list bytes :=
  set_name j t2 (set_name i t1 (if Nat.leb sz (Nat.max i j) then names ++ repeat [] (S (Nat.max i j) - length names) else names)).

Lemma step_comment st line : is_comment line = true -> step st line = Val st.
Proof. intros H. destruct st as [[m h] names]. unfold text_step. fold (is_comment line). rewrite H. reflexivity. Qed.
Lemma grow_names (h : dgraph) (names : list bytes) i j : length (adj h) = size h -> Nat.max i j <= 3000 ->
  exists h2, Grown h i j h2 /\
   (if Nat.leb (size h) (Nat.max i j) then
      (if Nat.ltb 3000 (Nat.max i j) then Raise RuntimeError
       else omap (fun h1 => (h1, names ++ repeat [] (S (Nat.max i j) - length names))) (DirectedModel.lift (resize h (S (Nat.max i j)))))
    else Val (h, names)) = Val (h2, if Nat.leb (size h) (Nat.max i j) then names ++ repeat [] (S (Nat.max i j) - length names) else names).
Proof.
  intros E B. destruct (grow1_spec h i j E) as [h2 [G R]]. exists h2. split; auto.
  destruct (Nat.leb (size h) (Nat.max i j)); [|congruence].
  destruct (Nat.ltb_spec 3000 (Nat.max i j)); [lia|]. rewrite R. reflexivity.
Qed.
(* forward: a data line whose tokens are numbered and whose label text is accepted *)
Lemma step_data m (h : dgraph) (names : list bytes) line t1 t2 t3 m1 i m2 j l n es :
  is_comment line = false -> find_edge_from_string line = Val (t1, t2, t3) -> vmap m t1 = Val (m1, i) -> vmap m1 t2 = Val (m2, j) ->
  Nat.max i j <= 3000 -> label_of_text t3 = Val l -> Is und hs n es h ->
  exists h3, step (m, h, names) line = Val (m2, h3, names_after n names i t1 j t2) /\ Is und hs (Nat.max n (S (Nat.max i j))) (es ++ [(i, j, l)]) h3.
Proof.
  intros HC TK V1 V2 B LT I. unfold text_step. fold (is_comment line). rewrite HC, TK. cbn [obind]. rewrite V1. cbn [obind fst snd]. rewrite V2. cbn [obind fst snd].
  assert (E : length (adj h) = size h) by (rewrite (is_len _ _ _ _ _ I), (is_size _ _ _ _ _ I); reflexivity).
  destruct (grow_names h names i j E B) as [h2 [G R]]. rewrite R. cbn [obind fst snd]. rewrite LT. cbn [obind].
  destruct (is_step und hs V n es h i j h2 l I G) as [h3 [T I3]]. rewrite T. cbn [omap obind]. exists h3. split; auto.
  unfold names_after. rewrite (is_size _ _ _ _ _ I). reflexivity.
Qed.
(* backward: whatever the line, a step that returns a value either skipped a comment or did exactly this *)
Lemma step_inv m (h : dgraph) (names : list bytes) line st' : length (adj h) = size h -> step (m, h, names) line = Val st' ->
  (is_comment line = true /\ st' = (m, h, names)) \/
  (is_comment line = false /\ exists t1 t2 t3 m1 i m2 j l h2 h3,
     find_edge_from_string line = Val (t1, t2, t3) /\ vmap m t1 = Val (m1, i) /\ vmap m1 t2 = Val (m2, j) /\ label_of_text t3 = Val l /\
     Grown h i j h2 /\ t_add V und hs h2 i j l = Val h3 /\ (Nat.max i j <= 3000 \/ Nat.max i j < size h) /\
     st' = (m2, h3, names_after (size h) names i t1 j t2)).
Proof.
  intros E. unfold text_step. fold (is_comment line). destruct (is_comment line) eqn:HC; [intros [= <-]; left; auto|]. intros H. right. split; auto.
  destruct (find_edge_from_string line) as [[[t1 t2] t3]| |]; cbn [obind] in H; try discriminate.
  destruct (vmap m t1) as [[m1 i]| |] eqn:V1; cbn [obind fst snd] in H; try discriminate.
  destruct (vmap m1 t2) as [[m2 j]| |] eqn:V2; cbn [obind fst snd] in H; try discriminate.
  assert (B : Nat.max i j <= 3000 \/ 3000 < Nat.max i j /\ size h > Nat.max i j) .
  { destruct (Nat.le_gt_cases (Nat.max i j) 3000); auto. right. split; auto. destruct (Nat.leb_spec (size h) (Nat.max i j)) as [Le|]; auto.
    exfalso. destruct (Nat.ltb_spec 3000 (Nat.max i j)); [|lia]. cbn [obind] in H. discriminate. }
  assert (G : exists h2, Grown h i j h2 /\
     (if Nat.leb (size h) (Nat.max i j) then
      (if Nat.ltb 3000 (Nat.max i j) then Raise RuntimeError
       else omap (fun h1 => (h1, names ++ repeat [] (S (Nat.max i j) - length names))) (DirectedModel.lift (resize h (S (Nat.max i j)))))
      else Val (h, names)) = Val (h2, if Nat.leb (size h) (Nat.max i j) then names ++ repeat [] (S (Nat.max i j) - length names) else names)).
  { destruct B as [B|[B1 B2]]; [apply grow_names; auto|]. exists h. destruct (Nat.leb_spec (size h) (Nat.max i j)); [lia|]. split; auto.
    apply grown_refl; auto; lia. }
  destruct G as [h2 [G R]]. rewrite R in H. cbn [obind fst snd] in H.
  destruct (label_of_text t3) as [l| |] eqn:LT; cbn [obind] in H; try discriminate.
  destruct (t_add V und hs h2 i j l) as [h3| |] eqn:T; cbn [omap obind] in H; try discriminate. injection H as <-.
  exists t1, t2, t3, m1, i, m2, j, l, h2, h3. repeat (split; auto). destruct B as [B|[_ B]]; auto.
Qed.

(* the loop *)
Definition lstep := fun (acc : outcome (M * dgraph * list bytes)) (line : bytes) => obind acc (fun st => step st line).
Lemma load_text_with_fold m0 b : load_text_with V und hs label_of_text vmap m0 b = omap (fun st => (snd (fst st), snd st)) (fold_left lstep (lines_of b []) (Val (m0, init 0, []))).
Proof. reflexivity. Qed.
Lemma lstep_stuck ls : forall o, (forall st, o <> Val st) -> forall st, fold_left lstep ls o <> Val st.
Proof. induction ls as [|l t IH]; intros o H; cbn [fold_left]; auto. apply IH. intros st. destruct o; cbn; try discriminate. exfalso; eapply H; reflexivity. Qed.
Lemma lstep_cons_inv l ls st st' : fold_left lstep (l :: ls) (Val st) = Val st' -> exists st1, step st l = Val st1 /\ fold_left lstep ls (Val st1) = Val st'.
Proof. cbn [fold_left lstep obind]. fold lstep. intros H. destruct (step st l) as [st1| |] eqn:S; [eauto| |]; exfalso; (eapply lstep_stuck; [|exact H]); discriminate. Qed.
End Step.

(* ================= 4. the name table of the VertexCountMapper ================= *)
Lemma beq_true a b : beq a b = true <-> a = b.
Proof. unfold beq. destruct (list_eq_dec N.eq_dec a b); split; congruence. Qed.
Lemma beq_refl a : beq a a = true.
Proof. apply beq_true; reflexivity. Qed.
Definition add_name (m : list bytes) (t : bytes) : list bytes * nat :=
  match name_index t m 0 with Some k => (m, k) | None => (m ++ [t], length m) end.
Lemma count_map_add m t : count_map m t = Val (add_name m t).
Proof. unfold count_map, add_name. destruct (name_index t m 0); reflexivity. Qed.
Definition memb (t : bytes) (m : list bytes) : bool := existsb (beq t) m.
Lemma memb_In t m : memb t m = true <-> In t m.
Proof. unfold memb. rewrite existsb_exists. split; [intros [x [H E]]; apply beq_true in E; subst; auto|intros H; exists t; split; auto; apply beq_refl]. Qed.

Lemma name_index_some t m : forall s k, name_index t m s = Some k -> s <= k /\ nth_error m (k - s) = Some t.
Proof. induction m as [|x r IH]; intros s k; cbn [name_index]; [discriminate|]. destruct (beq t x) eqn:B.
  - intros [= <-]. apply beq_true in B. subst x. rewrite Nat.sub_diag. split; auto.
  - intros H. apply IH in H as [H1 H2]. split; [lia|]. replace (k - s) with (S (k - S s)) by lia. exact H2. Qed.
Lemma name_index_memb t m : forall s, match name_index t m s with Some _ => memb t m = true | None => memb t m = false end.
Proof. induction m as [|x r IH]; intros s; cbn [name_index memb existsb]; auto. destruct (beq t x); cbn [orb]; auto. apply IH. Qed.
Lemma name_index_app t m x : forall s k, name_index t m s = Some k -> name_index t (m ++ x) s = Some k.
Proof. induction m as [|y r IH]; intros s k; cbn [name_index app]; [discriminate|]. destruct (beq t y); auto. Qed.
Lemma name_index_new t m : forall s, name_index t m s = None -> name_index t (m ++ [t]) s = Some (s + length m).
Proof. induction m as [|y r IH]; intros s; cbn [name_index app length].
  - rewrite beq_refl. intros _. f_equal; lia.
  - destruct (beq t y); [discriminate|]. intros H. rewrite IH by auto. f_equal; lia. Qed.
Lemma name_index_lt t m k : name_index t m 0 = Some k -> k < length m /\ nth_error m k = Some t.
Proof. intros H. apply name_index_some in H as [_ H]. rewrite Nat.sub_0_r in H. split; auto. apply nth_error_Some. congruence. Qed.

Lemma set_name_same m : forall k t, nth_error m k = Some t -> set_name k t m = m.
Proof. induction m as [|x r IH]; intros [|k] t; cbn [nth_error set_name]; try discriminate; [intros [= ->]; reflexivity|]. intros H. rewrite IH; auto. Qed.
Lemma set_name_at m t x r : set_name (length m) t (m ++ x :: r) = m ++ t :: r.
Proof. induction m as [|y m' IH]; cbn [length app set_name]; [reflexivity|]. rewrite IH. reflexivity. Qed.
Lemma nth_error_app_l {A} (m x : list A) k v : nth_error m k = Some v -> nth_error (m ++ x) k = Some v.
Proof. intros H. rewrite nth_error_app1; auto. apply nth_error_Some. congruence. Qed.

(* numbering one token: it is in the new table at the returned index; the table is unchanged or has the token appended *)
Lemma add_name_spec m t : forall m' k, add_name m t = (m', k) ->
  name_index t m' 0 = Some k /\ ((m' = m /\ k < length m) \/ (m' = m ++ [t] /\ k = length m /\ memb t m = false)).
Proof. intros m' k. unfold add_name. pose proof (name_index_memb t m 0) as MB. destruct (name_index t m 0) as [k0|] eqn:E; intros [= <- <-].
  - split; auto. left. split; auto. apply name_index_lt in E. tauto.
  - split; [rewrite (name_index_new t m 0 E); reflexivity|]. right. auto. Qed.
(* the name vector the loader keeps beside the graph IS the mapper's table *)
Lemma names_after_table m t1 t2 m1 i m2 j : add_name m t1 = (m1, i) -> add_name m1 t2 = (m2, j) ->
  names_after (length m) m i t1 j t2 = m2 /\ Nat.max (length m) (S (Nat.max i j)) = length m2.
Proof.
  intros A1 A2. apply add_name_spec in A1 as [I1 C1]. apply add_name_spec in A2 as [I2 C2]. unfold names_after.
  pose proof (name_index_lt _ _ _ I1) as [_ N1]. pose proof (name_index_lt _ _ _ I2) as [_ N2].
  destruct C1 as [[-> Hi]|[-> [-> F1]]]; destruct C2 as [[-> Hj]|[-> [-> F2]]].
  - destruct (Nat.leb_spec (length m) (Nat.max i j)); [lia|]. rewrite (set_name_same _ _ _ N1), (set_name_same _ _ _ N2). split; auto. lia.
  - destruct (Nat.leb_spec (length m) (Nat.max i (length m))); [|lia]. rewrite Nat.max_r by lia.
    replace (S (length m) - length m) with 1 by lia. cbn [repeat].
    rewrite (set_name_same (m ++ [[]]) i t1) by (apply nth_error_app_l; auto). rewrite set_name_at. split; auto. rewrite app_length. cbn [length]. lia.
  - rewrite app_length in Hj. cbn [length] in Hj. destruct (Nat.leb_spec (length m) (Nat.max (length m) j)); [|lia]. rewrite Nat.max_l by lia.
    replace (S (length m) - length m) with 1 by lia. cbn [repeat]. rewrite set_name_at. split; [exact (set_name_same _ _ _ N2)|].
    rewrite app_length. cbn [length]. lia.
  - rewrite app_length. cbn [length]. replace (length m + 1) with (S (length m)) by lia.
    destruct (Nat.leb_spec (length m) (Nat.max (length m) (S (length m)))); [|lia]. rewrite Nat.max_r by lia.
    replace (S (S (length m)) - length m) with 2 by lia. cbn [repeat]. rewrite set_name_at.
    change (m ++ [t1; []]) with (m ++ [t1] ++ [[]]). rewrite app_assoc.
    replace (S (length m)) with (length (m ++ [t1])) at 1 by (rewrite app_length; cbn [length]; lia). rewrite set_name_at.
    split; auto. rewrite !app_length. cbn [length]. lia.
Qed.

(* ---- "in order of first appearance" ---- *)
Fixpoint first_occ (l : list bytes) : list bytes := match l with [] => [] | x :: t => x :: filter (fun y => negb (beq y x)) (first_occ t) end.
Definition names_from (m : list bytes) (toks : list bytes) : list bytes := fold_left (fun m t => fst (add_name m t)) toks m.
Lemma filter_filter {A} (p q : A -> bool) l : filter p (filter q l) = filter (fun y => q y && p y) l.
Proof. induction l as [|x t IH]; cbn [filter]; auto. destruct (q x) eqn:Q; cbn [filter andb]; [destruct (p x); rewrite IH; reflexivity|auto]. Qed.
Lemma names_from_spec toks : forall m, names_from m toks = m ++ filter (fun t => negb (memb t m)) (first_occ toks).
Proof.
  induction toks as [|x t IH]; intros m; cbn [names_from fold_left first_occ filter]; [rewrite app_nil_r; reflexivity|]. fold (names_from (fst (add_name m x)) t).
  unfold add_name. pose proof (name_index_memb x m 0) as MB. destruct (name_index x m 0); cbn [fst]; rewrite MB; cbn [negb]; rewrite IH.
  - f_equal. rewrite filter_filter. apply filter_ext. intros y. destruct (beq y x) eqn:B; cbn [negb andb]; auto. apply beq_true in B. subst y. rewrite MB. reflexivity.
  - rewrite <- app_assoc. cbn [app]. f_equal. f_equal. rewrite filter_filter. apply filter_ext. intros y. unfold memb. rewrite existsb_app. cbn [existsb].
    rewrite orb_false_r, negb_orb. apply andb_comm.
Qed.
Corollary names_from_nil toks : names_from [] toks = first_occ toks.
Proof. rewrite names_from_spec. cbn [app memb existsb negb]. clear. induction (first_occ toks) as [|x t IH]; cbn [filter]; [|rewrite IH]; reflexivity. Qed.
Lemma names_from_app m a b : names_from m (a ++ b) = names_from (names_from m a) b.
Proof. apply fold_left_app. Qed.
Lemma first_occ_in l x : In x (first_occ l) <-> In x l.
Proof. induction l as [|a t IH]; cbn [first_occ In]; [tauto|]. rewrite filter_In, IH. destruct (beq x a) eqn:B; cbn [negb].
  - apply beq_true in B. subst. intuition.
  - assert (a <> x) by (intros ->; rewrite beq_refl in B; discriminate). intuition. Qed.
Lemma first_occ_nodup l : NoDup (first_occ l).
Proof. induction l as [|a t IH]; cbn [first_occ]; constructor; [|apply NoDup_filter; auto]. rewrite filter_In, beq_refl. intros [_ X]. discriminate. Qed.
(* reading more of the file only appends the names not seen before *)
Lemma first_occ_app a b : first_occ (a ++ b) = first_occ a ++ filter (fun t => negb (memb t a)) (first_occ b).
Proof. rewrite <- (names_from_nil (a ++ b)), names_from_app, names_from_nil, names_from_spec. f_equal. apply filter_ext. intros y. f_equal.
  destruct (memb y a) eqn:E.
  - apply (proj2 (memb_In _ _)). apply (proj2 (first_occ_in _ _)). apply (proj1 (memb_In _ _)). auto.
  - destruct (memb y (first_occ a)) eqn:E2; auto. apply (proj1 (memb_In _ _)) in E2. apply (proj1 (first_occ_in _ _)) in E2. apply (proj2 (memb_In y a)) in E2. congruence. Qed.
Lemma names_from_prefix toks m : exists ext, names_from m toks = m ++ ext.
Proof. rewrite names_from_spec. eauto. Qed.
Definition idx (names : list bytes) (t : bytes) : nat := match name_index t names 0 with Some k => k | None => 0 end.

(* ================= 5. well-formed files ================= *)
(* getline gives the lines back, with or without a '\n' after the last one (no line of a well-formed file is empty) *)
Lemma lines_of_file (ls : list bytes) b : Forall no_nl ls -> Forall (fun l => l <> []) ls ->
  (b = concat (map (fun l => l ++ [10%N]) ls) \/ b ++ [10%N] = concat (map (fun l => l ++ [10%N]) ls)) -> lines_of b [] = ls.
Proof.
  intros NN NE [->|H]; [apply lines_of_concat; auto|].
  destruct ls as [|l0 t] eqn:E0; [destruct b; discriminate|]. rewrite <- E0 in *. assert (NZ : ls <> []) by (rewrite E0; discriminate).
  destruct (exists_last NZ) as [ls' [x ->]]. rewrite map_app, concat_app in H. cbn [map concat] in H. rewrite app_nil_r, app_assoc in H.
  apply app_inj_tail in H as [-> _]. apply Forall_app in NN as [NN1 NN2]. apply Forall_app in NE as [_ NE2]. inversion NN2; subst. inversion NE2; subst.
  rewrite lines_of_lines_then by auto. rewrite lines_of_last by auto. cbn [rev app]. destruct x; [congruence|reflexivity].
Qed.

(* the insertions, one after the other, on a graph that already has all its vertices: the graph [graph_of] denotes *)
Section Run.
Context {L : Type}.
Variable V : variant.
Variable und hs : bool.
Notation dgraph := (@dgraph L).
Definition add_all (n : nat) (es : list (@ledge L)) : outcome dgraph :=
  fold_left (fun acc e => obind acc (fun h => t_add V und hs h (fst (fst e)) (snd (fst e)) (snd e))) es (Val (init n)).
Lemma add_all_graph_of n es : (forall e, In e es -> fst (fst e) < n /\ snd (fst e) < n) -> add_all n es = Val (graph_of und hs n es).
Proof.
  intros R. unfold add_all.
  assert (G : forall es es0 (h : dgraph), Is und hs n es0 h -> (forall e, In e es -> fst (fst e) < n /\ snd (fst e) < n) ->
     exists h', fold_left (fun acc e => obind acc (fun h => t_add V und hs h (fst (fst e)) (snd (fst e)) (snd e))) es (Val h) = Val h' /\ Is und hs n (es0 ++ es) h').
  { clear. induction es as [|[[i j] l] es IH]; intros es0 h I R; cbn [fold_left].
    - exists h. rewrite app_nil_r. auto.
    - destruct (R (i, j, l) (or_introl eq_refl)) as [Hi Hj]. cbn [fst snd] in Hi, Hj |- *.
      assert (G : Grown h i j h). { apply grown_refl; rewrite ?(is_len _ _ _ _ _ I), ?(is_size _ _ _ _ _ I); auto. }
      destruct (is_step und hs V n es0 h i j h l I G) as [h3 [T I3]]. cbn [obind]. rewrite T. replace (Nat.max n (S (Nat.max i j))) with n in I3 by lia.
      destruct (IH (es0 ++ [(i, j, l)]) h3 I3) as [h' [F I']]; [intros e He; apply R; right; auto|]. exists h'. split; auto. rewrite <- app_assoc in I'. exact I'. }
  destruct (G es [] (init n)) as [h' [F I]]; auto.
  - constructor; cbn [adj size enum labels init]; auto; [apply repeat_length|]. intros k. unfold nb. cbn [adj init]. apply nth_repeat.
  - rewrite F. f_equal. apply is_graph_of. exact I.
Qed.
End Run.

Section Format.
Context {L : Type}.
Variable label_of_text : bytes -> outcome L.      (* the caller's label parser; unlabelled graphs: fun _ => Val (the only label) *)
Variable lab : bytes -> L.                        (* its value on the label texts of the file *)
Definition item_ok (it : item) : Prop :=
  match it with
  | Comment t => no_nl t
  | EdgeLine w0 t1 w1 t2 w2 rest => edge_line_ok w0 t1 w1 t2 w2 rest /\ label_of_text rest = Val (lab rest) end.
Definition edge_lines (its : list item) : list (bytes * bytes * bytes) :=
  flat_map (fun it => match it with Comment _ => [] | EdgeLine _ t1 _ t2 _ rest => [(t1, t2, rest)] end) its.
Definition tokens (its : list item) : list bytes := flat_map (fun e => [fst (fst e); snd (fst e)]) (edge_lines its).
Definition is_file (its : list item) (b : bytes) : Prop := b = render its \/ b ++ [10%N] = render its.      (* the last '\n' is optional *)
Lemma lines_of_items its b : Forall item_ok its -> is_file its b -> lines_of b [] = map item_line its.
Proof.
  intros OK F. apply lines_of_file.
  - apply Forall_map. eapply Forall_impl; [|exact OK]. intros [t|w0 t1 w1 t2 w2 rest]; cbn [item_ok item_line].
    + intros H. constructor; auto.
    + intros [H _]. apply edge_line_no_nl; auto.
  - apply Forall_map. eapply Forall_impl; [|exact OK]. intros [t|w0 t1 w1 t2 w2 rest]; cbn [item_ok item_line]; [discriminate|].
    intros [[_ [_ [N1 _]]] _]. destruct w0; [destruct t1; [congruence|discriminate]|discriminate].
  - unfold is_file, render in F. rewrite <- (map_map item_line (fun l => l ++ [10%N])) in F. exact F.
Qed.
End Format.

(* ================= 6. (A) loadTextVertexLabeledEdgeList ================= *)
Section Names.
Context {L : Type}.
Variable V : variant.
Variable und hs : bool.
Variable label_of_text : bytes -> outcome L.
Variable lab : bytes -> L.
Notation dgraph := (@dgraph L).
Notation item_ok := (item_ok label_of_text lab).
(* the insertion an edge line denotes, given the name table *)
Definition named_edge (names : list bytes) (e : bytes * bytes * bytes) : @ledge L := (idx names (fst (fst e)), idx names (snd (fst e)), lab (snd e)).
Notation nstep := (lstep V und hs label_of_text count_map).

Lemma names_lines : forall its m es (h : dgraph), Forall item_ok its -> Is und hs (length m) es h -> length (names_from m (tokens its)) <= 3001 ->
  exists h', fold_left nstep (map item_line its) (Val (m, h, m)) = Val (names_from m (tokens its), h', names_from m (tokens its)) /\
    Is und hs (length (names_from m (tokens its))) (es ++ map (named_edge (names_from m (tokens its))) (edge_lines its)) h'.
Proof.
  induction its as [|it its IH]; intros m es h OK I B.
  - exists h. cbn. rewrite app_nil_r. auto.
  - inversion OK as [|? ? OK1 OK2]; subst. destruct it as [t|w0 t1 w1 t2 w2 rest].
    + cbn [map fold_left item_line]. unfold lstep at 2. cbn [obind]. rewrite step_comment by reflexivity. apply IH; auto.
    + destruct OK1 as [EL LT]. cbn [map fold_left item_line]. unfold lstep at 2. cbn [obind].
      change (tokens (EdgeLine w0 t1 w1 t2 w2 rest :: its)) with (t1 :: t2 :: tokens its) in *.
      change (edge_lines (EdgeLine w0 t1 w1 t2 w2 rest :: its)) with ((t1, t2, rest) :: edge_lines its).
      destruct (add_name m t1) as [m1 i] eqn:A1. destruct (add_name m1 t2) as [m2 j] eqn:A2.
      assert (NF : names_from m (t1 :: t2 :: tokens its) = names_from m2 (tokens its)).
      { unfold names_from. cbn [fold_left]. rewrite A1. cbn [fst]. rewrite A2. reflexivity. }
      rewrite NF in *. destruct (names_after_table m t1 t2 m1 i m2 j A1 A2) as [NA LM].
      destruct (names_from_prefix (tokens its) m2) as [ext EXT].
      assert (BD : Nat.max i j <= 3000). { rewrite EXT, app_length in B. lia. }
      destruct (step_data V und hs label_of_text count_map m h m _ t1 t2 rest m1 i m2 j (lab rest) (length m) es
                  (edge_line_not_comment _ _ _ _ _ _ EL) (edge_line_tokens _ _ _ _ _ _ EL)) as [h3 [S I3]]; auto.
      { rewrite count_map_add, A1. reflexivity. } { rewrite count_map_add, A2. reflexivity. }
      rewrite S, NA. rewrite LM in I3.
      destruct (IH m2 (es ++ [(i, j, lab rest)]) h3 OK2 I3 B) as [h' [F I']]. exists h'. split; auto.
      rewrite <- app_assoc in I'. cbn [app map]. 
      assert (NE : named_edge (names_from m2 (tokens its)) (t1, t2, rest) = (i, j, lab rest)).
      { unfold named_edge, idx. cbn [fst snd]. apply add_name_spec in A1 as [I1 _]. apply add_name_spec in A2 as [I2 C2].
        assert (I1' : name_index t1 m2 0 = Some i) by (destruct C2 as [[-> _]|[-> _]]; auto using name_index_app).
        rewrite EXT, (name_index_app _ _ ext _ _ I1'), (name_index_app _ _ ext _ _ I2). reflexivity. }
      rewrite NE. exact I'.
Qed.

(* (A): the name table is the sequence of distinct vertex tokens in order of first appearance (t1 before t2 within a line); the graph has
   one vertex per name and is what the forced insertions of the edge lines, in file order, build.  Comment lines contribute nothing,
   wherever they are.  A pair that occurs on two lines is inserted twice (the loader adds with force = true: no search), and the label
   written last is the one the store keeps. *)
Theorem load_text_names_wellformed its b : Forall item_ok its -> is_file its b ->
  length (first_occ (tokens its)) <= 3001 ->
  load_text_names V und hs label_of_text b =
    Val (graph_of und hs (length (first_occ (tokens its))) (map (named_edge (first_occ (tokens its))) (edge_lines its)), first_occ (tokens its)).
Proof.
  intros OK F B. unfold load_text_names. rewrite load_text_with_fold, (lines_of_items label_of_text lab its b OK F).
  rewrite <- names_from_nil in *.
  destruct (names_lines its [] [] (init 0) OK (is_init und hs) B) as [h' [E I]]. rewrite E. cbn [omap obind fst snd app] in *.
  rewrite (is_graph_of _ _ _ _ _ I). reflexivity.
Qed.
(* every vertex token of the file is in the table, at the index its edges use *)
Lemma named_edge_in_range its t : In t (tokens its) ->
  idx (first_occ (tokens its)) t < length (first_occ (tokens its)) /\ nth_error (first_occ (tokens its)) (idx (first_occ (tokens its)) t) = Some t.
Proof. intros H. apply first_occ_in in H. apply memb_In in H. unfold idx. pose proof (name_index_memb t (first_occ (tokens its)) 0) as MB.
  destruct (name_index t (first_occ (tokens its)) 0) as [k|] eqn:E; [|congruence]. apply name_index_lt; auto. Qed.
(* so the loaded graph is also: |names| isolated vertices, then addEdge(index t1, index t2, label, force = true) for every edge line *)
Corollary load_text_names_add_all its b : Forall item_ok its -> is_file its b -> length (first_occ (tokens its)) <= 3001 ->
  exists g, load_text_names V und hs label_of_text b = Val (g, first_occ (tokens its)) /\
    add_all V und hs (length (first_occ (tokens its))) (map (named_edge (first_occ (tokens its))) (edge_lines its)) = Val g.
Proof.
  intros OK F B. eexists; split; [apply load_text_names_wellformed; auto|]. apply add_all_graph_of.
  intros e He. apply in_map_iff in He as [[[t1 t2] rest] [<- Hin]]. unfold named_edge. cbn [fst snd].
  assert (T : In t1 (tokens its) /\ In t2 (tokens its)).
  { unfold tokens. split; apply in_flat_map; exists (t1, t2, rest); (split; [exact Hin|cbn; auto]). }
  destruct T as [T1 T2]. split; [apply (named_edge_in_range its t1 T1)|apply (named_edge_in_range its t2 T2)].
Qed.
End Names.

(* ================= 7. (B) loadTextEdgeList: decimal vertex tokens ================= *)
Lemma dv_nonneg l : all_dig l -> forall acc, (0 <= acc)%Z -> (0 <= dv l acc)%Z.
Proof. induction 1 as [|c t Hc Ht IH]; intros acc H; cbn [dv fold_left]; auto. apply IH. pose proof (N2Z.is_nonneg (c - 48)). lia. Qed.
Lemma stoi_numeral t : all_dig t -> t <> [] -> (dv t 0 <= 2147483647)%Z -> stoi t = Val (dv t 0).
Proof.
  intros A NE B. destruct t as [|c r]; [congruence|]. inversion A as [|? ? H2 H3]; subst.
  assert (CW : is_ws c = false /\ (c =? 45)%N = false /\ (c =? 43)%N = false).
  { unfold is_digit in H2. apply andb_prop in H2 as [L1 L2]. apply N.leb_le in L1, L2. unfold is_ws. repeat split; repeat apply orb_false_intro; apply N.eqb_neq; lia. }
  destruct CW as [CW [C45 C43]]. unfold stoi. cbn [drop_ws]. rewrite CW, C45, C43, H2. rewrite (digits_val_dv (c :: r) A).
  pose proof (dv_nonneg (c :: r) A 0%Z (Z.le_refl _)) as P.
  assert (R : ((-2147483648 <=? dv (c :: r) 0) && (dv (c :: r) 0 <=? 2147483647))%Z = true) by (apply andb_true_intro; split; apply Z.leb_le; lia).
  rewrite R. reflexivity.
Qed.
(* a vertex token of loadTextEdgeList: a non-empty string of decimal digits (leading zeros allowed) whose value is at most 3000 - the limit
   of the model ("small enough to allocate"), not of the format *)
Definition numeral (t : bytes) : Prop := all_dig t /\ t <> [] /\ (dv t 0 <= 3000)%Z.
Definition num (t : bytes) : nat := Z.to_nat (dv t 0).
Lemma numeral_vertex strict t : numeral t -> vertex_of_text strict t = Val (num t) /\ num t <= 3000.
Proof. intros [A [NE B]]. unfold vertex_of_text. rewrite stoi_numeral by (auto; lia). cbn [obind]. pose proof (dv_nonneg t A 0%Z (Z.le_refl _)) as P.
  destruct (Z.ltb_spec (dv t 0) 0); [lia|]. split; auto. unfold num. lia. Qed.
Lemma numeral_token t : numeral t -> no_ws t /\ t <> [] /\ is_comment t = false.
Proof. intros [A [NE _]]. split; [apply all_dig_no_ws; auto|]. split; auto. destruct t as [|c r]; [congruence|]. inversion A; subst. apply digit_props; auto. Qed.

Lemma set_name_length l : forall i x, length (set_name i x l) = length l.
Proof. induction l as [|y r IH]; intros [|i] x; cbn [set_name length]; auto. Qed.
Lemma nth_set_name l : forall i k x d, i < length l -> nth k (set_name i x l) d = if Nat.eqb k i then x else nth k l d.
Proof. induction l as [|y r IH]; intros [|i] [|k] x d H; cbn [set_name length nth Nat.eqb] in *; try lia; auto. apply IH. lia. Qed.
Lemma last_app_ne {A} (a b : list A) d : b <> [] -> last (a ++ b) d = last b d.
Proof. intros H. induction a as [|x t IH]; cbn [app]; auto. cbn [last]. destruct (t ++ b) eqn:E; [apply app_eq_nil in E; tauto|exact IH]. Qed.

Section Numbers.
Context {L : Type}.
Variable V : variant.
Variable und strict hs : bool.
Variable label_of_text : bytes -> outcome L.
Variable lab : bytes -> L.
Notation dgraph := (@dgraph L).
(* the vertex tokens of the format and the index each denotes: decimal numerals below; everything std::stoi accepts in section 10 *)
Variable tok_ok : bytes -> Prop.
Variable tokv : bytes -> nat.
Hypothesis tok_vertex : forall t, tok_ok t -> vertex_of_text strict t = Val (tokv t) /\ tokv t <= 3000.
Definition num_item_ok (it : item) : Prop :=
  item_ok label_of_text lab it /\ match it with Comment _ => True | EdgeLine _ t1 _ t2 _ _ => tok_ok t1 /\ tok_ok t2 end.
Definition num_edge (e : bytes * bytes * bytes) : @ledge L := (tokv (fst (fst e)), tokv (snd (fst e)), lab (snd e)).
(* 1 + the largest vertex index; 0 when there is no edge *)
Definition vcount (es : list (@ledge L)) : nat := list_max (map (fun e => S (Nat.max (fst (fst e)) (snd (fst e)))) es).
Lemma vcount_snoc es i j l : vcount (es ++ [(i, j, l)]) = Nat.max (vcount es) (S (Nat.max i j)).
Proof. unfold vcount. rewrite map_app, list_max_app. cbn [map list_max fst snd fold_right]. rewrite (Nat.max_0_r (S (Nat.max i j))). reflexivity. Qed.
(* the "names" loadTextEdgeList keeps: slot k holds the text of the LAST token that denoted vertex k, and is empty for an index no token denoted *)
Definition NamesOK (n : nat) (toks : list bytes) (names : list bytes) : Prop :=
  length names = n /\ forall k, nth k names [] = last (filter (fun t => Nat.eqb (tokv t) k) toks) [].
Lemma names_after_ok n toks names t1 t2 : NamesOK n toks names ->
  NamesOK (Nat.max n (S (Nat.max (tokv t1) (tokv t2)))) (toks ++ [t1; t2]) (names_after n names (tokv t1) t1 (tokv t2) t2).
Proof.
  intros [LN NT]. unfold names_after. set (i := tokv t1). set (j := tokv t2).
  set (padded := if Nat.leb n (Nat.max i j) then names ++ repeat [] (S (Nat.max i j) - length names) else names).
  assert (LP : length padded = Nat.max n (S (Nat.max i j))).
  { unfold padded. destruct (Nat.leb_spec n (Nat.max i j)); [rewrite app_length, repeat_length|]; lia. }
  assert (NP : forall k, nth k padded [] = nth k names []).
  { intros k. unfold padded. destruct (Nat.leb n (Nat.max i j)); auto. apply nth_app_repeat. }
  split; [rewrite !set_name_length; exact LP|]. intros k.
  rewrite nth_set_name by (rewrite set_name_length; lia). rewrite nth_set_name by lia. rewrite NP, NT, filter_app. cbn [filter]. fold i j.
  rewrite (Nat.eqb_sym k j), (Nat.eqb_sym k i).
  destruct (Nat.eqb j k); [destruct (Nat.eqb i k); rewrite last_app_ne by discriminate; reflexivity|].
  destruct (Nat.eqb i k); [rewrite last_app_ne by discriminate; reflexivity|]. rewrite app_nil_r. reflexivity.
Qed.
Notation mstep := (lstep V und hs label_of_text (stoi_map strict)).
Lemma num_lines : forall its es toks (h : dgraph) names, Forall num_item_ok its -> Is und hs (vcount es) es h -> NamesOK (vcount es) toks names ->
  exists h' names', fold_left mstep (map item_line its) (Val (tt, h, names)) = Val (tt, h', names') /\
    Is und hs (vcount (es ++ map num_edge (edge_lines its))) (es ++ map num_edge (edge_lines its)) h' /\
    NamesOK (vcount (es ++ map num_edge (edge_lines its))) (toks ++ tokens its) names'.
Proof.
  induction its as [|it its IH]; intros es toks h names OK I NO.
  - exists h, names. cbn. rewrite !app_nil_r. auto.
  - inversion OK as [|? ? OK1 OK2]; subst. destruct it as [t|w0 t1 w1 t2 w2 rest].
    + cbn [map fold_left item_line]. unfold lstep at 2. cbn [obind]. rewrite step_comment by reflexivity. apply IH; auto.
    + destruct OK1 as [[EL LT] [N1 N2]]. cbn [map fold_left item_line]. unfold lstep at 2. cbn [obind].
      change (tokens (EdgeLine w0 t1 w1 t2 w2 rest :: its)) with ([t1; t2] ++ tokens its).
      change (edge_lines (EdgeLine w0 t1 w1 t2 w2 rest :: its)) with ([(t1, t2, rest)] ++ edge_lines its).
      destruct (tok_vertex t1 N1) as [V1 B1]. destruct (tok_vertex t2 N2) as [V2 B2].
      destruct (step_data V und hs label_of_text (stoi_map strict) tt h names _ t1 t2 rest tt (tokv t1) tt (tokv t2) (lab rest) (vcount es) es
                  (edge_line_not_comment _ _ _ _ _ _ EL) (edge_line_tokens _ _ _ _ _ _ EL)) as [h3 [S I3]]; auto.
      { unfold stoi_map. rewrite V1. reflexivity. } { unfold stoi_map. rewrite V2. reflexivity. } { lia. }
      rewrite S. rewrite <- (vcount_snoc es _ _ (lab rest)) in I3. pose proof (names_after_ok _ _ _ t1 t2 NO) as NO3. rewrite <- (vcount_snoc es _ _ (lab rest)) in NO3.
      destruct (IH (es ++ [(tokv t1, tokv t2, lab rest)]) (toks ++ [t1; t2]) h3 _ OK2 I3 NO3) as [h' [names' [F [I' NO']]]].
      exists h', names'. split; auto. rewrite map_app, !app_assoc. split; [exact I'|exact NO'].
Qed.
(* (B): the graph has 1 + (largest index) vertices (none for a file without edge lines) and is what the forced insertions of the edge lines,
   in file order, build; comments contribute nothing *)
Theorem load_text_wellformed_gen its b : Forall num_item_ok its -> is_file its b ->
  exists names, load_text V und strict hs label_of_text b =
      Val (graph_of und hs (vcount (map num_edge (edge_lines its))) (map num_edge (edge_lines its)), names) /\
    length names = vcount (map num_edge (edge_lines its)) /\
    forall k, nth k names [] = last (filter (fun t => Nat.eqb (tokv t) k) (tokens its)) [].
Proof.
  intros OK F. unfold load_text. rewrite load_text_with_fold.
  assert (OK' : Forall (item_ok label_of_text lab) its) by (eapply Forall_impl; [|exact OK]; intros it [H _]; exact H).
  rewrite (lines_of_items label_of_text lab its b OK' F).
  destruct (num_lines its [] [] (init 0) [] OK (is_init und hs)) as [h' [names' [E [I [LN NT]]]]]; [split; [reflexivity|intros [|k]; reflexivity]|].
  cbn [app] in *. exists names'. rewrite E. cbn [omap obind fst snd]. rewrite (is_graph_of _ _ _ _ _ I). auto.
Qed.
Corollary load_text_add_all_gen its b : Forall num_item_ok its -> is_file its b ->
  exists g names, load_text V und strict hs label_of_text b = Val (g, names) /\
    add_all V und hs (vcount (map num_edge (edge_lines its))) (map num_edge (edge_lines its)) = Val g.
Proof.
  intros OK F. destruct (load_text_wellformed_gen its b OK F) as [names [E _]]. eexists; exists names. split; [exact E|]. apply add_all_graph_of.
  intros [[i j] l] He. cbn [fst snd].
  assert (S (Nat.max i j) <= vcount (map num_edge (edge_lines its))); [|lia]. unfold vcount.
  match goal with |- _ <= list_max ?l => pose proof (proj1 (list_max_le l _) (Nat.le_refl _)) as FA end.
  rewrite Forall_forall in FA. apply FA. apply in_map_iff. exists (i, j, l). split; auto.
Qed.
End Numbers.
(* (B) for decimal numerals *)
Theorem load_text_wellformed {L : Type} (V : variant) (und strict hs : bool) (label_of_text : bytes -> outcome L) (lab : bytes -> L) its b :
  Forall (num_item_ok label_of_text lab numeral) its -> is_file its b ->
  exists names, load_text V und strict hs label_of_text b =
      Val (graph_of und hs (vcount (map (num_edge lab num) (edge_lines its))) (map (num_edge lab num) (edge_lines its)), names) /\
    length names = vcount (map (num_edge lab num) (edge_lines its)) /\
    forall k, nth k names [] = last (filter (fun t => Nat.eqb (num t) k) (tokens its)) [].
Proof. apply load_text_wellformed_gen. apply numeral_vertex. Qed.
Corollary load_text_add_all {L : Type} (V : variant) (und strict hs : bool) (label_of_text : bytes -> outcome L) (lab : bytes -> L) its b :
  Forall (num_item_ok label_of_text lab numeral) its -> is_file its b ->
  exists g names, load_text V und strict hs label_of_text b = Val (g, names) /\
    add_all V und hs (vcount (map (num_edge lab num) (edge_lines its))) (map (num_edge lab num) (edge_lines its)) = Val g.
Proof. apply load_text_add_all_gen. apply numeral_vertex. Qed.

(* ================= 8. (C) the loaders invent nothing: ANY byte string ================= *)
Lemma contrib_in und x y i j : In y (contrib und x (i, j)) -> (x = i /\ y = j) \/ (und = true /\ x = j /\ y = i).
Proof. unfold contrib, ucontrib. cbn [fst snd]. destruct und.
  - intros H. apply in_app_or in H as [H|H].
    + destruct (Nat.eqb_spec x i); [|destruct H]. destruct H as [<-|[]]. auto.
    + destruct (Nat.eqb_spec x j); cbn [andb] in H; [|destruct H]. destruct (negb (Nat.eqb i j)); [|destruct H]. destruct H as [<-|[]]. auto.
  - destruct (Nat.eqb_spec x i); [|intros []]. intros [<-|[]]. auto. Qed.

Section Invents.
Context {L : Type}.
Variable V : variant.
Variable und hs : bool.
Variable label_of_text : bytes -> outcome L.
Notation dgraph := (@dgraph L).
Context {M : Type}.
Variable vmap : M -> bytes -> outcome (M * nat).
Variable R : M -> bytes -> nat -> Prop.      (* "token t denotes vertex k", as the numbering state knows it *)
Hypothesis R_new : forall m t m' k, vmap m t = Val (m', k) -> R m' t k.
Hypothesis R_mono : forall m t m' k, vmap m t = Val (m', k) -> forall t0 k0, R m t0 k0 -> R m' t0 k0.
Notation step := (text_step V und hs label_of_text vmap).

(* a data line of the file whose two tokens denote i and j and whose label text the caller's parser turns into l *)
Definition data_line (m : M) (line : bytes) (i j : nat) (l : L) : Prop :=
  is_comment line = false /\ exists t1 t2 t3, find_edge_from_string line = Val (t1, t2, t3) /\ R m t1 i /\ R m t2 j /\ label_of_text t3 = Val l.
Record Sound (done : list bytes) (m : M) (h : dgraph) : Prop := {
  so_len : length (adj h) = size h;
  so_edge : forall x y, In y (nb h x) -> exists line i j l, In line done /\ data_line m line i j l /\ ((x = i /\ y = j) \/ (und = true /\ x = j /\ y = i));
  so_enum : enum h = Z.of_nat (length (filter (fun line => negb (is_comment line)) done));
  so_lab : forall e l, lfind e (labels h) = Some l -> exists line i j, In line done /\ data_line m line i j l /\ e = key und (i, j);
  so_rng : forall x y, In y (nb h x) -> x < size h /\ y < size h;
  so_acc : forall line, In line done -> is_comment line = true \/ exists i j l, data_line m line i j l /\ i < size h /\ j < size h;
  so_max : size h <= 3001 }.
Lemma data_line_mono m t m' k line i j l : vmap m t = Val (m', k) -> data_line m line i j l -> data_line m' line i j l.
Proof. intros VM [HC [t1 [t2 [t3 [TK [R1 [R2 LT]]]]]]]. split; auto. exists t1, t2, t3. repeat split; auto; eapply R_mono; eauto. Qed.
Lemma sound_step done m h names line m' h' names' : Sound done m h -> step (m, h, names) line = Val (m', h', names') -> Sound (done ++ [line]) m' h'.
Proof.
  intros [A B C D E AC MX] S. apply step_inv in S as [[HC EQ]|[HC S]]; auto.
  - injection EQ as -> -> ->. constructor; auto.
    + intros x y Hin. destruct (B x y Hin) as [ln [i [j [l [I1 I2]]]]]. exists ln, i, j, l. split; auto. apply in_or_app; auto.
    + rewrite filter_app. cbn [filter]. rewrite HC. cbn [negb]. rewrite app_nil_r. exact C.
    + intros e l Hf. destruct (D e l Hf) as [ln [i [j [I1 I2]]]]. exists ln, i, j. split; auto. apply in_or_app; auto.
    + intros ln Hin. apply in_app_or in Hin as [Hin|[<-|[]]]; auto.
  - destruct S as (t1 & t2 & t3 & m1 & i & m2 & j & l & h2 & h3 & TK & V1 & V2 & LT & G & T & BD & EQ). injection EQ as -> -> ->.
    destruct G as [E2 [S2 [N2 [M2 L2]]]].
    destruct (t_add_spec und hs V h2 i j l E2) as [h3' [T' [E3 [S3 [N3 [M3 L3]]]]]]; [lia|lia|]. rewrite T in T'. injection T' as <-.
    assert (NEW : data_line m2 line i j l).
    { split; auto. exists t1, t2, t3. repeat split; auto; [eapply R_mono; eauto|eapply R_new; eauto]. }
    assert (OLD : forall ln i0 j0 l0, data_line m ln i0 j0 l0 -> data_line m2 ln i0 j0 l0).
    { intros ln i0 j0 l0 DL. eapply data_line_mono; [exact V2|]. eapply data_line_mono; [exact V1|]. exact DL. }
    constructor; auto.
    + intros x y Hin. rewrite N3, N2 in Hin. apply in_app_or in Hin as [Hin|Hin].
      * destruct (B x y Hin) as [ln [i0 [j0 [l0 [I1 [I2 I3]]]]]]. exists ln, i0, j0, l0. split; [apply in_or_app; auto|]. split; auto.
      * exists line, i, j, l. split; [apply in_or_app; right; left; auto|]. split; auto. apply contrib_in; auto.
    + rewrite M3, M2, C, filter_app, app_length. cbn [filter]. rewrite HC. cbn [negb length]. lia.
    + intros e l0 Hf. rewrite L3, L2 in Hf. unfold set_label in Hf.
      assert (X : (exists line0 i0 j0, In line0 done /\ data_line m line0 i0 j0 l0 /\ e = key und (i0, j0)) \/ (e = key und (i, j) /\ l0 = l)).
      { destruct hs; [|left; apply D; auto]. rewrite lfind_lset in Hf. destruct (edge_eqb_spec (key und (i, j)) e) as [<-|NE]; [injection Hf as <-; right; auto|left; apply D; auto]. }
      destruct X as [[ln [i0 [j0 [I1 [I2 I3]]]]]|[-> ->]].
      * exists ln, i0, j0. split; [apply in_or_app; auto|]. split; auto.
      * exists line, i, j. split; [apply in_or_app; right; left; auto|]. split; auto.
    + intros x y Hin. rewrite S3, S2. rewrite N3, N2 in Hin. apply in_app_or in Hin as [Hin|Hin].
      * apply E in Hin. lia.
      * apply contrib_in in Hin as [[-> ->]|[_ [-> ->]]]; lia.
    + intros ln Hin. apply in_app_or in Hin as [Hin|[<-|[]]].
      * destruct (AC ln Hin) as [X|[i0 [j0 [l0 [X [X1 X2]]]]]]; auto. right. exists i0, j0, l0. split; auto. lia.
      * right. exists i, j, l. split; [exact NEW|lia].
    + rewrite S3, S2. lia.
Qed.
Lemma sound_lines : forall ls done m h names m' h' names', Sound done m h ->
  fold_left (lstep V und hs label_of_text vmap) ls (Val (m, h, names)) = Val (m', h', names') -> Sound (done ++ ls) m' h'.
Proof.
  induction ls as [|l ls IH]; intros done m h names m' h' names' S F.
  - cbn in F. injection F as <- <- <-. rewrite app_nil_r. exact S.
  - apply lstep_cons_inv in F as [[[m1 h1] names1] [S1 F]]. replace (done ++ l :: ls) with ((done ++ [l]) ++ ls) by (rewrite <- app_assoc; reflexivity).
    eapply IH; [|exact F]. eapply sound_step; eauto.
Qed.
Lemma sound_load m0 b g names : load_text_with V und hs label_of_text vmap m0 b = Val (g, names) ->
  exists m' , fold_left (lstep V und hs label_of_text vmap) (lines_of b []) (Val (m0, init 0, [])) = Val (m', g, names) /\ Sound (lines_of b []) m' g.
Proof.
  rewrite load_text_with_fold. destruct (fold_left _ _ _) as [[[m' h'] names']| |] eqn:F; cbn [omap obind fst snd]; try discriminate. intros [= <- <-].
  exists m'. split; auto. apply (sound_lines _ [] m0 (init 0) [] m' h' names'); auto.
  constructor; cbn; auto; try (intros [|x] y []); try discriminate; try lia; try (intros line []).
Qed.
End Invents.

Section InventsNothing.
Context {L : Type}.
Variable V : variant.
Variable und strict hs : bool.
Variable label_of_text : bytes -> outcome L.
Notation dgraph := (@dgraph L).

(* ---- loadTextEdgeList ---- *)
Theorem load_text_invents_nothing b (g : dgraph) names : load_text V und strict hs label_of_text b = Val (g, names) ->
  forall i j, In j (nb g i) ->
  exists line t1 t2 rest, In line (lines_of b []) /\ is_comment line = false /\ find_edge_from_string line = Val (t1, t2, rest) /\
    ((vertex_of_text strict t1 = Val i /\ vertex_of_text strict t2 = Val j) \/
     (und = true /\ vertex_of_text strict t1 = Val j /\ vertex_of_text strict t2 = Val i)).
Proof.
  intros LD i j Hin.
  destruct (sound_load V und hs label_of_text (stoi_map strict) (fun _ t k => vertex_of_text strict t = Val k)) with (m0 := tt) (b := b) (g := g) (names := names)
    as [m' [_ S]]; auto.
  { intros m t m' k. unfold stoi_map. destruct (vertex_of_text strict t); cbn; congruence. }
  destruct S as [SA SB SC SD SE SF SG]. destruct (SB i j Hin) as [line [i0 [j0 [l [I1 [[HC [t1 [t2 [t3 [TK [R1 [R2 LT]]]]]]] I3]]]]]].
  exists line, t1, t2, t3. repeat (split; auto). destruct I3 as [[-> ->]|[U [-> ->]]]; auto.
Qed.
(* more of the same: exactly one edge per data line, every stored label is what the caller's parser made of the label text of a data line
   with those endpoints, and every endpoint is a vertex of the graph *)
Theorem load_text_invents_nothing_more b (g : dgraph) names : load_text V und strict hs label_of_text b = Val (g, names) ->
  enum g = Z.of_nat (length (filter (fun line => negb (is_comment line)) (lines_of b []))) /\
  (forall e l, lfind e (labels g) = Some l -> exists line t1 t2 rest i j, In line (lines_of b []) /\ is_comment line = false /\
     find_edge_from_string line = Val (t1, t2, rest) /\ vertex_of_text strict t1 = Val i /\ vertex_of_text strict t2 = Val j /\ label_of_text rest = Val l /\ e = key und (i, j)) /\
  (forall i j, In j (nb g i) -> i < size g /\ j < size g) /\ length (adj g) = size g.
Proof.
  intros LD.
  destruct (sound_load V und hs label_of_text (stoi_map strict) (fun _ t k => vertex_of_text strict t = Val k)) with (m0 := tt) (b := b) (g := g) (names := names)
    as [m' [_ S]]; auto.
  { intros m t m' k. unfold stoi_map. destruct (vertex_of_text strict t); cbn; congruence. }
  destruct S as [SA SB SC SD SE SF SG]. split; [exact SC|]. split; [|split; [exact SE|exact SA]].
  intros e l Hf. destruct (SD e l Hf) as [line [i [j [I1 [[HC [t1 [t2 [t3 [TK [R1 [R2 LT]]]]]]] I3]]]]].
  exists line, t1, t2, t3, i, j. repeat (split; auto).
Qed.

(* ---- loadTextVertexLabeledEdgeList ---- *)
Notation nstep := (lstep V und hs label_of_text count_map).
(* the name vector returned beside the graph is the mapper's table, on any input *)
Record Table (done : list bytes) (m : list bytes) (h : dgraph) (names : list bytes) : Prop := {
  tb_names : names = m; tb_size : size h = length m; tb_len : length (adj h) = size h; tb_nodup : NoDup m;
  tb_from : forall t, In t m -> exists line t1 t2 rest, In line done /\ is_comment line = false /\ find_edge_from_string line = Val (t1, t2, rest) /\ (t = t1 \/ t = t2) }.
Lemma add_name_nodup m t m' k : add_name m t = (m', k) -> NoDup m -> NoDup m' /\ forall x, In x m' -> In x m \/ x = t.
Proof. intros A ND. apply add_name_spec in A as [_ [[-> _]|[-> [_ F]]]]; [auto|]. split.
  - apply NoDup_app_intro; auto; [repeat constructor; intros []|]. intros x Hx [<-|[]]. apply memb_In in Hx. congruence.
  - intros x Hx. apply in_app_or in Hx as [Hx|[<-|[]]]; auto. Qed.
Lemma table_step done m h names line m' h' names' : Table done m h names ->
  text_step V und hs label_of_text count_map (m, h, names) line = Val (m', h', names') -> Table (done ++ [line]) m' h' names'.
Proof.
  intros [A B C D E] S. apply step_inv in S as [[HC EQ]|[HC S]]; auto.
  - injection EQ as -> -> ->. constructor; auto. intros t Ht. destruct (E t Ht) as [ln [t1 [t2 [rest [I1 I2]]]]]. exists ln, t1, t2, rest. split; auto. apply in_or_app; auto.
  - destruct S as (t1 & t2 & t3 & m1 & i & m2 & j & l & h2 & h3 & TK & V1 & V2 & LT & G & T & BD & EQ). injection EQ as -> -> ->.
    rewrite count_map_add in V1, V2. injection V1 as V1. injection V2 as V2. subst names. rewrite B.
    destruct (names_after_table m t1 t2 m1 i m2 j V1 V2) as [NA LM]. destruct G as [E2 [S2 [N2 [M2 L2]]]].
    destruct (t_add_spec und hs V h2 i j l E2) as [h3' [T' [E3 [S3 _]]]]; [lia|lia|]. rewrite T in T'. injection T' as <-.
    destruct (add_name_nodup _ _ _ _ V1 D) as [D1 IN1]. destruct (add_name_nodup _ _ _ _ V2 D1) as [D2 IN2].
    constructor; auto; [rewrite S3, S2, B; exact LM|].
    intros t Ht. apply IN2 in Ht as [Ht| ->]; [apply IN1 in Ht as [Ht| ->]|].
    + destruct (E t Ht) as [ln [u1 [u2 [rest [I1 I2]]]]]. exists ln, u1, u2, rest. split; auto. apply in_or_app; auto.
    + exists line, t1, t2, t3. split; [apply in_or_app; right; left; auto|]. auto.
    + exists line, t1, t2, t3. split; [apply in_or_app; right; left; auto|]. auto.
Qed.
Lemma table_lines : forall ls done m h names m' h' names', Table done m h names ->
  fold_left nstep ls (Val (m, h, names)) = Val (m', h', names') -> Table (done ++ ls) m' h' names'.
Proof.
  induction ls as [|l ls IH]; intros done m h names m' h' names' S F.
  - cbn in F. injection F as <- <- <-. rewrite app_nil_r. exact S.
  - apply lstep_cons_inv in F as [[[m1 h1] names1] [S1 F]]. replace (done ++ l :: ls) with ((done ++ [l]) ++ ls) by (rewrite <- app_assoc; reflexivity).
    eapply IH; [|exact F]. eapply table_step; eauto.
Qed.
(* the table: one entry per vertex, no name twice, every name is a vertex token of a data line, a token is found at the index of its name *)
Theorem load_text_names_table b (g : dgraph) names : load_text_names V und hs label_of_text b = Val (g, names) ->
  size g = length names /\ NoDup names /\
  (forall t, In t names -> exists line t1 t2 rest, In line (lines_of b []) /\ is_comment line = false /\ find_edge_from_string line = Val (t1, t2, rest) /\ (t = t1 \/ t = t2)) /\
  (forall t k, name_index t names 0 = Some k <-> nth_error names k = Some t).
Proof.
  intros LD. unfold load_text_names in LD.
  destruct (sound_load V und hs label_of_text count_map (fun m t k => name_index t m 0 = Some k)) with (m0 := @nil bytes) (b := b) (g := g) (names := names)
    as [m' [F _]]; auto.
  { intros m t m' k. rewrite count_map_add. intros [= A]. apply add_name_spec in A. tauto. }
  { intros m t m' k. rewrite count_map_add. intros [= A] t0 k0 H. apply add_name_spec in A as [_ [[-> _]|[-> _]]]; auto using name_index_app. }
  assert (T0 : Table [] [] (@init L 0) []) by (constructor; auto; [constructor|intros t []]).
  pose proof (table_lines _ _ _ _ _ _ _ _ T0 F) as [A B C D E]. cbn [app] in E. subst m'.
  split; auto. split; auto. split; auto. intros t k. split; [intros H; apply name_index_lt in H; tauto|].
  intros H. destruct (name_index t names 0) as [k'|] eqn:NI.
  - apply name_index_lt in NI as [_ NI]. f_equal. apply (proj1 (NoDup_nth_error names) D); [apply nth_error_Some; congruence|congruence].
  - pose proof (name_index_memb t names 0) as MB. rewrite NI in MB. apply nth_error_In in H. apply memb_In in H. congruence.
Qed.
Theorem load_text_names_invents_nothing b (g : dgraph) names : load_text_names V und hs label_of_text b = Val (g, names) ->
  forall i j, In j (nb g i) ->
  exists line t1 t2 rest, In line (lines_of b []) /\ is_comment line = false /\ find_edge_from_string line = Val (t1, t2, rest) /\
    ((name_index t1 names 0 = Some i /\ name_index t2 names 0 = Some j) \/
     (und = true /\ name_index t1 names 0 = Some j /\ name_index t2 names 0 = Some i)).
Proof.
  intros LD i j Hin. unfold load_text_names in LD.
  destruct (sound_load V und hs label_of_text count_map (fun m t k => name_index t m 0 = Some k)) with (m0 := @nil bytes) (b := b) (g := g) (names := names)
    as [m' [F S]]; auto.
  { intros m t m' k. rewrite count_map_add. intros [= A]. apply add_name_spec in A. tauto. }
  { intros m t m' k. rewrite count_map_add. intros [= A] t0 k0 H. apply add_name_spec in A as [_ [[-> _]|[-> _]]]; auto using name_index_app. }
  assert (T0 : Table [] [] (@init L 0) []) by (constructor; auto; [constructor|intros t []]).
  pose proof (table_lines _ _ _ _ _ _ _ _ T0 F) as [A _ _ _ _]. subst m'.
  destruct S as [SA SB SC SD SE SF SG]. destruct (SB i j Hin) as [line [i0 [j0 [l [I1 [[HC [t1 [t2 [t3 [TK [R1 [R2 LT]]]]]]] I3]]]]]].
  exists line, t1, t2, t3. repeat (split; auto). destruct I3 as [[-> ->]|[U [-> ->]]]; auto.
Qed.
(* in the words of the name table: the edge (i, j) comes from a data line whose vertex tokens are names[i] and names[j] *)
Corollary load_text_names_invents_nothing_nth b (g : dgraph) names : load_text_names V und hs label_of_text b = Val (g, names) ->
  forall i j, In j (nb g i) ->
  exists line t1 t2 rest, In line (lines_of b []) /\ is_comment line = false /\ find_edge_from_string line = Val (t1, t2, rest) /\
    ((nth_error names i = Some t1 /\ nth_error names j = Some t2) \/ (und = true /\ nth_error names j = Some t1 /\ nth_error names i = Some t2)).
Proof.
  intros LD i j Hin. destruct (load_text_names_invents_nothing b g names LD i j Hin) as [line [t1 [t2 [rest [I1 [I2 [I3 I4]]]]]]].
  exists line, t1, t2, rest. repeat (split; auto). destruct I4 as [[X Y]|[U [X Y]]]; apply name_index_lt in X, Y; tauto.
Qed.
Theorem load_text_names_invents_nothing_more b (g : dgraph) names : load_text_names V und hs label_of_text b = Val (g, names) ->
  enum g = Z.of_nat (length (filter (fun line => negb (is_comment line)) (lines_of b []))) /\
  (forall e l, lfind e (labels g) = Some l -> exists line t1 t2 rest i j, In line (lines_of b []) /\ is_comment line = false /\
     find_edge_from_string line = Val (t1, t2, rest) /\ name_index t1 names 0 = Some i /\ name_index t2 names 0 = Some j /\ label_of_text rest = Val l /\ e = key und (i, j)) /\
  (forall i j, In j (nb g i) -> i < size g /\ j < size g) /\ length (adj g) = size g.
Proof.
  intros LD. unfold load_text_names in LD.
  destruct (sound_load V und hs label_of_text count_map (fun m t k => name_index t m 0 = Some k)) with (m0 := @nil bytes) (b := b) (g := g) (names := names)
    as [m' [F S]]; auto.
  { intros m t m' k. rewrite count_map_add. intros [= A]. apply add_name_spec in A. tauto. }
  { intros m t m' k. rewrite count_map_add. intros [= A] t0 k0 H. apply add_name_spec in A as [_ [[-> _]|[-> _]]]; auto using name_index_app. }
  assert (T0 : Table [] [] (@init L 0) []) by (constructor; auto; [constructor|intros t []]).
  pose proof (table_lines _ _ _ _ _ _ _ _ T0 F) as [A _ _ _ _]. subst m'.
  destruct S as [SA SB SC SD SE SF SG]. split; [exact SC|]. split; [|split; [exact SE|exact SA]].
  intros e l Hf. destruct (SD e l Hf) as [line [i [j [I1 [[HC [t1 [t2 [t3 [TK [R1 [R2 LT]]]]]]] I3]]]]].
  exists line, t1, t2, t3, i, j. repeat (split; auto).
Qed.
End InventsNothing.

(* ================= 9. instances and the lines outside the format ================= *)
(* unlabelled graphs: the label parser ignores the rest of the line *)
Corollary load_text_names_wellformed_unlabelled {L : Type} (V : variant) (und : bool) (l0 : L) its b :
  Forall (item_ok (fun _ => Val l0) (fun _ => l0)) its -> is_file its b -> length (first_occ (tokens its)) <= 3001 ->
  load_text_names V und false (fun _ => Val l0) b =
    Val (graph_of und false (length (first_occ (tokens its))) (map (named_edge (fun _ => l0) (first_occ (tokens its))) (edge_lines its)), first_occ (tokens its)) /\
  labels (graph_of (L := L) und false (length (first_occ (tokens its))) (map (named_edge (fun _ => l0) (first_occ (tokens its))) (edge_lines its))) = [].
Proof. intros OK F B. split; [apply load_text_names_wellformed; auto|]. cbn [graph_of labels]. unfold labs, set_label.
  induction (map _ _) as [|e t IH] using rev_ind; [reflexivity|]. rewrite fold_left_app. cbn [fold_left]. exact IH. Qed.

(* what the model does with the lines that are NOT in the format: std::string::substr throws std::out_of_range on a blank line and on a
   line with one token (the tokeniser passes npos as the start position), and the exception leaves the loader *)
Lemma tokeniser_blank s : all_ws s -> find_edge_from_string s = Raise StdOutOfRange.
Proof. intros H. unfold find_edge_from_string.
  assert (P1 : find_first (fun c => negb (is_ws c)) s (Some 0) = None) by (unfold find_first; cbn [skipn]; apply find_from_none, negb_forall; auto).
  rewrite P1. reflexivity. Qed.
Lemma tokeniser_one_token w0 t1 w1 : all_ws w0 -> no_ws t1 -> t1 <> [] -> all_ws w1 -> find_edge_from_string (w0 ++ t1 ++ w1) = Raise StdOutOfRange.
Proof.
  intros W0 T1 NE W1. unfold find_edge_from_string. destruct t1 as [|c1 t1']; [congruence|]. inversion T1; subst.
  set (s := w0 ++ (c1 :: t1') ++ w1).
  assert (P1 : find_first (fun c => negb (is_ws c)) s (Some 0) = Some (length w0)).
  { unfold find_first, s. cbn [skipn]. rewrite find_from_skip by (apply negb_forall; auto). cbn [app]. rewrite find_from_hit by (rewrite H1; auto). reflexivity. }
  rewrite P1.
  assert (L : length s = length w0 + length (c1 :: t1') + length w1) by (unfold s; rewrite !app_length; lia).
  destruct w1 as [|d1 w1'].
  - assert (P2 : find_first is_ws s (Some (length w0)) = None).
    { unfold find_first, s. rewrite skipn_app_len, app_nil_r. apply find_from_none. auto. }
    rewrite P2. cbn [find_first span substr]. destruct (Nat.ltb_spec (length s) (length w0)); [lia|]. reflexivity.
  - inversion W1; subst.
    assert (P2 : find_first is_ws s (Some (length w0)) = Some (length w0 + length (c1 :: t1'))).
    { unfold find_first, s. rewrite skipn_app_len. rewrite find_from_skip by auto. rewrite find_from_hit by auto. reflexivity. }
    rewrite P2.
    assert (P3 : find_first (fun c => negb (is_ws c)) s (Some (length w0 + length (c1 :: t1'))) = None).
    { unfold find_first, s. rewrite skipn_plus, !skipn_app_len. apply find_from_none. apply (negb_forall (d1 :: w1')). auto. }
    rewrite P3. cbn [find_first span substr]. destruct (Nat.ltb_spec (length s) (length w0)); [lia|]. reflexivity.
Qed.

Section Examples.
Let ldn := load_text_names repaired false false (fun _ => Val 0%Z).
Let ldu := load_text_names repaired true false (fun _ => Val 0%Z).
Let ld := load_text repaired false true true stoi.
Let view (o : outcome (@dgraph Z * list bytes)) := omap (fun r => (adj (fst r), enum (fst r), labels (fst r), snd r)) o.
(* "a b\n\nc d\n": a blank line *)
Example blank_line_rejected : ldn [97; 32; 98; 10; 10; 99; 32; 100; 10]%N = Raise StdOutOfRange.
Proof. vm_compute. reflexivity. Qed.
(* "a b\n \t\n": a line of blanks *)
Example blanks_only_line_rejected : ldn [97; 32; 98; 10; 32; 9; 10]%N = Raise StdOutOfRange.
Proof. vm_compute. reflexivity. Qed.
(* "a b\nc\n": a line with one token *)
Example one_token_line_rejected : ldn [97; 32; 98; 10; 99; 10]%N = Raise StdOutOfRange.
Proof. vm_compute. reflexivity. Qed.
(* " #x y\n#x y\n": '#' after a blank does not start a comment - "#x" is a vertex name; the second line is a comment *)
Example hash_after_blank_is_a_name : view (ldn [32; 35; 120; 32; 121; 10; 35; 120; 32; 121; 10]%N) = Val ([[1]; []], 1%Z, [], [[35; 120]; [121]]%N).
Proof. vm_compute. reflexivity. Qed.
(* "a b\r\nb a\n": a carriage return before the line feed is a blank *)
Example crlf_accepted : view (ldn [97; 32; 98; 13; 10; 98; 32; 97; 10]%N) = Val ([[1]; [0]], 2%Z, [], [[97]; [98]]%N).
Proof. vm_compute. reflexivity. Qed.
(* "a b\na b\nb a" (no final newline): the pair of the first two lines is inserted twice; undirected, "b a" is the same edge a third time *)
Example repeated_pair_twice : view (ldn [97; 32; 98; 10; 97; 32; 98; 10; 98; 32; 97]%N) = Val ([[1; 1]; [0]], 3%Z, [], [[97]; [98]]%N).
Proof. vm_compute. reflexivity. Qed.
Example repeated_pair_undirected : view (ldu [97; 32; 98; 10; 97; 32; 98; 10; 98; 32; 97]%N) = Val ([[1; 1; 1]; [0; 0; 0]], 3%Z, [], [[97]; [98]]%N).
Proof. vm_compute. reflexivity. Qed.
(* "1 2 7\n# c\n1 2 9\n": numeric loader with int labels: two entries for (1, 2), the label written last stays; vertex 0 exists and is isolated *)
Example repeated_pair_last_label : view (ld [49; 32; 50; 32; 55; 10; 35; 32; 99; 10; 49; 32; 50; 32; 57; 10]%N) = Val ([[]; [2; 2]; []], 2%Z, [((1, 2), 9%Z)], [[]; [49]; [50]]%N).
Proof. vm_compute. reflexivity. Qed.
(* "01 2x\n": std::stoi reads the longest digit prefix: "01" is 1 and "2x" is 2 (tokens outside (B), inside (C)) *)
Example stoi_is_liberal : view (load_text repaired false true false (fun _ => Val 0%Z) [48; 49; 32; 50; 120; 10]%N) = Val ([[]; [2]; []], 1%Z, [], [[]; [48; 49]; [50; 120]]%N).
Proof. vm_compute. reflexivity. Qed.
End Examples.

(* ================= 10. the accepted files are EXACTLY the well-formed ones ================= *)
(* ---- the tokeniser returns a value only on  blanks* token blanks+ token [blanks* | blanks+ rest] ---- *)
Lemma split_ws (s : bytes) : exists a b, s = a ++ b /\ all_ws a /\ (b = [] \/ exists c r, b = c :: r /\ is_ws c = false).
Proof. induction s as [|c t [a [b [E [A B]]]]]; [exists [], []; repeat split; auto; constructor|]. destruct (is_ws c) eqn:W.
  - exists (c :: a), b. subst t. repeat split; auto. constructor; auto.
  - exists [], (c :: t). repeat split; [constructor|]. right. eauto. Qed.
Lemma split_tok (s : bytes) : exists a b, s = a ++ b /\ no_ws a /\ (b = [] \/ exists c r, b = c :: r /\ is_ws c = true).
Proof. induction s as [|c t [a [b [E [A B]]]]]; [exists [], []; repeat split; auto; constructor|]. destruct (is_ws c) eqn:W.
  - exists [], (c :: t). repeat split; [constructor|]. right. eauto.
  - exists (c :: a), b. subst t. repeat split; auto. constructor; auto. Qed.
Theorem tokeniser_complete s t1 t2 t3 : find_edge_from_string s = Val (t1, t2, t3) ->
  exists w0 w1 w2, s = w0 ++ t1 ++ w1 ++ t2 ++ w2 ++ t3 /\ all_ws w0 /\ no_ws t1 /\ t1 <> [] /\ all_ws w1 /\ w1 <> [] /\ no_ws t2 /\ t2 <> [] /\ all_ws w2 /\
    match t3 with [] => True | c :: _ => is_ws c = false /\ w2 <> [] end.
Proof.
  intros H. destruct (split_ws s) as [w0 [r1 [-> [W0 [->|[c1 [r1' [-> C1]]]]]]]].
  { rewrite tokeniser_blank in H by (rewrite app_nil_r; auto). discriminate. }
  destruct (split_tok (c1 :: r1')) as [u1 [r2 [E1 [U1 R2]]]].
  assert (NU1 : u1 <> []). { intros ->. cbn [app] in E1. destruct R2 as [->|[c [r [-> X]]]]; [discriminate|]. injection E1 as -> _. congruence. }
  rewrite E1 in *. clear E1 c1 r1' C1.
  destruct R2 as [->|[d1 [r2' [-> D1]]]].
  { rewrite (tokeniser_one_token w0 u1 []) in H by (auto; constructor). discriminate. }
  destruct (split_ws (d1 :: r2')) as [w1 [r3 [E2 [W1 R3]]]].
  assert (NW1 : w1 <> []). { intros ->. cbn [app] in E2. destruct R3 as [->|[c [r [-> X]]]]; [discriminate|]. injection E2 as -> _. congruence. }
  rewrite E2 in *. clear E2 d1 r2' D1.
  destruct R3 as [->|[c2 [r3' [-> C2]]]].
  { rewrite app_nil_r in H. rewrite (tokeniser_one_token w0 u1 w1) in H by auto. discriminate. }
  destruct (split_tok (c2 :: r3')) as [u2 [r4 [E3 [U2 R4]]]].
  assert (NU2 : u2 <> []). { intros ->. cbn [app] in E3. destruct R4 as [->|[c [r [-> X]]]]; [discriminate|]. injection E3 as -> _. congruence. }
  rewrite E3 in *. clear E3 c2 r3' C2.
  destruct R4 as [->|[e1 [r4' [-> E1]]]].
  { rewrite (tokeniser_two_tokens w0 u1 w1 u2 []) in H by (auto; constructor). injection H as <- <- <-. exists w0, w1, []. repeat split; auto. constructor. }
  destruct (split_ws (e1 :: r4')) as [w2 [r5 [E4 [W2 R5]]]].
  assert (NW2 : w2 <> []). { intros ->. cbn [app] in E4. destruct R5 as [->|[c [r [-> X]]]]; [discriminate|]. injection E4 as -> _. congruence. }
  rewrite E4 in *. clear E4 e1 r4' E1.
  destruct R5 as [->|[c3 [r [-> C3]]]].
  - rewrite app_nil_r in H. rewrite (tokeniser_two_tokens w0 u1 w1 u2 w2) in H by auto. injection H as <- <- <-. exists w0, w1, w2. rewrite !app_nil_r. repeat split; auto.
  - rewrite (tokeniser_three_tokens w0 u1 w1 u2 w2 r c3) in H by auto. injection H as <- <- <-. exists w0, w1, w2. repeat split; auto.
Qed.

(* ---- getline: no line contains '\n', and the lines give the file back, up to the last '\n' ---- *)
Lemma lines_of_no_nl b : forall cur, no_nl cur -> Forall no_nl (lines_of b cur).
Proof. induction b as [|c t IH]; intros cur H; cbn [lines_of].
  - destruct cur; constructor; auto. apply Forall_rev. exact H.
  - destruct (c =? 10)%N eqn:E; [constructor; [apply Forall_rev; auto|apply IH; constructor]|apply IH; constructor; auto]. Qed.
Lemma lines_of_inverse b : forall cur,
  rev cur ++ b = concat (map (fun l => l ++ [10%N]) (lines_of b cur)) \/ (rev cur ++ b) ++ [10%N] = concat (map (fun l => l ++ [10%N]) (lines_of b cur)).
Proof. induction b as [|c t IH]; intros cur; cbn [lines_of].
  - rewrite app_nil_r. destruct cur as [|x cur']; [left; reflexivity|right]. cbn [map concat]. rewrite app_nil_r. reflexivity.
  - destruct (N.eqb_spec c 10) as [->|NE].
    + cbn [map concat]. destruct (IH []) as [E|E]; cbn [rev app] in E; [left|right]; rewrite <- E, <- ?app_assoc; reflexivity.
    + specialize (IH (c :: cur)). cbn [rev] in IH. rewrite <- !app_assoc in IH. rewrite <- (app_assoc (rev cur)). exact IH. Qed.

Section Exactly.
Context {L : Type}.
Variable V : variant.
Variable und hs : bool.
Variable label_of_text : bytes -> outcome L.
Variable ldef : L.
Notation dgraph := (@dgraph L).
Definition lab_of (t : bytes) : L := match label_of_text t with Val l => l | _ => ldef end.
(* a line the loader got past, as an item *)
Section Lines.
Variable P : bytes -> Prop.       (* what is known of the vertex tokens *)
Definition accepted_line (line : bytes) : Prop :=
  is_comment line = true \/
  (is_comment line = false /\ exists t1 t2 t3 l, find_edge_from_string line = Val (t1, t2, t3) /\ label_of_text t3 = Val l /\ P t1 /\ P t2).
Lemma line_item line : no_nl line -> accepted_line line -> exists it, item_line it = line /\ num_item_ok label_of_text lab_of P it.
Proof.
  intros NN [HC|[HC [t1 [t2 [t3 [l [TK [LT [P1 P2]]]]]]]]].
  - destruct line as [|c r]; [discriminate|]. cbn [is_comment] in HC. apply N.eqb_eq in HC. subst c. exists (Comment r). split; auto. split; auto. inversion NN; cbn; auto.
  - destruct (tokeniser_complete _ _ _ _ TK) as [w0 [w1 [w2 [E [W0 [T1 [N1 [W1 [NW1 [T2 [N2 [W2 R]]]]]]]]]]]].
    exists (EdgeLine w0 t1 w1 t2 w2 t3). split; [symmetry; exact E|]. rewrite E in NN, HC.
    apply Forall_app in NN as [Q0 NN]. apply Forall_app in NN as [_ NN]. apply Forall_app in NN as [Q1 NN]. apply Forall_app in NN as [_ NN]. apply Forall_app in NN as [Q2 Q3].
    split; [|auto]. split; [|unfold lab_of; rewrite LT; reflexivity]. repeat split; auto.
    intros ->. cbn [app] in HC. destruct t1; [congruence|exact HC].
Qed.
Lemma lines_items lines : Forall no_nl lines -> Forall accepted_line lines ->
  exists its, map item_line its = lines /\ Forall (num_item_ok label_of_text lab_of P) its.
Proof. induction 1 as [|line t NN Ht IH]; intros AC; [exists []; split; auto|]. inversion AC; subst. destruct (IH H2) as [its [E OK]].
  destruct (line_item line NN H1) as [it [E1 OK1]]. exists (it :: its). cbn [map]. rewrite E, E1. split; auto. Qed.
End Lines.
Lemma file_of_lines b its : map item_line its = lines_of b [] -> is_file its b.
Proof. intros E. unfold is_file, render. rewrite <- (map_map item_line (fun l => l ++ [10%N])), E. apply (lines_of_inverse b []). Qed.

(* the mapper's table after the lines of a well-formed file, whatever the bounds *)
Lemma table_tokens : forall its m (h : dgraph) names m' h' names', length (adj h) = size h -> Forall (item_ok label_of_text lab_of) its ->
  fold_left (lstep V und hs label_of_text count_map) (map item_line its) (Val (m, h, names)) = Val (m', h', names') -> m' = names_from m (tokens its).
Proof.
  induction its as [|it its IH]; intros m h names m' h' names' E OK F.
  - cbn in F. injection F as -> _ _. reflexivity.
  - inversion OK as [|? ? OK1 OK2]; subst. cbn [map] in F. apply lstep_cons_inv in F as [[[m1 h1] names1] [S F]].
    apply step_inv in S as [[HC EQ]|[HC S]]; auto.
    + injection EQ as -> -> ->. destruct it as [t|w0 t1 w1 t2 w2 rest]; [eapply IH; eauto|]. destruct OK1 as [EL _]. cbn [item_line] in HC. rewrite (edge_line_not_comment _ _ _ _ _ _ EL) in HC. discriminate.
    + destruct S as (t1 & t2 & t3 & ma & i & mb & j & l & h2 & h3 & TK & V1 & V2 & LT & G & T & BD & EQ). injection EQ as -> -> ->.
      destruct it as [t|w0 u1 w1 u2 w2 rest]; [discriminate|]. destruct OK1 as [EL _]. cbn [item_line] in TK. rewrite (edge_line_tokens _ _ _ _ _ _ EL) in TK. injection TK as <- <- <-.
      destruct G as [E2 [S2 _]]. destruct (t_add_spec und hs V h2 i j l E2) as [h3' [T' [E3 _]]]; [lia|lia|]. rewrite T in T'. injection T' as <-.
      rewrite count_map_add in V1, V2. injection V1 as V1. injection V2 as V2.
      rewrite (IH mb h3 _ m' h' names' E3 OK2 F). change (tokens (EdgeLine w0 u1 w1 u2 w2 rest :: its)) with (u1 :: u2 :: tokens its).
      unfold names_from. cbn [fold_left]. rewrite V1. cbn [fst]. rewrite V2. reflexivity.
Qed.

(* loadTextVertexLabeledEdgeList returns a graph exactly on the well-formed files with at most 3001 names (the model's limit); on every
   other byte string it throws (C15: never undefined behaviour - load_text_names_safe) *)
Theorem load_text_names_accepts_exactly b :
  (exists g names, load_text_names V und hs label_of_text b = Val (g, names)) <->
  (exists its, Forall (item_ok label_of_text lab_of) its /\ is_file its b /\ length (first_occ (tokens its)) <= 3001).
Proof.
  split.
  - intros [g [names LD]]. pose proof (load_text_names_table V und hs label_of_text b g names LD) as [SZ _]. unfold load_text_names in LD.
    destruct (sound_load V und hs label_of_text count_map (fun m t k => name_index t m 0 = Some k)) with (m0 := @nil bytes) (b := b) (g := g) (names := names)
      as [m' [F S]]; auto.
    { intros m t m'' k. rewrite count_map_add. intros [= A]. apply add_name_spec in A. tauto. }
    { intros m t m'' k. rewrite count_map_add. intros [= A] t0 k0 H. apply add_name_spec in A as [_ [[-> _]|[-> _]]]; auto using name_index_app. }
    destruct S as [SA SB SC SD SE SF SG].
    destruct (lines_items (fun _ => True) (lines_of b [])) as [its [E OK']]; [apply lines_of_no_nl; constructor| |].
    { apply Forall_forall. intros line Hin. destruct (SF line Hin) as [X|[i [j [l [[HC [t1 [t2 [t3 [TK [_ [_ LT]]]]]]] _]]]]]; [left; auto|]. right. split; auto. exists t1, t2, t3, l. auto. }
    assert (OK : Forall (item_ok label_of_text lab_of) its) by (eapply Forall_impl; [|exact OK']; intros it [H _]; exact H).
    exists its. split; auto. split; [apply file_of_lines; auto|].
    assert (T0 : Table [] [] (@init L 0) []) by (constructor; auto; [constructor|intros t []]).
    pose proof (table_lines V und hs label_of_text _ _ _ _ _ _ _ _ T0 F) as [A _ _ _ _]. subst m'.
    rewrite <- E in F. apply table_tokens in F; auto. rewrite names_from_nil in F. rewrite <- F, <- SZ. exact SG.
  - intros [its [OK [F B]]]. eexists; eexists. apply (load_text_names_wellformed V und hs label_of_text lab_of its b OK F B).
Qed.

(* loadTextEdgeList: the vertex tokens are the strings std::stoi turns into an index of at most 3000 (the model's limit) *)
Variable strict : bool.
Definition vtok (t : bytes) : Prop := exists k, vertex_of_text strict t = Val k /\ k <= 3000.
Definition vnum (t : bytes) : nat := match vertex_of_text strict t with Val k => k | _ => 0 end.
Lemma vtok_vertex t : vtok t -> vertex_of_text strict t = Val (vnum t) /\ vnum t <= 3000.
Proof. intros [k [E B]]. unfold vnum. rewrite E. auto. Qed.
Lemma numeral_vtok t : numeral t -> vtok t /\ vnum t = num t.
Proof. intros H. destruct (numeral_vertex strict t H) as [E B]. split; [exists (num t); auto|]. unfold vnum. rewrite E. reflexivity. Qed.
Theorem load_text_accepts_exactly b :
  (exists g names, load_text V und strict hs label_of_text b = Val (g, names)) <->
  (exists its, Forall (num_item_ok label_of_text lab_of vtok) its /\ is_file its b).
Proof.
  split.
  - intros [g [names LD]].
    destruct (sound_load V und hs label_of_text (stoi_map strict) (fun _ t k => vertex_of_text strict t = Val k)) with (m0 := tt) (b := b) (g := g) (names := names)
      as [m' [F S]]; auto.
    { intros m t m'' k. unfold stoi_map. destruct (vertex_of_text strict t); cbn; congruence. }
    destruct S as [SA SB SC SD SE SF SG].
    destruct (lines_items vtok (lines_of b [])) as [its [E OK]]; [apply lines_of_no_nl; constructor| |].
    { apply Forall_forall. intros line Hin. destruct (SF line Hin) as [X|[i [j [l [[HC [t1 [t2 [t3 [TK [R1 [R2 LT]]]]]]] [Hi Hj]]]]]]; [left; auto|]. right. split; auto.
      exists t1, t2, t3, l. repeat split; auto; [exists i|exists j]; split; auto; lia. }
    exists its. split; auto. apply file_of_lines; auto.
  - intros [its [OK F]]. destruct (load_text_wellformed_gen V und strict hs label_of_text lab_of vtok vnum vtok_vertex its b OK F) as [names [E _]]. eauto.
Qed.
End Exactly.

Print Assumptions load_text_names_wellformed.
Print Assumptions load_text_wellformed.
Print Assumptions load_text_invents_nothing.
Print Assumptions load_text_names_invents_nothing.
Print Assumptions load_text_names_accepts_exactly.
Print Assumptions load_text_accepts_exactly.
