(* C04 — Multigraph multiplicities, edge count and total edge count always agree.  Statements only; proofs in Totals.v / MultiRefine.v. *)
From BG Require Import Base DirectedModel DirectedProofs DirectedSpec UndirectedModel MultiModel MultiSpec Totals MultiRefine.
Local Open Scope Z_scope.

(* DirectedMultigraph.  After ANY valid history (addEdge, addReciprocalEdge, addMultiedge, addReciprocalMultiedge, removeEdge, removeMultiedge,
   setEdgeMultiplicity, removeSelfLoops, removeVertexFromEdgeList, clearEdges, resize, removeDuplicateEdges; force off; multiplicity arguments >= 0
   including 0; any pairs including self-loops) the run ends normally and
   - getEdgeMultiplicity(i,j) is the value of the spec function (adding k raises it by k, removing k lowers it by min(k, current),
     setEdgeMultiplicity makes it exactly k, bulk removals zero the affected pairs: that is mspec_step),
   - it is zero exactly when hasEdge(i,j) is false,
   - getEdgeNumber is the number of pairs with non-zero multiplicity, getTotalEdgeNumber is the sum of all multiplicities. *)
Theorem C04_directed_multigraph_consistent : forall (n : nat) (ops : list mop), valid_mhistory (s_init n) ops = true ->
  exists m, dm_run (dm_init n) ops = (m, Done) /\
    let a := mspec_run (s_init n) ops in
    size (mg m) = sn a /\
    (forall i j, (i < sn a)%nat -> (j < sn a)%nat ->
       dm_get_multiplicity m i j = Val (mval false a i j) /\ has_edge (mg m) i j = Val (Z.ltb 0 (mval false a i j)) /\ 0 <= mval false a i j) /\
    enum (mg m) = Z.of_nat (length (se a)) /\
    mtot m = ssum a /\
    (forall e v, lfind e (se a) = Some v -> 0 < v).
Proof. exact C04_directed_consistent. Qed.
Print Assumptions C04_directed_multigraph_consistent.

(* every reachable state keeps: the invariant of the underlying labelled graph, a label store that is a map, total = sum of the stored multiplicities *)
Theorem C04_directed_invariant : forall (n : nat) (ops : list mop), valid_mhistory (s_init n) ops = true ->
  exists m, dm_run (dm_init n) ops = (m, Done) /\ TInv m.
Proof. intros n ops Vd. destruct (dm_run_refines ops (dm_init n) (s_init n) (dm_init_refines n) Vd) as [m [E [T _ _]]]. exists m; auto. Qed.
Print Assumptions C04_directed_invariant.

(* the spec arithmetic, spelled out on one pair *)
Theorem C04_spec_arithmetic : forall (a : @sgraph Z) i j k, 0 < k ->
  mval false (ms_add false a i j k) i j = mval false a i j + k /\
  (mhas false a i j = true -> mval false (ms_remove false a i j k) i j = if Z.ltb k (mval false a i j) then mval false a i j - k else 0) /\
  mval false (ms_set false a i j k) i j = k /\ mval false (ms_set false a i j 0) i j = 0.
Proof.
  intros a i j k Hk. unfold ms_add, ms_remove, ms_set, mval, lget. assert (Z.eqb k 0 = false) as -> by (apply Z.eqb_neq; lia). cbn [Z.eqb with_se se].
  rewrite !lfind_lset, edge_eqb_refl, lfind_lerase, edge_eqb_refl. repeat split. intros ->.
  destruct (Z.ltb k _); cbn [with_se se]; [rewrite lfind_lset, edge_eqb_refl|rewrite lfind_lerase, edge_eqb_refl]; reflexivity.
Qed.
Print Assumptions C04_spec_arithmetic.

(* PARTIAL: the same statement for UndirectedMultigraph is the full property's other half.  It is stated here and NOT proved; the
   undirected multigraph model is tied to the implementation and to the spec oracle by the correspondence check only. *)
Definition C04_undirected_full_statement : Prop := forall (n : nat) (ops : list mop),
  (fix valid a ops := match ops with [] => true | o :: t => valid_mop a o && valid (mspec_step true a o) t end) (s_init n) ops = true ->
  exists m, (fix run m ops := match ops with [] => (m, Done) | o :: t => match um_step repaired true m o with (m1, Done) => run m1 t | r => r end end) (dm_init n) ops = (m, Done) /\
    let a := (fix srun a ops := match ops with [] => a | o :: t => srun (mspec_step true a o) t end) (s_init n) ops in
    (forall i j, (i < sn a)%nat -> (j < sn a)%nat -> um_get_multiplicity m i j = Val (mval true a i j) /\ um_has_edge m i j = Val (Z.ltb 0 (mval true a i j))) /\
    enum (mg m) = Z.of_nat (length (se a)) /\ mtot m = ssum a.

(* the pinned commit: setEdgeMultiplicity(i,j,0) of the undirected class removed one copy only; stale multiplicities survived clearEdges *)
Example C04_refuted_on_pinned :
  (let m := fst (um_step pinned false (fst (um_step pinned false (dm_init 2) (MAddMulti 0 1 3 false))) (MSet 0 1 0)) in um_get_multiplicity m 0 1 = Val 2) /\
  (let m := fst (dm_step pinned (fst (dm_step pinned (dm_init 2) (MAddMulti 0 1 3 false))) MClear) in dm_get_multiplicity m 0 1 = Val 3 /\ has_edge (mg m) 0 1 = Val false).
Proof. vm_compute. auto. Qed.
Example C04_valid_history_example :
  valid_mhistory (s_init 3) [MAddMulti 0 1 3 false; MAdd 0 1 false; MRemoveMulti 0 1 2; MSet 2 2 5; MAddRecipMulti 1 2 2 false; MRemoveVertex 1; MSet 2 2 0; MResize 4; MClear] = true.
Proof. vm_compute. reflexivity. Qed.
