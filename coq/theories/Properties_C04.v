(* C04 — Multigraph multiplicities, edge count and total edge count always agree.  Statements only; proofs in Totals.v / MultiRefine.v (directed), UTotals.v / UMultiRefine.v (undirected). *)
From BG Require Import Base DirectedModel DirectedProofs DirectedSpec UndirectedModel MultiModel MultiSpec Totals MultiRefine UMultiRefine.
Local Open Scope Z_scope.

(* DirectedMultigraph.  After ANY valid history (addEdge, addReciprocalEdge, addMultiedge, addReciprocalMultiedge, removeEdge, removeMultiedge,
   setEdgeMultiplicity, removeSelfLoops, removeVertexFromEdgeList, clearEdges, resize, removeDuplicateEdges; force off; multiplicity arguments >= 0
   including 0; any pairs including self-loops) the run ends normally and
   - getEdgeMultiplicity(i,j) is the value of the spec function (adding k raises it by k, removing k lowers it by min(k, current),
     setEdgeMultiplicity makes it exactly k, bulk removals zero the affected pairs: that is mspec_step),
   - it is zero exactly when hasEdge(i,j) is false,
   - getEdgeNumber is the number of pairs with non-zero multiplicity, getTotalEdgeNumber is the sum of all multiplicities. *)
Theorem C04_directed_multigraph_consistent : forall (n : nat) (ops : list mop), valid_mhistory (s_init n) ops = true ->
  exists m, dm_run (dm_init n) ops = (m, Done) /\
    let a := mspec_run (s_init n) ops in
    size (mg m) = sn a /\
    (forall i j, (i < sn a)%nat -> (j < sn a)%nat ->
       dm_get_multiplicity m i j = Val (mval false a i j) /\ has_edge (mg m) i j = Val (Z.ltb 0 (mval false a i j)) /\ 0 <= mval false a i j) /\
    enum (mg m) = Z.of_nat (length (se a)) /\
    mtot m = ssum a /\
    (forall e v, lfind e (se a) = Some v -> 0 < v).
Proof. exact C04_directed_consistent. Qed.
Print Assumptions C04_directed_multigraph_consistent.

(* every reachable state keeps: the invariant of the underlying labelled graph, a label store that is a map, total = sum of the stored multiplicities *)
Theorem C04_directed_invariant : forall (n : nat) (ops : list mop), valid_mhistory (s_init n) ops = true ->
  exists m, dm_run (dm_init n) ops = (m, Done) /\ TInv m.
Proof. intros n ops Vd. destruct (dm_run_refines ops (dm_init n) (s_init n) (dm_init_refines n) Vd) as [m [E [T _ _]]]. exists m; auto. Qed.
Print Assumptions C04_directed_invariant.

(* the spec arithmetic, spelled out on one pair *)
Theorem C04_spec_arithmetic : forall (a : @sgraph Z) i j k, 0 < k ->
  mval false (ms_add false a i j k) i j = mval false a i j + k /\
  (mhas false a i j = true -> mval false (ms_remove false a i j k) i j = if Z.ltb k (mval false a i j) then mval false a i j - k else 0) /\
  mval false (ms_set false a i j k) i j = k /\ mval false (ms_set false a i j 0) i j = 0.
Proof.
  intros a i j k Hk. unfold ms_add, ms_remove, ms_set, mval, lget. assert (Z.eqb k 0 = false) as -> by (apply Z.eqb_neq; lia). cbn [Z.eqb with_se se].
  rewrite !lfind_lset, edge_eqb_refl, lfind_lerase, edge_eqb_refl. repeat split. intros ->.
  destruct (Z.ltb k _); cbn [with_se se]; [rewrite lfind_lset, edge_eqb_refl|rewrite lfind_lerase, edge_eqb_refl]; reflexivity.
Qed.
Print Assumptions C04_spec_arithmetic.

(* UndirectedMultigraph: the same statement, multiplicities indexed by the unordered pair (the fix expressions are the run of the model,
   validity of the history and the run of the spec, written out so that the statement can be read without another file). *)
Theorem C04_undirected_multigraph_consistent : forall (n : nat) (ops : list mop),
  (fix valid a ops := match ops with [] => true | o :: t => valid_mop a o && valid (mspec_step true a o) t end) (s_init n) ops = true ->
  exists m, (fix run m ops := match ops with [] => (m, Done) | o :: t => match um_step repaired true m o with (m1, Done) => run m1 t | r => r end end) (dm_init n) ops = (m, Done) /\
    let a := (fix srun a ops := match ops with [] => a | o :: t => srun (mspec_step true a o) t end) (s_init n) ops in
    (forall i j, (i < sn a)%nat -> (j < sn a)%nat -> um_get_multiplicity m i j = Val (mval true a i j) /\ um_has_edge m i j = Val (Z.ltb 0 (mval true a i j))) /\
    enum (mg m) = Z.of_nat (length (se a)) /\ mtot m = ssum a.
Proof. intros n ops Vd. exact (C04_undirected_run n ops Vd). Qed.
Print Assumptions C04_undirected_multigraph_consistent.
Theorem C04_undirected_invariant : forall (n : nat) (ops : list mop), um_valid_history (s_init n) ops = true ->
  exists m, um_run (dm_init n) ops = (m, Done) /\ UTotals.UTInv m.
Proof. exact UMultiRefine.C04_undirected_invariant. Qed.
Print Assumptions C04_undirected_invariant.

(* the pinned commit: setEdgeMultiplicity(i,j,0) of the undirected class removed one copy only; stale multiplicities survived clearEdges *)
Example C04_refuted_on_pinned :
  (let m := fst (um_step pinned false (fst (um_step pinned false (dm_init 2) (MAddMulti 0 1 3 false))) (MSet 0 1 0)) in um_get_multiplicity m 0 1 = Val 2) /\
  (let m := fst (dm_step pinned (fst (dm_step pinned (dm_init 2) (MAddMulti 0 1 3 false))) MClear) in dm_get_multiplicity m 0 1 = Val 3 /\ has_edge (mg m) 0 1 = Val false).
Proof. vm_compute. auto. Qed.
Example C04_valid_history_example :
  valid_mhistory (s_init 3) [MAddMulti 0 1 3 false; MAdd 0 1 false; MRemoveMulti 0 1 2; MSet 2 2 5; MAddRecipMulti 1 2 2 false; MRemoveVertex 1; MSet 2 2 0; MResize 4; MClear] = true.
Proof. vm_compute. reflexivity. Qed.

(* ---- derived observers (dm_outdeg / dm_indeg: sums of multiplicities over a row / column; mult, umcell: the stored multiplicity, doubled on the
   diagonal iff asked), and ALL observers at once: the whole observation vector equals the one computed from the multiplicity-function spec ---- *)
From Coq Require Import List Arith ZArith.
From BG Require Import Base DirectedModel DirectedProofs DirectedSpec DirectedRefine DirectedObs UndirectedModel UndirectedProofs UndirectedSpec UndirectedRefine UndirectedObs MultiModel WeightedModel MultiSpec Totals MultiRefine WeightedRefine UTotals UMultiRefine UWeightedRefine Instances UndirectedUsers MultiUsers WeightedUsers ObserveSpec ObserveSpecLabelled.
Import ListNotations.
Local Close Scope Z_scope.
Theorem C04_directed_all_observers :
  forall (n : nat) (ops : list mop),
        valid_mhistory (s_init n) ops = true ->
        exists m : mgraph, dm_run (dm_init n) ops = (m, Done) /\ dm_observe repaired m = sobserve_m false (mspec_run (s_init n) ops).
Proof. exact ObserveSpec.dm_observe_history. Qed.
Print Assumptions C04_directed_all_observers.
Theorem C04_undirected_all_observers :
  forall (n : nat) (ops : list mop),
        um_valid_history (s_init n) ops = true ->
        exists m : mgraph, um_run (dm_init n) ops = (m, Done) /\ um_observe repaired m = sobserve_m true (umspec_run (s_init n) ops).
Proof. exact ObserveSpec.um_observe_history. Qed.
Print Assumptions C04_undirected_all_observers.
Theorem C04_out_degree :
  forall (m : mgraph) (v : nat), TInv m -> v < size (mg m) -> dm_out_degree m v = Val (dm_outdeg m v).
Proof. exact MultiUsers.dm_out_degree_val. Qed.
Print Assumptions C04_out_degree.
Theorem C04_in_degree :
  forall (m : mgraph) (v : nat), TInv m -> v < size (mg m) -> dm_in_degree repaired m v = Val (dm_indeg m v).
Proof. exact MultiUsers.dm_in_degree_val. Qed.
Print Assumptions C04_in_degree.
Theorem C04_adjacency_matrix :
  forall m : mgraph, TInv m -> dm_adjacency_matrix m = Val (map (fun i : nat => map (fun j : nat => mult m i j) (seq 0 (size (mg m)))) (seq 0 (size (mg m)))).
Proof. exact MultiUsers.dm_adjacency_matrix_val. Qed.
Print Assumptions C04_adjacency_matrix.
Theorem C04_undirected_degree :
  forall (m : mgraph) (v : nat) (twice : bool), UTInv m -> v < size (mg m) -> um_degree m v twice = Val (um_deg m twice v).
Proof. exact MultiUsers.um_degree_val. Qed.
Print Assumptions C04_undirected_degree.
Theorem C04_undirected_adjacency_matrix :
  forall (m : mgraph) (twice : bool),
        UTInv m -> um_adjacency_matrix m twice = Val (map (fun i : nat => map (fun j : nat => umcell m twice i j) (seq 0 (size (mg m)))) (seq 0 (size (mg m)))).
Proof. exact MultiUsers.um_adjacency_matrix_val. Qed.
Print Assumptions C04_undirected_adjacency_matrix.
