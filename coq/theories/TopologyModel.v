(* Executable model of algorithms/topology.hpp (C10): getSubgraph / getSubgraphWithRemap.  The iteration order of the std::unordered_set
   is a parameter [so] (any duplicate-free enumeration of the subset).  Definitions only. *)
From BG Require Import Base DirectedModel DirectedSpec UndirectedModel UndirectedSpec.
Local Open Scope Z_scope.

Section Topo.
Context {L : Type}.
Variable ldef : L.
Variable has_store : bool.
Variable V : variant.
Variable und : bool.
Notation dgraph := (@dgraph L).
Definition t_add (h : dgraph) (i j : nat) (l : L) : outcome dgraph :=
  lift (if und then u_add_edge has_store V h i j l false else add_edge has_store V h i j l false).
Definition t_label (g : dgraph) (i j : nat) : outcome L := if und then u_get_label ldef has_store g i j true else get_label ldef has_store g i j true.
(* for (i : vertices) { assertVertexInRange(i); for (j : out(i)) if (vertices.find(j) != end) subgraph.addEdge(f i, f j, label(i,j)); } *)
Definition sub_loop (g : dgraph) (so : list nat) (f : nat -> nat) (h0 : dgraph) : outcome dgraph :=
  fold_left (fun acc i => obind acc (fun h =>
    if in_range g i then
      obind (out_neighbours g i) (fun l =>
        fold_left (fun acc2 j => obind acc2 (fun h2 => if mem j so then obind (t_label g i j) (fun lb => t_add h2 (f i) (f j) lb) else Val h2)) l (Val h))
    else Raise OutOfRange)) so (Val h0).
Definition subgraph (g : dgraph) (so : list nat) : outcome dgraph := sub_loop g so (fun v => v) (init (size g)).
Fixpoint index_of (v : nat) (l : list nat) : nat := match l with [] => 0%nat | x :: t => if Nat.eqb x v then 0%nat else S (index_of v t) end.
Definition subgraph_remap (g : dgraph) (so : list nat) : outcome (dgraph * list (nat * nat)) :=
  omap (fun h => (h, map (fun v => (v, index_of v so)) so)) (sub_loop g so (fun v => index_of v so) (init (length so))).
End Topo.

(* ---- spec: the induced subgraph, and its image under a given bijection ---- *)
Section TopoSpec.
Context {L : Type}.
Notation sgraph := (@sgraph L).
Definition s_induced (a : sgraph) (s : list nat) : sgraph := s_filter a (fun e => mem (fst e) s && mem (snd e) s).
Definition amap (f : list (nat * nat)) (v : nat) : nat := match find (fun kv => Nat.eqb (fst kv) v) f with Some kv => snd kv | None => 0%nat end.
Definition s_image (und : bool) (a : sgraph) (s : list nat) (f : list (nat * nat)) : sgraph :=
  {| sn := length s;
     se := map (fun kv => (let i := amap f (fst (fst kv)) in let j := amap f (snd (fst kv)) in if und then ordered i j else (i, j), snd kv)) (se (s_induced a s)) |}.
(* f maps the subset one-to-one onto 0 .. |s|-1 *)
Definition bijection_ok (s : list nat) (f : list (nat * nat)) : bool :=
  Nat.eqb (length f) (length s) && forallb (fun v => mem v (map fst f)) s &&
  forallb (fun kv => Nat.ltb (snd kv) (length s)) f &&
  forallb (fun k => Nat.eqb (count k (map snd f)) 1) (seq 0 (length s)) && forallb (fun v => Nat.eqb (count v (map fst f)) 1) s.
End TopoSpec.
