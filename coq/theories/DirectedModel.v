(* Executable model of LabeledDirectedGraph<L> (include/BaseGraph/directed_graph.hpp).  Definitions only. *)
From BG Require Import Base.
Local Open Scope Z_scope.

(* which revision of the code is modelled: the pinned commit (all false) or the repaired one (all true) *)
Record variant := { v_force_checks : bool; v_clear_labels : bool; v_rmv_labels : bool; v_edges0 : bool }.
Definition pinned := {| v_force_checks := false; v_clear_labels := false; v_rmv_labels := false; v_edges0 := false |}.
Definition repaired := {| v_force_checks := true; v_clear_labels := true; v_rmv_labels := true; v_edges0 := true |}.

Section Directed.
Context {L : Type}.
Variable leqb : L -> L -> bool.
Variable ldef : L.               (* EdgeLabel() *)
Variable lcode : L -> Z.         (* integer code of a label, for observations only *)
Variable lalpha : list L.        (* labels asked about in hasEdge(i,j,l) observations *)
Variable has_store : bool.       (* false exactly for NoLabel: _setLabel/_getLabel never touch edgeLabels *)
Variable V : variant.

Record dgraph := { adj : list (list nat); size : nat; enum : Z; labels : @lmap L }.

Definition in_range (g : dgraph) (v : nat) : bool := Nat.ltb v (size g).       (* assertVertexInRange *)
Definition set_label (e : edge) (l : L) (m : @lmap L) := if has_store then lset e l m else m.

(* ---- observers ---- *)
Definition has_edge (g : dgraph) (s d : nat) : outcome bool :=
  if in_range g s && in_range g d then
    if Nat.ltb s (length (adj g)) then Val (mem d (nth s (adj g) [])) else Undef IndexOOB
  else Raise OutOfRange.
Definition out_neighbours (g : dgraph) (v : nat) : outcome (list nat) :=
  if in_range g v then (if Nat.ltb v (length (adj g)) then Val (nth v (adj g) []) else Undef IndexOOB) else Raise OutOfRange.
Definition get_label (g : dgraph) (s d : nat) (throw : bool) : outcome L :=
  if in_range g s && in_range g d then
    if has_store then match lfind (s, d) (labels g) with Some l => Val l | None => if throw then Raise InvalidArgument else Val ldef end
    else Val ldef
  else Raise OutOfRange.
Definition has_edge_l (g : dgraph) (s d : nat) (l : L) : outcome bool :=
  match has_edge g s d with
  | Val true => match get_label g s d false with Val l' => Val (leqb l' l) | Raise e => Raise e | Undef k => Undef k end
  | o => o end.
Definition out_degree (g : dgraph) (v : nat) : outcome nat :=
  match out_neighbours g v with Val l => Val (length l) | Raise e => Raise e | Undef k => Undef k end.

(* ---- mutators: return the state at exit and how the call ended ---- *)
Definition push_edge (g : dgraph) (s d : nat) (l : L) : dgraph * res :=
  if Nat.ltb s (length (adj g)) then
    ({| adj := upd s (fun x => x ++ [d]) (adj g); size := size g; enum := enum g + 1; labels := set_label (s, d) l (labels g) |}, Done)
  else (g, UBk IndexOOB).
Definition add_edge (g : dgraph) (s d : nat) (l : L) (force : bool) : dgraph * res :=
  if force then
    if v_force_checks V then (if in_range g s && in_range g d then push_edge g s d l else (g, Thrown OutOfRange))
    else push_edge g s d l
  else match has_edge g s d with
       | Val true => (g, Done) | Val false => push_edge g s d l
       | Raise e => (g, Thrown e) | Undef k => (g, UBk k) end.
Definition add_reciprocal (g : dgraph) (a b : nat) (l : L) (force : bool) : dgraph * res :=
  match add_edge g a b l force with (g1, Done) => add_edge g1 b a l force | r => r end.
Definition remove_edge (g : dgraph) (s d : nat) : dgraph * res :=
  if in_range g s && in_range g d then
    if Nat.ltb s (length (adj g)) then
      let before := nth s (adj g) [] in let after := remove_all d before in
      ({| adj := upd s (fun _ => after) (adj g); size := size g;
          enum := enum g - (Z.of_nat (length before) - Z.of_nat (length after)); labels := lerase (s, d) (labels g) |}, Done)
    else (g, UBk IndexOOB)
  else (g, Thrown OutOfRange).
Fixpoint for_vertices (f : dgraph -> nat -> dgraph * res) (vs : list nat) (g : dgraph) : dgraph * res :=
  match vs with [] => (g, Done) | v :: vs' => match f g v with (g1, Done) => for_vertices f vs' g1 | r => r end end.
Definition remove_self_loops (g : dgraph) : dgraph * res := for_vertices (fun g i => remove_edge g i i) (seq 0 (size g)) g.
Definition set_edge_label (g : dgraph) (s d : nat) (l : L) (force : bool) : dgraph * res :=
  if in_range g s && in_range g d then
    if force then ({| adj := adj g; size := size g; enum := enum g; labels := set_label (s, d) l (labels g) |}, Done)
    else match has_edge g s d with
         | Val true => ({| adj := adj g; size := size g; enum := enum g; labels := set_label (s, d) l (labels g) |}, Done)
         | Val false => (g, Thrown InvalidArgument) | Raise e => (g, Thrown e) | Undef k => (g, UBk k) end
  else (g, Thrown OutOfRange).
Definition remove_vertex (g : dgraph) (v : nat) : dgraph * res :=
  if in_range g v then
    if Nat.ltb v (length (adj g)) then
      let succ := nth v (adj g) [] in
      let g1 := {| adj := upd v (fun _ => []) (adj g); size := size g; enum := enum g - Z.of_nat (length succ);
                   labels := if v_rmv_labels V then fold_left (fun m j => lerase (v, j) m) succ (labels g) else labels g |} in
      for_vertices (fun g i => remove_edge g i v) (seq 0 (size g)) g1
    else (g, UBk IndexOOB)
  else (g, Thrown OutOfRange).
Definition clear_edges (g : dgraph) : dgraph * res :=
  if Nat.leb (size g) (length (adj g)) then
    ({| adj := map (fun _ => []) (adj g); size := size g; enum := 0; labels := if v_clear_labels V then [] else labels g |}, Done)
  else (g, UBk IndexOOB).
Definition resize (g : dgraph) (n : nat) : dgraph * res :=
  if Nat.ltb n (size g) then (g, Thrown InvalidArgument)
  else ({| adj := firstn n (adj g) ++ repeat [] (n - length (adj g)); size := n; enum := enum g; labels := labels g |}, Done).
Definition init (n : nat) : dgraph := {| adj := repeat [] n; size := n; enum := 0; labels := [] |}.


(* removeDuplicateEdges: per list keep the first occurrence of every neighbour; labels untouched *)
Fixpoint dedup (seen : list nat) (l : list nat) : list nat :=
  match l with [] => [] | x :: t => if mem x seen then dedup seen t else x :: dedup (x :: seen) t end.
Definition remove_duplicates (g : dgraph) : dgraph * res :=
  if Nat.leb (size g) (length (adj g)) then
    let adj' := map (dedup []) (adj g) in
    ({| adj := adj'; size := size g;
        enum := enum g - fold_right (fun l acc => Z.of_nat (length l) - Z.of_nat (length (dedup [] l)) + acc) 0 (adj g);
        labels := labels g |}, Done)
  else (g, UBk IndexOOB).

(* ---- edges(): the (vertex, list-iterator) cursor of Edges::constEdgeIterator ---- *)
Record cursor := { cv : nat; cpos : nat }.
Definition cursor_eqb (a b : cursor) : bool := Nat.eqb (cv a) (cv b) && Nat.eqb (cpos a) (cpos b).
Definition end_vertex (g : dgraph) : nat := (size g - 1)%nat.                  (* getEndVertex: 0 when size = 0 *)
(* while (neighbour == getOutNeighbours(vertex).end() && vertex != endVertex) neighbour = getOutNeighbours(++vertex).begin(); *)
Fixpoint skip_empty (fuel : nat) (g : dgraph) (c : cursor) : outcome cursor :=
  obind (out_neighbours g (cv c)) (fun l =>
    if Nat.eqb (cpos c) (length l) && negb (Nat.eqb (cv c) (end_vertex g)) then
      match fuel with O => Undef Fuel | S f => skip_empty f g {| cv := S (cv c); cpos := 0 |} end
    else Val c).
Definition edges_begin (g : dgraph) : outcome cursor :=
  if v_edges0 V && Nat.eqb (size g) 0 then Val {| cv := 0; cpos := 0 |} else skip_empty (size g) g {| cv := 0; cpos := 0 |}.
Definition edges_end (g : dgraph) : outcome cursor :=
  if v_edges0 V && Nat.eqb (size g) 0 then Val {| cv := 0; cpos := 0 |}
  else obind (out_neighbours g (end_vertex g)) (fun l => Val {| cv := end_vertex g; cpos := length l |}).
Definition cursor_next (g : dgraph) (c : cursor) : outcome cursor := skip_empty (size g) g {| cv := cv c; cpos := S (cpos c) |}.
Definition cursor_deref (g : dgraph) (c : cursor) : outcome edge :=
  obind (out_neighbours g (cv c)) (fun l => match nth_error l (cpos c) with Some j => Val (cv c, j) | None => Undef DerefEnd end).
Fixpoint iter_loop (next : dgraph -> cursor -> outcome cursor) (fuel : nat) (g : dgraph) (c e : cursor) : outcome (list edge) :=
  if cursor_eqb c e then Val [] else
  match fuel with O => Undef Fuel | S f =>
    obind (cursor_deref g c) (fun x => obind (next g c) (fun c' => obind (iter_loop next f g c' e) (fun xs => Val (x :: xs)))) end.
Definition entries (g : dgraph) : nat := length (concat (adj g)).
Definition iterate (g : dgraph) : outcome (list edge) :=
  obind (edges_begin g) (fun b => obind (edges_end g) (fun e => iter_loop cursor_next (S (entries g)) g b e)).

(* ---- observers defined by enumerating edges ---- *)
Fixpoint bump (v : nat) (l : list nat) : option (list nat) :=          (* ++vec[v], None when v is out of bounds *)
  match l, v with [], _ => None | x :: t, O => Some (S x :: t) | x :: t, S v' => option_map (cons x) (bump v' t) end.
Definition in_degrees_of (n : nat) (es : list edge) : outcome (list nat) :=
  fold_left (fun acc e => obind acc (fun d => match bump (snd e) d with Some d' => Val d' | None => Undef IndexOOB end)) es (Val (repeat 0%nat n)).
Definition in_degrees (g : dgraph) : outcome (list nat) := obind (iterate g) (in_degrees_of (size g)).
Definition in_degree (g : dgraph) (v : nat) : outcome nat :=
  if in_range g v then omap (fun es => length (filter (fun e => Nat.eqb (snd e) v) es)) (iterate g) else Raise OutOfRange.
Definition out_degrees (g : dgraph) : outcome (list nat) := omapM (out_degree g) (seq 0 (size g)).
Definition bump2 (i j : nat) (m : list (list nat)) : option (list (list nat)) :=
  match nth_error m i with None => None | Some row => match bump j row with None => None | Some row' => Some (upd i (fun _ => row') m) end end.
Definition matrix_of (n : nat) (es : list edge) : outcome (list (list nat)) :=
  fold_left (fun acc e => obind acc (fun m => match bump2 (fst e) (snd e) m with Some m' => Val m' | None => Undef IndexOOB end)) es (Val (repeat (repeat 0%nat n) n)).
Definition adjacency_matrix (g : dgraph) : outcome (list (list nat)) := obind (iterate g) (matrix_of (size g)).

(* ---- operator== ---- *)
Definition lmap_eqb (m1 m2 : @lmap L) : bool :=
  Nat.eqb (length m1) (length m2) && forallb (fun kv => match lfind (fst kv) m2 with Some v' => leqb (snd kv) v' | None => false end) m1.
Fixpoint all_edges_in (h : dgraph) (i : nat) (l : list nat) : outcome bool :=
  match l with [] => Val true | j :: t => obind (has_edge h i j) (fun b => if b then all_edges_in h i t else Val false) end.
Fixpoint eq_rows (g h : dgraph) (is : list nat) : outcome bool :=
  match is with [] => Val true | i :: t =>
    match nth_error (adj g) i, nth_error (adj h) i with
    | Some lg, Some lh => obind (all_edges_in h i lg) (fun b1 => if b1 then obind (all_edges_in g i lh) (fun b2 => if b2 then eq_rows g h t else Val false) else Val false)
    | _, _ => Undef IndexOOB end end.
Definition graph_eqb (g h : dgraph) : outcome bool :=
  if Nat.eqb (size g) (size h) && Z.eqb (enum g) (enum h) && lmap_eqb (labels g) (labels h) then eq_rows g h (seq 0 (size g)) else Val false.

(* ---- getReversedGraph, edge-list constructor ---- *)
Definition lift (r : dgraph * res) : outcome dgraph := match r with (g, Done) => Val g | (_, Thrown e) => Raise e | (_, UBk k) => Undef k end.
Definition reversed (g : dgraph) : outcome dgraph :=
  obind (iterate g) (fun es =>
    fold_left (fun acc e => obind acc (fun h => obind (get_label g (fst e) (snd e) true) (fun l => lift (add_edge h (snd e) (fst e) l false)))) es (Val (init (size g)))).
Definition of_edge_list (es : list (nat * nat * L)) : outcome dgraph :=
  fold_left (fun acc e => obind acc (fun h => let '(i, j, l) := e in
     let m := Nat.max i j in
     obind (if Nat.leb (size h) m then lift (resize h (S m)) else Val h) (fun h1 => lift (add_edge h1 i j l false)))) es (Val (init 0)).

(* range-for over the vertices (VertexIterator) *)
Fixpoint vertex_loop (fuel pos endp : nat) : list nat :=
  if Nat.eqb pos endp then [] else match fuel with O => [] | S f => pos :: vertex_loop f (S pos) endp end.
Definition vertex_range (n : nat) : list nat := vertex_loop n 0 n.
(* the iteration segment of an observation: the vertex sequence, then three flags: post-increment traversal = pre-increment traversal,
   second traversal = first (both hold by construction in a pure model), begin() == end() *)
Definition iter_segment (g : dgraph) : list Z :=
  map Z.of_nat (vertex_range (size g)) ++ [1; 1; match edges_begin g, edges_end g with Val b, Val e => zbool (cursor_eqb b e) | Raise e, _ | _, Raise e => zexn e | _, _ => zub end].

(* ---- everything the public observers report, as integers ---- *)
Definition zn (n : nat) : Z := Z.of_nat n.
(* segments: 0 size/edge count, 1 hasEdge, 2 out-degree + neighbour multiset per vertex, 3 labels (non-throwing value, throwing outcome),
   4 hasEdge(i,j,l), 5 in-degrees / in-degree / out-degrees, 6 adjacency matrix, 7 edges(): length + multiplicity of every pair,
   8 iteration: vertex sequence + traversal flags *)
Definition observe (g : dgraph) : list (list Z) :=
  let n := size g in let vs := seq 0 n in
  [ [zn n; enum g];
    map (fun e => zout zbool (has_edge g (fst e) (snd e))) (pairs n);
    flat_map (fun i => zout zn (out_degree g i) :: zvec zn n (omap (fun l => map (fun j => count j l) vs) (out_neighbours g i))) vs;
    flat_map (fun e => [zout lcode (get_label g (fst e) (snd e) false); zout (fun _ => 1) (get_label g (fst e) (snd e) true)]) (pairs n);
    flat_map (fun e => map (fun l => zout zbool (has_edge_l g (fst e) (snd e) l)) lalpha) (pairs n);
    zvec zn n (in_degrees g) ++ map (fun i => zout zn (in_degree g i)) vs ++ zvec zn n (out_degrees g);
    match adjacency_matrix g with Val m => map zn (concat m) | Raise e => repeat (zexn e) (n * n) | Undef _ => repeat zub (n * n) end;
    match iterate g with Val es => zn (length es) :: map (fun e => zn (length (filter (edge_eqb e) es))) (pairs n) | Raise e => repeat (zexn e) (S (n * n)) | Undef _ => repeat zub (S (n * n)) end;
    iter_segment g ].

(* ---- histories ---- *)
Inductive dop :=
| AddEdge (s d : nat) (l : L) (force : bool) | AddReciprocal (a b : nat) (l : L) (force : bool)
| RemoveEdge (s d : nat) | RemoveSelfLoops | RemoveVertex (v : nat) | ClearEdges | Resize (n : nat)
| SetLabel (s d : nat) (l : L) (force : bool) | RemoveDuplicates.
Definition step (g : dgraph) (o : dop) : dgraph * res :=
  match o with
  | AddEdge s d l f => add_edge g s d l f | AddReciprocal a b l f => add_reciprocal g a b l f
  | RemoveEdge s d => remove_edge g s d | RemoveSelfLoops => remove_self_loops g | RemoveVertex v => remove_vertex g v
  | ClearEdges => clear_edges g | Resize n => resize g n | SetLabel s d l f => set_edge_label g s d l f | RemoveDuplicates => remove_duplicates g end.
Fixpoint run (g : dgraph) (ops : list dop) : dgraph * res :=
  match ops with [] => (g, Done) | o :: ops' => match step g o with (g1, Done) => run g1 ops' | r => r end end.
(* the trace the correspondence check compares: after every call, how it ended and what every observer reports.
   A thrown exception is caught by the caller and the history goes on; undefined behaviour ends it. *)
Fixpoint trace (g : dgraph) (ops : list dop) : list (list (list Z)) :=
  match ops with [] => [] | o :: ops' =>
    let '(g1, r) := step g o in ([zres r] :: observe g1) :: match r with UBk _ => [] | _ => trace g1 ops' end end.
End Directed.
