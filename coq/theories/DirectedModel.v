(* Executable model of LabeledDirectedGraph<L> (include/BaseGraph/directed_graph.hpp).  Definitions only. *)
From BG Require Import Base.
Local Open Scope Z_scope.

(* which revision of the code is modelled: the pinned commit (all false) or the repaired one (all true) *)
Record variant := { v_force_checks : bool; v_clear_labels : bool; v_rmv_labels : bool }.
Definition pinned := {| v_force_checks := false; v_clear_labels := false; v_rmv_labels := false |}.
Definition repaired := {| v_force_checks := true; v_clear_labels := true; v_rmv_labels := true |}.

Section Directed.
Context {L : Type}.
Variable leqb : L -> L -> bool.
Variable ldef : L.               (* EdgeLabel() *)
Variable has_store : bool.       (* false exactly for NoLabel: _setLabel/_getLabel never touch edgeLabels *)
Variable V : variant.

Record dgraph := { adj : list (list nat); size : nat; enum : Z; labels : @lmap L }.

Definition in_range (g : dgraph) (v : nat) : bool := Nat.ltb v (size g).       (* assertVertexInRange *)
Definition set_label (e : edge) (l : L) (m : @lmap L) := if has_store then lset e l m else m.

(* ---- observers ---- *)
Definition has_edge (g : dgraph) (s d : nat) : outcome bool :=
  if in_range g s && in_range g d then
    if Nat.ltb s (length (adj g)) then Val (mem d (nth s (adj g) [])) else Undef IndexOOB
  else Raise OutOfRange.
Definition out_neighbours (g : dgraph) (v : nat) : outcome (list nat) :=
  if in_range g v then (if Nat.ltb v (length (adj g)) then Val (nth v (adj g) []) else Undef IndexOOB) else Raise OutOfRange.
Definition get_label (g : dgraph) (s d : nat) (throw : bool) : outcome L :=
  if in_range g s && in_range g d then
    if has_store then match lfind (s, d) (labels g) with Some l => Val l | None => if throw then Raise InvalidArgument else Val ldef end
    else Val ldef
  else Raise OutOfRange.
Definition has_edge_l (g : dgraph) (s d : nat) (l : L) : outcome bool :=
  match has_edge g s d with
  | Val true => match get_label g s d false with Val l' => Val (leqb l' l) | Raise e => Raise e | Undef k => Undef k end
  | o => o end.
Definition out_degree (g : dgraph) (v : nat) : outcome nat :=
  match out_neighbours g v with Val l => Val (length l) | Raise e => Raise e | Undef k => Undef k end.

(* ---- mutators: return the state at exit and how the call ended ---- *)
Definition push_edge (g : dgraph) (s d : nat) (l : L) : dgraph * res :=
  if Nat.ltb s (length (adj g)) then
    ({| adj := upd s (fun x => x ++ [d]) (adj g); size := size g; enum := enum g + 1; labels := set_label (s, d) l (labels g) |}, Done)
  else (g, UBk IndexOOB).
Definition add_edge (g : dgraph) (s d : nat) (l : L) (force : bool) : dgraph * res :=
  if force then
    if v_force_checks V then (if in_range g s && in_range g d then push_edge g s d l else (g, Thrown OutOfRange))
    else push_edge g s d l
  else match has_edge g s d with
       | Val true => (g, Done) | Val false => push_edge g s d l
       | Raise e => (g, Thrown e) | Undef k => (g, UBk k) end.
Definition add_reciprocal (g : dgraph) (a b : nat) (l : L) (force : bool) : dgraph * res :=
  match add_edge g a b l force with (g1, Done) => add_edge g1 b a l force | r => r end.
Definition remove_edge (g : dgraph) (s d : nat) : dgraph * res :=
  if in_range g s && in_range g d then
    if Nat.ltb s (length (adj g)) then
      let before := nth s (adj g) [] in let after := remove_all d before in
      ({| adj := upd s (fun _ => after) (adj g); size := size g;
          enum := enum g - (Z.of_nat (length before) - Z.of_nat (length after)); labels := lerase (s, d) (labels g) |}, Done)
    else (g, UBk IndexOOB)
  else (g, Thrown OutOfRange).
Fixpoint for_vertices (f : dgraph -> nat -> dgraph * res) (vs : list nat) (g : dgraph) : dgraph * res :=
  match vs with [] => (g, Done) | v :: vs' => match f g v with (g1, Done) => for_vertices f vs' g1 | r => r end end.
Definition remove_self_loops (g : dgraph) : dgraph * res := for_vertices (fun g i => remove_edge g i i) (seq 0 (size g)) g.
Definition set_edge_label (g : dgraph) (s d : nat) (l : L) (force : bool) : dgraph * res :=
  if in_range g s && in_range g d then
    if force then ({| adj := adj g; size := size g; enum := enum g; labels := set_label (s, d) l (labels g) |}, Done)
    else match has_edge g s d with
         | Val true => ({| adj := adj g; size := size g; enum := enum g; labels := set_label (s, d) l (labels g) |}, Done)
         | Val false => (g, Thrown InvalidArgument) | Raise e => (g, Thrown e) | Undef k => (g, UBk k) end
  else (g, Thrown OutOfRange).
Definition remove_vertex (g : dgraph) (v : nat) : dgraph * res :=
  if in_range g v then
    if Nat.ltb v (length (adj g)) then
      let succ := nth v (adj g) [] in
      let g1 := {| adj := upd v (fun _ => []) (adj g); size := size g; enum := enum g - Z.of_nat (length succ);
                   labels := if v_rmv_labels V then fold_left (fun m j => lerase (v, j) m) succ (labels g) else labels g |} in
      for_vertices (fun g i => remove_edge g i v) (seq 0 (size g)) g1
    else (g, UBk IndexOOB)
  else (g, Thrown OutOfRange).
Definition clear_edges (g : dgraph) : dgraph * res :=
  if Nat.leb (size g) (length (adj g)) then
    ({| adj := map (fun _ => []) (adj g); size := size g; enum := 0; labels := if v_clear_labels V then [] else labels g |}, Done)
  else (g, UBk IndexOOB).
Definition resize (g : dgraph) (n : nat) : dgraph * res :=
  if Nat.ltb n (size g) then (g, Thrown InvalidArgument)
  else ({| adj := firstn n (adj g) ++ repeat [] (n - length (adj g)); size := n; enum := enum g; labels := labels g |}, Done).
Definition init (n : nat) : dgraph := {| adj := repeat [] n; size := n; enum := 0; labels := [] |}.

(* ---- histories ---- *)
Inductive dop :=
| AddEdge (s d : nat) (l : L) (force : bool) | AddReciprocal (a b : nat) (l : L) (force : bool)
| RemoveEdge (s d : nat) | RemoveSelfLoops | RemoveVertex (v : nat) | ClearEdges | Resize (n : nat)
| SetLabel (s d : nat) (l : L) (force : bool).
Definition step (g : dgraph) (o : dop) : dgraph * res :=
  match o with
  | AddEdge s d l f => add_edge g s d l f | AddReciprocal a b l f => add_reciprocal g a b l f
  | RemoveEdge s d => remove_edge g s d | RemoveSelfLoops => remove_self_loops g | RemoveVertex v => remove_vertex g v
  | ClearEdges => clear_edges g | Resize n => resize g n | SetLabel s d l f => set_edge_label g s d l f end.
Fixpoint run (g : dgraph) (ops : list dop) : dgraph * res :=
  match ops with [] => (g, Done) | o :: ops' => match step g o with (g1, Done) => run g1 ops' | r => r end end.
End Directed.
