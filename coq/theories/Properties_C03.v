(* C03 — An edge label exists exactly as long as its edge and keeps the last value set.  Statements only. *)
From BG Require Import Base DirectedModel DirectedProofs DirectedSpec DirectedRefine DirectedObs UndirectedModel UndirectedProofs UndirectedSpec UndirectedRefine UndirectedObs.
Local Open Scope Z_scope.

(* the spec itself: what "the label of an edge" means along a history *)
Theorem C03_spec_semantics : forall (L : Type) (a : @sgraph L) s d l l' v f,
  (* creation records the label; re-adding a present edge keeps the old one *)
  (smem (s, d) a = false -> lfind (s, d) (se (spec_step a (AddEdge s d l f))) = Some l) /\
  (smem (s, d) a = true -> spec_step a (AddEdge s d l f) = a) /\
  (* relabelling records the new value *)
  (smem (s, d) a = true -> lfind (s, d) (se (spec_step a (SetLabel s d l' f))) = Some l') /\
  (* every kind of removal forgets it *)
  lfind (s, d) (se (spec_step a (RemoveEdge s d))) = None /\
  lfind (s, s) (se (spec_step a RemoveSelfLoops)) = None /\
  lfind (v, d) (se (spec_step a (RemoveVertex v))) = None /\ lfind (s, v) (se (spec_step a (RemoveVertex v))) = None /\
  lfind (s, d) (se (spec_step a ClearEdges)) = None.
Proof.
  intros. cbn [spec_step]. unfold s_add, s_setlabel, s_remove, s_loops, s_rmv, s_clear.
  repeat split.
  - intros ->. cbn [se lfind]. rewrite edge_eqb_refl. reflexivity.
  - intros ->. reflexivity.
  - intros ->. cbn [se]. rewrite lfind_lset, edge_eqb_refl. reflexivity.
  - cbn [se]. rewrite lfind_lerase, edge_eqb_refl. reflexivity.
  - rewrite lfind_s_filter. cbn [fst snd]. rewrite Nat.eqb_refl. reflexivity.
  - rewrite lfind_s_filter. cbn [fst snd]. rewrite Nat.eqb_refl. reflexivity.
  - rewrite lfind_s_filter. cbn [fst snd]. rewrite Nat.eqb_refl, orb_true_r. reflexivity.
Qed.
Print Assumptions C03_spec_semantics.

(* directed labelled graphs: after ANY valid history, getEdgeLabel (throwing and non-throwing) and hasEdge(i,j,l) answer from the spec *)
Theorem C03_directed_labels : forall (L : Type) (leqb : L -> L -> bool) (ldef : L) (n : nat) (ops : list (@dop L)),
  valid_history (s_init n) ops = true ->
  exists g, run true repaired (init n) ops = (g, Done) /\
    let a := spec_run (s_init n) ops in
    (forall i j thr, (i < sn a)%nat -> (j < sn a)%nat ->
       get_label ldef true g i j thr =
       match lfind (i, j) (se a) with Some l => Val l | None => if thr then Raise InvalidArgument else Val ldef end) /\
    (forall i j l, (i < sn a)%nat -> (j < sn a)%nat ->
       has_edge_l leqb ldef true g i j l = Val (match lfind (i, j) (se a) with Some l' => leqb l' l | None => false end)) /\
    (forall i j, (i < sn a)%nat -> (j < sn a)%nat -> has_edge g i j = Val (match lfind (i, j) (se a) with Some _ => true | None => false end)).
Proof.
  intros L leqb ldef n ops Vd. destruct (C01_C03_directed_faithful leqb ldef true n ops Vd) as [g [Hr [_ [_ [HE [_ [GL HL]]]]]]].
  exists g; split; [exact Hr|]. cbv zeta. split; [intros; apply GL; auto|split; [intros; apply HL; auto|intros; apply HE; auto]].
Qed.
Print Assumptions C03_directed_labels.

(* undirected labelled graphs: the same, in either orientation of the pair *)
Theorem C03_undirected_labels : forall (L : Type) (leqb : L -> L -> bool) (ldef : L) (n : nat) (ops : list (@uop L)),
  uvalid_history (s_init n) ops = true ->
  exists g, urun true repaired (init n) ops = (g, Done) /\
    let a := uspec_run (s_init n) ops in
    (forall i j thr, (i < sn a)%nat -> (j < sn a)%nat ->
       u_get_label ldef true g i j thr = match lfind (okey i j) (se a) with Some l => Val l | None => if thr then Raise InvalidArgument else Val ldef end /\
       u_get_label ldef true g j i thr = u_get_label ldef true g i j thr) /\
    (forall i j l, (i < sn a)%nat -> (j < sn a)%nat ->
       u_has_edge_l leqb ldef true g i j l = Val (match lfind (okey i j) (se a) with Some l' => leqb l' l | None => false end)).
Proof.
  intros L leqb ldef n ops Vd. destruct (C02_C03_undirected_faithful leqb ldef true n ops Vd) as [g [Hr [_ [_ [_ [_ [_ [_ [_ [_ [_ [GL HL]]]]]]]]]]]].
  exists g; split; [exact Hr|]. cbv zeta. split; [|intros; apply HL; auto].
  intros i j thr Hi Hj. split; [apply GL; auto|]. rewrite !GL by auto. unfold okey. rewrite (ordered_sym j i). reflexivity.
Qed.
Print Assumptions C03_undirected_labels.

(* the pinned commit: a label outlived its edge (kernel-checked witnesses of the repaired defects) *)
Example C03_refuted_on_pinned_clearEdges :
  let '(g, r) := run true pinned (init 3) [AddEdge 0 1 7%Z false; ClearEdges] in
  r = Done /\ has_edge g 0 1 = Val false /\ get_label 0%Z true g 0 1 true = Val 7%Z.
Proof. vm_compute. auto. Qed.
Example C03_refuted_on_pinned_removeVertex :
  let '(g, r) := urun true pinned (init 3) [UAdd 0 1 7%Z false; UAdd 2 0 9%Z false; URemoveVertex 0] in
  r = Done /\ enum g = 0%Z /\ u_get_label 0%Z true g 0 1 false = Val 7%Z /\ u_get_label 0%Z true g 2 0 false = Val 9%Z.
Proof. vm_compute. auto. Qed.
Example C03_valid_history_example :
  valid_history (@s_init Z 3) [AddEdge 0 1 7%Z false; SetLabel 0 1 8%Z false; AddEdge 0 1 9%Z false; RemoveVertex 1; Resize 5; AddEdge 4 4 1%Z false; RemoveSelfLoops; ClearEdges] = true.
Proof. vm_compute. reflexivity. Qed.
