(* C08: the edges() cursor enumerates exactly the flattened adjacency lists, on every graph shape (size 0, no edge, isolated
   first/last vertices).  Only the length invariant is needed. *)
From BG Require Import Base DirectedModel DirectedProofs.
Local Open Scope nat_scope.

Lemma vertex_loop_seq : forall fuel pos, vertex_loop fuel pos (pos + fuel) = seq pos fuel.
Proof. induction fuel as [|f IH]; intros pos; cbn [vertex_loop seq].
  - rewrite Nat.add_0_r, Nat.eqb_refl. reflexivity.
  - assert (Nat.eqb pos (pos + S f) = false) as -> by (apply Nat.eqb_neq; lia). f_equal. replace (pos + S f) with (S pos + f) by lia. apply IH. Qed.
Lemma vertex_range_seq n : vertex_range n = seq 0 n.
Proof. apply (vertex_loop_seq n 0). Qed.

Section Iter.
Context {L : Type}.
Notation dgraph := (@dgraph L).
Implicit Types g : dgraph.
Notation V := repaired.

Definition row g (i : nat) : list edge := map (pair i) (nb g i).
Definition rows_from g (v k : nat) : list edge := flat_map (row g) (seq v k).
(* what is left to enumerate from cursor (v, p) *)
Definition rest g (v p : nat) : list edge := skipn p (row g v) ++ rows_from g (S v) (size g - S v).
Definition flatten g : list edge := rows_from g 0 (size g).

Lemma out_nb g v : length (adj g) = size g -> v < size g -> out_neighbours g v = Val (nb g v).
Proof. intros E H. unfold out_neighbours, in_range. rewrite E, (proj2 (Nat.ltb_lt _ _) H). reflexivity. Qed.
Lemma row_length g i : length (row g i) = length (nb g i). Proof. apply map_length. Qed.

Lemma rest_0 g v : v < size g -> rest g v 0 = rows_from g v (size g - v).
Proof. intros H. unfold rest, rows_from. replace (size g - v) with (S (size g - S v)) by lia. reflexivity. Qed.

(* the skip loop lands on the next position that holds an edge, or on end(), and never loses an edge *)
Lemma skip_empty_spec g : length (adj g) = size g -> forall fuel v p, v < size g -> p <= length (nb g v) -> size g - 1 - v <= fuel ->
  exists c, skip_empty fuel g {| cv := v; cpos := p |} = Val c /\ cv c < size g /\ cpos c <= length (nb g (cv c)) /\
    rest g (cv c) (cpos c) = rest g v p /\
    (cpos c = length (nb g (cv c)) -> cv c = end_vertex g).
Proof.
  intros E. induction fuel as [|f IH]; intros v p Hv Hp Hf; cbn [skip_empty cv cpos]; rewrite (out_nb g v E Hv); cbn [obind].
  - assert (v = end_vertex g) by (unfold end_vertex; lia). subst v. rewrite Nat.eqb_refl, andb_false_r.
    exists {| cv := end_vertex g; cpos := p |}; cbn [cv cpos]; repeat split; auto.
  - destruct (Nat.eqb_spec p (length (nb g v))) as [Ep|Np]; cbn [andb].
    + destruct (Nat.eqb_spec v (end_vertex g)) as [Ev|Nv]; cbn [negb].
      * exists {| cv := v; cpos := p |}; cbn [cv cpos]; repeat split; auto.
      * unfold end_vertex in Nv. assert (Hv' : S v < size g) by lia.
        destruct (IH (S v) 0 Hv' (Nat.le_0_l _)) as [c [Hc [H1 [H2 [H3 H4]]]]]; [lia|].
        exists c; repeat split; auto. rewrite H3, rest_0 by auto. unfold rest. subst p. rewrite <- row_length, skipn_all. cbn [app].
        unfold rows_from. reflexivity.
    + exists {| cv := v; cpos := p |}; cbn [cv cpos]; repeat split; auto. intros; lia.
Qed.

Lemma rest_end g : 0 < size g -> rest g (end_vertex g) (length (nb g (end_vertex g))) = [].
Proof. intros H. unfold rest, end_vertex. rewrite <- row_length, skipn_all. replace (size g - S (size g - 1)) with 0 by lia. reflexivity. Qed.

Lemma skipn_cons_nth {A} (d : A) : forall (l : list A) p, p < length l -> skipn p l = nth p l d :: skipn (S p) l.
Proof. induction l as [|x t IH]; intros [|p] H; simpl in *; try lia; auto. apply IH; lia. Qed.
Lemma rest_cons g v p : p < length (nb g v) -> rest g v p = (v, nth p (nb g v) 0) :: rest g v (S p).
Proof. intros H. unfold rest. rewrite (skipn_cons_nth ((v, 0) : edge) (row g v) p) by (rewrite row_length; auto).
  cbn [app]. f_equal. unfold row. exact (map_nth (pair v) (nb g v) 0 p). Qed.

(* one step of the traversal: dereference gives the head of what is left, ++ leaves the tail *)
Lemma deref_spec g v p : length (adj g) = size g -> v < size g -> p < length (nb g v) ->
  cursor_deref g {| cv := v; cpos := p |} = Val (v, nth p (nb g v) 0).
Proof. intros E Hv Hp. unfold cursor_deref; cbn [cv cpos]. rewrite (out_nb g v E Hv); cbn [obind].
  rewrite (nth_error_nth' _ 0 Hp). reflexivity. Qed.

Lemma iter_loop_spec g : length (adj g) = size g -> 0 < size g ->
  forall fuel v p, v < size g -> p <= length (nb g v) -> (p = length (nb g v) -> v = end_vertex g) -> length (rest g v p) < fuel ->
  iter_loop cursor_next fuel g {| cv := v; cpos := p |} {| cv := end_vertex g; cpos := length (nb g (end_vertex g)) |} = Val (rest g v p).
Proof.
  intros E Hn. induction fuel as [|f IH]; intros v p Hv Hp Hend Hf; [lia|].
  cbn [iter_loop]. unfold cursor_eqb; cbn [cv cpos].
  destruct (Nat.eqb_spec p (length (nb g v))) as [Ep|Np].
  - pose proof (Hend Ep) as ->. rewrite Nat.eqb_refl, Ep, Nat.eqb_refl. cbn [andb]. rewrite rest_end; auto.
  - assert (Hlt : p < length (nb g v)) by lia.
    assert (andb (Nat.eqb v (end_vertex g)) (Nat.eqb p (length (nb g (end_vertex g)))) = false) as ->.
    { destruct (Nat.eqb_spec v (end_vertex g)) as [->|]; cbn [andb]; auto. apply Nat.eqb_neq; auto. }
    rewrite (deref_spec g v p E Hv Hlt); cbn [obind].
    change (cursor_next g {| cv := v; cpos := p |}) with (skip_empty (size g) g {| cv := v; cpos := S p |}).
    destruct (skip_empty_spec g E (size g) v (S p) Hv) as [c [Hc [H1 [H2 [H3 H4]]]]]; [lia|lia|].
    rewrite Hc; cbn [obind]. rewrite (rest_cons g v p Hlt) in Hf |- *. cbn [length] in Hf.
    destruct c as [cv' cp']; cbn [cv cpos] in *. rewrite (IH cv' cp'); auto; [|rewrite H3; lia].
    cbn [obind]. rewrite H3. reflexivity.
Qed.

Lemma entries_rest g : length (adj g) = size g -> length (flatten g) = entries g.
Proof. intros E. unfold flatten, rows_from, entries, nb, row. rewrite <- E. clear E.
  assert (G : forall (a : list (list nat)) k, length (flat_map (fun i => map (pair i) (nth (i - k) a [])) (seq k (length a))) = length (concat a)).
  { induction a as [|x t IH]; intros k; simpl; auto. rewrite !app_length, map_length, Nat.sub_diag. f_equal.
    rewrite <- (IH (S k)). f_equal. apply flat_map_ext_in'. intros i Hi. apply in_seq in Hi. replace (i - k) with (S (i - S k)) by lia. reflexivity. }
  rewrite <- (G (adj g) 0). f_equal. apply flat_map_ext_in'. intros i _. unfold nb. rewrite Nat.sub_0_r. reflexivity. Qed.

(* C08 (directed): begin() .. end() yields every (i, j) with j in the i-th list, lists in order 0..size-1, each list in its own order *)
Theorem iterate_flatten g : length (adj g) = size g -> iterate V g = Val (flatten g).
Proof.
  intros E. unfold iterate, edges_begin, edges_end. cbn [v_edges0 repaired andb].
  destruct (Nat.eqb_spec (size g) 0) as [Z0|NZ].
  - cbn [obind iter_loop]. unfold cursor_eqb; cbn. unfold flatten, rows_from. rewrite Z0. reflexivity.
  - assert (Hn : 0 < size g) by lia.
    destruct (skip_empty_spec g E (size g) 0 0 Hn (Nat.le_0_l _)) as [c [Hc [H1 [H2 [H3 H4]]]]]; [lia|].
    rewrite Hc; cbn [obind]. rewrite (out_nb g (end_vertex g) E) by (unfold end_vertex; lia). cbn [obind].
    destruct c as [cv' cp']; cbn [cv cpos] in *.
    rewrite (iter_loop_spec g E Hn); auto.
    + rewrite H3, rest_0, Nat.sub_0_r by auto. reflexivity.
    + rewrite H3, rest_0, Nat.sub_0_r by auto. fold (flatten g). rewrite entries_rest; auto.
Qed.

(* begin() == end() exactly when there is no edge *)
Theorem begin_is_end_iff_no_edge g : length (adj g) = size g ->
  exists b e, edges_begin V g = Val b /\ edges_end V g = Val e /\ (cursor_eqb b e = true <-> flatten g = []).
Proof.
  intros E. unfold edges_begin, edges_end. cbn [v_edges0 repaired andb].
  destruct (Nat.eqb_spec (size g) 0) as [Z0|NZ].
  - eexists; eexists; split; [reflexivity|split; [reflexivity|]]. unfold flatten, rows_from; rewrite Z0. cbn. tauto.
  - assert (Hn : 0 < size g) by lia.
    destruct (skip_empty_spec g E (size g) 0 0 Hn (Nat.le_0_l _)) as [c [Hc [H1 [H2 [H3 H4]]]]]; [lia|].
    rewrite Hc, (out_nb g (end_vertex g) E) by (unfold end_vertex; lia). cbn [obind].
    eexists; eexists; split; [reflexivity|split; [reflexivity|]].
    rewrite rest_0, Nat.sub_0_r in H3 by auto. fold (flatten g) in H3. rewrite <- H3.
    unfold cursor_eqb; cbn [cv cpos]. rewrite andb_true_iff, !Nat.eqb_eq. split.
    + intros [-> ->]. apply rest_end; auto.
    + intros R. destruct (Nat.eq_dec (cpos c) (length (nb g (cv c)))) as [Ep|Np].
      * pose proof (H4 Ep) as Hv. rewrite Hv in Ep. auto.
      * rewrite rest_cons in R by lia. discriminate.
Qed.
End Iter.
