(* C18 — Concurrent read-only use of a graph is race-free and deterministic (PARTIAL).  Statements only; proofs in ConcProofs.v.
   Proved: in the interleaving semantics of ConcModel - ANY graph type, ANY set of const entry points (functions of the graph value), any
   number of threads, any scripts, ANY schedule - the shared graph never changes and a thread that has finished holds exactly its
   single-threaded results.  Instances used by the correspondence: the labelled classes (ConcModel.eval: all observers and iteration, ==, copy,
   reversal / conversions, subgraph extraction, path searches, text writer) and the multigraph / weighted classes (ConcModel.eval_m: observers,
   ==, Dijkstra distances, path searches).  NOT expressible in the model: the memory-level claim "no data race" (there are no addresses,
   caches or memory orders in a Gallina value) and schedules finer than one call.  That part is exhibited by running reader threads over one
   shared object under ThreadSanitizer. *)
From Coq Require Import List Arith ZArith.
From BG Require Import Base DirectedModel MultiModel ConcModel ConcProofs.
Import ListNotations.

Theorem C18_readers_deterministic : forall (G R Q : Type) (evalf : G -> Q -> R) (sched : list nat) (c0 : config G R Q) (k : nat), k < length (threads c0) ->
  let t0 := nth k (threads c0) {| script := []; results := [] |} in
  let t := nth k (threads (crun evalf c0 sched)) {| script := []; results := [] |} in
  results t0 = [] -> script t = [] -> results t = solo evalf (shared c0) (script t0) /\ shared (crun evalf c0 sched) = shared c0.
Proof. intros G R Q evalf sched c0 k Hk. exact (crun_solo evalf sched c0 k Hk). Qed.
Print Assumptions C18_readers_deterministic.
Theorem C18_shared_graph_unchanged : forall (G R Q : Type) (evalf : G -> Q -> R) sched (c : config G R Q), shared (crun evalf c sched) = shared c.
Proof. intros. apply crun_shared. Qed.
Print Assumptions C18_shared_graph_unchanged.

Example C18_example :
  let g := fst (run true repaired (init 3) [AddEdge 0 1 7%Z false; AddEdge 1 2 5%Z false]) in
  let c0 := {| shared := g; threads := [ {| script := [RObserve; RPaths 0 2]; results := [] |}; {| script := [RReversed; REquals; RSubgraph [2; 1]]; results := [] |} ] |} in
  let c := crun (eval true false) c0 [1; 0; 1; 1; 0; 0; 1] in
  map script (threads c) = [[]; []] /\ map results (threads c) = [solo (eval true false) g [RObserve; RPaths 0 2]; solo (eval true false) g [RReversed; REquals; RSubgraph [2; 1]]].
Proof. vm_compute. auto. Qed.
Example C18_round_robin : conc_mismatches true false (fst (run true repaired (init 3) [AddEdge 0 1 7%Z false; AddEdge 1 2 5%Z false])) 3 2 [2; 1] 0 2 = 0%Z.
Proof. vm_compute. reflexivity. Qed.
Example C18_round_robin_weighted : mconc_mismatches 3 (fst (WeightedModel.uw_step repaired true (fst (WeightedModel.uw_step repaired true (dm_init 3) (WeightedModel.WAdd 0 1 8%Z false))) (WeightedModel.WAdd 1 2 4%Z false))) 3 2 0 2 = 0%Z.
Proof. vm_compute. reflexivity. Qed.
