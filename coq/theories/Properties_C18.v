(* C18 — Concurrent read-only use of a graph is race-free and deterministic (PARTIAL).  Statements only; proofs in ConcProofs.v.
   Proved: in the interleaving semantics of ConcModel (any number of threads, any scripts over the const entry points, ANY schedule) the
   shared graph never changes and a thread that has finished holds exactly its single-threaded results.  NOT expressible in the model:
   the memory-level claim "no data race" (there are no addresses, caches or memory orders in a Gallina value) and schedules finer than
   one call.  That part is exhibited by running reader threads over one shared object under ThreadSanitizer. *)
From Coq Require Import List Arith.
From BG Require Import Base DirectedModel ConcModel ConcProofs.
Import ListNotations.

Theorem C18_readers_deterministic : forall hs und (sched : list nat) (c0 : config) (k : nat), k < length (threads c0) ->
  let t0 := nth k (threads c0) {| script := []; results := [] |} in
  let t := nth k (threads (crun hs und c0 sched)) {| script := []; results := [] |} in
  results t0 = [] -> script t = [] -> results t = solo hs und (shared c0) (script t0) /\ shared (crun hs und c0 sched) = shared c0.
Proof. intros hs und sched c0 k Hk. exact (crun_solo hs und sched c0 k Hk). Qed.
Print Assumptions C18_readers_deterministic.
Theorem C18_shared_graph_unchanged : forall hs und sched c, shared (crun hs und c sched) = shared c.
Proof. intros. apply crun_shared. Qed.
Print Assumptions C18_shared_graph_unchanged.

Example C18_example :
  let g := fst (run true repaired (init 3) [AddEdge 0 1 7%Z false; AddEdge 1 2 5%Z false]) in
  let c0 := {| shared := g; threads := [ {| script := [RObserve; RPaths 0 2]; results := [] |}; {| script := [RReversed; REquals; RSubgraph [2; 1]]; results := [] |} ] |} in
  let c := crun true false c0 [1; 0; 1; 1; 0; 0; 1] in
  map script (threads c) = [[]; []] /\ map results (threads c) = [solo true false g [RObserve; RPaths 0 2]; solo true false g [RReversed; REquals; RSubgraph [2; 1]]].
Proof. vm_compute. auto. Qed.
Example C18_round_robin : conc_mismatches true false (fst (run true repaired (init 3) [AddEdge 0 1 7%Z false; AddEdge 1 2 5%Z false])) 3 2 [2; 1] 0 2 = 0%Z.
Proof. vm_compute. reflexivity. Qed.
