(* C02 — Undirected graph is a faithful set of unordered pairs, symmetric throughout.  Statements only; proofs in UndirectedObs.v. *)
From BG Require Import Base DirectedModel DirectedProofs DirectedIter DirectedSpec UndirectedModel UndirectedProofs UndirectedIter UndirectedSpec UndirectedRefine UndirectedObs.
Local Open Scope Z_scope.

(* After ANY valid history (any length, any interleaving of addEdge / removeEdge / removeSelfLoops / removeVertexFromEdgeList / clearEdges /
   resize / setEdgeLabel / removeDuplicateEdges, every call naming its pair in either orientation, indices in range, force off) on a graph of
   any initial size and any label type, the run ends normally, the invariant (symmetry included) holds and every observer reports the set of
   unordered pairs the history denotes: hasEdge in both orientations, duplicate-free neighbour lists with exact membership, the edge count,
   getDegree in both self-loop conventions, and edges() = one orientation per pair. *)
Theorem C02_faithful : forall (L : Type) (leqb : L -> L -> bool) (ldef : L) (has_store : bool) (n : nat) (ops : list (@uop L)),
  uvalid_history (s_init n) ops = true ->
  exists g, urun has_store repaired (init n) ops = (g, Done) /\
    let a := uspec_run (s_init n) ops in
    InvU has_store g /\
    size g = sn a /\
    enum g = Z.of_nat (length (se a)) /\
    (forall i j, (i < sn a)%nat -> (j < sn a)%nat -> u_has_edge g i j = Val (umem a i j) /\ u_has_edge g j i = Val (umem a i j)) /\
    (forall i, (i < sn a)%nat -> exists l, out_neighbours g i = Val l /\ NoDup l /\ forall j, In j l <-> umem a i j = true) /\
    (forall i j, umem a i j = umem a j i) /\
    (forall v tw, (v < sn a)%nat -> u_degree g v tw = Val (udeg a tw v)) /\
    u_iterate repaired g = Val (filter up (flatten g)) /\
    (forall i j, In (i, j) (filter up (flatten g)) <-> (i <= j)%nat /\ umem a i j = true) /\
    (has_store = true -> forall i j thr, (i < sn a)%nat -> (j < sn a)%nat ->
       u_get_label ldef has_store g i j thr =
       match lfind (okey i j) (se a) with Some l => Val l | None => if thr then Raise InvalidArgument else Val ldef end) /\
    (has_store = true -> forall i j l, (i < sn a)%nat -> (j < sn a)%nat ->
       u_has_edge_l leqb ldef has_store g i j l = Val (match lfind (okey i j) (se a) with Some l' => leqb l' l | None => false end)).
Proof. intros; apply C02_C03_undirected_faithful; assumption. Qed.
Print Assumptions C02_faithful.

(* the spec steps say what must NOT change: each removal deletes exactly the affected pairs *)
Theorem C02_removals_exact : forall (L : Type) (a : @sgraph L) x y v i j,
  umem (uspec_step a (URemove x y)) i j = umem a i j && negb (edge_eqb (okey x y) (okey i j)) /\
  umem (uspec_step a (URemoveVertex v)) i j = umem a i j && negb (Nat.eqb i v || Nat.eqb j v) /\
  umem (uspec_step a USelfLoops) i j = umem a i j && negb (Nat.eqb i j) /\
  umem (uspec_step a UClear) i j = false.
Proof.
  intros. unfold umem, smem; cbn [uspec_step]. unfold s_remove, s_rmv, s_loops; cbn [se]. rewrite lfind_lerase, !lfind_s_filter.
  rewrite <- surjective_pairing. repeat split.
  - destruct (edge_eqb (okey x y) (okey i j)); cbn [negb]; rewrite ?andb_true_r, ?andb_false_r; reflexivity.
  - unfold okey. destruct (ordered_cases i j) as [[-> _]|[-> _]]; cbn [fst snd];
      destruct (Nat.eqb i v), (Nat.eqb j v); cbn [negb orb]; rewrite ?andb_true_r, ?andb_false_r; reflexivity.
  - unfold okey. destruct (ordered_cases i j) as [[-> _]|[-> _]]; cbn [fst snd]; rewrite ?(Nat.eqb_sym j i);
      destruct (Nat.eqb i j); cbn [negb]; rewrite ?andb_true_r, ?andb_false_r; reflexivity.
Qed.
Print Assumptions C02_removals_exact.

(* non-vacuity: a non-trivial valid history with both orientations, a loop, a vertex removal *)
Example C02_valid_history_example :
  uvalid_history (@s_init Z 3) [UAdd 1 0 7%Z false; UAdd 2 2 5%Z false; UAdd 0 1 9%Z false; URemoveVertex 2; UResize 5; UAdd 4 1 1%Z false; URemove 1 4; USelfLoops] = true.
Proof. vm_compute. reflexivity. Qed.

(* ---- derived observers of the undirected class (udegree: list length, a self-loop counted twice iff asked; ucell: 1 for a neighbour, 2 on the
   diagonal iff asked), and ALL observers at once: the whole observation vector of the model equals the one computed from the unordered-pair spec ---- *)
From Coq Require Import List Arith ZArith.
From BG Require Import Base DirectedModel DirectedProofs DirectedSpec DirectedRefine DirectedObs UndirectedModel UndirectedProofs UndirectedSpec UndirectedRefine UndirectedObs MultiModel WeightedModel MultiSpec Totals MultiRefine WeightedRefine UTotals UMultiRefine UWeightedRefine Instances UndirectedUsers MultiUsers WeightedUsers ObserveSpec ObserveSpecLabelled.
Import ListNotations.
Local Close Scope Z_scope.
Theorem C02_all_observers :
  forall (L : Type) (leqb : L -> L -> bool) (ldef : L) (lcode : L -> Z) (lalpha : list L) (hs : bool) (n : nat) (ops : list (@uop L)),
        uvalid_history (s_init n) ops = true ->
        exists g : (@dgraph L),
          urun hs repaired (init n) ops = (g, Done) /\ u_observe leqb ldef lcode lalpha hs repaired g = sobserve_u leqb ldef hs lcode lalpha (uspec_run (s_init n) ops).
Proof. intros L. exact (@ObserveSpecLabelled.u_observe_history L). Qed.
Print Assumptions C02_all_observers.
Theorem C02_degree :
  forall (L : Type) (has_store : bool) (g : (@dgraph L)) (v : nat) (twice : bool), InvU has_store g -> v < size g -> u_degree g v twice = Val (udegree g twice v).
Proof. intros L. exact (@UndirectedUsers.u_degree_val L). Qed.
Print Assumptions C02_degree.
Theorem C02_adjacency_matrix :
  forall (L : Type) (has_store : bool) (g : (@dgraph L)) (twice : bool),
        InvU has_store g -> u_adjacency_matrix g twice = Val (map (fun i : nat => map (fun j : nat => ucell g twice i j) (seq 0 (size g))) (seq 0 (size g))).
Proof. intros L. exact (@UndirectedUsers.u_adjacency_matrix_val L). Qed.
Print Assumptions C02_adjacency_matrix.
Theorem C02_adjacency_matrix_symmetric :
  forall (L : Type) (has_store : bool) (g : (@dgraph L)) (twice : bool) (M : list (list nat)),
        InvU has_store g -> u_adjacency_matrix g twice = Val M -> forall i j : nat, nth j (nth i M []) 0 = nth i (nth j M []) 0.
Proof. intros L. exact (@UndirectedUsers.u_adjacency_matrix_symmetric L). Qed.
Print Assumptions C02_adjacency_matrix_symmetric.
