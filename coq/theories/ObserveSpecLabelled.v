(* The observation vectors of the LABELLED models (directed and undirected, any label type, with or without a label store) are the
   vectors the spec oracle computes:  observe ... repaired g = sobserve ... a  under  Rf g a  (+ the spec-side invariant SInv a),
   u_observe ... repaired g = sobserve_u ... a  under  RfU g a  (+ SInv a, Canon a).  Companion of ObserveSpec.v. *)
From BG Require Import Base DirectedModel DirectedProofs DirectedIter DirectedUsers DirectedSpec DirectedRefine DirectedObs Equality
  UndirectedModel UndirectedProofs UndirectedIter UndirectedSpec UndirectedRefine UndirectedObs UndirectedUsers MultiSpec ObserveSpec.
Local Open Scope Z_scope.
Local Arguments Z.of_nat : simpl never.

Lemma length_filter_nsum {A} (p : A -> bool) (l : list A) : length (filter p l) = fold_right Nat.add 0%nat (map (fun x => if p x then 1 else 0)%nat l).
Proof. induction l as [|x t IH]; [reflexivity|]. cbn [filter map fold_right]. destruct (p x); cbn [length]; rewrite IH; reflexivity. Qed.
Lemma cnt_snd_app es1 es2 j : cnt_snd (es1 ++ es2) j = (cnt_snd es1 j + cnt_snd es2 j)%nat.
Proof. unfold cnt_snd. rewrite filter_app, app_length. reflexivity. Qed.
Lemma cnt_snd_row x (l : list nat) j : cnt_snd (map (pair x) l) j = count j l.
Proof. unfold cnt_snd, count. induction l as [|y t IH]; [reflexivity|]. cbn [map filter snd]. rewrite (Nat.eqb_sym y j).
  destruct (Nat.eqb j y); cbn [length]; rewrite IH; reflexivity. Qed.
Lemma cnt_snd_flat_map (f : nat -> list nat) vs j : cnt_snd (flat_map (fun i => map (pair i) (f i)) vs) j = nsum (fun i => count j (f i)) vs.
Proof. unfold nsum. induction vs as [|x t IH]; [reflexivity|]. cbn [flat_map map fold_right]. rewrite cnt_snd_app, cnt_snd_row, IH. reflexivity. Qed.

Section Lab.
Context {L : Type}.
Variable leqb : L -> L -> bool.
Variable ldef : L.
Variable lcode : L -> Z.
Variable lalpha : list L.
Variable hs : bool.
Notation dgraph := (@dgraph L).
Notation sgraph := (@sgraph L).
Implicit Types (g : dgraph) (a : sgraph).

Lemma rfl_mem g a i j : Rf hs g a -> mem j (nb g i) = smem (i, j) a.
Proof. intros R. destruct (smem (i, j) a) eqn:X; [apply mem_In, (r_mem _ _ _ R); auto|apply mem_false; rewrite (r_mem _ _ _ R); congruence]. Qed.

(* neighbours of i, counted on the spec side *)
Lemma nb_perm_filter g (has : nat -> bool) i : NoDup (nb g i) -> (forall j, In j (nb g i) -> (j < size g)%nat) -> (forall j, mem j (nb g i) = has j) ->
  Permutation (nb g i) (filter has (seq 0 (size g))).
Proof. intros ND R M. apply NoDup_Permutation; auto; [apply NoDup_filter, seq_NoDup|].
  intros j. rewrite filter_In, in_seq, <- M, mem_In. split; [intros H; split; auto; apply R in H; lia|tauto]. Qed.

(* the label segments, pointwise *)
Lemma get_label_spec g a i j thr : Rf hs g a -> (i < size g)%nat -> (j < size g)%nat ->
  get_label ldef hs g i j thr =
  if hs then match lfind (i, j) (se a) with Some l => Val l | None => if thr then Raise InvalidArgument else Val ldef end else Val ldef.
Proof. intros R Hi Hj. unfold get_label, in_range. rewrite (proj2 (Nat.ltb_lt _ _) Hi), (proj2 (Nat.ltb_lt _ _) Hj). cbn [andb].
  destruct hs eqn:HS; [|reflexivity]. rewrite (r_lab _ _ _ R eq_refl). reflexivity. Qed.
Lemma has_edge_l_spec g a i j l : Rf hs g a -> (i < size g)%nat -> (j < size g)%nat ->
  has_edge_l leqb ldef hs g i j l = Val (match lfind (i, j) (se a) with Some l' => leqb (if hs then l' else ldef) l | None => false end).
Proof. intros R Hi Hj. unfold has_edge_l. rewrite (has_edge_val hs g i j (r_inv _ _ _ R) Hi Hj), (rfl_mem g a i j R), (get_label_spec g a i j false R Hi Hj).
  unfold smem. destruct (lfind (i, j) (se a)); [|reflexivity]. destruct hs; reflexivity. Qed.

Theorem observe_spec g a : Rf hs g a -> SInv a -> observe leqb ldef lcode lalpha hs repaired g = sobserve leqb ldef hs lcode lalpha a.
Proof.
  intros R SI. pose proof (r_inv _ _ _ R) as I. pose proof (r_size _ _ _ R) as S.
  pose proof (edge_number_is_cardinal leqb ldef hs g a R SI) as EN.
  assert (RG : forall i j, In j (nb g i) -> (j < size g)%nat) by (intros i j H; apply (i_rng _ _ I i j H)).
  assert (SO : forall i, length (nb g i) = sout a i).
  { intros i. unfold sout. rewrite <- S. apply Permutation_length, nb_perm_filter; [apply (i_nodup _ _ I)|apply RG|intros j; apply (rfl_mem g a i j R)]. }
  assert (SN : forall j, cnt_snd (flatten g) j = sin a j).
  { intros j. unfold sin, flatten, rows_from, row. rewrite cnt_snd_flat_map, length_filter_nsum, <- S. apply nsum_ext. intros i _.
    rewrite (count_nodup j _ (i_nodup _ _ I i)), (rfl_mem g a i j R). reflexivity. }
  unfold observe, sobserve. cbv beta zeta. rewrite <- S.
  apply cons_eq; [rewrite EN; reflexivity|].
  apply cons_eq. { apply map_ext_in. intros [i j] He. apply In_pairs in He as [Hi Hj]. cbn [fst snd] in *.
    rewrite (has_edge_val hs g i j I Hi Hj), (rfl_mem g a i j R). reflexivity. }
  apply cons_eq. { apply flat_map_ext_in'. intros i Hi. apply in_seq in Hi. unfold out_degree. rewrite (out_nb g i (i_len _ _ I)) by lia.
    cbn [omap obind zvec zout]. apply cons_eq; [rewrite SO; reflexivity|]. rewrite map_map. apply map_ext. intros j.
    rewrite (count_nodup j _ (i_nodup _ _ I i)), (rfl_mem g a i j R). reflexivity. }
  apply cons_eq. { apply flat_map_ext_in'. intros [i j] He. apply In_pairs in He as [Hi Hj]. cbn [fst snd] in *.
    rewrite !(get_label_spec g a i j _ R Hi Hj). destruct hs; [|reflexivity]. destruct (lfind (i, j) (se a)); reflexivity. }
  apply cons_eq. { apply flat_map_ext_in'. intros [i j] He. apply In_pairs in He as [Hi Hj]. cbn [fst snd] in *.
    apply map_ext. intros l. rewrite (has_edge_l_spec g a i j l R Hi Hj). reflexivity. }
  apply cons_eq. { rewrite (in_degrees_val hs g I), (out_degrees_val hs g I). cbn [zvec]. rewrite !map_map.
    apply app_eq; [apply map_ext; intros j; rewrite SN; reflexivity|].
    apply app_eq; [apply map_seq_ext; intros j Hj; rewrite (in_degree_val hs g j I Hj), SN; reflexivity|].
    apply map_ext. intros i. rewrite SO. reflexivity. }
  apply cons_eq. { rewrite (adjacency_matrix_val hs g I). rewrite (concat_rows (fun i j => cnt_edge (flatten g) (i, j))), map_map.
    apply map_ext. intros [i j]. cbn [fst snd]. rewrite (cnt_edge_flatten hs g i j I), (rfl_mem g a i j R). reflexivity. }
  apply cons_eq. { rewrite (iterate_flatten g (i_len _ _ I)). apply cons_eq.
    - unfold zn. rewrite (length_flatten hs g I), <- (i_enum _ _ I). exact EN.
    - apply map_ext. intros [i j]. change (length (filter (edge_eqb (i, j)) (flatten g))) with (cnt_edge (flatten g) (i, j)).
      rewrite (cnt_edge_flatten hs g i j I), (rfl_mem g a i j R). reflexivity. }
  apply cons_eq; [|reflexivity]. apply (seg_iter g (length (se a)) (i_len _ _ I)), (flatten_nil_d hs g _ I EN).
Qed.

(* ---- undirected ---- *)
Lemma rflu_mem g a i j : RfU hs g a -> mem j (nb g i) = umem a i j.
Proof. apply mem_umem. Qed.
Lemma okey_in_range i j n : (i < n)%nat -> (j < n)%nat -> (fst (ordered i j) < n)%nat /\ (snd (ordered i j) < n)%nat.
Proof. intros Hi Hj. destruct (ordered_cases i j) as [[-> _]|[-> _]]; cbn [fst snd]; auto. Qed.
Lemma u_get_label_spec g a i j thr : RfU hs g a -> (i < size g)%nat -> (j < size g)%nat ->
  u_get_label ldef hs g i j thr =
  if hs then match lfind (okey i j) (se a) with Some l => Val l | None => if thr then Raise InvalidArgument else Val ldef end else Val ldef.
Proof. intros R Hi Hj. unfold u_get_label, get_label, in_range, okey. destruct (okey_in_range i j (size g) Hi Hj) as [A B].
  rewrite (proj2 (Nat.ltb_lt _ _) A), (proj2 (Nat.ltb_lt _ _) B). cbn [andb].
  destruct hs eqn:HS; [|reflexivity]. rewrite <- surjective_pairing, (ru_lab _ _ _ R eq_refl). reflexivity. Qed.
Lemma u_has_edge_l_spec g a i j l : RfU hs g a -> (i < size g)%nat -> (j < size g)%nat ->
  u_has_edge_l leqb ldef hs g i j l = Val (match lfind (okey i j) (se a) with Some l' => leqb (if hs then l' else ldef) l | None => false end).
Proof. intros R Hi Hj. unfold u_has_edge_l. rewrite (u_has_edge_val hs g i j (ru_inv _ _ _ R) Hi Hj), (rflu_mem g a i j R), (u_get_label_spec g a i j false R Hi Hj).
  unfold umem, smem. destruct (lfind (okey i j) (se a)); [|reflexivity]. destruct hs; reflexivity. Qed.

Theorem u_observe_spec g a : RfU hs g a -> SInv a -> Canon a -> u_observe leqb ldef lcode lalpha hs repaired g = sobserve_u leqb ldef hs lcode lalpha a.
Proof.
  intros R SI CN. pose proof (ru_inv _ _ _ R) as I. pose proof (ru_size _ _ _ R) as S.
  pose proof (u_edge_number_is_cardinal leqb ldef hs g a R SI CN) as EN.
  assert (MH : forall i j, mem j (nb g i) = umem a i j) by (intros i j; apply (rflu_mem g a i j R)).
  assert (ML : forall i j, (i <= j)%nat -> mem j (nb g i) = smem (i, j) a).
  { intros i j Le. rewrite MH. unfold umem, okey. pose proof (ordered_fst_snd (i, j) Le) as OE. cbn [fst snd] in OE. rewrite OE. reflexivity. }
  assert (UD : forall tw v, (v < size g)%nat -> u_degree g v tw = Val (udeg a tw v)).
  { intros tw v Hv. apply (UndirectedObs.u_degree_val leqb ldef hs g a v tw R). rewrite <- S. exact Hv. }
  assert (CE : forall tw i j, zn (ucell g tw i j) = zn (if umem a i j then (if Nat.eqb i j && tw then 2 else 1) else 0)%nat).
  { intros tw i j. unfold ucell, loopw. rewrite MH. reflexivity. }
  unfold u_observe, sobserve_u. cbv beta zeta. rewrite <- S.
  apply cons_eq; [rewrite EN; reflexivity|].
  apply cons_eq. { apply (map_pairs_ext (fun i j => zout zbool (u_has_edge g i j)) (fun i j => zbool (umem a i j))).
    intros i j Hi Hj. rewrite (u_has_edge_val hs g i j I Hi Hj), MH. reflexivity. }
  apply cons_eq. { apply flat_map_ext_in'. intros i Hi. apply in_seq in Hi. rewrite (out_nb g i (u_len _ _ I)) by lia.
    cbn [omap obind zvec]. rewrite map_map. apply map_ext. intros j. rewrite (count_nodup j _ (u_nodup _ _ I i)), MH. reflexivity. }
  apply cons_eq. { apply (flat_map_pairs_ext (fun i j => [zout lcode (u_get_label ldef hs g i j false); zout (fun _ => 1) (u_get_label ldef hs g i j true)])
      (fun i j => if hs then match lfind (okey i j) (se a) with Some l => [lcode l; 1] | None => [lcode ldef; zexn InvalidArgument] end else [lcode ldef; 1])).
    intros i j Hi Hj. rewrite !(u_get_label_spec g a i j _ R Hi Hj). destruct hs; [|reflexivity]. destruct (lfind (okey i j) (se a)); reflexivity. }
  apply cons_eq. { apply (flat_map_pairs_ext (fun i j => map (fun l => zout zbool (u_has_edge_l leqb ldef hs g i j l)) lalpha)
      (fun i j => map (fun l => zbool (match lfind (okey i j) (se a) with Some l' => leqb (if hs then l' else ldef) l | None => false end)) lalpha)).
    intros i j Hi Hj. apply map_ext. intros l. rewrite (u_has_edge_l_spec g a i j l R Hi Hj). reflexivity. }
  apply cons_eq. {
    assert (DV : forall tw, u_degrees g tw = Val (map (udeg a tw) (seq 0 (size g)))).
    { intros tw. unfold u_degrees. apply omapM_val. intros i Hi. apply in_seq in Hi. apply UD. lia. }
    rewrite !DV. cbn [zvec]. rewrite !map_map.
    apply app_eq; [apply map_seq_ext; intros i Hi; rewrite (UD true i Hi); reflexivity|].
    apply app_eq; [apply map_seq_ext; intros i Hi; rewrite (UD false i Hi); reflexivity|]. reflexivity. }
  apply cons_eq. { cbn [flat_map]. rewrite !app_nil_r, !(u_adjacency_matrix_val hs g _ I).
    rewrite (concat_rows (fun i j => ucell g true i j)), (concat_rows (fun i j => ucell g false i j)), !map_map.
    apply app_eq.
    - apply (map_pairs_ext (fun i j => zn (ucell g true i j)) (fun i j => zn (if umem a i j then (if Nat.eqb i j && true then 2 else 1) else 0)%nat)). intros i j _ _. apply CE.
    - apply (map_pairs_ext (fun i j => zn (ucell g false i j)) (fun i j => zn (if umem a i j then (if Nat.eqb i j && false then 2 else 1) else 0)%nat)). intros i j _ _. apply CE. }
  apply cons_eq. { rewrite (u_iterate_flatten hs g I). apply cons_eq.
    - unfold zn. rewrite (length_filter_up_flatten g (u_len _ _ I)), <- (u_enum _ _ I). exact EN.
    - apply map_ext. intros [i j]. rewrite filter_filter_len. unfold up. cbn [fst snd]. destruct (Nat.leb_spec i j) as [Le|Gt]; cbn [andb]; [|reflexivity].
      rewrite <- (ML i j Le). rewrite (cnt_edge_flatten_gen g i j); [reflexivity|apply (u_nodup _ _ I)|]. intros i' j' H. apply (u_rng _ _ I i' j' H). }
  apply cons_eq; [|reflexivity]. apply (seg_iter g (length (se a)) (u_len _ _ I)), (flatten_nil_u hs g _ I EN).
Qed.

(* ---- after every valid history ---- *)
Theorem observe_history (n : nat) (ops : list (@dop L)) : valid_history (s_init n) ops = true ->
  exists g, run hs repaired (init n) ops = (g, Done) /\
    observe leqb ldef lcode lalpha hs repaired g = sobserve leqb ldef hs lcode lalpha (spec_run (s_init n) ops).
Proof.
  intros Vd. pose proof (run_refines hs ops (init n) (s_init n) (init_refines hs n) Vd) as H.
  destruct (run hs repaired (init n) ops) as [g r]. destruct H as [-> R]. exists g; split; [reflexivity|].
  apply observe_spec; [exact R|]. apply (SInv_run leqb ldef ops _ (SInv_init n) Vd).
Qed.
Theorem u_observe_history (n : nat) (ops : list (@uop L)) : uvalid_history (s_init n) ops = true ->
  exists g, urun hs repaired (init n) ops = (g, Done) /\
    u_observe leqb ldef lcode lalpha hs repaired g = sobserve_u leqb ldef hs lcode lalpha (uspec_run (s_init n) ops).
Proof.
  intros Vd. pose proof (urun_refines hs ops (init n) (s_init n) (u_init_refines hs n) Vd) as H.
  destruct (urun hs repaired (init n) ops) as [g r]. destruct H as [-> R]. exists g; split; [reflexivity|].
  apply u_observe_spec; [exact R|apply (SInv_urun leqb ldef ops _ (SInv_init n) Vd)|].
  apply Canon_run. intros e; unfold smem; cbn; discriminate.
Qed.
End Lab.

Print Assumptions observe_spec.
Print Assumptions u_observe_spec.
Print Assumptions observe_history.
Print Assumptions u_observe_history.
