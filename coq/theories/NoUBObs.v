(* C17, continued (B): every observer of the six class models is defined (never Undef).  One `safe (observer ...)` lemma per observer.
   Most need only LenOK (adjacency vector of getSize() lists).  Three need more: getInDegrees, getAdjacencyMatrix (directed) and
   getAdjacencyMatrix (undirected) index a result vector with the stored NEIGHBOUR, unchecked; they are defined on WF states (LenOK and
   every stored neighbour < getSize(), an invariant of every call: NoUBWF.v), and closed examples show LenOK alone is not enough. *)
From Coq Require Import List Arith ZArith Lia Bool.
From BG Require Import Base DirectedModel DirectedProofs DirectedIter UndirectedModel UndirectedProofs UndirectedIter MultiModel WeightedModel TextProofs NoUB NoUBMore NoUBWF.
Import ListNotations.
Local Open Scope nat_scope.

(* ---- outcome plumbing ---- *)
Definition good {A} (P : A -> Prop) (o : outcome A) : Prop := match o with Val a => P a | Raise _ => True | Undef _ => False end.
Lemma good_safe {A} (P : A -> Prop) (o : outcome A) : good P o -> safe o.
Proof. destruct o; cbn; auto. Qed.
Lemma safe_good {A} (o : outcome A) : safe o -> good (fun _ => True) o.
Proof. destruct o; cbn; auto. Qed.
Lemma good_weaken {A} (P Q : A -> Prop) (o : outcome A) : (forall a, P a -> Q a) -> good P o -> good Q o.
Proof. destruct o; cbn; auto. Qed.
Lemma good_obind {A B} (P : A -> Prop) (Q : B -> Prop) (o : outcome A) (f : A -> outcome B) : good P o -> (forall a, P a -> good Q (f a)) -> good Q (obind o f).
Proof. destruct o; cbn; auto. Qed.
Lemma good_val {A} (P : A -> Prop) (o : outcome A) : good P o -> forall a, o = Val a -> P a.
Proof. intros H a ->. exact H. Qed.
Lemma good_fold {A B} (P : A -> Prop) (f : A -> B -> outcome A) (l : list B) :
  (forall a b, P a -> In b l -> good P (f a b)) -> forall o, good P o -> good P (fold_left (fun acc b => obind acc (fun a => f a b)) l o).
Proof. induction l as [|b t IH]; intros Hf o H; cbn [fold_left]; auto. apply IH; [intros; apply Hf; cbn; auto|].
  apply (good_obind P P); auto. intros a Ha. apply Hf; cbn; auto. Qed.
Lemma good_omapM {A B} (Q : B -> Prop) (f : A -> outcome B) (l : list A) : (forall x, In x l -> good Q (f x)) -> good (Forall Q) (omapM f l).
Proof. induction l as [|x t IH]; intros Hf; cbn [omapM]; [constructor|].
  apply (good_obind Q (Forall Q)); [apply Hf; cbn; auto|]. intros y Hy. apply (good_obind (Forall Q) (Forall Q)); [apply IH; intros; apply Hf; cbn; auto|].
  intros ys Hys. cbn. constructor; auto. Qed.
Lemma safe_omap {A B} (f : A -> B) (o : outcome A) : safe o -> safe (omap f o).
Proof. destruct o; cbn; auto. Qed.
Lemma safe_omapM {A B} (f : A -> outcome B) (l : list A) : (forall x, In x l -> safe (f x)) -> safe (omapM f l).
Proof. intros H. apply (good_safe (Forall (fun _ => True))). apply good_omapM. intros x Hx. apply safe_good; auto. Qed.
Lemma Forall_upd {A} (P : A -> Prop) i f (l : list A) : Forall P l -> (forall x, P x -> P (f x)) -> Forall P (upd i f l).
Proof. intros H Hf. revert i. induction H as [|x t Hx Ht IH]; intros [|i]; cbn [upd]; constructor; auto. Qed.

(* ++vec[v] *)
Lemma bump_some v : forall l, v < length l -> exists l', bump v l = Some l' /\ length l' = length l.
Proof. induction v as [|v IH]; intros [|x t] H; cbn [length] in H; try lia; cbn [bump].
  - eexists; split; [reflexivity|reflexivity].
  - destruct (IH t) as [l' [E Ln]]; [lia|]. rewrite E. cbn. eexists; split; [reflexivity|]. cbn. lia. Qed.

Section DObs.
Context {L : Type}.
Variable leqb : L -> L -> bool.
Variable ldef : L.
Variable hs : bool.
Notation dgraph := (@dgraph L).
Implicit Types g h : dgraph.

Lemma In_flatten_rng g e : RngOK g -> In e (flatten g) -> fst e < size g /\ snd e < size g.
Proof. intros R Hin. unfold flatten, rows_from in Hin. apply in_flat_map in Hin as [i [Hi Hr]]. apply in_seq in Hi. unfold row in Hr. apply in_map_iff in Hr as [j [<- Hj]].
  cbn [fst snd]. split; [lia|]. unfold nb in Hj. exact (RngOK_In g R i j Hj). Qed.

(* ---- LabeledDirectedGraph ---- *)
Lemma out_degree_fine g v : LenOK g -> safe (out_degree g v).
Proof. intros H. unfold out_degree. pose proof (out_neighbours_fine g v H) as F. destruct (out_neighbours g v); cbn in *; auto. Qed.
Lemma get_label_fine g s d thr : safe (get_label ldef hs g s d thr).
Proof. unfold get_label. destruct (in_range g s && in_range g d); [|exact I]. destruct hs; [|exact I]. destruct (lfind (s, d) (labels g)); [exact I|]. destruct thr; exact I. Qed.
Lemma get_label_val_rng g s d thr l : get_label ldef hs g s d thr = Val l -> s < size g /\ d < size g.
Proof. unfold get_label, in_range. destruct (Nat.ltb_spec s (size g)); cbn [andb]; [|discriminate]. destruct (Nat.ltb_spec d (size g)); cbn [andb]; [|discriminate]. auto. Qed.
Lemma has_edge_l_fine g s d l : LenOK g -> safe (has_edge_l leqb ldef hs g s d l).
Proof. intros H. unfold has_edge_l. pose proof (has_edge_fine g s d H) as F. destruct (has_edge g s d) as [[|]|e|k]; cbn in *; auto.
  pose proof (get_label_fine g s d false) as G. destruct (get_label ldef hs g s d false); cbn in *; auto. Qed.
Lemma out_degrees_fine g : LenOK g -> safe (out_degrees g).
Proof. intros H. unfold out_degrees. apply safe_omapM. intros; apply out_degree_fine; auto. Qed.
Lemma in_degree_fine g v : LenOK g -> safe (in_degree V g v).
Proof. intros H. unfold in_degree. destruct (in_range g v); [|exact I]. apply safe_omap. apply iterate_fine; auto. Qed.
Lemma in_degrees_of_fine n (es : list edge) : (forall e, In e es -> snd e < n) -> safe (in_degrees_of n es).
Proof. intros R. unfold in_degrees_of. apply (good_safe (fun d : list nat => length d = n)).
  apply (good_fold (fun d : list nat => length d = n) (fun d (e : edge) => match bump (snd e) d with Some d' => Val d' | None => Undef IndexOOB end)).
  - intros d e Hd He. destruct (bump_some (snd e) d) as [d' [E Ln]]; [rewrite Hd; apply R; auto|]. rewrite E. cbn. lia.
  - cbn. apply repeat_length. Qed.
Theorem in_degrees_fine g : WF g -> safe (in_degrees V g).
Proof. intros [H R]. unfold in_degrees. rewrite (iterate_flatten g H). cbn [obind]. apply in_degrees_of_fine. intros e He. apply (In_flatten_rng g e R He). Qed.
Definition Mat {A} (n : nat) (m : list (list A)) : Prop := length m = n /\ Forall (fun r => length r = n) m.
Lemma matrix_of_fine n (es : list edge) : (forall e, In e es -> fst e < n /\ snd e < n) -> safe (matrix_of n es).
Proof. intros R. unfold matrix_of. apply (good_safe (@Mat nat n)).
  apply (good_fold (@Mat nat n) (fun m (e : edge) => match bump2 (fst e) (snd e) m with Some m' => Val m' | None => Undef IndexOOB end)).
  - intros m e [Lm Fm] He. destruct (R e He) as [Hi Hj]. unfold bump2.
    assert (Hi' : fst e < length m) by lia. rewrite (nth_error_nth' m [] Hi').
    assert (Lr : length (nth (fst e) m []) = n) by (apply (proj1 (Forall_forall _ _) Fm); apply nth_In; auto).
    destruct (bump_some (snd e) (nth (fst e) m [])) as [r' [E Ln]]; [lia|]. rewrite E. cbn. split; [rewrite upd_length; auto|].
    apply Forall_upd; auto. intros _ _. lia.
  - cbn. split; [apply repeat_length|]. apply Forall_forall. intros r Hr. apply repeat_spec in Hr. subst r. apply repeat_length. Qed.
Theorem adjacency_matrix_fine g : WF g -> safe (adjacency_matrix V g).
Proof. intros [H R]. unfold adjacency_matrix. rewrite (iterate_flatten g H). cbn [obind]. apply matrix_of_fine. intros e He. apply (In_flatten_rng g e R He). Qed.
Lemma edges_begin_fine g : LenOK g -> safe (edges_begin V g).
Proof. intros H. destruct (begin_is_end_iff_no_edge g H) as [b [e [-> _]]]. exact I. Qed.
Lemma edges_end_fine g : LenOK g -> safe (edges_end V g).
Proof. intros H. destruct (begin_is_end_iff_no_edge g H) as [b [e [_ [-> _]]]]. exact I. Qed.
(* operator== *)
Lemma all_edges_in_fine h i l : LenOK h -> safe (all_edges_in h i l).
Proof. intros H. induction l as [|j t IH]; cbn [all_edges_in]; [exact I|]. pose proof (has_edge_fine h i j H) as F. destruct (has_edge h i j) as [[|]|e|k]; cbn in *; auto. Qed.
Lemma eq_rows_fine g h is : LenOK g -> LenOK h -> size g = size h -> (forall i, In i is -> i < size g) -> safe (eq_rows g h is).
Proof. intros Hg Hh E. induction is as [|i t IH]; intros R; cbn [eq_rows]; [exact I|].
  assert (Hi : i < size g) by (apply R; cbn; auto). assert (Hi1 : i < length (adj g)) by (rewrite Hg; auto). assert (Hi2 : i < length (adj h)) by (rewrite Hh; lia).
  rewrite (nth_error_nth' _ [] Hi1), (nth_error_nth' _ [] Hi2).
  pose proof (all_edges_in_fine h i (nth i (adj g) []) Hh) as F1. destruct (all_edges_in h i (nth i (adj g) [])) as [[|]|e|k]; cbn in *; auto.
  pose proof (all_edges_in_fine g i (nth i (adj h) []) Hg) as F2. destruct (all_edges_in g i (nth i (adj h) [])) as [[|]|e|k]; cbn in *; auto.
Qed.
Theorem graph_eqb_fine g h : LenOK g -> LenOK h -> safe (graph_eqb leqb g h).
Proof. intros Hg Hh. unfold graph_eqb. destruct (Nat.eqb_spec (size g) (size h)) as [E|]; cbn [andb]; [|exact I].
  destruct (Z.eqb (enum g) (enum h) && lmap_eqb leqb (labels g) (labels h)); [|exact I].
  apply eq_rows_fine; auto. intros i Hi. apply in_seq in Hi. lia. Qed.

(* ---- LabeledUndirectedGraph ---- *)
Lemma u_get_label_fine g a b thr : safe (u_get_label ldef hs g a b thr).
Proof. unfold u_get_label. apply get_label_fine. Qed.
Lemma u_get_label_val_rng g a b thr l : u_get_label ldef hs g a b thr = Val l -> a < size g /\ b < size g.
Proof. unfold u_get_label. intros E. destruct (ordered_cases a b) as [[Eo _]|[Eo _]]; rewrite Eo in E; cbn [fst snd] in E; apply get_label_val_rng in E; destruct E as [E1 E2]; split; assumption. Qed.
Lemma u_has_edge_l_fine g a b l : LenOK g -> safe (u_has_edge_l leqb ldef hs g a b l).
Proof. intros H. unfold u_has_edge_l. pose proof (u_has_edge_fine g a b H) as F. destruct (u_has_edge g a b) as [[|]|e|k]; cbn in *; auto.
  pose proof (u_get_label_fine g a b false) as G. destruct (u_get_label ldef hs g a b false); cbn in *; auto. Qed.
Lemma u_degree_fine g v tw : LenOK g -> safe (u_degree g v tw).
Proof. intros H. unfold u_degree. pose proof (out_neighbours_fine g v H) as F. destruct (out_neighbours g v); cbn in *; auto. Qed.
Lemma u_degrees_fine g tw : LenOK g -> safe (u_degrees g tw).
Proof. intros H. unfold u_degrees. apply safe_omapM. intros; apply u_degree_fine; auto. Qed.
Lemma u_matrix_row_fine i n tw (l : list nat) : (forall j, In j l -> j < n) -> safe (u_matrix_row i n tw l).
Proof. intros R. unfold u_matrix_row. apply (good_safe (fun row : list nat => length row = n)).
  apply (good_fold (fun row : list nat => length row = n) (fun row j => match nth_error row j with None => Undef IndexOOB
      | Some x => Val (upd j (fun _ => (x + (if Nat.eqb i j && tw then 2 else 1))%nat) row) end)).
  - intros row j Hr Hj. assert (Hj' : j < length row) by (rewrite Hr; apply R; auto). rewrite (nth_error_nth' row 0 Hj'). cbn. rewrite upd_length; auto.
  - cbn. apply repeat_length. Qed.
Theorem u_adjacency_matrix_fine g tw : WF g -> safe (u_adjacency_matrix g tw).
Proof. intros [H R]. unfold u_adjacency_matrix. apply safe_omapM. intros i Hi. apply in_seq in Hi. rewrite (out_nb g i H) by lia. cbn [obind].
  apply u_matrix_row_fine. intros j Hj. exact (RngOK_In g R i j Hj). Qed.

(* edges() of the undirected classes: defined on every LenOK state (no symmetry needed) *)
Lemma rest_le_flatten g v p : v < size g -> p <= length (nb g v) -> length (rest g v p) <= length (flatten g).
Proof. intros Hv Hp. unfold rest, flatten, rows_from. rewrite app_length, skipn_length, row_length.
  replace (size g) with (v + (1 + (size g - S v))) at 2 by lia. rewrite !seq_app, !flat_map_app, !app_length. cbn [seq flat_map].
  rewrite app_nil_r, row_length. replace (0 + v + 1) with (S v) by lia. replace (0 + v) with v by lia. lia. Qed.
Lemma u_iter_loop_safe g : LenOK g -> 0 < size g ->
  forall fuel v p, v < size g -> p <= length (nb g v) -> (p = length (nb g v) -> v = end_vertex g) -> length (rest g v p) < fuel ->
  exists es, iter_loop u_cursor_next fuel g {| cv := v; cpos := p |} {| cv := end_vertex g; cpos := length (nb g (end_vertex g)) |} = Val es.
Proof.
  intros E Hn. induction fuel as [|f IH]; intros v p Hv Hp Hend Hf; [lia|].
  cbn [iter_loop]. unfold cursor_eqb; cbn [cv cpos].
  destruct (Nat.eqb_spec p (length (nb g v))) as [Ep|Np].
  - pose proof (Hend Ep) as ->. rewrite Nat.eqb_refl, Ep, Nat.eqb_refl. cbn [andb]. eexists; reflexivity.
  - assert (Hlt : p < length (nb g v)) by lia.
    assert (andb (Nat.eqb v (end_vertex g)) (Nat.eqb p (length (nb g (end_vertex g)))) = false) as ->.
    { destruct (Nat.eqb_spec v (end_vertex g)) as [->|]; cbn [andb]; auto. apply Nat.eqb_neq; auto. }
    rewrite (deref_spec g v p E Hv Hlt); cbn [obind].
    change (u_cursor_next g {| cv := v; cpos := p |}) with (u_next_loop (entries g) g {| cv := v; cpos := p |}).
    assert (Hrl : length (rest g v (S p)) <= entries g) by (rewrite <- (entries_rest g E); apply rest_le_flatten; auto).
    destruct (u_next_spec g E (entries g) v p Hv Hlt Hrl) as [c [Hc [H1 [H2 [H3 [H4 [H5 H6]]]]]]].
    rewrite Hc; cbn [obind]. rewrite (rest_cons g v p Hlt) in Hf. cbn [length] in Hf.
    destruct c as [cv' cp']; cbn [cv cpos] in *. destruct (IH cv' cp') as [es Ees]; auto; [lia|].
    rewrite Ees. cbn [obind]. eexists; reflexivity.
Qed.
Theorem u_iterate_fine g : LenOK g -> safe (u_iterate V g).
Proof.
  intros E. unfold u_iterate, edges_begin, edges_end. cbn [v_edges0 repaired andb].
  destruct (Nat.eqb_spec (size g) 0) as [Z0|NZ]; [cbn [obind iter_loop]; unfold cursor_eqb; cbn; exact I|].
  assert (Hn : 0 < size g) by lia.
  destruct (skip_empty_spec g E (size g) 0 0 Hn (Nat.le_0_l _)) as [c [Hc [H1 [H2 [H3 H4]]]]]; [lia|].
  rewrite Hc; cbn [obind]. rewrite (out_nb g (end_vertex g) E) by (unfold end_vertex; lia). cbn [obind].
  rewrite rest_0, Nat.sub_0_r in H3 by auto. fold (flatten g) in H3.
  destruct c as [cv' cp']; cbn [cv cpos] in *.
  destruct (u_iter_loop_safe g E Hn (S (entries g)) cv' cp') as [es Ees]; auto; [rewrite H3, entries_rest; auto|].
  rewrite Ees. exact I.
Qed.
End DObs.

(* LenOK alone does not make the three enumerating observers defined: a state with a stored neighbour >= getSize() (unreachable through
   the repaired API, see NoUBWF) *)
Definition bad_state : @dgraph nat := {| adj := [[5]]; size := 1; enum := 1; labels := [] |}.
Example enumerating_observers_need_range : LenOK bad_state /\ in_degrees V bad_state = Undef IndexOOB /\ adjacency_matrix V bad_state = Undef IndexOOB
  /\ u_adjacency_matrix bad_state true = Undef IndexOOB.
Proof. vm_compute. auto. Qed.

(* ================= multigraph / weighted observers ================= *)
Lemma dm_get_multiplicity_fine m s d : safe (dm_get_multiplicity m s d).
Proof. unfold dm_get_multiplicity. destruct (dm_in2 m s d); exact I. Qed.
Lemma dm_get_multiplicity_val_rng m s d k : dm_get_multiplicity m s d = Val k -> s < size (mg m) /\ d < size (mg m).
Proof. unfold dm_get_multiplicity. destruct (dm_in2 m s d) eqn:R; [|discriminate]. intros _. apply in2_lt; auto. Qed.
Lemma dm_out_degree_fine m v : LenOK (mg m) -> safe (dm_out_degree m v).
Proof. intros H. unfold dm_out_degree. pose proof (out_neighbours_fine (mg m) v H) as F. destruct (out_neighbours (mg m) v) as [l|e|k]; cbn [obind safe] in *; auto.
  apply safe_omap. apply safe_omapM. intros; apply dm_get_multiplicity_fine. Qed.
Lemma dm_weighted_degrees_fine m (key : edge -> nat) thr : (forall e, key e = fst e \/ key e = snd e) -> LenOK (mg m) -> safe (dm_weighted_degrees V m key thr).
Proof. intros K H. unfold dm_weighted_degrees. rewrite (iterate_flatten (mg m) H). cbn [obind].
  apply (good_safe (fun d : list Z => length d = size (mg m))).
  apply (good_fold (fun d : list Z => length d = size (mg m)) (fun d (e : edge) =>
     obind (if thr then get_label 0%Z true (mg m) (fst e) (snd e) true else dm_get_multiplicity m (fst e) (snd e)) (fun k =>
       match nth_error d (key e) with None => Undef IndexOOB | Some x => Val (upd (key e) (fun _ => (x + k)%Z) d) end))).
  - intros d e Hd _.
    assert (G : good (fun _ : Z => fst e < size (mg m) /\ snd e < size (mg m)) (if thr then get_label 0%Z true (mg m) (fst e) (snd e) true else dm_get_multiplicity m (fst e) (snd e))).
    { destruct thr.
      - pose proof (get_label_fine 0%Z true (mg m) (fst e) (snd e) true) as F. destruct (get_label 0%Z true (mg m) (fst e) (snd e) true) eqn:E; cbn in *; auto.
        eapply get_label_val_rng; eauto.
      - pose proof (dm_get_multiplicity_fine m (fst e) (snd e)) as F. destruct (dm_get_multiplicity m (fst e) (snd e)) eqn:E; cbn in *; auto.
        eapply dm_get_multiplicity_val_rng; eauto. }
    eapply good_obind; [exact G|]. intros k [R1 R2]. cbn beta.
    assert (Hk : key e < length d) by (rewrite Hd; destruct (K e) as [-> | ->]; auto). rewrite (nth_error_nth' d 0%Z Hk). cbn. rewrite upd_length; auto.
  - cbn. apply repeat_length. Qed.
Lemma dm_out_degrees_fine m : LenOK (mg m) -> safe (dm_out_degrees V m).
Proof. apply dm_weighted_degrees_fine. auto. Qed.
Lemma dm_in_degrees_fine m : LenOK (mg m) -> safe (dm_in_degrees V m).
Proof. apply dm_weighted_degrees_fine. auto. Qed.
Lemma dm_in_degree_fine m v : LenOK (mg m) -> safe (dm_in_degree V m v).
Proof. intros H. unfold dm_in_degree. destruct (in_range (mg m) v); [|exact I]. rewrite (iterate_flatten (mg m) H). cbn [obind].
  apply (good_safe (fun _ : Z => True)).
  apply (good_fold (fun _ : Z => True) (fun d (e : edge) => if Nat.eqb (snd e) v then omap (fun k => (d + k)%Z) (get_label 0%Z true (mg m) (fst e) (snd e) true) else Val d)).
  - intros d e _ _. destruct (Nat.eqb (snd e) v); [|exact I]. apply safe_good. apply safe_omap. apply get_label_fine.
  - exact I. Qed.
Lemma m_matrix_row_fine n (w : nat -> outcome Z) (l : list nat) : (forall j, safe (w j)) -> (forall j k, w j = Val k -> j < n) -> safe (m_matrix_row n w l).
Proof. intros Sw Rw. unfold m_matrix_row. apply (good_safe (fun row : list Z => length row = n)).
  apply (good_fold (fun row : list Z => length row = n) (fun row j => obind (w j) (fun k => match nth_error row j with None => Undef IndexOOB
      | Some x => Val (upd j (fun _ => (x + k)%Z) row) end))).
  - intros row j Hr _. pose proof (Sw j) as F. destruct (w j) as [k|e|u] eqn:E; cbn [obind safe good] in *; auto.
    assert (Hj : j < length row) by (rewrite Hr; eapply Rw; eauto). rewrite (nth_error_nth' row 0%Z Hj). cbn. rewrite upd_length; auto.
  - cbn. apply repeat_length. Qed.
Lemma dm_adjacency_matrix_fine m : LenOK (mg m) -> safe (dm_adjacency_matrix m).
Proof. intros H. unfold dm_adjacency_matrix. apply safe_omapM. intros i Hi. apply in_seq in Hi. rewrite (out_nb (mg m) i H) by lia. cbn [obind].
  apply m_matrix_row_fine; [intros; apply dm_get_multiplicity_fine|]. intros j k E. apply dm_get_multiplicity_val_rng in E. tauto. Qed.

Lemma um_has_edge_fine m a b : LenOK (mg m) -> safe (um_has_edge m a b).
Proof. intros H. unfold um_has_edge. apply u_has_edge_fine; auto. Qed.
Lemma um_get_multiplicity_fine m a b : safe (um_get_multiplicity m a b).
Proof. unfold um_get_multiplicity. destruct (dm_in2 m a b); exact I. Qed.
Lemma um_degree_fine m v tw : LenOK (mg m) -> safe (um_degree m v tw).
Proof. intros H. unfold um_degree. pose proof (out_neighbours_fine (mg m) v H) as F. destruct (out_neighbours (mg m) v) as [l|e|k]; cbn [obind safe] in *; auto.
  apply safe_omap. apply safe_omapM. intros; apply safe_omap. apply um_get_multiplicity_fine. Qed.
Lemma um_degrees_fine m tw : LenOK (mg m) -> safe (um_degrees m tw).
Proof. intros H. unfold um_degrees. apply safe_omapM. intros; apply um_degree_fine; auto. Qed.
Lemma omap_val {A B} (f : A -> B) (o : outcome A) b : omap f o = Val b -> exists a, o = Val a.
Proof. destruct o; cbn; try discriminate. eauto. Qed.
Lemma um_adjacency_matrix_fine m tw : LenOK (mg m) -> safe (um_adjacency_matrix m tw).
Proof. intros H. unfold um_adjacency_matrix. apply safe_omapM. intros i Hi. apply in_seq in Hi. rewrite (out_nb (mg m) i H) by lia. cbn [obind].
  apply m_matrix_row_fine; [intros; apply safe_omap; apply u_get_label_fine|]. intros j k E. apply omap_val in E as [a E]. apply u_get_label_val_rng in E. tauto. Qed.

Lemma dw_get_weight_fine m s d thr : safe (dw_get_weight m s d thr).
Proof. unfold dw_get_weight. apply get_label_fine. Qed.
Lemma uw_get_weight_fine m a b thr : safe (uw_get_weight m a b thr).
Proof. unfold uw_get_weight. apply u_get_label_fine. Qed.
Lemma weight_matrix_fine (g : zgraph) (w : nat -> nat -> outcome Z) : LenOK g -> (forall i j, safe (w i j)) -> (forall i j k, w i j = Val k -> j < size g) ->
  safe (weight_matrix (size g) g w).
Proof. intros H Sw Rw. unfold weight_matrix. apply safe_omapM. intros i Hi. apply in_seq in Hi. rewrite (out_nb g i H) by lia. cbn [obind].
  apply (good_safe (fun row : list Z => length row = size g)).
  apply (good_fold (fun row : list Z => length row = size g) (fun row j => obind (w i j) (fun k => match nth_error row j with None => Undef IndexOOB
      | Some _ => Val (upd j (fun _ => k) row) end))).
  - intros row j Hr _. pose proof (Sw i j) as F. destruct (w i j) as [k|e|u] eqn:E; cbn [obind safe good] in *; auto.
    assert (Hj : j < length row) by (rewrite Hr; eapply Rw; eauto). rewrite (nth_error_nth' row 0%Z Hj). cbn. rewrite upd_length; auto.
  - cbn. apply repeat_length. Qed.
Lemma dw_weight_matrix_fine m : LenOK (mg m) -> safe (weight_matrix (size (mg m)) (mg m) (fun i j => dw_get_weight m i j true)).
Proof. intros H. apply weight_matrix_fine; auto; [intros; apply dw_get_weight_fine|]. intros i j k E. apply get_label_val_rng in E. tauto. Qed.
Lemma uw_weight_matrix_fine m : LenOK (mg m) -> safe (weight_matrix (size (mg m)) (mg m) (fun i j => uw_get_weight m i j true)).
Proof. intros H. apply weight_matrix_fine; auto; [intros; apply uw_get_weight_fine|]. intros i j k E. apply u_get_label_val_rng in E. tauto. Qed.
