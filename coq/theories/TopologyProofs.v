(* C10 (directed): getSubgraph returns exactly the induced subgraph with its labels; getSubgraphWithRemap returns its image under a
   one-to-one map of S onto 0..|S|-1 - for every duplicate-free enumeration order of S. *)
From BG Require Import Base DirectedModel DirectedProofs DirectedIter DirectedUsers DirectedSpec DirectedRefine DirectedObs Equality ConvProofs UndirectedModel TopologyModel.
Local Open Scope Z_scope.
Local Arguments Z.of_nat : simpl never.

Section TopoP.
Context {L : Type}.
Variable ldef : L.
Variable has_store : bool.
Notation dgraph := (@dgraph L).
Implicit Types g h : dgraph.
Notation Inv := (Inv has_store).
Notation V := repaired.
Notation ledge := (nat * nat * L)%type.
Notation add_all := (@ConvProofs.add_all L has_store).
Definition lab_of g (i j : nat) : L := match lfind (i, j) (labels g) with Some l => l | None => ldef end.
Definition row_edges g (so : list nat) (f : nat -> nat) (i : nat) : list ledge :=
  map (fun j => (f i, f j, lab_of g i j)) (filter (fun j => mem j so) (nb g i)).
Definition sub_edges g (so : list nat) (f : nat -> nat) (vs : list nat) : list ledge := flat_map (row_edges g so f) vs.

Lemma add_all_app es1 es2 o : add_all (es1 ++ es2) o = add_all es2 (add_all es1 o).
Proof. unfold ConvProofs.add_all. apply fold_left_app. Qed.
Lemma add_all_raise es e : add_all es (Raise e) = Raise e.
Proof. induction es; simpl; auto. Qed.
Lemma add_all_undef es k : add_all es (@Undef dgraph k) = Undef k.
Proof. induction es; simpl; auto. Qed.

(* the inner loop over one neighbour list *)
Lemma inner_loop g so f i : Inv g -> (i < size g)%nat -> forall (l : list nat) o, (forall j, In j l -> In j (nb g i)) ->
  fold_left (fun acc2 j => obind acc2 (fun h2 => if mem j so then obind (t_label ldef has_store false g i j) (fun lb => t_add has_store V false h2 (f i) (f j) lb) else Val h2)) l o
  = add_all (map (fun j => (f i, f j, lab_of g i j)) (filter (fun j => mem j so) l)) o.
Proof.
  intros I Hi. induction l as [|j t IH]; intros o R; cbn [fold_left filter map]; auto.
  rewrite IH by (intros; apply R; simpl; auto). destruct (mem j so) eqn:M; cbn [map].
  - unfold ConvProofs.add_all at 2. cbn [fold_left]. fold (add_all (map (fun j0 => (f i, f j0, lab_of g i j0)) (filter (fun j0 => mem j0 so) t))). f_equal.
    destruct o as [h| |]; cbn [obind]; auto. cbn [fst snd]. unfold t_label, t_add.
    pose proof (R j (or_introl eq_refl)) as Hin. pose proof (i_rng _ _ I _ _ Hin) as [_ Hj].
    unfold get_label. rewrite (proj2 (in_range_true g i) Hi), (proj2 (in_range_true g j) Hj). cbn [andb]. unfold lab_of.
    pose proof (i_lab _ _ I) as IL. destruct has_store; cbn [obind]; [|rewrite IL; reflexivity].
    destruct (lfind (i, j) (labels g)) eqn:FF; [reflexivity|]. exfalso. apply (proj2 (IL i j)) in Hin. congruence.
  - f_equal. destruct o; reflexivity.
Qed.
Lemma sub_loop_as_add_all g so f : Inv g -> forall vs h0, (forall i, In i vs -> (i < size g)%nat) ->
  sub_loop ldef has_store V false g so f h0 = sub_loop ldef has_store V false g so f h0 -> (* shape only *)
  fold_left (fun acc i => obind acc (fun h =>
    if in_range g i then obind (out_neighbours g i) (fun l =>
        fold_left (fun acc2 j => obind acc2 (fun h2 => if mem j so then obind (t_label ldef has_store false g i j) (fun lb => t_add has_store V false h2 (f i) (f j) lb) else Val h2)) l (Val h))
    else Raise OutOfRange)) vs (Val h0)
  = add_all (sub_edges g so f vs) (Val h0).
Proof.
  intros I vs. assert (G : forall vs o, (forall i, In i vs -> (i < size g)%nat) ->
    fold_left (fun acc i => obind acc (fun h =>
      if in_range g i then obind (out_neighbours g i) (fun l =>
        fold_left (fun acc2 j => obind acc2 (fun h2 => if mem j so then obind (t_label ldef has_store false g i j) (fun lb => t_add has_store V false h2 (f i) (f j) lb) else Val h2)) l (Val h))
      else Raise OutOfRange)) vs o = add_all (sub_edges g so f vs) o).
  { clear vs. induction vs as [|i t IH]; intros o R; cbn [fold_left sub_edges flat_map]; auto.
    rewrite IH by (intros; apply R; simpl; auto). fold (sub_edges g so f t). rewrite add_all_app. f_equal.
    pose proof (R i (or_introl eq_refl)) as Hi.
    destruct o as [h|e|k]; cbn [obind]; [|rewrite add_all_raise; auto|rewrite add_all_undef; auto].
    rewrite (proj2 (in_range_true g i) Hi), (out_nb g i (i_len _ _ I) Hi). cbn [obind].
    rewrite (inner_loop g so f i I Hi (nb g i) (Val h)) by auto. reflexivity. }
  intros h0 R _. apply G; auto.
Qed.

Lemma first_label_row g so f (inj : forall x y, In x so -> In y so -> f x = f y -> x = y) a b :
  In a so -> In b so -> forall vs, (forall i, In i vs -> In i so) -> NoDup vs -> Inv g ->
  first_label (f a) (f b) (sub_edges g so f vs) = if mem a vs && mem b (nb g a) then Some (lab_of g a b) else None.
Proof.
  intros Ha Hb vs SUB ND I. induction ND as [|i t Hi ND IH]; cbn [sub_edges flat_map mem existsb andb]; auto.
  fold (sub_edges g so f t).
  assert (ROW : forall l, (forall j, In j l -> In j (nb g i)) -> NoDup l ->
     forall rest, first_label (f a) (f b) (map (fun j => (f i, f j, lab_of g i j)) (filter (fun j => mem j so) l) ++ rest) =
       if Nat.eqb a i && mem b l then Some (lab_of g a b) else first_label (f a) (f b) rest).
  { induction l as [|j l' IHl]; intros Rl NDl rest; cbn [filter map app mem existsb]; [rewrite andb_false_r; auto|].
    inversion NDl; subst. destruct (mem j so) eqn:Mj; cbn [map app first_label].
    - destruct (Nat.eqb_spec (f i) (f a)) as [E1|N1]; cbn [andb].
      + assert (i = a) by (apply inj; auto; apply SUB; simpl; auto). subst i. rewrite Nat.eqb_refl. cbn [andb].
        destruct (Nat.eqb_spec (f j) (f b)) as [E2|N2].
        * assert (j = b) by (apply inj; auto; apply mem_In; auto). subst j. rewrite Nat.eqb_refl. reflexivity.
        * destruct (Nat.eqb_spec b j) as [->|]; [congruence|]. cbn [orb]. rewrite IHl by (auto; intros; apply Rl; simpl; auto). rewrite Nat.eqb_refl. reflexivity.
      + destruct (Nat.eqb_spec a i) as [->|]; [congruence|]. cbn [andb]. rewrite IHl by (auto; intros; apply Rl; simpl; auto).
        destruct (Nat.eqb_spec a i); [congruence|reflexivity].
    - rewrite IHl by (auto; intros; apply Rl; simpl; auto). destruct (Nat.eqb_spec a i) as [->|]; cbn [andb]; auto.
      destruct (Nat.eqb_spec b j) as [->|]; cbn [orb]; auto. apply mem_In in Hb. congruence. }
  unfold row_edges. rewrite ROW by (auto; apply (i_nodup _ _ I)). rewrite IH by (intros; apply SUB; simpl; auto).
  destruct (Nat.eqb_spec a i) as [->|Ne]; cbn [andb orb].
  - assert (mem i t = false) as -> by (apply mem_false; auto). cbn [andb orb]. destruct (mem b (nb g i)); reflexivity.
  - destruct (Nat.eqb_spec i a); [congruence|]. reflexivity.
Qed.

(* ---- the general statement: any map f that is one-to-one on S and lands in range of the target size ---- *)
Theorem sub_loop_spec g (so : list nat) (f : nat -> nat) (n' : nat) : Inv g -> NoDup so -> (forall i, In i so -> (i < size g)%nat) ->
  (forall x y, In x so -> In y so -> f x = f y -> x = y) -> (forall i, In i so -> (f i < n')%nat) ->
  exists h, sub_loop ldef has_store V false g so f (init n') = Val h /\ Inv h /\ size h = n' /\
    (forall a b, In b (nb h a) <-> exists i j, a = f i /\ b = f j /\ In i so /\ In j so /\ In j (nb g i)) /\
    (has_store = true -> forall i j, In i so -> In j so -> lfind (f i, f j) (labels h) = if mem j (nb g i) then lfind (i, j) (labels g) else None).
Proof.
  intros I ND R INJ RNG. unfold sub_loop. rewrite (sub_loop_as_add_all g so f I so (init n') R eq_refl).
  destruct (init_inv (L := L) has_store n') as [I0 K0].
  destruct (add_all_spec has_store (sub_edges g so f so) (init n') I0 K0) as [h [F [I' [K' [S' [E' L']]]]]].
  { intros e He. unfold sub_edges in He. apply in_flat_map in He as [i [Hi He]]. unfold row_edges in He. apply in_map_iff in He as [j [<- Hj]].
    apply filter_In in Hj as [_ Mj]. apply mem_In in Mj. cbn [fst snd init size]. split; apply RNG; auto. }
  exists h. split; [exact F|]. split; auto. split; [exact S'|].
  assert (NB0 : forall i, nb (@init L n') i = []) by (intros i; unfold nb, init; cbn [adj]; apply nth_repeat).
  split.
  - intros a b. rewrite E', NB0. split.
    + intros [[]|[l H]]. unfold sub_edges in H. apply in_flat_map in H as [i [Hi H]]. unfold row_edges in H. apply in_map_iff in H as [j [E Hj]].
      injection E as <- <- _. apply filter_In in Hj as [Hin Mj]. apply mem_In in Mj. exists i, j. auto.
    + intros [i [j [-> [-> [Hi [Hj Hin]]]]]]. right. exists (lab_of g i j). unfold sub_edges. apply in_flat_map. exists i; split; auto.
      unfold row_edges. apply in_map_iff. exists j; split; auto. apply filter_In; split; auto. apply mem_In; auto.
  - intros HS i j Hi Hj. rewrite (L' HS). cbn [init labels lfind].
    rewrite (first_label_row g so f INJ i j Hi Hj so (fun _ H => H) ND I). rewrite (proj2 (mem_In i so) Hi). cbn [andb].
    destruct (mem j (nb g i)) eqn:M; auto. unfold lab_of. pose proof (i_lab _ _ I) as IL. rewrite HS in IL.
    apply mem_In, IL in M. destruct (lfind (i, j) (labels g)); congruence.
Qed.

(* getSubgraph: f = identity, same number of vertices *)
Theorem subgraph_spec g (so : list nat) : Inv g -> NoDup so -> (forall i, In i so -> (i < size g)%nat) ->
  exists h, subgraph ldef has_store V false g so = Val h /\ Inv h /\ size h = size g /\
    (forall i j, In j (nb h i) <-> In i so /\ In j so /\ In j (nb g i)) /\
    (has_store = true -> forall i j, In i so -> In j so -> lfind (i, j) (labels h) = if mem j (nb g i) then lfind (i, j) (labels g) else None).
Proof.
  intros I ND R. destruct (sub_loop_spec g so (fun v => v) (size g) I ND R) as [h [F [I' [S' [E' L']]]]]; auto.
  exists h. split; [exact F|]. split; auto. split; auto. split; auto.
  intros i j. rewrite E'. split; [intros [a [b [-> [-> H]]]]; tauto|intros [A [B C]]; exists i, j; auto].
Qed.

(* getSubgraphWithRemap: |S| vertices, the returned map is index-in-iteration-order: one-to-one from S onto 0..|S|-1 *)
Lemma index_of_lt v l : In v l -> (index_of v l < length l)%nat.
Proof. induction l as [|x t IH]; simpl; [tauto|]. destruct (Nat.eqb_spec x v); [lia|]. intros [H|H]; [congruence|]. apply IH in H. lia. Qed.
Lemma index_of_inj l x y : In x l -> In y l -> index_of x l = index_of y l -> x = y.
Proof. induction l as [|a t IH]; simpl; [tauto|]. intros Hx Hy. destruct (Nat.eqb_spec a x) as [Ex|Nx]; destruct (Nat.eqb_spec a y) as [Ey|Ny]; try congruence; try discriminate.
  intros E. injection E as E. apply IH; auto; [destruct Hx|destruct Hy]; congruence. Qed.
Lemma index_of_onto l k : (k < length l)%nat -> NoDup l -> exists v, In v l /\ index_of v l = k.
Proof. revert k. induction l as [|a t IH]; intros k Hk ND; simpl in *; [lia|]. inversion ND; subst. destruct k as [|k].
  - exists a. rewrite Nat.eqb_refl. auto.
  - destruct (IH k) as [v [Hv E]]; auto; [lia|]. exists v. split; auto. destruct (Nat.eqb_spec a v) as [->|]; [contradiction|]. congruence. Qed.
Theorem subgraph_remap_spec g (so : list nat) : Inv g -> NoDup so -> (forall i, In i so -> (i < size g)%nat) ->
  exists h fm, subgraph_remap ldef has_store V false g so = Val (h, fm) /\ Inv h /\ size h = length so /\
    fm = map (fun v => (v, index_of v so)) so /\
    (forall v, In v so -> (index_of v so < length so)%nat) /\
    (forall x y, In x so -> In y so -> index_of x so = index_of y so -> x = y) /\
    (forall k, (k < length so)%nat -> exists v, In v so /\ index_of v so = k) /\
    (forall i j, In i so -> In j so -> (In (index_of j so) (nb h (index_of i so)) <-> In j (nb g i))) /\
    (has_store = true -> forall i j, In i so -> In j so -> lfind (index_of i so, index_of j so) (labels h) = if mem j (nb g i) then lfind (i, j) (labels g) else None).
Proof.
  intros I ND R.
  destruct (sub_loop_spec g so (fun v => index_of v so) (length so) I ND R) as [h [F [I' [S' [E' L']]]]];
    [intros x y; apply index_of_inj|intros i; apply index_of_lt|].
  exists h, (map (fun v => (v, index_of v so)) so). unfold subgraph_remap. rewrite F. cbn [omap obind].
  split; [reflexivity|]. split; auto. split; auto. split; auto. split; [intros v; apply index_of_lt|]. split; [intros x y; apply index_of_inj|].
  split; [intros k Hk; apply index_of_onto; auto|]. split; auto.
  intros i j Hi Hj. rewrite E'. split.
  - intros [a [b [Ea [Eb [Ha [Hb Hin]]]]]]. apply index_of_inj in Ea; auto. apply index_of_inj in Eb; auto. subst; auto.
  - intros H. exists i, j. auto.
Qed.
End TopoP.
