(* C08 (undirected): edges() yields each unordered pair once (the i <= j half of the adjacency lists, a self-loop once), on every shape. *)
From BG Require Import Base DirectedModel DirectedProofs DirectedIter UndirectedModel UndirectedProofs.
Local Open Scope nat_scope.

Section UIter.
Context {L : Type}.
Variable has_store : bool.
Notation dgraph := (@dgraph L).
Implicit Types g : dgraph.
Notation V := repaired.
Definition up (e : edge) : bool := Nat.leb (fst e) (snd e).

(* where the skip loop lands: it stays put, or it moved to the start of a later list over empty lists only *)
Lemma skip_empty_moves g : length (adj g) = size g -> forall fuel v p c, v < size g ->
  skip_empty fuel g {| cv := v; cpos := p |} = Val c ->
  c = {| cv := v; cpos := p |} \/ (cpos c = 0 /\ p = length (nb g v) /\ v < cv c /\ forall i, v < i < cv c -> nb g i = []).
Proof.
  intros E. induction fuel as [|f IH]; intros v p c Hv; cbn [skip_empty cv cpos]; rewrite (out_nb g v E Hv); cbn [obind].
  - destruct (Nat.eqb p (length (nb g v)) && negb (Nat.eqb v (end_vertex g))); [discriminate|]. intros H; injection H as <-; auto.
  - destruct (Nat.eqb_spec p (length (nb g v))) as [Ep|Np]; cbn [andb]; [|intros H; injection H as <-; auto].
    destruct (Nat.eqb_spec v (end_vertex g)) as [Ev|Nv]; cbn [negb]; [intros H; injection H as <-; auto|].
    unfold end_vertex in Nv. intros H. right. apply IH in H; [|lia]. destruct H as [->|[C0 [P0 [Hlt Hemp]]]]; cbn [cv cpos].
    + repeat split; auto. intros i Hi; lia.
    + repeat split; auto; [lia|]. intros i Hi. destruct (Nat.eq_dec i (S v)) as [->|]; [|apply Hemp; lia].
      symmetry in P0. apply length_zero_iff_nil in P0. auto.
Qed.

Lemma filter_rest_cons g v p : p < length (nb g v) ->
  filter up (rest g v p) = (if Nat.leb v (nth p (nb g v) 0) then [(v, nth p (nb g v) 0)] else []) ++ filter up (rest g v (S p)).
Proof. intros H. rewrite (rest_cons g v p H). cbn [filter]. unfold up at 1; cbn [fst snd]. destruct (Nat.leb v (nth p (nb g v) 0)); reflexivity. Qed.

(* operator++ of the undirected iterator: lands on the next entry of the i <= j half, or on end() *)
Lemma u_next_spec g : length (adj g) = size g -> forall fuel v p, v < size g -> p < length (nb g v) -> length (rest g v (S p)) <= fuel ->
  exists c, u_next_loop fuel g {| cv := v; cpos := p |} = Val c /\ cv c < size g /\ cpos c <= length (nb g (cv c)) /\
    (cpos c = length (nb g (cv c)) -> cv c = end_vertex g) /\
    (cpos c < length (nb g (cv c)) -> cv c <= nth (cpos c) (nb g (cv c)) 0) /\
    filter up (rest g (cv c) (cpos c)) = filter up (rest g v (S p)) /\
    length (rest g (cv c) (cpos c)) <= length (rest g v (S p)).
Proof.
  intros E. induction fuel as [|f IH]; intros v p Hv Hp Hf; cbn [u_next_loop cv cpos].
  - destruct (skip_empty_spec g E (size g) v (S p) Hv) as [c [Hc [H1 [H2 [H3 H4]]]]]; [lia|lia|].
    rewrite Hc; cbn [obind]. rewrite (out_nb g (cv c) E H1); cbn [obind].
    destruct c as [cv' cp']; cbn [cv cpos] in *.
    assert (R0 : rest g cv' cp' = []) by (rewrite H3; destruct (rest g v (S p)); simpl in Hf; [auto|lia]).
    destruct (Nat.eq_dec cp' (length (nb g cv'))) as [Ec|Nc].
    + pose proof (H4 Ec) as Hv'. subst cv'. rewrite Ec, !Nat.eqb_refl. cbn [andb].
      eexists; split; [reflexivity|]. cbn [cv cpos]. repeat split; auto; try lia; rewrite <- Ec, H3; auto.
    + rewrite rest_cons in R0 by lia. discriminate.
  - destruct (skip_empty_spec g E (size g) v (S p) Hv) as [c [Hc [H1 [H2 [H3 H4]]]]]; [lia|lia|].
    rewrite Hc; cbn [obind]. rewrite (out_nb g (cv c) E H1); cbn [obind].
    destruct c as [cv' cp']; cbn [cv cpos] in *.
    destruct (Nat.eq_dec cp' (length (nb g cv'))) as [Ec|Nc].
    + pose proof (H4 Ec) as Hv'. subst cv'. rewrite Ec, !Nat.eqb_refl. cbn [andb].
      eexists; split; [reflexivity|]. cbn [cv cpos]. repeat split; auto; try lia; rewrite <- Ec, H3; auto.
    + assert (Hlt : cp' < length (nb g cv')) by lia.
      assert (Nat.eqb cp' (length (nb g cv')) = false) as -> by (apply Nat.eqb_neq; auto). cbn [andb].
      rewrite (nth_error_nth' _ 0 Hlt).
      destruct (Nat.ltb_spec (nth cp' (nb g cv') 0) cv') as [Lt|Ge].
      * destruct (IH cv' cp' H1 Hlt) as [c2 [Hc2 [G1 [G2 [G3 [G4 [G5 G6]]]]]]].
        { rewrite <- H3, (rest_cons g cv' cp' Hlt) in Hf. cbn [length] in Hf. lia. }
        exists c2; repeat split; auto.
        -- rewrite G5, <- H3, (filter_rest_cons g cv' cp' Hlt).
           assert (Nat.leb cv' (nth cp' (nb g cv') 0) = false) as -> by (apply Nat.leb_gt; auto). reflexivity.
        -- rewrite <- H3, (rest_cons g cv' cp' Hlt). cbn [length]. lia.
      * eexists; split; [reflexivity|]. cbn [cv cpos]. repeat split; auto; try lia; rewrite H3; auto.
Qed.

Lemma u_iter_loop_spec g : length (adj g) = size g -> 0 < size g ->
  forall fuel v p, v < size g -> p <= length (nb g v) -> (p = length (nb g v) -> v = end_vertex g) ->
  (p < length (nb g v) -> v <= nth p (nb g v) 0) -> length (rest g v p) < fuel ->
  iter_loop u_cursor_next fuel g {| cv := v; cpos := p |} {| cv := end_vertex g; cpos := length (nb g (end_vertex g)) |} = Val (filter up (rest g v p)).
Proof.
  intros E Hn. induction fuel as [|f IH]; intros v p Hv Hp Hend Hup Hf; [lia|].
  cbn [iter_loop]. unfold cursor_eqb; cbn [cv cpos].
  destruct (Nat.eqb_spec p (length (nb g v))) as [Ep|Np].
  - pose proof (Hend Ep) as ->. rewrite Nat.eqb_refl, Ep, Nat.eqb_refl. cbn [andb]. rewrite rest_end; auto.
  - assert (Hlt : p < length (nb g v)) by lia.
    assert (andb (Nat.eqb v (end_vertex g)) (Nat.eqb p (length (nb g (end_vertex g)))) = false) as ->.
    { destruct (Nat.eqb_spec v (end_vertex g)) as [->|]; cbn [andb]; auto. apply Nat.eqb_neq; auto. }
    rewrite (deref_spec g v p E Hv Hlt); cbn [obind].
    change (u_cursor_next g {| cv := v; cpos := p |}) with (u_next_loop (entries g) g {| cv := v; cpos := p |}).
    assert (Hrl : length (rest g v (S p)) <= entries g).
    { rewrite <- (entries_rest g E). pose proof (rest_0 g 0 Hn) as R. rewrite Nat.sub_0_r in R. fold (flatten g) in R.
      (* rest v (S p) is a suffix of the whole enumeration *)
      assert (SUF : forall v p, v < size g -> p <= length (nb g v) -> length (rest g v p) <= length (flatten g)).
      { clear. intros v p Hv Hp. unfold rest, flatten, rows_from. rewrite app_length, skipn_length, row_length.
        replace (size g) with (v + (1 + (size g - S v))) at 2 by lia. rewrite !seq_app, !flat_map_app, !app_length. cbn [seq flat_map].
        rewrite app_nil_r, row_length. replace (0 + v + 1) with (S v) by lia. replace (0 + v) with v by lia. lia. }
      apply SUF; auto. }
    destruct (u_next_spec g E (entries g) v p Hv Hlt Hrl) as [c [Hc [H1 [H2 [H3 [H4 [H5 H6]]]]]]].
    rewrite Hc; cbn [obind]. rewrite (filter_rest_cons g v p Hlt).
    assert (Nat.leb v (nth p (nb g v) 0) = true) as -> by (apply Nat.leb_le; auto).
    rewrite (rest_cons g v p Hlt) in Hf. cbn [length] in Hf.
    destruct c as [cv' cp']; cbn [cv cpos] in *. rewrite (IH cv' cp'); auto.
    + cbn [obind app]. rewrite H5. reflexivity.
    + lia.
Qed.

(* C08 (undirected): edges() = the i <= j half of the flattened adjacency lists *)
Theorem u_iterate_flatten g : InvU has_store g -> u_iterate V g = Val (filter up (flatten g)).
Proof.
  intros I. pose proof (u_len _ _ I) as E. unfold u_iterate, edges_begin, edges_end. cbn [v_edges0 repaired andb].
  destruct (Nat.eqb_spec (size g) 0) as [Z0|NZ].
  - cbn [obind iter_loop]. unfold cursor_eqb; cbn. unfold flatten, rows_from. rewrite Z0. reflexivity.
  - assert (Hn : 0 < size g) by lia.
    destruct (skip_empty_spec g E (size g) 0 0 Hn (Nat.le_0_l _)) as [c [Hc [H1 [H2 [H3 H4]]]]]; [lia|].
    pose proof (skip_empty_moves g E (size g) 0 0 c Hn Hc) as Mv.
    rewrite Hc; cbn [obind]. rewrite (out_nb g (end_vertex g) E) by (unfold end_vertex; lia). cbn [obind].
    rewrite rest_0, Nat.sub_0_r in H3 by auto. fold (flatten g) in H3.
    destruct c as [cv' cp']; cbn [cv cpos] in *.
    rewrite (u_iter_loop_spec g E Hn); auto.
    + rewrite H3. reflexivity.
    + (* the first entry found is on the i <= j half: by symmetry a smaller neighbour would own a non-empty earlier list *)
      intros Hlt. destruct Mv as [Eq|[C0 [P0 [Hlt0 Hemp]]]].
      * injection Eq as -> ->. lia.
      * subst cp'. destruct (Nat.le_gt_cases cv' (nth 0 (nb g cv') 0)) as [|Gt]; auto. exfalso.
        assert (Hin : In (nth 0 (nb g cv') 0) (nb g cv')) by (apply nth_In; auto).
        apply (u_sym _ _ I) in Hin. set (j := nth 0 (nb g cv') 0) in *.
        assert (nb g j = []) as Ej.
        { destruct (Nat.eq_dec j 0) as [->|]; [symmetry in P0; apply length_zero_iff_nil in P0; auto|apply Hemp; lia]. }
        rewrite Ej in Hin. destruct Hin.
    + rewrite H3, entries_rest; auto.
Qed.
End UIter.
