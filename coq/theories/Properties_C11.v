(* C11 — Breadth-first geodesics: true hop distances, valid paths, all and only shortest.  Statements only; proofs in Bfs.v / PathsProofs.v / BfsAllProofs.v.
   Proved, for every well-formed adjacency structure of any size - directed or undirected alike, since the searches only see neighbour lists:
   findVertexPredecessors (distances = hop minima over ALL walks, sentinel iff unreachable, the predecessor is an in-neighbour one hop closer),
   findGeodesics (a walk along existing edges with exactly that many hops, [source], or empty), findAllVertexPredecessors (same distances; the
   predecessor list of v is duplicate-free and is exactly the set of in-neighbours one hop closer) and findAllGeodesics (exactly the
   minimum-length walks, none twice).  The two ...FromVertex variants give, for every destination, what the
   single-destination functions give (FromVertexProofs.v). *)
From Coq Require Import List Arith Lia.
From BG Require Import Base Bfs PathsModel PathsProofs BfsAllProofs FromVertexProofs.
Import ListNotations.

Theorem C11_single_predecessor_search : forall (g : adjl) (s : nat), Bfs.wf g -> s < length g ->
  exists o, bfs_single true g s = Val o /\ bo_scans o <= length g /\
    length (bo_dist o) = length g /\ length (bo_pred o) = length g /\
    (forall v, match nth v (bo_dist o) None with
               | Some k => Bfs.walk g s v k /\ (forall k', Bfs.walk g s v k' -> k <= k')
               | None => forall k', ~ Bfs.walk g s v k' end) /\
    (forall v p, nth v (bo_pred o) None = Some p -> exists dp, nth p (bo_dist o) None = Some dp /\ nth v (bo_dist o) None = Some (S dp) /\ In v (nth p g [])) /\
    (forall v k, nth v (bo_dist o) None = Some (S k) -> nth v (bo_pred o) None <> None) /\
    (forall v, nth v (bo_dist o) None = None -> nth v (bo_pred o) None = None) /\
    nth s (bo_pred o) None = None.
Proof. intros g s W H. destruct (bfs_single_spec g s W H) as [o [E [B F]]]. exists o. split; [exact E|]. split; [exact B|]. exact F. Qed.
Print Assumptions C11_single_predecessor_search.

Theorem C11_find_geodesics : forall (g : adjl) (s t : nat), Bfs.wf g -> s < length g -> t < length g ->
  exists p, find_geodesics true g s t = Val p /\
    ((forall k, ~ Bfs.walk g s t k) /\ p = [] \/
     exists k, Bfs.walk g s t k /\ (forall k', Bfs.walk g s t k' -> k <= k') /\
               length p = S k /\ hd (S (length g)) p = s /\ last p (S (length g)) = t /\ is_walk g p = true).
Proof. intros g s t W Hs Ht. exact (find_geodesics_spec g s W Hs t Ht). Qed.
Print Assumptions C11_find_geodesics.

(* findAllVertexPredecessors *)
Theorem C11_all_predecessors : forall (g : adjl) (s : nat), Bfs.wf g -> s < length g ->
  exists o, bfs_all true true (length g) g s = Val o /\
    (forall v, nth v (ao_dist o) None = hopdist g s v) /\
    (forall v, NoDup (nth v (ao_preds o) []) /\ forall p, In p (nth v (ao_preds o) []) <->
       (exists k, hopdist g s p = Some k /\ hopdist g s v = Some (S k) /\ In v (nth p g []))).
Proof. exact BfsAllProofs.C11_all_predecessors. Qed.
Print Assumptions C11_all_predecessors.
(* findAllGeodesics: duplicate-free, exactly the minimum-length walks from source to destination (as vertex sequences).  Fuel is an artefact of
   the model (the C++ loop has none): with at least |V| units the model returns these paths or reports exhaustion - never an exception or an
   unchecked access - and |V| * (number of shortest paths) units always suffice, which is what the correspondence driver supplies. *)
Theorem C11_find_all_geodesics : forall (g : adjl) (s t : nat), Bfs.wf g -> s < length g -> t < length g ->
  exists ps, NoDup ps /\ (forall p, In p ps <-> In p (shortest_paths g s t)) /\
    forall fuel, length g <= fuel ->
      (find_all_geodesics true true fuel g s t = Val ps \/ find_all_geodesics true true fuel g s t = Undef Fuel) /\
      (length g * length (shortest_paths g s t) <= fuel -> find_all_geodesics true true fuel g s t = Val ps).
Proof. exact BfsAllProofs.find_all_geodesics_spec. Qed.
Print Assumptions C11_find_all_geodesics.

Example C11_example : find_geodesics true [[1; 2]; [3]; [3]; [4]; []; [0]] 0 4 = Val [0; 1; 3; 4] /\ find_geodesics true [[1; 2]; [3]; [3]; [4]; []; [0]] 0 5 = Val [].
Proof. vm_compute. auto. Qed.

(* ---- findGeodesicsFromVertex / findAllGeodesicsFromVertex: one entry per vertex, each what findGeodesics / findAllGeodesics returns for it ---- *)
Theorem C11_geodesics_from_vertex :
  forall (g : adjl) (s : nat),
        Bfs.wf g ->
        s < length g ->
        exists ps : list (list nat),
          geodesics_from_vertex true g s = Val ps /\
          length ps = length g /\
          (forall j : nat,
           j < length g ->
           find_geodesics true g s j = Val (nth j ps []) /\
           (j = s -> nth j ps [] = [s]) /\
           ((forall k : nat, ~ Bfs.walk g s j k) /\ hopdist g s j = None /\ nth j ps [] = [] \/
            (exists k : nat,
               Bfs.walk g s j k /\
               (forall k' : nat, Bfs.walk g s j k' -> k <= k') /\
               hopdist g s j = Some k /\
               length (nth j ps []) = S k /\ hd (S (length g)) (nth j ps []) = s /\ last (nth j ps []) (S (length g)) = j /\ is_walk g (nth j ps []) = true))).
Proof. exact FromVertexProofs.geodesics_from_vertex_spec. Qed.
Print Assumptions C11_geodesics_from_vertex.
Theorem C11_all_geodesics_from_vertex :
  forall (g : adjl) (s : nat),
        Bfs.wf g ->
        s < length g ->
        forall fuel : nat,
        (forall j : nat, j < length g -> length g * length (shortest_paths g s j) <= fuel) ->
        exists pss : list (list (list nat)),
          all_geodesics_from_vertex true true fuel g s = Val pss /\
          length pss = length g /\
          (forall j : nat,
           j < length g ->
           find_all_geodesics true true fuel g s j = Val (nth j pss []) /\
           NoDup (nth j pss []) /\ (forall p : list nat, In p (nth j pss []) <-> In p (shortest_paths g s j))).
Proof. exact FromVertexProofs.all_geodesics_from_vertex_spec. Qed.
Print Assumptions C11_all_geodesics_from_vertex.
