(* Abstract specs of the multigraph and weighted classes: a finitely supported function from (ordered or unordered) pairs to a
   multiplicity > 0 / a weight, as an association list with unique keys.  [und] selects the unordered-pair reading.  Definitions only. *)
From BG Require Import Base DirectedModel DirectedSpec UndirectedModel MultiModel WeightedModel.
Local Open Scope Z_scope.

Section MSpec.
Variable und : bool.
Notation sgraph := (@sgraph Z).
Definition key (i j : nat) : edge := if und then ordered i j else (i, j).
Definition mval (a : sgraph) (i j : nat) : Z := lget (key i j) (se a).
Definition mhas (a : sgraph) (i j : nat) : bool := smem (key i j) a.
Definition ssum (a : sgraph) : Z := fold_right (fun kv acc => snd kv + acc) 0 (se a).
Definition with_se (a : sgraph) (m : @lmap Z) : sgraph := {| sn := sn a; se := m |}.

(* ---- multigraph steps ---- *)
Definition ms_add (a : sgraph) (i j : nat) (k : Z) : sgraph :=
  if Z.eqb k 0 then a else with_se a (lset (key i j) (mval a i j + k) (se a)).
Definition ms_remove (a : sgraph) (i j : nat) (k : Z) : sgraph :=
  if mhas a i j then (if Z.ltb k (mval a i j) then with_se a (lset (key i j) (mval a i j - k) (se a)) else with_se a (lerase (key i j) (se a))) else a.
Definition ms_set (a : sgraph) (i j : nat) (k : Z) : sgraph :=
  if Z.eqb k 0 then with_se a (lerase (key i j) (se a)) else with_se a (lset (key i j) k (se a)).
Definition mspec_step (a : sgraph) (o : mop) : sgraph :=
  match o with
  | MAdd i j _ => ms_add a i j 1
  | MAddRecip i j _ => if und then ms_add a i j 1 else ms_add (ms_add a i j 1) j i 1
  | MAddMulti i j k _ => ms_add a i j k
  | MAddRecipMulti i j k _ => if und then ms_add a i j k else ms_add (ms_add a i j k) j i k
  | MRemove i j => ms_remove a i j 1 | MRemoveMulti i j k => ms_remove a i j k | MSet i j k => ms_set a i j k
  | MSelfLoops => s_loops a | MRemoveVertex v => s_rmv a v | MClear => s_clear a | MResize n => s_resize a n | MRemoveDuplicates => a end.
Definition m_rejected_code (a : sgraph) (o : mop) : option Z :=
  let oor := Some (zexn OutOfRange) in
  let bad (v : nat) := negb (Nat.ltb v (sn a)) in
  match o with
  | MAdd i j f | MAddRecip i j f | MAddMulti i j _ f | MAddRecipMulti i j _ f => if bad i || bad j then oor else if f then None else Some 0
  | MRemove i j | MRemoveMulti i j _ | MSet i j _ => if bad i || bad j then oor else Some 0
  | MRemoveVertex v => if bad v then oor else Some 0
  | MResize n => if Nat.ltb n (sn a) then Some (zexn InvalidArgument) else Some 0
  | MSelfLoops | MClear | MRemoveDuplicates => Some 0 end.
Definition rowsum (a : sgraph) (f : nat -> Z) : Z := fold_right (fun j acc => f j + acc) 0 (seq 0 (sn a)).
Definition b2z (b : bool) : Z := if b then 1 else 0.
Definition sobserve_m (a : sgraph) : list (list Z) :=
  let n := sn a in let vs := seq 0 n in
  let cell (tw : bool) (i j : nat) := if Nat.eqb i j && tw then 2 * mval a i j else mval a i j in
  [ [zn n; zn (length (se a)); ssum a];
    map (fun e => zbool (mhas a (fst e) (snd e))) (pairs n);
    flat_map (fun i => map (fun j => b2z (mhas a i j)) vs) vs;
    map (fun e => mval a (fst e) (snd e)) (pairs n);
    (if und then map (fun i => rowsum a (cell true i)) vs ++ map (fun i => rowsum a (cell false i)) vs ++ map (fun i => rowsum a (cell true i)) vs ++ map (fun i => rowsum a (cell false i)) vs
     else map (fun i => rowsum a (mval a i)) vs ++ map (fun i => rowsum a (mval a i)) vs ++ map (fun j => rowsum a (fun i => mval a i j)) vs ++ map (fun j => rowsum a (fun i => mval a i j)) vs);
    (if und then map (fun e => cell true (fst e) (snd e)) (pairs n) ++ map (fun e => cell false (fst e) (snd e)) (pairs n)
     else map (fun e => mval a (fst e) (snd e)) (pairs n));
    zn (length (se a)) :: map (fun e => b2z ((if und then Nat.leb (fst e) (snd e) else true) && smem e a)) (pairs n);
    map Z.of_nat (seq 0 n) ++ [1; 1; zbool (Nat.eqb (length (se a)) 0)] ].
Fixpoint mspec_trace (a : sgraph) (ops : list mop) : list (option (list (list Z))) :=
  match ops with [] => [] | o :: ops' =>
    match m_rejected_code a o with
    | None => map (fun _ => None) ops
    | Some c => if Z.eqb c 0 then let a' := mspec_step a o in Some ([0] :: sobserve_m a') :: mspec_trace a' ops'
                else Some ([c] :: sobserve_m a) :: mspec_trace a ops' end end.

(* ---- weighted steps ---- *)
Definition ws_add (a : sgraph) (i j : nat) (w : Z) : sgraph := if mhas a i j then a else with_se a ((key i j, w) :: se a).
Definition ws_set (a : sgraph) (i j : nat) (w : Z) : sgraph := with_se a (lset (key i j) w (se a)).
Definition wspec_step (a : sgraph) (o : wop) : sgraph :=
  match o with
  | WAdd i j w _ => ws_add a i j w | WRemove i j => with_se a (lerase (key i j) (se a)) | WSet i j w => ws_set a i j w
  | WSelfLoops => s_loops a | WRemoveVertex v => s_rmv a v | WClear => s_clear a | WResize n => s_resize a n | WRemoveDuplicates => a end.
Definition w_rejected_code (a : sgraph) (o : wop) : option Z :=
  let oor := Some (zexn OutOfRange) in
  let bad (v : nat) := negb (Nat.ltb v (sn a)) in
  match o with
  | WAdd i j _ f => if bad i || bad j then oor else if f then None else Some 0
  | WRemove i j | WSet i j _ => if bad i || bad j then oor else Some 0
  | WRemoveVertex v => if bad v then oor else Some 0
  | WResize n => if Nat.ltb n (sn a) then Some (zexn InvalidArgument) else Some 0
  | WSelfLoops | WClear | WRemoveDuplicates => Some 0 end.
Definition sobserve_w (a : sgraph) : list (list Z) :=
  let n := sn a in let vs := seq 0 n in
  let c (i j : nat) := b2z (mhas a i j) in
  let cell (tw : bool) (i j : nat) := if mhas a i j then (if Nat.eqb i j && tw then 2 else 1) else 0 in
  [ [zn n; zn (length (se a)); ssum a];
    map (fun e => zbool (mhas a (fst e) (snd e))) (pairs n);
    flat_map (fun i => map (fun j => c i j) vs) vs;
    flat_map (fun e => if mhas a (fst e) (snd e) then [mval a (fst e) (snd e); 1] else [0; zexn InvalidArgument]) (pairs n);
    (if und then map (fun i => rowsum a (cell true i)) vs ++ map (fun i => rowsum a (cell false i)) vs ++ map (fun i => rowsum a (cell true i)) vs ++ map (fun i => rowsum a (cell false i)) vs
     else map (fun j => rowsum a (fun i => c i j)) vs ++ map (fun j => rowsum a (fun i => c i j)) vs ++ map (fun i => rowsum a (c i)) vs ++ map (fun i => rowsum a (c i)) vs);
    (if und then map (fun e => cell true (fst e) (snd e)) (pairs n) ++ map (fun e => cell false (fst e) (snd e)) (pairs n)
     else map (fun e => c (fst e) (snd e)) (pairs n));
    map (fun e => mval a (fst e) (snd e)) (pairs n);
    zn (length (se a)) :: map (fun e => b2z ((if und then Nat.leb (fst e) (snd e) else true) && smem e a)) (pairs n);
    map Z.of_nat (seq 0 n) ++ [1; 1; zbool (Nat.eqb (length (se a)) 0)] ].
Fixpoint wspec_trace (a : sgraph) (ops : list wop) : list (option (list (list Z))) :=
  match ops with [] => [] | o :: ops' =>
    match w_rejected_code a o with
    | None => map (fun _ => None) ops
    | Some c => if Z.eqb c 0 then let a' := wspec_step a o in Some ([0] :: sobserve_w a') :: wspec_trace a' ops'
                else Some ([c] :: sobserve_w a) :: wspec_trace a ops' end end.
End MSpec.
