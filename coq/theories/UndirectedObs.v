(* What the observers of the repaired undirected model report after any valid history (C02, C03). *)
From BG Require Import Base DirectedModel DirectedProofs DirectedIter DirectedUsers DirectedSpec DirectedRefine DirectedObs
  UndirectedModel UndirectedProofs UndirectedIter UndirectedSpec UndirectedRefine.
Local Open Scope Z_scope.
Local Arguments Z.of_nat : simpl never.

(* the undirected spec steps are the directed spec steps at the canonical key *)
Definition to_dop {L} (o : @uop L) : @dop L :=
  match o with
  | UAdd x y l f => AddEdge (fst (okey x y)) (snd (okey x y)) l f
  | URemove x y => RemoveEdge (fst (okey x y)) (snd (okey x y))
  | USelfLoops => RemoveSelfLoops | URemoveVertex v => RemoveVertex v | UClear => ClearEdges | UResize n => Resize n
  | USetLabel x y l f => SetLabel (fst (okey x y)) (snd (okey x y)) l f
  | URemoveDuplicates => RemoveDuplicates end.
Lemma okey_range x y n : (x < n)%nat -> (y < n)%nat -> (fst (okey x y) < n)%nat /\ (snd (okey x y) < n)%nat.
Proof. intros. unfold okey. destruct (ordered_cases x y) as [[-> _]|[-> _]]; simpl; auto. Qed.

Section UObs.
Context {L : Type}.
Variable leqb : L -> L -> bool.
Variable ldef : L.
Variable has_store : bool.
Notation dgraph := (@dgraph L).
Notation sgraph := (@sgraph L).
Implicit Types (g : dgraph) (a : sgraph).

Lemma uspec_step_dop a (o : @uop L) : uspec_step a o = spec_step a (to_dop o).
Proof. destruct o; reflexivity. Qed.
Lemma uvalid_dop a (o : @uop L) : uvalid_op a o = true -> valid_op a (to_dop o) = true.
Proof. destruct o as [x y l f|x y| |v| |n|x y l f|]; cbn [uvalid_op to_dop valid_op]; auto.
  - intros H. apply andb_prop in H as [H F]. apply andb_prop in H as [Hx Hy]. apply Nat.ltb_lt in Hx, Hy.
    destruct (okey_range x y (sn a) Hx Hy) as [A B]. rewrite (proj2 (Nat.ltb_lt _ _) A), (proj2 (Nat.ltb_lt _ _) B), F. reflexivity.
  - intros H. apply andb_prop in H as [Hx Hy]. apply Nat.ltb_lt in Hx, Hy.
    destruct (okey_range x y (sn a) Hx Hy) as [A B]. rewrite (proj2 (Nat.ltb_lt _ _) A), (proj2 (Nat.ltb_lt _ _) B). reflexivity.
  - intros H. apply andb_prop in H as [H P]. apply andb_prop in H as [H F]. apply andb_prop in H as [Hx Hy]. apply Nat.ltb_lt in Hx, Hy.
    destruct (okey_range x y (sn a) Hx Hy) as [A B]. rewrite (proj2 (Nat.ltb_lt _ _) A), (proj2 (Nat.ltb_lt _ _) B), F.
    unfold umem in P. rewrite <- surjective_pairing, P. reflexivity.
Qed.
(* keys stay canonical *)
Definition Canon a : Prop := forall e, smem e a = true -> (fst e <= snd e)%nat.
Lemma Canon_step a (o : @uop L) : Canon a -> Canon (uspec_step a o).
Proof.
  intros C. destruct o as [x y l f|x y| |v| |n|x y l f|]; cbn [uspec_step]; auto.
  - intros e. rewrite smem_add'. rewrite orb_true_iff. intros [H|H]; [apply C; auto|].
    destruct (edge_eqb_spec (fst (okey x y), snd (okey x y)) e) as [E|]; [|discriminate]. subst e. apply ordered_le.
  - intros e. unfold smem, s_remove; cbn [se]. rewrite lfind_lerase. destruct (edge_eqb _ e); [discriminate|apply C].
  - intros e. unfold smem, s_loops. rewrite lfind_s_filter. destruct (negb _); [apply C|discriminate].
  - intros e. unfold smem, s_rmv. rewrite lfind_s_filter. destruct (negb _); [apply C|discriminate].
  - intros e. unfold smem; simpl. discriminate.
  - unfold s_setlabel. destruct (smem _ a) eqn:P; auto. intros e. unfold smem; cbn [se]. rewrite lfind_lset.
    destruct (edge_eqb_spec (fst (okey x y), snd (okey x y)) e) as [E|]; [intros _; subst e; apply ordered_le|apply C].
Qed.
Lemma Canon_run ops : forall a, Canon a -> Canon (uspec_run a ops).
Proof. induction ops as [|o ops IH]; intros a C; simpl; auto. apply IH, Canon_step; auto. Qed.
Lemma SInv_urun ops : forall a, SInv a -> uvalid_history a ops = true -> SInv (uspec_run a ops).
Proof. induction ops as [|o ops IH]; intros a SI Vd; simpl in *; auto. apply andb_prop in Vd as [V1 V2].
  apply IH; auto. rewrite uspec_step_dop. apply SInv_step; auto. apply uvalid_dop; auto. Qed.

(* ---- edge count = number of unordered pairs ---- *)
Lemma filter_up_row g i : filter up (row g i) = map (pair i) (filter (fun j => Nat.leb i j) (nb g i)).
Proof. unfold row. induction (nb g i) as [|x t IH]; simpl; auto. unfold up at 1; simpl. destruct (Nat.leb i x); simpl; rewrite IH; auto. Qed.
Lemma length_filter_up_flatten g : length (adj g) = size g -> Z.of_nat (length (filter up (flatten g))) = utotal (adj g).
Proof.
  intros E. unfold flatten, rows_from, utotal. rewrite <- E. unfold row, nb. clear E.
  assert (G : forall (a : list (list nat)) k,
     Z.of_nat (length (filter up (flat_map (fun i => map (pair i) (nth (i - k) a [])) (seq k (length a))))) = utotal_from k a).
  { induction a as [|x t IH]; intros k; cbn [length seq flat_map utotal_from]; auto.
    rewrite filter_app, app_length, Nat2Z.inj_add, Nat.sub_diag. cbn [nth]. f_equal.
    - unfold cnt. f_equal. induction x as [|y ys IHy]; simpl; auto. unfold up at 1; simpl. destruct (Nat.leb k y); simpl; rewrite IHy; auto.
    - rewrite <- (IH (S k)). f_equal. f_equal. f_equal. apply flat_map_ext_in'. intros i Hi. apply in_seq in Hi.
      replace (i - k)%nat with (S (i - S k)) by lia. reflexivity. }
  rewrite <- (G (adj g) 0%nat). f_equal. f_equal. f_equal. apply flat_map_ext_in'. intros i _. rewrite Nat.sub_0_r. reflexivity.
Qed.
Lemma In_filter_up_flatten g i j : InvU has_store g -> In (i, j) (filter up (flatten g)) <-> (i <= j)%nat /\ In j (nb g i).
Proof. intros I. rewrite filter_In, DirectedUsers.In_flatten. unfold up; cbn [fst snd]. rewrite Nat.leb_le.
  split; [tauto|]. intros [A B]; split; auto. split; auto. apply (u_rng _ _ I) in B. tauto. Qed.
Lemma NoDup_flatten_u g : InvU has_store g -> NoDup (flatten g).
Proof. intros I. unfold flatten, rows_from, row. apply NoDup_flat_map_pair; [apply seq_NoDup|apply (u_nodup _ _ I)]. Qed.

Theorem u_edge_number_is_cardinal g a : RfU has_store g a -> SInv a -> Canon a -> enum g = Z.of_nat (length (se a)).
Proof.
  intros [I S M LB] [ND _] C. rewrite (u_enum _ _ I), <- (length_filter_up_flatten g (u_len _ _ I)), <- (map_length fst (se a)). f_equal.
  apply Permutation_length, NoDup_Permutation; auto; [apply NoDup_filter, NoDup_flatten_u; auto|].
  intros [i j]. rewrite (In_filter_up_flatten g i j I), <- smem_In_keys. split.
  - intros [Le H]. apply M in H. unfold umem, okey in H. pose proof (ordered_fst_snd (i, j) Le) as OE. cbn [fst snd] in OE. rewrite OE in H. auto.
  - intros H. pose proof (C _ H) as Le. split; auto. apply M. unfold umem, okey. pose proof (ordered_fst_snd (i, j) Le) as OE. cbn [fst snd] in OE. rewrite OE. auto.
  - exact leqb.
  - exact ldef.
Qed.

(* ---- degrees ---- *)
Lemma sum_perm (f : nat -> nat) l1 l2 : Permutation l1 l2 -> fold_right (fun x acc => (f x + acc)%nat) 0%nat l1 = fold_right (fun x acc => (f x + acc)%nat) 0%nat l2.
Proof. induction 1; simpl; auto; lia. Qed.
Lemma sum_filter_seq (f : nat -> nat) (p : nat -> bool) l :
  fold_right (fun x acc => (f x + acc)%nat) 0%nat (filter p l) = fold_right (fun x acc => ((if p x then f x else 0) + acc)%nat) 0%nat l.
Proof. induction l as [|x t IH]; simpl; auto. destruct (p x); simpl; rewrite IH; auto. Qed.
Lemma u_degree_val g a v tw : RfU has_store g a -> (v < sn a)%nat -> u_degree g v tw = Val (udeg a tw v).
Proof.
  intros R Hv. pose proof R as [I S M LB]. rewrite <- S in Hv. unfold u_degree. rewrite (out_nb g v (u_len _ _ I) Hv).
  assert (P : Permutation (nb g v) (filter (fun j => umem a v j) (seq 0 (sn a)))).
  { apply NoDup_Permutation; [apply (u_nodup _ _ I)|apply NoDup_filter, seq_NoDup|].
    intros j. rewrite filter_In, in_seq, M. split; [|tauto]. intros H; split; auto. apply M, (u_rng _ _ I) in H. lia. }
  unfold udeg. destruct tw.
  - rewrite (sum_perm (fun x => if Nat.eqb x v then 2 else 1)%nat _ _ P), sum_filter_seq. f_equal. clear P.
    induction (seq 0 (sn a)) as [|x t IH]; simpl; auto. rewrite IH. rewrite (Nat.eqb_sym v x), andb_true_r. reflexivity.
  - rewrite (Permutation_length P). f_equal. clear P. induction (seq 0 (sn a)) as [|x t IH]; simpl; auto.
    rewrite andb_false_r. destruct (umem a v x); simpl; rewrite IH; auto.
Qed.

(* ---- C02 / C03: after ANY valid history every observer reports the set of unordered pairs the history denotes ---- *)
Theorem C02_C03_undirected_faithful (n : nat) (ops : list (@uop L)) :
  uvalid_history (s_init n) ops = true ->
  exists g, urun has_store repaired (init n) ops = (g, Done) /\
    let a := uspec_run (s_init n) ops in
    InvU has_store g /\
    size g = sn a /\
    enum g = Z.of_nat (length (se a)) /\
    (forall i j, (i < sn a)%nat -> (j < sn a)%nat -> u_has_edge g i j = Val (umem a i j) /\ u_has_edge g j i = Val (umem a i j)) /\
    (forall i, (i < sn a)%nat -> exists l, out_neighbours g i = Val l /\ NoDup l /\ forall j, In j l <-> umem a i j = true) /\
    (forall i j, umem a i j = umem a j i) /\
    (forall v tw, (v < sn a)%nat -> u_degree g v tw = Val (udeg a tw v)) /\
    u_iterate repaired g = Val (filter up (flatten g)) /\
    (forall i j, In (i, j) (filter up (flatten g)) <-> (i <= j)%nat /\ umem a i j = true) /\
    (has_store = true -> forall i j thr, (i < sn a)%nat -> (j < sn a)%nat ->
       u_get_label ldef has_store g i j thr =
       match lfind (okey i j) (se a) with Some l => Val l | None => if thr then Raise InvalidArgument else Val ldef end) /\
    (has_store = true -> forall i j l, (i < sn a)%nat -> (j < sn a)%nat ->
       u_has_edge_l leqb ldef has_store g i j l = Val (match lfind (okey i j) (se a) with Some l' => leqb l' l | None => false end)).
Proof.
  intros Vd. pose proof (urun_refines has_store ops (init n) (s_init n) (u_init_refines has_store n) Vd) as H.
  destruct (urun has_store repaired (init n) ops) as [g r]. destruct H as [-> R]. exists g; split; auto.
  pose proof (SInv_urun ops _ (SInv_init n) Vd) as SI.
  assert (CN : Canon (uspec_run (s_init n) ops)) by (apply Canon_run; intros e; unfold smem; simpl; discriminate).
  cbv zeta. set (a := uspec_run (s_init n) ops) in *. pose proof R as [I S M LB].
  assert (HE : forall i j, (i < sn a)%nat -> (j < sn a)%nat -> u_has_edge g i j = Val (umem a i j)).
  { intros i j Hi Hj. rewrite <- S in Hi, Hj. rewrite (u_has_edge_val has_store g i j I Hi Hj). f_equal. apply (mem_umem has_store g a i j R). }
  assert (GL : has_store = true -> forall i j thr, (i < sn a)%nat -> (j < sn a)%nat ->
       u_get_label ldef has_store g i j thr = match lfind (okey i j) (se a) with Some l => Val l | None => if thr then Raise InvalidArgument else Val ldef end).
  { intros HS i j thr Hi Hj. rewrite <- S in Hi, Hj. unfold u_get_label, get_label.
    destruct (okey_range i j (size g) Hi Hj) as [A B]. unfold okey in A, B.
    rewrite (proj2 (in_range_true g _) A), (proj2 (in_range_true g _) B), HS; cbn [andb]. rewrite <- surjective_pairing, (LB HS). reflexivity. }
  split; auto. split; auto. split; [apply u_edge_number_is_cardinal; auto|].
  split; [intros i j Hi Hj; split; [apply HE; auto|rewrite (umem_sym a i j); apply HE; auto]|].
  split.
  { intros i Hi. rewrite <- S in Hi. exists (nb g i). split; [apply (out_nb g i (u_len _ _ I) Hi)|split; [apply (u_nodup _ _ I)|apply M]]. }
  split; [intros; apply umem_sym|]. split; [intros v tw Hv; apply (u_degree_val g a v tw R Hv)|].
  split; [apply (u_iterate_flatten has_store g I)|].
  split; [intros i j; rewrite (In_filter_up_flatten g i j I), M; tauto|].
  split; auto.
  intros HS i j l Hi Hj. unfold u_has_edge_l. rewrite (HE i j Hi Hj), (GL HS i j false Hi Hj). unfold umem, smem.
  destruct (lfind (okey i j) (se a)); auto.
Qed.
End UObs.
