(* C17, continued: the range invariant.  RngOK g = every neighbour stored in an adjacency list is < getSize().  Every call of the six
   classes (repaired revision; any arguments, force on or off) keeps it - whatever the call returns, also in the state left behind by a
   thrown exception.  WF = LenOK /\ RngOK is what the enumerating observers (in-degrees, adjacency matrices) need: NoUBObs.v. *)
From Coq Require Import List Arith ZArith Lia Bool.
From BG Require Import Base DirectedModel DirectedProofs UndirectedModel UndirectedProofs MultiModel WeightedModel TextProofs NoUB NoUBMore.
Import ListNotations.
Local Open Scope nat_scope.

Definition RowIn (n : nat) (l : list nat) : Prop := Forall (fun j => j < n) l.
Notation RowsIn n a := (Forall (RowIn n) a).

Lemma rows_nth n a i : RowsIn n a -> RowIn n (nth i a []).
Proof. intros H. destruct (Nat.lt_ge_cases i (length a)) as [Hi|Hi]; [apply (proj1 (Forall_forall _ _) H); apply nth_In; auto|rewrite nth_overflow by auto; constructor]. Qed.
Lemma rows_upd n a i f : RowsIn n a -> (forall l, RowIn n l -> RowIn n (f l)) -> RowsIn n (upd i f a).
Proof. intros H Hf. revert i. induction H as [|x t Hx Ht IH]; intros [|i]; cbn [upd]; constructor; auto. Qed.
Lemma rows_mono n n' a : n <= n' -> RowsIn n a -> RowsIn n' a.
Proof. intros Hn H. eapply Forall_impl; [|exact H]. intros l Hl. eapply Forall_impl; [|exact Hl]. cbn; intros; lia. Qed.
Lemma row_snoc n l d : d < n -> RowIn n l -> RowIn n (l ++ [d]).
Proof. intros Hd H. apply Forall_app; split; auto. Qed.
Lemma row_filter n p l : RowIn n l -> RowIn n (filter p l).
Proof. intros H. apply Forall_forall. intros x Hx. apply filter_In in Hx as [Hx _]. exact (proj1 (Forall_forall _ _) H x Hx). Qed.
Lemma row_remove_all n d l : RowIn n l -> RowIn n (remove_all d l).
Proof. apply row_filter. Qed.
Lemma row_remove_first n d l : RowIn n l -> RowIn n (remove_first d l).
Proof. induction 1 as [|x t Hx Ht IH]; cbn [remove_first]; [constructor|]. destruct (Nat.eqb x d); auto. constructor; auto. Qed.
Lemma row_dedup n l : forall seen, RowIn n l -> RowIn n (dedup seen l).
Proof. induction l as [|x t IH]; intros seen H; cbn [dedup]; [constructor|]. inversion H; subst. destruct (mem x seen); [apply IH; auto|constructor; [auto|apply IH; auto]]. Qed.
Lemma rows_map_nil n (a : list (list nat)) : RowsIn n (map (fun _ => []) a).
Proof. induction a; cbn; constructor; auto. constructor. Qed.
Lemma rows_repeat_nil n k : RowsIn n (repeat [] k).
Proof. induction k; cbn; constructor; auto. constructor. Qed.
Lemma rows_firstn n k a : RowsIn n a -> RowsIn n (firstn k a).
Proof. intros H. revert k. induction H; intros [|k]; cbn; constructor; auto. Qed.
Lemma rows_map n (f : list nat -> list nat) a : (forall l, RowIn n l -> RowIn n (f l)) -> RowsIn n a -> RowsIn n (map f a).
Proof. intros Hf. induction 1; cbn; constructor; auto. Qed.

Section WFg.
Context {L : Type}.
Variable hs : bool.
Notation dgraph := (@dgraph L).
Implicit Types g : dgraph.
Definition RngOK g : Prop := RowsIn (size g) (adj g).
Definition WF g : Prop := LenOK g /\ RngOK g.
Lemma RngOK_In g : RngOK g -> forall i j, In j (nth i (adj g) []) -> j < size g.
Proof. intros H i j Hin. exact (proj1 (Forall_forall _ _) (rows_nth _ _ i H) j Hin). Qed.
Lemma init_wf n : WF (@init L n).
Proof. split; [unfold LenOK, init; cbn; apply repeat_length|unfold RngOK, init; cbn [adj size]; apply rows_repeat_nil]. Qed.

(* ---- directed ---- *)
Lemma push_rng g s d l : RngOK g -> d < size g -> RngOK (fst (push_edge hs g s d l)).
Proof. intros H Hd. unfold push_edge. destruct (Nat.ltb s (length (adj g))); cbn [fst]; auto. unfold RngOK; cbn [adj size].
  apply rows_upd; auto. intros; apply row_snoc; auto. Qed.
Lemma has_edge_false_rng g s d b : has_edge g s d = Val b -> s < size g /\ d < size g.
Proof. unfold has_edge, in_range. destruct (Nat.ltb_spec s (size g)); cbn [andb]; [|discriminate]. destruct (Nat.ltb_spec d (size g)); cbn [andb]; [|discriminate]. auto. Qed.
Lemma add_edge_rng g s d l f : RngOK g -> RngOK (fst (add_edge hs V g s d l f)).
Proof. intros H. unfold add_edge. cbn [v_force_checks V]. destruct f.
  - unfold in_range. destruct (Nat.ltb_spec s (size g)); cbn [andb]; auto. destruct (Nat.ltb_spec d (size g)); cbn [andb]; auto. apply push_rng; auto.
  - destruct (has_edge g s d) as [[|]|e|k] eqn:E; cbn [fst]; auto. apply has_edge_false_rng in E as [_ Hd]. apply push_rng; auto. Qed.
Lemma remove_edge_rng g s d : RngOK g -> RngOK (fst (remove_edge g s d)).
Proof. intros H. unfold remove_edge. destruct (in_range g s && in_range g d); cbn [fst]; auto. destruct (Nat.ltb s (length (adj g))); cbn [fst]; auto.
  unfold RngOK; cbn [adj size]. apply rows_upd; auto. intros _ _. apply row_remove_all. apply rows_nth; auto. Qed.
Lemma for_vertices_rng (f : dgraph -> nat -> dgraph * res) vs : (forall g v, RngOK g -> RngOK (fst (f g v))) -> forall g, RngOK g -> RngOK (fst (for_vertices f vs g)).
Proof. intros Hf. induction vs as [|v t IH]; intros g H; cbn [for_vertices]; auto.
  pose proof (Hf g v H) as A. destruct (f g v) as [g1 [|e|k]]; cbn [fst] in *; auto. Qed.
Lemma for_vertices_size (f : dgraph -> nat -> dgraph * res) vs : (forall g v, size (fst (f g v)) = size g) -> forall g, size (fst (for_vertices f vs g)) = size g.
Proof. intros Hf. induction vs as [|v t IH]; intros g; cbn [for_vertices]; auto.
  pose proof (Hf g v) as A. destruct (f g v) as [g1 [|e|k]]; cbn [fst] in *; auto. rewrite IH; auto. Qed.
Theorem step_rng g o : RngOK g -> RngOK (fst (step hs V g o)).
Proof.
  intros H. destruct o as [s d l f|x y l f|s d| |v| |n|s d l f|]; cbn [step].
  - apply add_edge_rng; auto.
  - unfold add_reciprocal. pose proof (add_edge_rng g x y l f H) as A. destruct (add_edge hs V g x y l f) as [g1 [|e|k]]; cbn [fst] in *; auto. apply add_edge_rng; auto.
  - apply remove_edge_rng; auto.
  - unfold remove_self_loops. apply for_vertices_rng; auto. intros; apply remove_edge_rng; auto.
  - unfold remove_vertex. destruct (in_range g v); cbn [fst]; auto. destruct (Nat.ltb v (length (adj g))); cbn [fst]; auto.
    apply for_vertices_rng; [intros; apply remove_edge_rng; auto|]. unfold RngOK; cbn [adj size]. apply rows_upd; auto. intros; constructor.
  - unfold clear_edges. destruct (Nat.leb (size g) (length (adj g))); cbn [fst]; auto. unfold RngOK; cbn [adj size]. apply rows_map_nil.
  - unfold resize. destruct (Nat.ltb_spec n (size g)); cbn [fst]; auto. unfold RngOK; cbn [adj size]. apply Forall_app; split; [|apply rows_repeat_nil].
    apply rows_firstn. apply (rows_mono (size g)); auto.
  - unfold set_edge_label. destruct (in_range g s && in_range g d); cbn [fst]; auto. destruct f; cbn [fst]; auto.
    destruct (has_edge g s d) as [[|]|e|k]; cbn [fst]; auto.
  - unfold remove_duplicates. destruct (Nat.leb (size g) (length (adj g))); cbn [fst]; auto. unfold RngOK; cbn [adj size]. apply rows_map; auto. intros; apply row_dedup; auto.
Qed.
Theorem step_wf g o : WF g -> WF (fst (step hs V g o)).
Proof. intros [A B]. split; [apply (step_ok hs g o A)|apply step_rng; auto]. Qed.

(* ---- undirected ---- *)
Lemma u_push_rng g a b l : RngOK g -> a < size g -> b < size g -> RngOK (fst (u_push hs g a b l)).
Proof. intros H Ha Hb. unfold u_push. destruct (Nat.ltb a (length (adj g)) && Nat.ltb b (length (adj g))); cbn [fst]; auto. unfold RngOK; cbn [adj size].
  apply rows_upd; [|intros; apply row_snoc; auto]. destruct (Nat.eqb a b); auto. apply rows_upd; auto. intros; apply row_snoc; auto. Qed.
Lemma u_has_edge_val_rng g a b x : u_has_edge g a b = Val x -> a < size g /\ b < size g.
Proof. unfold u_has_edge. intros E. destruct (ordered_cases a b) as [[Eo _]|[Eo _]]; rewrite Eo in E; cbn [fst snd] in E; apply has_edge_false_rng in E; tauto. Qed.
Lemma u_add_edge_rng g a b l f : RngOK g -> RngOK (fst (u_add_edge hs V g a b l f)).
Proof. intros H. unfold u_add_edge. cbn [v_force_checks V]. destruct f.
  - unfold in_range. destruct (Nat.ltb_spec a (size g)); cbn [andb]; auto. destruct (Nat.ltb_spec b (size g)); cbn [andb]; auto. apply u_push_rng; auto.
  - destruct (u_has_edge g a b) as [[|]|e|k] eqn:E; cbn [fst]; auto. apply u_has_edge_val_rng in E as [Ha Hb]. apply u_push_rng; auto. Qed.
Lemma u_remove_edge_rng g a b : RngOK g -> RngOK (fst (u_remove_edge g a b)).
Proof. intros H. unfold u_remove_edge. destruct (in_range g a && in_range g b); cbn [fst]; auto.
  destruct (Nat.ltb a (length (adj g)) && Nat.ltb b (length (adj g))); cbn [fst]; auto.
  assert (R1 : RowsIn (size g) (upd a (fun _ => remove_all b (nth a (adj g) [])) (adj g))).
  { apply rows_upd; auto. intros _ _. apply row_remove_all. apply rows_nth; auto. }
  match goal with |- RngOK (fst (if ?c then _ else _)) => destruct c end; cbn [fst]; unfold RngOK; cbn [adj size]; auto.
  apply rows_upd; auto. intros; apply row_remove_all; auto. Qed.
Lemma u_rmv_rows_rng n v : forall rows i, RowsIn n rows -> RowsIn n (fst (fst (u_rmv_rows v i rows))).
Proof. induction rows as [|r rs IH]; intros i H; cbn [u_rmv_rows]; [constructor|]. inversion H; subst. unfold u_rmv_row.
  specialize (IH (S i) H3). destruct (u_rmv_rows v (S i) rs) as [[a b] c]. cbn [fst] in *. constructor; auto. apply row_filter; auto. Qed.
Lemma u_dedup_rng n i : forall l seen, RowIn n l -> RowIn n (fst (u_dedup i seen l)).
Proof. induction l as [|x t IH]; intros seen H; cbn [u_dedup]; [constructor|]. inversion H; subst. destruct (mem x seen).
  - specialize (IH seen H3). destruct (u_dedup i seen t) as [r c]. cbn [fst] in *. auto.
  - specialize (IH (x :: seen) H3). destruct (u_dedup i (x :: seen) t) as [r c]. cbn [fst] in *. constructor; auto. Qed.
Lemma u_dedup_rows_rng n : forall rows i, RowsIn n rows -> RowsIn n (fst (u_dedup_rows i rows)).
Proof. induction rows as [|r rs IH]; intros i H; cbn [u_dedup_rows]; [constructor|]. inversion H; subst.
  pose proof (u_dedup_rng n i r [] H2) as A. destruct (u_dedup i [] r) as [r' c]. specialize (IH (S i) H3). destruct (u_dedup_rows (S i) rs) as [a b]. cbn [fst] in *. constructor; auto. Qed.
Theorem ustep_rng g o : RngOK g -> RngOK (fst (ustep hs V g o)).
Proof.
  intros H. destruct o as [a b l f|a b| |v| |n|a b l f|]; cbn [ustep].
  - apply u_add_edge_rng; auto.
  - apply u_remove_edge_rng; auto.
  - unfold u_remove_self_loops. apply for_vertices_rng; auto. intros; apply u_remove_edge_rng; auto.
  - unfold u_remove_vertex. destruct (in_range g v); cbn [fst]; auto. destruct (Nat.leb (size g) (length (adj g))); cbn [fst]; auto.
    pose proof (u_rmv_rows_rng (size g) v (adj g) 0 H) as A. destruct (u_rmv_rows v 0 (adj g)) as [[rows c] es]. cbn [fst] in *. exact A.
  - exact (step_rng g ClearEdges H).
  - exact (step_rng g (Resize n) H).
  - unfold u_set_edge_label. exact (step_rng g (SetLabel (fst (ordered a b)) (snd (ordered a b)) l f) H).
  - unfold u_remove_duplicates. destruct (Nat.leb (size g) (length (adj g))); cbn [fst]; auto.
    pose proof (u_dedup_rows_rng (size g) (adj g) 0 H) as A. destruct (u_dedup_rows 0 (adj g)) as [rows c]. cbn [fst] in *. exact A.
Qed.
Theorem ustep_wf g o : WF g -> WF (fst (ustep hs V g o)).
Proof. intros [A B]. split; [apply (ustep_ok hs g o A)|apply ustep_rng; auto]. Qed.
End WFg.

(* ---- the multigraph and weighted classes ---- *)
Notation MR m := (RngOK (mg m)).
Lemma rng_set_adj (g : zgraph) a e l : RowsIn (size g) a -> RngOK (set_adj_lab g a e l).
Proof. unfold RngOK, set_adj_lab; cbn [adj size]. auto. Qed.
Lemma dm_add_multiedge_rng m s d k f : MR m -> MR (fst (dm_add_multiedge V m s d k f)).
Proof. intros H. unfold dm_add_multiedge. destruct (dm_in2 m s d); cbn [fst]; auto. destruct (Z.eqb k 0); cbn [fst]; auto.
  destruct (has_edge (mg m) s d) as [ex|e|u]; cbn [fst]; auto. destruct (f || negb ex).
  - pose proof (add_edge_rng true (mg m) s d k true H) as A. destruct (add_edge true V (mg m) s d k true) as [g1 r]. cbn [fst] in A. destruct r; cbn [fst mg mk]; auto.
  - cbn [fst mg mk]. apply rng_set_adj; auto. Qed.
Lemma m_then_rng (p : mgraph * res) (k : mgraph -> mgraph * res) : MR (fst p) -> (forall m, MR m -> MR (fst (k m))) ->
  MR (fst (let '(m1, r0) := p in match r0 with Done => k m1 | Thrown e => (m1, Thrown e) | UBk u => (m1, UBk u) end)).
Proof. destruct p as [m1 [|e|u]]; intros A K; cbn [fst] in *; auto. Qed.
Lemma dm_remove_multiedge_rng m s d k : MR m -> MR (fst (dm_remove_multiedge m s d k)).
Proof. intros H. unfold dm_remove_multiedge. destruct (dm_in2 m s d); cbn [fst]; auto. destruct (Nat.ltb s (length (adj (mg m)))); cbn [fst]; auto.
  destruct (mem d (nbl (mg m) s)); cbn [fst]; auto. destruct (Z.ltb k (lget (s, d) (labels (mg m)))); cbn [fst mg mk]; apply rng_set_adj; auto.
  apply rows_upd; auto. intros; apply row_remove_first; auto. Qed.
Lemma dm_remove_all_rng m s d : MR m -> MR (fst (dm_remove_all m s d)).
Proof. intros H. unfold dm_remove_all. destruct (dm_in2 m s d); cbn [fst]; auto. destruct (Nat.ltb s (length (adj (mg m)))); cbn [fst mg mk]; auto.
  apply rng_set_adj. apply rows_upd; auto. intros _ _. apply row_remove_all. unfold nbl. apply rows_nth; auto. Qed.
Lemma m_for_rng (f : mgraph -> nat -> mgraph * res) vs : (forall m v, MR m -> MR (fst (f m v))) -> forall m, MR m -> MR (fst (m_for f vs m)).
Proof. intros Hf. induction vs as [|v t IH]; intros m H; cbn [m_for]; auto. apply (m_then_rng (f m v) (m_for f t)); auto. Qed.
Lemma dm_dedup_row_rng n i lab : forall l seen, RowIn n l -> RowIn n (fst (fst (dm_dedup_row i lab seen l))).
Proof. induction l as [|x t IH]; intros seen H; cbn [dm_dedup_row]; [constructor|]. inversion H; subst. destruct (mem x seen).
  - specialize (IH seen H3). destruct (dm_dedup_row i lab seen t) as [[r c] w]. cbn [fst] in *. auto.
  - specialize (IH (x :: seen) H3). destruct (dm_dedup_row i lab (x :: seen) t) as [[r c] w]. cbn [fst] in *. constructor; auto. Qed.
Lemma dm_dedup_rows_rng n lab : forall rows i, RowsIn n rows -> RowsIn n (fst (fst (dm_dedup_rows i lab rows))).
Proof. induction rows as [|r rs IH]; intros i H; cbn [dm_dedup_rows]; [constructor|]. inversion H; subst.
  pose proof (dm_dedup_row_rng n i lab r [] H2) as A. destruct (dm_dedup_row i lab [] r) as [[r' c] w]. specialize (IH (S i) H3).
  destruct (dm_dedup_rows (S i) lab rs) as [[a b] c']. cbn [fst] in *. constructor; auto. Qed.
Lemma dm_remove_vertex_rng m v : MR m -> MR (fst (dm_remove_vertex V m v)).
Proof. intros H. unfold dm_remove_vertex. destruct (in_range (mg m) v); cbn [fst]; auto. destruct (Nat.ltb v (length (adj (mg m)))); cbn [fst]; auto.
  destruct (dm_drain V v (nbl (mg m) v) (labels (mg m)) (mtot m) (enum (mg m))) as [[lab t] e].
  apply m_for_rng; [intros; apply dm_remove_all_rng; auto|]. cbn [mg mk]. apply rng_set_adj. apply rows_upd; auto. intros; constructor. Qed.
Lemma dm_clear_rng m : MR m -> MR (fst (dm_clear V m)).
Proof. intros H. unfold dm_clear. destruct (dm_ok_rows m); cbn [fst mg mk]; auto. apply rng_set_adj. apply rows_map_nil. Qed.
Lemma dm_resize_rng m n : MR m -> MR (fst (dm_resize m n)).
Proof. intros H. unfold dm_resize, with_g. cbn [fst mg mk]. exact (step_rng true (mg m) (Resize n) H). Qed.
Lemma dm_remove_duplicates_rng m : MR m -> MR (fst (dm_remove_duplicates m)).
Proof. intros H. unfold dm_remove_duplicates. destruct (dm_ok_rows m); cbn [fst]; auto.
  pose proof (dm_dedup_rows_rng (size (mg m)) (labels (mg m)) (adj (mg m)) 0 H) as A. destruct (dm_dedup_rows 0 (labels (mg m)) (adj (mg m))) as [[rows c] w].
  cbn [fst mg mk] in *. apply rng_set_adj; auto. Qed.
Lemma dm_set_multiplicity_rng m s d k : MR m -> MR (fst (dm_set_multiplicity V m s d k)).
Proof. intros H. unfold dm_set_multiplicity. destruct (dm_in2 m s d); cbn [fst]; auto. destruct (Z.eqb k 0); [apply dm_remove_all_rng; auto|].
  destruct (has_edge (mg m) s d) as [[|]|e|u]; cbn [fst mg mk]; [apply rng_set_adj; auto|apply dm_add_multiedge_rng; auto|auto|auto]. Qed.
Theorem dm_step_rng m o : MR m -> MR (fst (dm_step V m o)).
Proof.
  intros H. destruct o as [s d f|s d f|s d k f|s d k f|s d|s d k|s d k| |v| |n|]; cbn [dm_step].
  - apply dm_add_multiedge_rng; auto.
  - unfold dm_add_edge. apply (m_then_rng (dm_add_multiedge V m s d 1 f) (fun m1 => dm_add_multiedge V m1 d s 1 f)); [apply dm_add_multiedge_rng; auto|intros; apply dm_add_multiedge_rng; auto].
  - apply dm_add_multiedge_rng; auto.
  - unfold dm_add_reciprocal_multiedge. apply (m_then_rng (dm_add_multiedge V m s d k f) (fun m1 => dm_add_multiedge V m1 d s k f)); [apply dm_add_multiedge_rng; auto|intros; apply dm_add_multiedge_rng; auto].
  - apply dm_remove_multiedge_rng; auto.
  - apply dm_remove_multiedge_rng; auto.
  - apply dm_set_multiplicity_rng; auto.
  - unfold dm_remove_self_loops. apply m_for_rng; auto. intros; apply dm_remove_all_rng; auto.
  - apply dm_remove_vertex_rng; auto.
  - apply dm_clear_rng; auto.
  - apply dm_resize_rng; auto.
  - apply dm_remove_duplicates_rng; auto.
Qed.

Lemma um_add_multiedge_rng m a b k f : MR m -> MR (fst (um_add_multiedge V m a b k f)).
Proof. intros H. unfold um_add_multiedge. destruct (dm_in2 m a b); cbn [fst]; auto. destruct (Z.eqb k 0); cbn [fst]; auto. unfold um_has_edge.
  destruct (u_has_edge (mg m) a b) as [ex|e|u]; cbn [fst]; auto. destruct (f || negb ex).
  - pose proof (u_add_edge_rng true (mg m) a b k true H) as A. destruct (u_add_edge true V (mg m) a b k true) as [g1 r]. cbn [fst] in A. destruct r; cbn [fst mg mk]; auto.
  - cbn [fst mg mk]. apply rng_set_adj; auto. Qed.
Lemma um_remove_multiedge_rng m a b k : MR m -> MR (fst (um_remove_multiedge m a b k)).
Proof. intros H. unfold um_remove_multiedge. destruct (dm_in2 m a b); cbn [fst]; auto.
  destruct (Nat.ltb a (length (adj (mg m))) && Nat.ltb b (length (adj (mg m)))); cbn [fst]; auto.
  destruct (mem b (nbl (mg m) a)); cbn [fst]; auto. destruct (Z.ltb k (lget (ordered a b) (labels (mg m)))); cbn [fst mg mk]; apply rng_set_adj; auto.
  assert (R1 : RowsIn (size (mg m)) (upd a (remove_first b) (adj (mg m)))) by (apply rows_upd; auto; intros; apply row_remove_first; auto).
  destruct (Nat.eqb a b); auto. apply rows_upd; auto. intros; apply row_remove_all; auto. Qed.
Lemma um_remove_all_rng m a b : MR m -> MR (fst (um_remove_all m a b)).
Proof. intros H. unfold um_remove_all. destruct (dm_in2 m a b); cbn [fst]; auto.
  destruct (Nat.ltb a (length (adj (mg m))) && Nat.ltb b (length (adj (mg m)))); cbn [fst]; auto.
  assert (R1 : RowsIn (size (mg m)) (upd a (fun _ => remove_all b (nbl (mg m) a)) (adj (mg m)))).
  { apply rows_upd; auto. intros _ _. apply row_remove_all. unfold nbl. apply rows_nth; auto. }
  match goal with |- MR (fst (if ?c then _ else _)) => destruct c end; cbn [fst mg mk]; apply rng_set_adj; auto.
  apply rows_upd; auto. intros; apply row_remove_all; auto. Qed.
Lemma um_set_multiplicity_rng set0 m a b k : MR m -> MR (fst (um_set_multiplicity V set0 m a b k)).
Proof. intros H. unfold um_set_multiplicity. destruct (dm_in2 m a b); cbn [fst]; auto.
  destruct (Z.eqb k 0); [destruct set0; [apply um_remove_all_rng|apply um_remove_multiedge_rng]; auto|]. unfold um_has_edge.
  destruct (u_has_edge (mg m) a b) as [[|]|e|u]; cbn [fst mg mk]; [apply rng_set_adj; auto|apply um_add_multiedge_rng; auto|auto|auto]. Qed.
Lemma um_rmv_row_rng n v i : forall row lab t e, RowIn n row -> RowIn n (fst (fst (fst (um_rmv_row V v i row lab t e)))).
Proof. induction row as [|j r IH]; intros lab t e H; cbn [um_rmv_row]; [constructor|]. inversion H; subst.
  destruct (Nat.eqb i v || Nat.eqb j v); [apply IH; auto|].
  specialize (IH lab t e H3). destruct (um_rmv_row V v i r lab t e) as [[[r' lab'] t'] e']. cbn [fst] in *. constructor; auto. Qed.
Lemma um_rmv_rows_rng n v : forall rows i lab t e, RowsIn n rows -> RowsIn n (fst (fst (fst (um_rmv_rows V v i rows lab t e)))).
Proof. induction rows as [|r rs IH]; intros i lab t e H; cbn [um_rmv_rows]; [constructor|]. inversion H; subst.
  pose proof (um_rmv_row_rng n v i r lab t e H2) as A. destruct (um_rmv_row V v i r lab t e) as [[[r' lab1] t1] e1]. specialize (IH (S i) lab1 t1 e1 H3).
  destruct (um_rmv_rows V v (S i) rs lab1 t1 e1) as [[[rs' lab2] t2] e2]. cbn [fst] in *. constructor; auto. Qed.
Lemma um_remove_vertex_rng m v : MR m -> MR (fst (um_remove_vertex V m v)).
Proof. intros H. unfold um_remove_vertex. destruct (in_range (mg m) v); cbn [fst]; auto. destruct (dm_ok_rows m); cbn [fst]; auto.
  pose proof (um_rmv_rows_rng (size (mg m)) v (adj (mg m)) 0 (labels (mg m)) (mtot m) (enum (mg m)) H) as A.
  destruct (um_rmv_rows V v 0 (adj (mg m)) (labels (mg m)) (mtot m) (enum (mg m))) as [[[rows lab] t] e]. cbn [fst mg mk] in *. apply rng_set_adj; auto. Qed.
Lemma um_dedup_row_rng n i lab : forall l seen, RowIn n l -> RowIn n (fst (fst (um_dedup_row i lab seen l))).
Proof. induction l as [|x t IH]; intros seen H; cbn [um_dedup_row]; [constructor|]. inversion H; subst. destruct (mem x seen).
  - specialize (IH seen H3). destruct (um_dedup_row i lab seen t) as [[r c] w]. destruct (Nat.leb i x); cbn [fst] in *; auto.
  - specialize (IH (x :: seen) H3). destruct (um_dedup_row i lab (x :: seen) t) as [[r c] w]. cbn [fst] in *. constructor; auto. Qed.
Lemma um_dedup_rows_rng n lab : forall rows i, RowsIn n rows -> RowsIn n (fst (fst (um_dedup_rows i lab rows))).
Proof. induction rows as [|r rs IH]; intros i H; cbn [um_dedup_rows]; [constructor|]. inversion H; subst.
  pose proof (um_dedup_row_rng n i lab r [] H2) as A. destruct (um_dedup_row i lab [] r) as [[r' c] w]. specialize (IH (S i) H3).
  destruct (um_dedup_rows (S i) lab rs) as [[a b] c']. cbn [fst] in *. constructor; auto. Qed.
Lemma um_remove_duplicates_rng m : MR m -> MR (fst (um_remove_duplicates m)).
Proof. intros H. unfold um_remove_duplicates. destruct (dm_ok_rows m); cbn [fst]; auto.
  pose proof (um_dedup_rows_rng (size (mg m)) (labels (mg m)) (adj (mg m)) 0 H) as A. destruct (um_dedup_rows 0 (labels (mg m)) (adj (mg m))) as [[rows c] w].
  cbn [fst mg mk] in *. apply rng_set_adj; auto. Qed.
Theorem um_step_rng set0 m o : MR m -> MR (fst (um_step V set0 m o)).
Proof.
  intros H. destruct o as [s d f|s d f|s d k f|s d k f|s d|s d k|s d k| |v| |n|]; cbn [um_step].
  - apply um_add_multiedge_rng; auto.
  - apply um_add_multiedge_rng; auto.
  - apply um_add_multiedge_rng; auto.
  - apply um_add_multiedge_rng; auto.
  - apply um_remove_multiedge_rng; auto.
  - apply um_remove_multiedge_rng; auto.
  - apply um_set_multiplicity_rng; auto.
  - unfold um_remove_self_loops. apply m_for_rng; auto. intros; apply um_remove_all_rng; auto.
  - apply um_remove_vertex_rng; auto.
  - apply dm_clear_rng; auto.
  - apply dm_resize_rng; auto.
  - apply um_remove_duplicates_rng; auto.
Qed.

Lemma dw_add_edge_rng m s d w f : MR m -> MR (fst (dw_add_edge V m s d w f)).
Proof. intros H. unfold dw_add_edge. pose proof (add_edge_rng true (mg m) s d w f H) as A.
  destruct (add_edge true V (mg m) s d w f) as [g1 r]. cbn [fst] in A. destruct r; cbn [fst mg mk]; auto. Qed.
Lemma dw_set_weight_rng m s d w : MR m -> MR (fst (dw_set_weight V m s d w)).
Proof. intros H. unfold dw_set_weight. destruct (has_edge (mg m) s d) as [[|]|e|u]; cbn [fst mg mk]; [apply rng_set_adj; auto|apply dw_add_edge_rng; auto|auto|auto]. Qed.
Lemma dw_clear_rng m : MR m -> MR (fst (dw_clear V m)).
Proof. intros H. unfold dw_clear. pose proof (step_rng true (mg m) ClearEdges H) as A. cbn [step] in A.
  destruct (clear_edges V (mg m)) as [g1 r]. cbn [fst] in A. destruct r; cbn [fst mg mk]; auto. Qed.
Theorem dw_step_rng m o : MR m -> MR (fst (dw_step V m o)).
Proof.
  intros H. destruct o as [s d w f|s d|s d w| |v| |n|]; cbn [dw_step].
  - apply dw_add_edge_rng; auto.
  - apply dm_remove_all_rng; auto.
  - apply dw_set_weight_rng; auto.
  - unfold dw_remove_self_loops. apply m_for_rng; auto. intros; apply dm_remove_all_rng; auto.
  - apply dm_remove_vertex_rng; auto.
  - apply dw_clear_rng; auto.
  - apply dm_resize_rng; auto.
  - apply dm_remove_duplicates_rng; auto.
Qed.
Lemma uw_add_edge_rng m a b w f : MR m -> MR (fst (uw_add_edge V m a b w f)).
Proof. intros H. unfold uw_add_edge. pose proof (u_add_edge_rng true (mg m) a b w f H) as A.
  destruct (u_add_edge true V (mg m) a b w f) as [g1 r]. cbn [fst] in A. destruct r; cbn [fst mg mk]; auto. Qed.
Lemma uw_set_weight_rng canon m a b w : MR m -> MR (fst (uw_set_weight V canon m a b w)).
Proof. intros H. unfold uw_set_weight. destruct (u_has_edge (mg m) a b) as [[|]|e|u]; cbn [fst mg mk]; [apply rng_set_adj; auto|apply uw_add_edge_rng; auto|auto|auto]. Qed.
Theorem uw_step_rng canon m o : MR m -> MR (fst (uw_step V canon m o)).
Proof.
  intros H. destruct o as [s d w f|s d|s d w| |v| |n|]; cbn [uw_step].
  - apply uw_add_edge_rng; auto.
  - apply um_remove_all_rng; auto.
  - apply uw_set_weight_rng; auto.
  - unfold uw_remove_self_loops. apply m_for_rng; auto. intros; apply um_remove_all_rng; auto.
  - apply um_remove_vertex_rng; auto.
  - apply dw_clear_rng; auto.
  - apply dm_resize_rng; auto.
  - apply um_remove_duplicates_rng; auto.
Qed.

(* the four classes keep WF *)
Theorem dm_step_wf m o : WF (mg m) -> WF (mg (fst (dm_step V m o))).
Proof. intros [A B]. split; [apply (dm_step_ok m o A)|apply dm_step_rng; auto]. Qed.
Theorem um_step_wf set0 m o : WF (mg m) -> WF (mg (fst (um_step V set0 m o))).
Proof. intros [A B]. split; [apply (um_step_ok set0 m o A)|apply um_step_rng; auto]. Qed.
Theorem dw_step_wf m o : WF (mg m) -> WF (mg (fst (dw_step V m o))).
Proof. intros [A B]. split; [apply (dw_step_ok m o A)|apply dw_step_rng; auto]. Qed.
Theorem uw_step_wf canon m o : WF (mg m) -> WF (mg (fst (uw_step V canon m o))).
Proof. intros [A B]. split; [apply (uw_step_ok canon m o A)|apply uw_step_rng; auto]. Qed.
