(* C14 — Binary edge lists round-trip through a fixed little-endian record format.  Statements only; proofs in IOProofs.v.
   PARTIAL: proved are the codec (fixed width, round trip of every value that fits), the record layout and file length, and that loading
   the encoding of ANY record list - in any order, duplicates included - is the graph built from exactly those records. That the writer
   emits one such record per edge, the graph-level equality after resize and the missing-file behaviour are tied to the implementation by
   the correspondence check.  Little-endian host assumed (the swapBytes branch is not modelled). *)
From Coq Require Import List NArith.
From BG Require Import Base IOModel IOProofs.
Import ListNotations.
Local Open Scope N_scope.

Theorem C14_codec : forall k x, length (le_bytes k x) = k /\ (forall b, In b (le_bytes k x) -> b < 256) /\ (x < 256 ^ N.of_nat k -> of_le_bytes (le_bytes k x) = x).
Proof. intros k x. split; [apply le_bytes_length|split; [apply le_bytes_range|apply of_le_bytes_le]]. Qed.
Print Assumptions C14_codec.
Theorem C14_record_layout : forall w s d l rs,
  enc_record w (s, d, l) = le_bytes 4 s ++ le_bytes 4 d ++ le_bytes w l /\
  length (enc_record w (s, d, l)) = (8 + w)%nat /\ length (enc_records w rs) = (length rs * (8 + w))%nat.
Proof. intros. split; [reflexivity|split; [apply enc_record_length|apply enc_records_length]]. Qed.
Print Assumptions C14_record_layout.
Theorem C14_load_of_encoded_records : forall V und w rs, Forall (rec_ok w) rs -> load_binary V und w (enc_records w rs) = build_graph V und w rs.
Proof. exact load_binary_whole. Qed.
Print Assumptions C14_load_of_encoded_records.

Example C14_example : enc_record 2 (3, 258, 513) = [3; 0; 0; 0; 2; 1; 0; 0; 1; 2] /\
  omap (fun g => (DirectedModel.adj g, DirectedModel.labels g)) (load_binary DirectedModel.repaired false 2 (enc_records 2 [(2, 0, 7); (0, 1, 513)])) = Val ([[1]; []; [0]]%nat, [((0, 1)%nat, 513); ((2, 0)%nat, 7)]).
Proof. vm_compute. auto. Qed.
