(* C14 — Binary edge lists round-trip through a fixed little-endian record format.  Statements only; proofs in IOProofs.v, RoundTrip.v, URoundTrip.v.
   Proved: the codec (fixed width, round trip of every value that fits), the record layout and file length, that loading the encoding of ANY
   record list - in any order, duplicates included - is the graph built from exactly those records, and the graph-level round trip: the
   writer emits exactly one record per edge (directed: the flattened adjacency lists; undirected: their i <= j half), and loading those bytes
   and resizing to the original vertex count gives a graph == the original (directed: identical neighbour lists).
   PARTIAL: std::runtime_error on unopenable files is tied to the implementation by the correspondence check only.  Little-endian host assumed
   (the swapBytes branch is not modelled). *)
From Coq Require Import List NArith.
From BG Require Import Base DirectedModel DirectedProofs DirectedIter UndirectedProofs UndirectedIter Equality IOModel IOProofs RoundTrip URoundTrip.
Import ListNotations.
Local Open Scope N_scope.

Theorem C14_codec : forall k x, length (le_bytes k x) = k /\ (forall b, In b (le_bytes k x) -> b < 256) /\ (x < 256 ^ N.of_nat k -> of_le_bytes (le_bytes k x) = x).
Proof. intros k x. split; [apply le_bytes_length|split; [apply le_bytes_range|apply of_le_bytes_le]]. Qed.
Print Assumptions C14_codec.
Theorem C14_record_layout : forall w s d l rs,
  enc_record w (s, d, l) = le_bytes 4 s ++ le_bytes 4 d ++ le_bytes w l /\
  length (enc_record w (s, d, l)) = (8 + w)%nat /\ length (enc_records w rs) = (length rs * (8 + w))%nat.
Proof. intros. split; [reflexivity|split; [apply enc_record_length|apply enc_records_length]]. Qed.
Print Assumptions C14_record_layout.
Theorem C14_load_of_encoded_records : forall V und w rs, Forall (rec_ok w) rs -> load_binary V und w (enc_records w rs) = build_graph V und w rs.
Proof. exact load_binary_whole. Qed.
Print Assumptions C14_load_of_encoded_records.

Example C14_example : enc_record 2 (3, 258, 513) = [3; 0; 0; 0; 2; 1; 0; 0; 1; 2] /\
  omap (fun g => (DirectedModel.adj g, DirectedModel.labels g)) (load_binary DirectedModel.repaired false 2 (enc_records 2 [(2, 0, 7); (0, 1, 513)])) = Val ([[1]; []; [0]]%nat, [((0, 1)%nat, 513); ((2, 0)%nat, 7)]).
Proof. vm_compute. auto. Qed.

(* ---- graph-level round trip.  fits w g: at most 2^32 vertices and every stored label below 256^w; hs_of w: the graph has labels iff w > 0;
   brec w g e: the record (source, destination, label of e - 0 when unlabelled) ---- *)
Local Close Scope N_scope.
Theorem C14_binary_round_trip_directed : forall (w : nat) (g : @dgraph N), Inv (hs_of w) g -> KeysOK g -> RoundTrip.fits w g ->
  exists (b : bytes) (h h' : @dgraph N),
    write_binary repaired false w g = Val b /\ b = enc_records w (map (brec w g) (flatten g)) /\
    load_binary repaired false w b = Val h /\ build_graph repaired false w (map (brec w g) (flatten g)) = Val h /\
    size h <= size g /\ adj h = firstn (size h) (adj g) /\
    resize h (size g) = (h', Done) /\
    adj h' = adj g /\ size h' = size g /\ enum h' = enum g /\ (forall e, lfind e (labels h') = lfind e (labels g)) /\ KeysOK h' /\ Inv (hs_of w) h' /\
    graph_eqb N.eqb h' g = Val true.
Proof. exact RoundTrip.binary_round_trip_directed. Qed.
Print Assumptions C14_binary_round_trip_directed.
(* undirected: one record per edge; the lists come back as sets ([reloaded]: smaller neighbours ascending, then the rest in their old order) *)
Theorem C14_binary_round_trip_undirected : forall (w : nat) (g : @dgraph N), InvU (hs_of w) g -> KeysOK g -> RoundTrip.fits w g ->
  exists (b : bytes) (h h' : @dgraph N),
    write_binary repaired true w g = Val b /\ b = enc_records w (map (brec w g) (filter up (flatten g))) /\
    load_binary repaired true w b = Val h /\ size h <= size g /\
    resize h (size g) = (h', Done) /\
    size h' = size g /\ enum h' = enum g /\
    (forall k, k < size g -> nb h' k = reloaded g k) /\ (forall i j, In j (nb h' i) <-> In j (nb g i)) /\
    (forall e, lfind e (labels h') = lfind e (labels g)) /\ KeysOK h' /\ InvU (hs_of w) h' /\
    graph_eqb N.eqb h' g = Val true.
Proof. exact URoundTrip.binary_round_trip_undirected. Qed.
Print Assumptions C14_binary_round_trip_undirected.
