(* FloatDjProofs — (1) correctness of the generic choice-driven Dijkstra of FloatDj.v from: total preorder + ext monotone + ext inflationary;
   (2) the binary64 instance satisfies the laws; (3) rounding bound and exactness for quarter-integer weights.
   Parts (2),(3) use Flocq and the Coq Reals. *)
From Coq Require Import ZArith List Bool Arith Lia Reals Lra Floats.SpecFloat.
From Flocq Require Import Core BinarySingleNaN Relative Plus_error Operations.
From BG Require Import Dj FloatTotal FloatTotalProofs FloatDj.
Import ListNotations.

Lemma nth_set_nth_full {A} i j (x : A) l d :
  nth j (set_nth i x l) d = if Nat.eqb j i && (i <? length l) then x else nth j l d.
Proof.
  destruct (Nat.eqb_spec j i) as [->|N]; cbn [andb].
  - destruct (Nat.ltb_spec i (length l)) as [L|L]; [apply nth_set_nth_eq; auto|].
    rewrite !nth_overflow; auto. rewrite set_nth_length; auto.
  - apply nth_set_nth_neq; auto.
Qed.

(* copies of Dj.sumf_ext / Dj.sumf_split (there they sit inside a section and were generalised over its variables) *)
Lemma gsumf_ext f f' l : (forall u, In u l -> f u = f' u) -> sumf f l = sumf f' l.
Proof. induction l as [|h t IH]; simpl; intros H; [reflexivity|]. rewrite H, IH; auto. Qed.
Lemma gsumf_split f f' c k l : NoDup l -> In c l -> (forall u, In u l -> u <> c -> f' u = f u) -> f' c + k = f c -> sumf f' l + k = sumf f l.
Proof. induction l as [|h t IH]; simpl; [tauto|]. intros ND [->|Hin] Hext Hc; inversion ND; subst.
  - rewrite (gsumf_ext f' f t); [lia|]. intros u Hu; apply Hext; auto. intros ->; contradiction.
  - rewrite <- (IH H2 Hin); auto. rewrite (Hext h); auto; [lia|]. intros ->; contradiction.
Qed.

(* ================= 1. generic Dijkstra ================= *)
Section GProofs.
Variables D W : Type.
Variable leb : D -> D -> bool.
Variable zero : D.
Variable ext : D -> W -> D.
(* the laws may be restricted to "admissible" distances / weights (for floats: no NaN, no negative number); take [fun _ => True] otherwise *)
Variables (okD : D -> Prop) (okW : W -> Prop).
Hypothesis ok_zero : okD zero.
Hypothesis ok_ext : forall a w, okD a -> okW w -> okD (ext a w).
Hypothesis leb_total : forall a b, okD a -> okD b -> leb a b = true \/ leb b a = true.
Hypothesis leb_trans : forall a b c, leb a b = true -> leb b c = true -> leb a c = true.
Hypothesis ext_mono : forall a b w, okD a -> okD b -> okW w -> leb a b = true -> leb (ext a w) (ext b w) = true.
Hypothesis ext_infl : forall a w, okD a -> okW w -> leb a (ext a w) = true.

Notation le a b := (leb a b = true).
Notation getd st v := (ggetd (gdist st) v).
Notation getp st v := (ggetp (gpred st) v).
Notation relax1 := (grelax1 D W leb ext).
Notation legal := (glegal D leb).
Notation step := (gstep D W leb ext).
Notation run := (grun D W leb ext).
Notation init := (ginit D zero).
Notation cost := (gcost D W zero ext).
Definition gwok (g : gadj W) : Prop := forall u v w, In (v, w) (nth u g []) -> okW w.

Lemma leb_refl a : okD a -> le a a.
Proof. intros H. destruct (leb_total a a H H); auto. Qed.
Lemma leb_false a b : okD a -> okD b -> leb a b = false -> le b a.
Proof. intros Ha Hb H. destruct (leb_total a b Ha Hb) as [E|E]; auto. congruence. Qed.

Lemma cost_snoc p e : cost (p ++ [e]) = ext (cost p) (snd e).
Proof. unfold gcost. rewrite fold_left_app. reflexivity. Qed.

(* ---------- the relax loop ---------- *)
Section Fold.
Variables (c : nat) (du : D).
Hypothesis Hdu : okD du.
Notation F := (fold_left (relax1 c du)).
Definition dok (st : gdj D) : Prop := forall v d, getd st v = Some d -> okD d.
Definition fired (st : gdj D) (e : nat * W) : gdj D :=
  {| gdist := set_nth (fst e) (Some (ext du (snd e))) (gdist st); gpred := set_nth (fst e) (Some c) (gpred st); gwork := gwork st ++ [fst e] |}.

Lemma relax1_cases st e :
  (relax1 c du st e = st /\ exists d0, getd st (fst e) = Some d0 /\ le d0 (ext du (snd e))) \/
  (relax1 c du st e = fired st e /\ forall d0, getd st (fst e) = Some d0 -> leb d0 (ext du (snd e)) = false).
Proof.
  unfold grelax1, fired. destruct (ggetd (gdist st) (fst e)) as [d0|] eqn:E; cbn [gdlt]; unfold gltb.
  - destruct (leb d0 (ext du (snd e))) eqn:L; cbn [negb].
    + left. split; auto. exists d0; auto.
    + right. split; auto. intros d1 E1. injection E1 as <-. exact L.
  - right. split; auto. intros d1 E1. discriminate E1.
Qed.

Lemma getd_fired st e v : getd (fired st e) v = if Nat.eqb v (fst e) && (fst e <? length (gdist st)) then Some (ext du (snd e)) else getd st v.
Proof. unfold fired, ggetd; cbn [gdist]. apply nth_set_nth_full. Qed.

Lemma fold_len es : forall st, length (gdist (F es st)) = length (gdist st).
Proof. induction es as [|e es IH]; intros st; cbn [fold_left]; auto. rewrite IH.
  destruct (relax1_cases st e) as [[-> _]|[-> _]]; cbn [fired gdist]; auto using set_nth_length. Qed.
Lemma fold_plen es : forall st, length (gpred (F es st)) = length (gpred st).
Proof. induction es as [|e es IH]; intros st; cbn [fold_left]; auto. rewrite IH.
  destruct (relax1_cases st e) as [[-> _]|[-> _]]; cbn [fired gpred]; auto using set_nth_length. Qed.

Lemma fold_work_mono es : forall st x, In x (gwork st) -> In x (gwork (F es st)).
Proof. induction es as [|e es IH]; intros st x H; cbn [fold_left]; auto. apply IH.
  destruct (relax1_cases st e) as [[-> _]|[-> _]]; cbn [fired gwork]; auto using in_or_app. Qed.

Lemma fold_work_len es : forall st, length (gwork (F es st)) <= length (gwork st) + length es.
Proof. induction es as [|e es IH]; intros st; cbn [fold_left length]; [lia|]. specialize (IH (relax1 c du st e)).
  destruct (relax1_cases st e) as [[E _]|[E _]]; rewrite E in *; [lia|]. cbn [fired gwork] in IH. rewrite app_length in IH; cbn [length] in IH; lia. Qed.

Lemma relax1_some st e v : getd st v <> None -> getd (relax1 c du st e) v <> None.
Proof. intros H. destruct (relax1_cases st e) as [[-> _]|[-> _]]; auto. rewrite getd_fired.
  destruct (Nat.eqb v (fst e) && (fst e <? length (gdist st))); [discriminate|auto]. Qed.
Lemma fold_some es : forall st v, getd st v <> None -> getd (F es st) v <> None.
Proof. induction es as [|e es IH]; intros st v H; cbn [fold_left]; auto. apply IH, relax1_some; auto. Qed.

Lemma relax1_dok st e : okW (snd e) -> dok st -> dok (relax1 c du st e).
Proof. intros Hw H. destruct (relax1_cases st e) as [[-> _]|[-> _]]; auto. intros v d. rewrite getd_fired.
  destruct (Nat.eqb v (fst e) && (fst e <? length (gdist st))); [|apply H]. intros E; injection E as <-. apply ok_ext; auto. Qed.

Lemma fold_mono es : (forall e, In e es -> okW (snd e)) -> forall st v d0, dok st -> getd st v = Some d0 ->
  exists d1, getd (F es st) v = Some d1 /\ le d1 d0.
Proof. induction es as [|e es IH]; intros Hw st v d0 Hok H; cbn [fold_left].
  - exists d0; split; auto. apply leb_refl. eapply Hok; eauto.
  - assert (Hwe : okW (snd e)) by (apply Hw; left; auto).
    assert (Hw' : forall e', In e' es -> okW (snd e')) by (intros; apply Hw; right; auto).
    pose proof (relax1_dok st e Hwe Hok) as Hok'.
    destruct (relax1_cases st e) as [[E _]|[E Hlt]]; rewrite E in *; [apply IH; auto|].
    destruct (Nat.eqb v (fst e) && (fst e <? length (gdist st))) eqn:B.
    + apply andb_prop in B as [B1 B2]. apply Nat.eqb_eq in B1; subst v.
      destruct (IH Hw' (fired st e) (fst e) (ext du (snd e)) Hok') as [d1 [H1 H2]].
      { rewrite getd_fired, Nat.eqb_refl, B2. reflexivity. }
      exists d1; split; auto. apply (leb_trans _ _ _ H2). apply leb_false; [eapply Hok; eauto|apply ok_ext; auto|]. apply Hlt; auto.
    + apply IH; auto. rewrite getd_fired, B. auto.
Qed.

Lemma fold_changed es : forall st v, getd (F es st) v = getd st v \/
  (In v (gwork (F es st)) /\ exists w, In (v, w) es /\ getd (F es st) v = Some (ext du w)).
Proof. induction es as [|[y w0] es IH]; intros st v; cbn [fold_left]; [left; auto|].
  destruct (IH (relax1 c du st (y, w0)) v) as [Heq|[Hw [w [Hin Hv]]]].
  2:{ right; split; auto. exists w; split; auto. right; auto. }
  destruct (relax1_cases st (y, w0)) as [[E _]|[E _]]; rewrite E in *; [left; auto|].
  rewrite getd_fired in Heq. cbn [fst snd] in Heq.
  destruct (Nat.eqb v y && (y <? length (gdist st))) eqn:B; [|left; auto].
  apply andb_prop in B as [B1 _]. apply Nat.eqb_eq in B1; subst v. right. split.
  - apply fold_work_mono. cbn [fired gwork fst]. apply in_or_app; right; left; auto.
  - exists w0; split; auto. left; auto.
Qed.

Lemma fold_relaxed es : (forall e, In e es -> okW (snd e)) -> forall st y w, dok st -> In (y, w) es -> y < length (gdist st) ->
  exists dy, getd (F es st) y = Some dy /\ le dy (ext du w).
Proof. induction es as [|e es IH]; intros Hw st y w Hok Hin Hy; cbn [fold_left]; [destruct Hin|].
  assert (Hwe : okW (snd e)) by (apply Hw; left; auto).
  assert (Hw' : forall e', In e' es -> okW (snd e')) by (intros; apply Hw; right; auto).
  pose proof (relax1_dok st e Hwe Hok) as Hok'.
  destruct Hin as [->|Hin].
  - cbn [fst snd] in *. destruct (relax1_cases st (y, w)) as [[E [d0 [H0 Hle]]]|[E _]]; rewrite E in *; cbn [fst snd] in *.
    + destruct (fold_mono es Hw' st y d0 Hok H0) as [d1 [H1 H2]]. exists d1; split; auto. eapply leb_trans; eauto.
    + destruct (fold_mono es Hw' (fired st (y, w)) y (ext du w) Hok') as [d1 [H1 H2]]; [|exists d1; split; auto].
      rewrite getd_fired. cbn [fst snd]. rewrite Nat.eqb_refl. apply Nat.ltb_lt in Hy. rewrite Hy. reflexivity.
  - apply IH; auto. destruct (relax1_cases st e) as [[E _]|[E _]]; rewrite E; cbn [fired gdist]; rewrite ?set_nth_length; auto.
Qed.

(* a vertex whose distance is not beaten by any edge into it keeps its distance LITERALLY *)
Lemma fold_keep es : forall st v d0, getd st v = Some d0 -> (forall w, In (v, w) es -> le d0 (ext du w)) -> getd (F es st) v = Some d0.
Proof. induction es as [|[y w0] es IH]; intros st v d0 H Hle; cbn [fold_left]; auto.
  apply IH; [|intros w Hin; apply Hle; right; auto].
  destruct (relax1_cases st (y, w0)) as [[-> _]|[-> Hlt]]; auto. rewrite getd_fired. cbn [fst snd] in *.
  destruct (Nat.eqb v y && (y <? length (gdist st))) eqn:B; auto.
  apply andb_prop in B as [B1 _]. apply Nat.eqb_eq in B1; subst y.
  specialize (Hle w0 (or_introl eq_refl)). rewrite (Hlt d0 H) in Hle. discriminate Hle.
Qed.

Lemma fold_work_finite es : forall st x, (forall y w, In (y, w) es -> y < length (gdist st)) ->
  In x (gwork (F es st)) -> In x (gwork st) \/ getd (F es st) x <> None.
Proof. induction es as [|[y w] es IH]; intros st x Hr H; cbn [fold_left] in *; auto.
  destruct (relax1_cases st (y, w)) as [[E _]|[E _]]; rewrite E in *.
  - apply IH; auto. intros; eapply Hr; right; eauto.
  - destruct (IH (fired st (y, w)) x) as [Hw|Hf]; auto.
    + cbn [fired gdist]. intros; rewrite set_nth_length; eapply Hr; right; eauto.
    + cbn [fired gwork fst] in Hw. apply in_app_or in Hw as [Hw|[<-|[]]]; auto. right.
      apply fold_some. rewrite getd_fired. cbn [fst snd]. rewrite Nat.eqb_refl.
      assert (L : y < length (gdist st)) by (eapply Hr; left; eauto). apply Nat.ltb_lt in L. rewrite L. discriminate.
Qed.
End Fold.

(* ---------- invariants ---------- *)
Section Inv.
Variables (g : gadj W) (s : nat).
Hypothesis Hwf : gwf g.
Hypothesis Hwok : gwok g.
Notation walk := (gwalk g s).
Let n := length g.

Lemma walk_ok p v : walk p v -> okD (cost p).
Proof. induction 1 as [|p u v w Wk IH Hin]; [exact ok_zero|]. rewrite cost_snoc. apply ok_ext; auto. eapply Hwok; eauto. Qed.
Lemma walk_zero p v : walk p v -> le zero (cost p).
Proof. induction 1 as [Hs|p u v w Wk IH Hin]; [apply leb_refl; exact ok_zero|]. rewrite cost_snoc.
  apply (leb_trans _ _ _ IH). apply ext_infl; [eapply walk_ok; eauto|eapply Hwok; eauto]. Qed.
Lemma walk_range p v : walk p v -> v < length g.
Proof. induction 1 as [Hs|p u v w Wk IH Hin]; auto. eapply Hwf; eauto. Qed.

Record GInv (st : gdj D) : Prop := {
  i_len : length (gdist st) = n;
  i_src : getd st s = Some zero;
  i_walk : forall v d, getd st v = Some d -> exists p, walk p v /\ cost p = d;
  i_closed : forall u du, getd st u = Some du -> ~ In u (gwork st) ->
             forall y w, In (y, w) (nth u g []) -> exists dy, getd st y = Some dy /\ le dy (ext du w);
  i_work : forall u, In u (gwork st) -> getd st u <> None }.

Lemma inv_dok st : GInv st -> dok st.
Proof. intros I v d H. destruct (i_walk _ I v d H) as [p [Wk <-]]. eapply walk_ok; eauto. Qed.

Lemma legal_in st c : legal st c = true -> In c (gwork st).
Proof. unfold glegal; intros H; apply andb_prop in H as [H _]. apply existsb_exists in H as [x [Hx E]]. apply Nat.eqb_eq in E; subst; auto. Qed.
Lemma legal_min st c : legal st c = true -> forall x, In x (gwork st) -> gdle D leb (getd st c) (getd st x) = true.
Proof. unfold glegal; intros H x Hx; apply andb_prop in H as [_ H]. rewrite forallb_forall in H; auto. Qed.

Lemma step_unfold st c st' : step g st c = Some st' ->
  legal st c = true /\ exists dc, getd st c = Some dc /\
  st' = fold_left (relax1 c dc) (nth c g []) {| gdist := gdist st; gpred := gpred st; gwork := remove_one c (gwork st) |}.
Proof. unfold gstep. destruct (legal st c); [|discriminate]. destruct (ggetd (gdist st) c) as [dc|]; [|discriminate].
  intros E; injection E as <-. split; auto. exists dc; auto. Qed.

Lemma step_inv st c st' : GInv st -> step g st c = Some st' -> GInv st'.
Proof.
  intros I H. destruct (step_unfold _ _ _ H) as [L [dc [Dc ->]]]. clear H.
  set (st0 := {| gdist := gdist st; gpred := gpred st; gwork := remove_one c (gwork st) |}).
  destruct (i_walk _ I c dc Dc) as [pc [Wc Cc]].
  assert (Hdc : okD dc) by (rewrite <- Cc; eapply walk_ok; eauto).
  assert (Hes : forall e, In e (nth c g []) -> okW (snd e)) by (intros [y w] Hin; eapply Hwok; eauto).
  assert (Hok0 : dok st0) by (exact (inv_dok _ I)).
  constructor.
  - rewrite fold_len. apply (i_len _ I).
  - apply fold_keep; [apply (i_src _ I)|]. intros w Hin.
    assert (Ww : walk (pc ++ [(s, w)]) s) by (econstructor; eauto).
    apply walk_zero in Ww. rewrite cost_snoc, Cc in Ww. exact Ww.
  - intros v d Hv. destruct (fold_changed c dc (nth c g []) st0 v) as [E|[_ [w [Hin Hd]]]].
    + apply (i_walk _ I). rewrite <- Hv, E. reflexivity.
    + rewrite Hd in Hv; injection Hv as <-. exists (pc ++ [(v, w)]). split; [econstructor; eauto|]. rewrite cost_snoc, Cc. reflexivity.
  - intros u du' Hu Hnw y w Hin.
    assert (Hy : y < length (gdist st0)) by (cbn [st0 gdist]; rewrite (i_len _ I); eapply Hwf; eauto).
    destruct (fold_changed c dc (nth c g []) st0 u) as [E|[Hw _]]; [|contradiction].
    rewrite E in Hu. change (getd st u = Some du') in Hu.
    destruct (Nat.eq_dec u c) as [->|Huc].
    + rewrite Dc in Hu; injection Hu as <-. apply fold_relaxed; auto.
    + assert (Hnw0 : ~ In u (gwork st)).
      { intros Hw; apply Hnw, fold_work_mono. cbn [st0 gwork]. apply In_remove_one_neq; auto. }
      destruct (i_closed _ I u du' Hu Hnw0 y w Hin) as [dy [Hdy Hle]].
      destruct (fold_mono c dc Hdc (nth c g []) Hes st0 y dy Hok0 Hdy) as [d1 [H1 H2]]. exists d1; split; auto. eapply leb_trans; eauto.
  - intros u Hu.
    destruct (fold_work_finite c dc (nth c g []) st0 u) as [Hw|Hf]; auto.
    + cbn [st0 gdist]. intros y w Hin; rewrite (i_len _ I); eapply Hwf; eauto.
    + cbn [st0 gwork] in Hw. apply In_remove_one_sub in Hw. apply fold_some. apply (i_work _ I); auto.
Qed.

(* at an empty worklist every tentative distance is a lower bound of every walk *)
Lemma closed_lower st : GInv st -> gwork st = [] -> forall p v, walk p v -> exists d, getd st v = Some d /\ le d (cost p).
Proof. intros I Hw p v Wk; induction Wk as [Hs|p u v w Wk IH Hin].
  - exists zero; split; [apply (i_src _ I)|apply leb_refl; exact ok_zero].
  - destruct IH as [du [Hu Hle]].
    destruct (i_closed _ I u du Hu) with (y := v) (w := w) as [dy [Hy Hl]]; auto; [rewrite Hw; intros []|].
    exists dy; split; auto. rewrite cost_snoc. apply (leb_trans _ _ _ Hl). cbn [snd].
    apply ext_mono; auto; [eapply (inv_dok _ I); eauto|eapply walk_ok; eauto|eapply Hwok; eauto].
Qed.

(* ---------- the greedy lemma ---------- *)
Lemma frontier st : GInv st -> forall p v, walk p v ->
  (exists dv, getd st v = Some dv /\ le dv (cost p)) \/ (exists x dx, In x (gwork st) /\ getd st x = Some dx /\ le dx (cost p)).
Proof. intros I p v Wk; induction Wk as [Hs|p u v w Wk IH Hin].
  - left; exists zero; split; [apply (i_src _ I)|apply leb_refl; exact ok_zero].
  - assert (Hw : okW w) by (eapply Hwok; eauto). pose proof (walk_ok _ _ Wk) as Hp.
    assert (Hinf : le (cost p) (cost (p ++ [(v, w)]))) by (rewrite cost_snoc; apply ext_infl; auto).
    destruct IH as [[du [Hu Hle]]|[x [dx [Hx [Hdx Hle]]]]].
    + destruct (in_dec Nat.eq_dec u (gwork st)) as [Hin'|Hnin].
      * right; exists u, du; repeat split; auto. eapply leb_trans; eauto.
      * destruct (i_closed _ I u du Hu Hnin v w Hin) as [dy [Hy Hl]]. left; exists dy; split; auto.
        apply (leb_trans _ _ _ Hl). rewrite cost_snoc. cbn [snd]. apply ext_mono; auto. eapply (inv_dok _ I); eauto.
    + right; exists x, dx; repeat split; auto. eapply leb_trans; eauto.
Qed.

Lemma greedy st c dc : GInv st -> legal st c = true -> getd st c = Some dc -> forall p, walk p c -> le dc (cost p).
Proof. intros I L Dc p Wk. destruct (frontier st I p c Wk) as [[dv [Hv Hle]]|[x [dx [Hx [Hdx Hle]]]]].
  - rewrite Dc in Hv; injection Hv as <-. exact Hle.
  - pose proof (legal_min _ _ L x Hx) as M. rewrite Dc, Hdx in M. cbn [gdle] in M. eapply leb_trans; eauto.
Qed.

(* ---------- popped vertices are final; the predecessor tree ---------- *)
Section PFold.
Variables (c : nat) (dc : D) (hist : list nat).
Hypothesis Hdc : okD dc.
Definition protected (u : nat) : Prop := In u hist \/ u = s.
Record FQ (st : gdj D) : Prop := {
  q_len : length (gdist st) = n /\ length (gpred st) = n;
  q_psrc : getp st s = Some s;
  q_c : getd st c = Some dc;
  q_low : forall u, protected u -> exists du, getd st u = Some du /\ forall w, In (u, w) (nth c g []) -> le du (ext dc w);
  q_edge : forall v d, v <> s -> getd st v = Some d ->
           exists p dp w, getp st v = Some p /\ In p hist /\ getd st p = Some dp /\ In (v, w) (nth p g []) /\ d = ext dp w;
  q_none : forall v, getd st v = None -> getp st v = None }.

Lemma relax1_fq st e : In c hist -> FQ st -> In e (nth c g []) -> FQ (relax1 c dc st e).
Proof.
  intros Hc [[L1 L2] SP QC QL QE QN] Hin. destruct e as [y w]. pose proof (Hwf c y w Hin) as Hy.
  destruct (relax1_cases c dc st (y, w)) as [[-> _]|[-> Hlt]]; [constructor; auto|]. cbn [fst snd] in *.
  assert (Npy : ~ protected y).
  { intros P. destruct (QL y P) as [d0 [H0 Hle]]. specialize (Hle w Hin). rewrite (Hlt d0 H0) in Hle. discriminate Hle. }
  assert (Nys : y <> s) by (intros ->; apply Npy; right; auto).
  assert (Nyh : ~ In y hist) by (intros H; apply Npy; left; auto).
  assert (Nyc : y <> c) by (intros ->; contradiction).
  assert (GD : forall v, getd (fired c dc st (y, w)) v = if Nat.eqb v y then Some (ext dc w) else getd st v).
  { intros v. rewrite getd_fired. cbn [fst snd]. fold n in Hy. rewrite <- L1 in Hy. apply Nat.ltb_lt in Hy. rewrite Hy, andb_true_r. reflexivity. }
  assert (GP : forall v, getp (fired c dc st (y, w)) v = if Nat.eqb v y then Some c else getp st v).
  { intros v. unfold ggetp, fired; cbn [gpred fst snd]. rewrite nth_set_nth_full.
    fold n in Hy. rewrite <- L2 in Hy. apply Nat.ltb_lt in Hy. rewrite Hy, andb_true_r. reflexivity. }
  constructor.
  - cbn [fired gdist gpred]. rewrite !set_nth_length. auto.
  - rewrite GP. destruct (Nat.eqb_spec s y); [congruence|auto].
  - rewrite GD. destruct (Nat.eqb_spec c y); [congruence|auto].
  - intros u P. rewrite GD. destruct (Nat.eqb_spec u y) as [->|]; [contradiction|auto].
  - intros v d Nv. rewrite GD, GP. destruct (Nat.eqb_spec v y) as [->|Nvy].
    + intros E; injection E as <-. exists c, dc, w. rewrite GD. destruct (Nat.eqb_spec c y); [congruence|]. repeat split; auto.
    + intros Dv. destruct (QE v d Nv Dv) as [p [dp [w' [Pp [Hp [Dp [Ein Eq]]]]]]].
      exists p, dp, w'. rewrite GD. destruct (Nat.eqb_spec p y) as [->|]; [contradiction|]. repeat split; auto.
  - intros v. rewrite GD, GP. destruct (Nat.eqb_spec v y); [discriminate|apply QN].
Qed.
Lemma fold_fq es : In c hist -> forall st, FQ st -> (forall e, In e es -> In e (nth c g [])) -> FQ (fold_left (relax1 c dc) es st).
Proof. intros Hc. induction es as [|e es IH]; intros st Q R; cbn [fold_left]; auto.
  apply IH; [apply relax1_fq; auto; apply R; left; auto|intros; apply R; right; auto]. Qed.
End PFold.

Record HInv (st : gdj D) (hist : list nat) : Prop := {
  h_inv : GInv st;
  h_final : forall u, In u hist -> exists du, getd st u = Some du /\ forall p, walk p u -> le du (cost p);
  h_plen : length (gpred st) = n;
  h_psrc : getp st s = Some s;
  h_pedge : forall v d, v <> s -> getd st v = Some d ->
            exists p dp w, getp st v = Some p /\ In p hist /\ getd st p = Some dp /\ In (v, w) (nth p g []) /\ d = ext dp w;
  h_pnone : forall v, getd st v = None -> getp st v = None }.

Lemma step_hinv st hist c st' : HInv st hist -> step g st c = Some st' -> HInv st' (c :: hist).
Proof.
  intros [I Hf PL PS PE PN] H. pose proof (step_inv st c st' I H) as I'.
  destruct (step_unfold _ _ _ H) as [L [dc [Dc E']]]. clear H.
  set (st0 := {| gdist := gdist st; gpred := gpred st; gwork := remove_one c (gwork st) |}) in *.
  destruct (i_walk _ I c dc Dc) as [pc [Wc Cc]].
  assert (Hdc : okD dc) by (rewrite <- Cc; eapply walk_ok; eauto).
  (* every protected vertex has a distance that no edge out of c can beat *)
  assert (Hlow : forall u, protected (c :: hist) u -> exists du, getd st u = Some du /\
                 (forall p, walk p u -> le du (cost p)) /\ forall w, In (u, w) (nth c g []) -> le du (ext dc w)).
  { assert (A : forall u du, getd st u = Some du -> (forall p, walk p u -> le du (cost p)) -> forall w, In (u, w) (nth c g []) -> le du (ext dc w)).
    { intros u du Du Hmin w Hin. assert (Ww : walk (pc ++ [(u, w)]) u) by (econstructor; eauto).
      apply Hmin in Ww. rewrite cost_snoc, Cc in Ww. exact Ww. }
    intros u [[<- | Hu] | ->].
    - exists dc. pose proof (greedy st c dc I L Dc) as G. repeat split; auto. apply (A c dc Dc G).
    - destruct (Hf u Hu) as [du [Du Hmin]]. exists du. repeat split; auto. apply (A u du Du Hmin).
    - exists zero. pose proof (i_src _ I) as S0. repeat split; auto; [intros p Wp; eapply walk_zero; eauto|].
      apply (A s zero S0). intros p Wp; eapply walk_zero; eauto. }
  assert (Hkeep : forall u du, protected (c :: hist) u -> getd st u = Some du -> getd st' u = Some du).
  { intros u du P Du. rewrite E'. apply fold_keep; auto. destruct (Hlow u P) as [du' [Du' [_ Hle]]].
    rewrite Du in Du'; injection Du' as <-. exact Hle. }
  assert (Q0 : FQ c dc (c :: hist) st0).
  { constructor; cbn [st0 gdist gpred]; auto.
    - split; [apply (i_len _ I)|exact PL].
    - intros u P. destruct (Hlow u P) as [du [Du [_ Hle]]]. exists du; auto.
    - intros v d Nv Dv. destruct (PE v d Nv Dv) as [p [dp [w [Pp [Hp [Dp [Ein Eq]]]]]]]. exists p, dp, w. repeat split; auto. right; auto. }
  assert (Q' : FQ c dc (c :: hist) st').
  { rewrite E'. apply fold_fq; auto. left; auto. }
  destruct Q' as [[_ QL] QS _ _ QE QN].
  constructor; auto.
  intros u Hu. destruct (Hlow u (or_introl Hu)) as [du [Du [Hmin _]]]. exists du; split; auto. apply Hkeep; auto. left; auto.
Qed.

Lemma run_hinv cs : forall st hist st', HInv st hist -> run g st cs = Some st' -> HInv st' (rev cs ++ hist).
Proof. induction cs as [|c cs IH]; cbn [grun rev app]; intros st hist st' I H; [injection H as <-; auto|].
  destruct (step g st c) as [st1|] eqn:E; [|discriminate]. rewrite <- app_assoc. cbn [app]. apply (IH st1); auto. eapply step_hinv; eauto. Qed.
End Inv.

(* ---------- the theorems ---------- *)
Section Correct.
Variables (g : gadj W) (s : nat).
Hypothesis Hwf : gwf g.
Hypothesis Hwok : gwok g.
Hypothesis Hs : s < length g.
Notation walk := (gwalk g s).

Lemma nth_repeat_none {A} n v : nth v (repeat (@None A) n) None = None.
Proof. revert v; induction n; intros [|v]; cbn; auto. Qed.

Lemma init_getd v : getd (init (length g) s) v = if Nat.eqb v s then Some zero else None.
Proof. unfold ginit, ggetd; cbn [gdist]. rewrite nth_set_nth_full, repeat_length. apply Nat.ltb_lt in Hs. rewrite Hs, andb_true_r.
  destruct (Nat.eqb v s); auto. apply nth_repeat_none. Qed.
Lemma init_getp v : getp (init (length g) s) v = if Nat.eqb v s then Some s else None.
Proof. unfold ginit, ggetp; cbn [gpred]. rewrite nth_set_nth_full, repeat_length. apply Nat.ltb_lt in Hs. rewrite Hs, andb_true_r.
  destruct (Nat.eqb v s); auto. apply nth_repeat_none. Qed.

Lemma init_inv : GInv g s (init (length g) s).
Proof.
  constructor.
  - cbn [ginit gdist]. rewrite set_nth_length, repeat_length; auto.
  - rewrite init_getd, Nat.eqb_refl. reflexivity.
  - intros v d. rewrite init_getd. destruct (Nat.eqb_spec v s) as [->|]; [|discriminate]. intros E; injection E as <-.
    exists []. split; [constructor; auto|reflexivity].
  - intros u du. rewrite init_getd. destruct (Nat.eqb_spec u s) as [->|]; [|discriminate]. intros _ Hn. exfalso; apply Hn. left; auto.
  - intros u [<-|[]]. rewrite init_getd, Nat.eqb_refl. discriminate.
Qed.
Lemma init_hinv : HInv g s (init (length g) s) [].
Proof.
  constructor.
  - apply init_inv.
  - intros u [].
  - cbn [ginit gpred]. rewrite set_nth_length, repeat_length; auto.
  - rewrite init_getp, Nat.eqb_refl. reflexivity.
  - intros v d Nv. rewrite init_getd. destruct (Nat.eqb_spec v s); [congruence|discriminate].
  - intros v. rewrite init_getd, init_getp. destruct (Nat.eqb v s); [discriminate|auto].
Qed.

Lemma run_inv cs st : run g (init (length g) s) cs = Some st -> GInv g s st.
Proof. intros R. exact (h_inv _ _ _ _ (run_hinv g s Hwf Hwok cs _ _ _ init_hinv R)). Qed.

(* distances: every finite entry is the cost of a walk and a lower bound of the cost of every walk; [None] means unreachable *)
Theorem gdj_distances cs st : run g (init (length g) s) cs = Some st -> gwork st = [] ->
  forall v, match getd st v with
            | Some d => (exists p, walk p v /\ cost p = d) /\ forall p, walk p v -> leb d (cost p) = true
            | None => forall p, ~ walk p v
            end.
Proof. intros R Hw v. pose proof (run_inv _ _ R) as I.
  destruct (ggetd (gdist st) v) as [d|] eqn:E.
  - split; [apply (i_walk _ _ _ I); auto|]. intros p Wk. destruct (closed_lower g s Hwok _ I Hw _ _ Wk) as [d0 [H0 Hle]]. congruence.
  - intros p Wk. destruct (closed_lower g s Hwok _ I Hw _ _ Wk) as [d0 [H0 _]]. congruence.
Qed.

(* the tree: the source keeps [zero] and is its own predecessor; unreached vertices have no predecessor; every other reached vertex v has a
   predecessor p joined to v by an edge of weight w with dist[v] = ext dist[p] w LITERALLY (popped vertices never change again) *)
Theorem gdj_predecessors cs st : run g (init (length g) s) cs = Some st ->
  getd st s = Some zero /\ getp st s = Some s /\
  (forall v, getd st v = None -> getp st v = None) /\
  (forall v d, v <> s -> getd st v = Some d ->
     exists p dp w, getp st v = Some p /\ getd st p = Some dp /\ In (v, w) (nth p g []) /\ d = ext dp w).
Proof.
  intros R. destruct (run_hinv g s Hwf Hwok cs _ _ _ init_hinv R) as [I _ _ PS PE PN].
  split; [apply (i_src _ _ _ I)|]. split; auto. split; auto.
  intros v d Nv Dv. destruct (PE v d Nv Dv) as [p [dp [w [Pp [_ [Dp [Ein Eq]]]]]]]. exists p, dp, w. auto.
Qed.

(* every popped vertex already carries its final distance *)
Theorem gdj_popped_final cs st : run g (init (length g) s) cs = Some st ->
  forall u, In u cs -> exists du, getd st u = Some du /\ forall p, walk p u -> leb du (cost p) = true.
Proof. intros R u Hu. destruct (run_hinv g s Hwf Hwok cs _ _ _ init_hinv R) as [_ Hf _ _ _ _].
  apply Hf. rewrite app_nil_r. apply in_rev in Hu. exact Hu. Qed.
End Correct.

(* ---------- the pop bound, and the self-scheduled run ---------- *)
Section Bound.
Variables (g : gadj W) (s : nat).
Hypothesis Hwf : gwf g.
Hypothesis Hwok : gwok g.
Hypothesis Hs : s < length g.
Notation walk := (gwalk g s).

Definition Relaxed (st : gdj D) (hist : list nat) : Prop :=
  forall u du, In u hist -> getd st u = Some du -> forall y w, In (y, w) (nth u g []) -> exists dy, getd st y = Some dy /\ le dy (ext du w).

Lemma fold_noop c du es : forall st, (forall y w, In (y, w) es -> exists dy, getd st y = Some dy /\ le dy (ext du w)) -> fold_left (relax1 c du) es st = st.
Proof. induction es as [|[y w] es IH]; intros st H; cbn [fold_left]; auto.
  assert (E : relax1 c du st (y, w) = st).
  { destruct (relax1_cases c du st (y, w)) as [[E _]|[_ Hlt]]; auto. cbn [fst snd] in Hlt.
    destruct (H y w (or_introl eq_refl)) as [dy [Hy Hle]]. rewrite (Hlt dy Hy) in Hle. discriminate Hle. }
  rewrite E. apply IH. intros; apply H; right; auto. Qed.

Lemma step_relaxed st hist c st' : HInv g s st hist -> Relaxed st hist -> step g st c = Some st' -> Relaxed st' (c :: hist).
Proof.
  intros [I Hf _ _ _ _] Rx H. pose proof (step_inv g s Hwf Hwok st c st' I H) as I'.
  destruct (step_unfold g _ _ _ H) as [L [dc [Dc E']]]. clear H.
  set (st0 := {| gdist := gdist st; gpred := gpred st; gwork := remove_one c (gwork st) |}) in *.
  assert (Hok0 : dok st0) by (exact (inv_dok g s Hwok _ I)).
  pose proof (inv_dok g s Hwok _ I') as Hok'.
  assert (Hdc : okD dc) by (eapply Hok0; eauto).
  assert (Hes : forall e, In e (nth c g []) -> okW (snd e)) by (intros [y' w'] Hin'; eapply Hwok; eauto).
  intros u du Hu Du y w Hin.
  destruct (i_walk _ _ _ I' u du Du) as [pu [Wu Cu]].
  assert (Hw : okW w) by (eapply Hwok; eauto).
  assert (Hdu : okD du) by (eapply Hok'; eauto).
  destruct Hu as [<-|Hu].
  - assert (Lc : le dc du) by (rewrite <- Cu; apply (greedy g s) with (st := st) (c := c); auto).
    destruct (fold_relaxed c dc Hdc (nth c g []) Hes st0 y w Hok0 Hin) as [dy [Dy Ly]].
    { cbn [st0 gdist]. rewrite (i_len _ _ _ I). eapply Hwf; eauto. }
    exists dy. rewrite E'. split; auto. eapply leb_trans; [exact Ly|]. apply ext_mono; auto.
  - destruct (Hf u Hu) as [du0 [Du0 Hmin]]. assert (L0 : le du0 du) by (rewrite <- Cu; apply Hmin; auto).
    destruct (Rx u du0 Hu Du0 y w Hin) as [dy0 [Dy0 Ly0]].
    destruct (fold_mono c dc Hdc (nth c g []) Hes st0 y dy0 Hok0 Dy0) as [d1 [D1 L1]].
    exists d1. rewrite E'. split; auto. eapply leb_trans; [exact L1|]. eapply leb_trans; [exact Ly0|]. apply ext_mono; auto. eapply Hok0; eauto.
Qed.

Definition goutdeg (u : nat) : nat := length (nth u g []).
Definition gunpopped (hist : list nat) : nat := sumf (fun u => if in_dec Nat.eq_dec u hist then 0 else goutdeg u) (seq 0 (length g)).
Definition gpotential (st : gdj D) (hist : list nat) : nat := length (gwork st) + gunpopped hist.
Definition gedges : nat := sumf goutdeg (seq 0 (length g)).

Lemma gunpopped_old c hist : In c hist -> gunpopped (c :: hist) = gunpopped hist.
Proof. intros H; apply gsumf_ext; intros u _.
  destruct (in_dec Nat.eq_dec u (c :: hist)) as [[->|?]|N1]; destruct (in_dec Nat.eq_dec u hist) as [?|N2]; auto; try contradiction.
  exfalso; apply N1; right; auto. Qed.
Lemma gunpopped_new c hist : ~ In c hist -> c < length g -> gunpopped (c :: hist) + goutdeg c = gunpopped hist.
Proof. intros H Hc; apply (gsumf_split _ _ c); [apply seq_NoDup|apply in_seq; lia| |].
  - intros u _ Hne. destruct (in_dec Nat.eq_dec u (c :: hist)) as [[->|?]|N1]; destruct (in_dec Nat.eq_dec u hist) as [?|N2]; auto; try contradiction; try congruence.
    exfalso; apply N1; right; auto.
  - destruct (in_dec Nat.eq_dec c (c :: hist)) as [?|N1]; [|exfalso; apply N1; left; auto].
    destruct (in_dec Nat.eq_dec c hist); [contradiction|auto].
Qed.

Lemma step_potential st hist c st' : HInv g s st hist -> Relaxed st hist -> step g st c = Some st' ->
  gpotential st' (c :: hist) + 1 <= gpotential st hist.
Proof.
  intros [I _ _ _ _ _] Rx H. destruct (step_unfold g _ _ _ H) as [L [dc [Dc E']]]. clear H.
  set (st0 := {| gdist := gdist st; gpred := gpred st; gwork := remove_one c (gwork st) |}) in *.
  pose proof (legal_in _ _ L) as Hcw. pose proof (remove_one_length c (gwork st) Hcw) as Hlen.
  assert (Hcn : c < length g).
  { destruct (le_lt_dec (length g) c) as [Hge|]; auto. unfold ggetd in Dc. rewrite nth_overflow in Dc; [discriminate|]. rewrite (i_len _ _ _ I); auto. }
  unfold gpotential. destruct (in_dec Nat.eq_dec c hist) as [Hc|Hc].
  - assert (E : st' = st0) by (rewrite E'; apply fold_noop; intros y w Hin; apply (Rx c dc Hc Dc y w Hin)).
    rewrite E, gunpopped_old by auto. cbn [st0 gwork]. lia.
  - pose proof (fold_work_len c dc (nth c g []) st0) as Hk. rewrite <- E' in Hk. cbn [st0 gwork] in Hk.
    pose proof (gunpopped_new c hist Hc Hcn). unfold goutdeg in *. lia.
Qed.

Lemma run_bound cs : forall st hist st', HInv g s st hist -> Relaxed st hist -> run g st cs = Some st' ->
  length cs + gpotential st' (rev cs ++ hist) <= gpotential st hist.
Proof. induction cs as [|c cs IH]; cbn [grun rev app length]; intros st hist st' HI Rx H; [injection H as <-; lia|].
  destruct (step g st c) as [st1|] eqn:E; [|discriminate].
  pose proof (step_hinv g s Hwf Hwok _ _ _ _ HI E) as HI1. pose proof (step_relaxed _ _ _ _ HI Rx E) as Rx1.
  pose proof (step_potential _ _ _ _ HI Rx E) as P1. specialize (IH _ _ _ HI1 Rx1 H). rewrite <- app_assoc; cbn [app]. lia.
Qed.

Lemma gunpopped_nil : gunpopped [] = gedges.
Proof. apply gsumf_ext; intros u _. destruct (in_dec Nat.eq_dec u []); [contradiction|auto]. Qed.

(* an accepted run pops at most 1 + (number of edges) times *)
Theorem gdj_pop_bound cs st : run g (init (length g) s) cs = Some st -> length cs <= 1 + gedges.
Proof. intros R.
  assert (Rx0 : Relaxed (init (length g) s) []) by (intros u du []).
  pose proof (run_bound cs _ _ _ (init_hinv g s Hs) Rx0 R) as B. unfold gpotential in B at 2. cbn [ginit gwork length] in B.
  rewrite gunpopped_nil in B. lia.
Qed.

(* the scheduler [gauto] always proposes a legal pop, and with fuel > 1 + edges it completes the run *)
Lemma gpick_spec (d : list (option D)) : (forall x dx, nth x d None = Some dx -> okD dx) ->
  forall l best, (forall x, In x (best :: l) -> nth x d None <> None) ->
  In (gpick D leb d best l) (best :: l) /\ forall x, In x (best :: l) -> gdle D leb (ggetd d (gpick D leb d best l)) (ggetd d x) = true.
Proof.
  intros Hok. induction l as [|x t IH]; intros best Hsome; cbn [gpick].
  - split; [left; auto|]. intros x [<-|[]]. unfold ggetd. destruct (nth best d None) as [db|] eqn:E; [|exfalso; eapply Hsome; [left; eauto|auto]].
    cbn [gdle]. apply leb_refl. eapply Hok; eauto.
  - set (b' := if gdle D leb (ggetd d best) (ggetd d x) then best else x).
    destruct (IH b') as [Hin Hmin].
    { intros y [<-|Hy]; [|apply Hsome; right; right; auto]. unfold b'. destruct (gdle D leb (ggetd d best) (ggetd d x)); apply Hsome; [left|right; left]; auto. }
    split.
    { destruct Hin as [E|Hin]; [|right; right; auto]. rewrite <- E. unfold b'. destruct (gdle D leb (ggetd d best) (ggetd d x)); [left|right; left]; auto. }
    assert (Hb : gdle D leb (ggetd d b') (ggetd d best) = true /\ gdle D leb (ggetd d b') (ggetd d x) = true).
    { unfold ggetd in *. destruct (nth best d None) as [db|] eqn:Eb; [|exfalso; eapply Hsome; [left; eauto|auto]].
      destruct (nth x d None) as [dx|] eqn:Ex; [|exfalso; eapply (Hsome x); [right; left; eauto|auto]].
      pose proof (Hok _ _ Eb) as Ob. pose proof (Hok _ _ Ex) as Ox.
      unfold b'. cbn [gdle]. destruct (leb db dx) eqn:Lbx.
      - rewrite Eb. cbn [gdle]. split; auto. apply leb_refl; auto.
      - rewrite Ex. cbn [gdle]. split; [apply leb_false; auto|apply leb_refl; auto]. }
    assert (Tr : forall a b c' : option D, a <> None -> b <> None -> gdle D leb a b = true -> gdle D leb b c' = true -> gdle D leb a c' = true).
    { intros [a|] [b|] [c'|] Na Nb; cbn [gdle]; auto; try congruence. apply leb_trans. }
    intros y [<-|[<-|Hy]].
    + eapply Tr; [..|exact (Hmin b' (or_introl eq_refl))|exact (proj1 Hb)].
      * destruct Hin as [<-|Hin]; [|apply Hsome; right; right; auto]. unfold b'. destruct (gdle D leb (ggetd d best) (ggetd d x)); apply Hsome; [left|right; left]; auto.
      * unfold b'. destruct (gdle D leb (ggetd d best) (ggetd d x)); apply Hsome; [left|right; left]; auto.
    + eapply Tr; [..|exact (Hmin b' (or_introl eq_refl))|exact (proj2 Hb)].
      * destruct Hin as [<-|Hin]; [|apply Hsome; right; right; auto]. unfold b'. destruct (gdle D leb (ggetd d best) (ggetd d x)); apply Hsome; [left|right; left]; auto.
      * unfold b'. destruct (gdle D leb (ggetd d best) (ggetd d x)); apply Hsome; [left|right; left]; auto.
    + apply Hmin. right; auto.
Qed.

Lemma gauto_step st x t : GInv g s st -> gwork st = x :: t -> exists st', step g st (gpick D leb (gdist st) x t) = Some st'.
Proof.
  intros I Wk. destruct (gpick_spec (gdist st) (inv_dok g s Hwok _ I) t x) as [Hin Hmin].
  { intros y Hy. apply (i_work _ _ _ I). rewrite Wk. exact Hy. }
  set (c := gpick D leb (gdist st) x t) in *. unfold gstep.
  assert (L : legal st c = true).
  { unfold glegal. rewrite Wk. apply andb_true_intro. split.
    - apply existsb_exists. exists c. split; auto. apply Nat.eqb_refl.
    - apply forallb_forall. intros y Hy. apply Hmin; auto. }
  rewrite L. destruct (ggetd (gdist st) c) as [dc|] eqn:Dc; [eexists; reflexivity|].
  exfalso. apply (i_work _ _ _ I c); auto. rewrite Wk; auto.
Qed.

Lemma gauto_complete fuel : forall st hist, HInv g s st hist -> Relaxed st hist -> gpotential st hist < fuel ->
  exists st', run g st (gauto D W leb ext g st fuel) = Some st' /\ gwork st' = [].
Proof.
  induction fuel as [|f IH]; intros st hist HI Rx P; [lia|]. cbn [gauto].
  destruct (gwork st) as [|x t] eqn:Wk; [exists st; split; auto|].
  destruct (gauto_step st x t (h_inv _ _ _ _ HI) Wk) as [st1 E]. rewrite E. cbn [grun]. rewrite E.
  pose proof (step_hinv g s Hwf Hwok _ _ _ _ HI E) as HI1. pose proof (step_relaxed _ _ _ _ HI Rx E) as Rx1.
  pose proof (step_potential _ _ _ _ HI Rx E) as P1. apply (IH st1 _ HI1 Rx1). lia.
Qed.

Theorem gauto_accepted fuel : 1 + gedges < fuel ->
  exists st, run g (init (length g) s) (gauto D W leb ext g (init (length g) s) fuel) = Some st /\ gwork st = [].
Proof. intros P. apply (gauto_complete fuel _ [] (init_hinv g s Hs)); [intros u du []|].
  unfold gpotential. cbn [ginit gwork length]. rewrite gunpopped_nil. lia. Qed.
End Bound.
End GProofs.

Print Assumptions gdj_distances.
Print Assumptions gdj_predecessors.
Print Assumptions gdj_popped_final.

(* sanity check: the instance at N (exact arithmetic) is the statement of Dj.dijkstra_distances *)
Theorem gdj_distances_N (g : gadj N) (s : nat) cs st : gwf g -> s < length g ->
  grun N N N.leb N.add g (ginit N 0%N (length g) s) cs = Some st -> gwork st = [] ->
  forall v, match ggetd (gdist st) v with
            | Some d => (exists p, gwalk g s p v /\ gcost N N 0%N N.add p = d) /\ forall p, gwalk g s p v -> (d <= gcost N N 0%N N.add p)%N
            | None => forall p, ~ gwalk g s p v
            end.
Proof.
  intros Hwf Hs R Hw v.
  assert (Htot : forall a b : N, True -> True -> N.leb a b = true \/ N.leb b a = true) by (intros a b _ _; rewrite !N.leb_le; lia).
  assert (Htr : forall a b c : N, N.leb a b = true -> N.leb b c = true -> N.leb a c = true) by (intros a b c; rewrite !N.leb_le; lia).
  assert (Hmono : forall a b w : N, True -> True -> True -> N.leb a b = true -> N.leb (a + w) (b + w) = true) by (intros a b w _ _ _; rewrite !N.leb_le; lia).
  assert (Hinfl : forall a w : N, True -> True -> N.leb a (a + w) = true) by (intros a w _ _; rewrite N.leb_le; lia).
  pose proof (gdj_distances N N N.leb 0%N N.add (fun _ => True) (fun _ => True) I (fun _ _ _ _ => I) Htot Htr Hmono Hinfl
                g s Hwf (fun _ _ _ _ => I) Hs cs st R Hw v) as T.
  destruct (ggetd (gdist st) v); auto. destruct T as [T1 T2]. split; auto. intros p Wp. apply N.leb_le. auto.
Qed.

(* ================= 2. the binary64 instance ================= *)
#[local] Instance p53' : Prec_gt_0 53 := eq_refl.
#[local] Instance pe53' : Prec_lt_emax 53 1024 := eq_refl.
Local Open Scope R_scope.

Theorem dadd_Bplus : forall x y, dadd x y = Bplus mode_NE x y.
Proof. exact (fadd_Bplus 53 1024 p53' pe53'). Qed.

Lemma okd_cases (x : dbl) : okd x = true -> x = B754_infinity false \/ (is_finite x = true /\ 0 <= B2R x /\ Bsign x = false).
Proof.
  destruct x as [s|s| |s m e H]; cbn [okd]; intros E; try discriminate E.
  - destruct s; [discriminate E|]. right. cbn. split; auto. split; auto. lra.
  - destruct s; [discriminate E|]. left; auto.
  - destruct s; [discriminate E|]. right. cbn [is_finite Bsign B2R]. split; auto. split; auto. apply F2R_ge_0. cbn. lia.
Qed.
Lemma okw_spec (w : dbl) : okw w = true -> is_finite w = true /\ 0 <= B2R w.
Proof.
  destruct w as [s|s| |s m e H]; cbn [okw]; intros E; try discriminate E.
  - cbn. split; auto. lra.
  - destruct s; [discriminate E|]. cbn [is_finite B2R]. split; auto. apply F2R_ge_0. cbn. lia.
Qed.
Lemma okd_of_fin (x : dbl) : is_finite x = true -> Bsign x = false -> okd x = true.
Proof. destruct x as [s|s| |s m e H]; cbn; intros F S; try discriminate F; rewrite S; reflexivity. Qed.
Lemma okd_not_nan (x : dbl) : okd x = true -> x <> B754_nan.
Proof. intros E ->. discriminate E. Qed.

Lemma dleb_inf_r (x : dbl) : okd x = true -> dleb x (B754_infinity false) = true.
Proof. destruct x as [s|s| |s m e H]; cbn [okd]; intros E; try discriminate E; destruct s; try discriminate E; reflexivity. Qed.
Lemma dleb_inf_l (y : dbl) : dleb (B754_infinity false) y = true -> y = B754_infinity false.
Proof. destruct y as [s|s| |s m e H]; unfold dleb, Bleb, SFleb; cbn; try discriminate. destruct s; [discriminate|reflexivity]. Qed.
Lemma dleb_fin (x y : dbl) : is_finite x = true -> is_finite y = true -> (dleb x y = true <-> B2R x <= B2R y).
Proof. intros Fx Fy. unfold dleb. rewrite (Bleb_correct 53 1024 x y Fx Fy). destruct (Rle_bool_spec (B2R x) (B2R y)) as [K|K]; split; intros K'; auto; try lra; try discriminate K'. Qed.

Lemma dleb_total (a b : dbl) : okd a = true -> okd b = true -> dleb a b = true \/ dleb b a = true.
Proof.
  intros Ha Hb. destruct (okd_cases b Hb) as [->|[Fb _]]; [left; apply dleb_inf_r; auto|].
  destruct (okd_cases a Ha) as [->|[Fa _]]; [right; apply dleb_inf_r; auto|].
  destruct (Rle_or_lt (B2R a) (B2R b)); [left|right]; apply dleb_fin; auto; lra.
Qed.
(* transitivity holds for ALL doubles (a comparison with NaN is false) *)
Lemma dleb_trans (a b c : dbl) : dleb a b = true -> dleb b c = true -> dleb a c = true.
Proof.
  destruct (is_finite a) eqn:Fa; destruct (is_finite b) eqn:Fb; destruct (is_finite c) eqn:Fc;
    [rewrite !dleb_fin by auto; lra|..];
    destruct a as [sa|[|]| |sa ma ea Ha]; try discriminate Fa; destruct b as [sb|[|]| |sb mb eb Hb]; try discriminate Fb;
    destruct c as [sc|[|]| |sc mc ec Hc]; try discriminate Fc;
    unfold dleb, Bleb, SFleb; cbn [B2SF SFcompare]; intros H1 H2; try discriminate H1; try discriminate H2; reflexivity.
Qed.

(* one rounded addition of an admissible finite distance and an admissible weight *)
Lemma rnd53_nonneg (x : R) : 0 <= x -> 0 <= rnd53 x.
Proof. intros H. apply round_ge_generic; auto. apply FLT_exp_valid; reflexivity. apply valid_rnd_N. apply generic_format_0. Qed.

Lemma dadd_cases (a w : dbl) : is_finite a = true -> 0 <= B2R a -> Bsign a = false -> okw w = true ->
  (is_finite (dadd a w) = true /\ B2R (dadd a w) = rnd53 (B2R a + B2R w) /\ Bsign (dadd a w) = false /\ rnd53 (B2R a + B2R w) < bpow radix2 1024) \/
  (dadd a w = B754_infinity false /\ bpow radix2 1024 <= rnd53 (B2R a + B2R w)).
Proof.
  intros Fa Pa Sa Hw. destruct (okw_spec w Hw) as [Fw Pw]. rewrite dadd_Bplus.
  generalize (Bplus_correct 53 1024 p53' pe53' mode_NE a w Fa Fw). cbn [round_mode].
  assert (P : 0 <= rnd53 (B2R a + B2R w)) by (apply rnd53_nonneg; lra).
  rewrite (Rabs_pos_eq _ P).
  destruct (Rlt_bool_spec (rnd53 (B2R a + B2R w)) (bpow radix2 1024)) as [L|L].
  - intros [H1 [H2 H3]]. left. repeat split; auto. rewrite H3.
    destruct (Rcompare_spec (B2R a + B2R w) 0) as [C|C|C]; auto; [lra|]. rewrite Sa. reflexivity.
  - intros [H1 _]. right. split; auto. rewrite Sa in H1. apply B2SF_inj. rewrite H1. reflexivity.
Qed.

Lemma dadd_inf (w : dbl) : okw w = true -> dadd (B754_infinity false) w = B754_infinity false.
Proof. intros Hw. rewrite dadd_Bplus. destruct w as [s|s| |s m e H]; try discriminate Hw; reflexivity. Qed.

Lemma dadd_ok (a w : dbl) : okd a = true -> okw w = true -> okd (dadd a w) = true.
Proof.
  intros Ha Hw. destruct (okd_cases a Ha) as [->|[Fa [Pa Sa]]]; [rewrite dadd_inf; auto|].
  destruct (dadd_cases a w Fa Pa Sa Hw) as [[F [_ [S _]]]|[-> _]]; [apply okd_of_fin; auto|reflexivity].
Qed.

Lemma dadd_mono (a b w : dbl) : okd a = true -> okd b = true -> okw w = true -> dleb a b = true -> dleb (dadd a w) (dadd b w) = true.
Proof.
  intros Ha Hb Hw L. pose proof (dadd_ok a w Ha Hw) as Oa.
  destruct (okd_cases b Hb) as [->|[Fb [Pb Sb]]]; [rewrite (dadd_inf w Hw); apply dleb_inf_r; auto|].
  destruct (okd_cases a Ha) as [->|[Fa [Pa Sa]]]; [apply dleb_inf_l in L; subst b; discriminate Fb|].
  apply (dleb_fin a b Fa Fb) in L. destruct (okw_spec w Hw) as [Fw Pw].
  assert (M : rnd53 (B2R a + B2R w) <= rnd53 (B2R b + B2R w)).
  { apply round_le. apply FLT_exp_valid; reflexivity. apply valid_rnd_N. lra. }
  destruct (dadd_cases b w Fb Pb Sb Hw) as [[F2 [R2 [_ B2]]]|[-> _]]; [|apply dleb_inf_r; auto].
  destruct (dadd_cases a w Fa Pa Sa Hw) as [[F1 [R1 _]]|[_ B1]]; [|lra].
  apply dleb_fin; auto. rewrite R1, R2. exact M.
Qed.

Lemma dadd_infl (a w : dbl) : okd a = true -> okw w = true -> dleb a (dadd a w) = true.
Proof.
  intros Ha Hw. destruct (okd_cases a Ha) as [->|[Fa [Pa Sa]]]; [rewrite (dadd_inf w Hw); reflexivity|].
  destruct (okw_spec w Hw) as [Fw Pw].
  destruct (dadd_cases a w Fa Pa Sa Hw) as [[F1 [R1 _]]|[-> _]]; [|apply dleb_inf_r; auto].
  apply dleb_fin; auto. rewrite R1. apply round_ge_generic. apply FLT_exp_valid; reflexivity. apply valid_rnd_N. apply generic_format_B2R. lra.
Qed.

(* admissible distances form a partial order: no two distinct admissible doubles compare equal (-0 is excluded) *)
Lemma dleb_antisym (a b : dbl) : okd a = true -> okd b = true -> dleb a b = true -> dleb b a = true -> a = b.
Proof.
  intros Ha Hb L1 L2. destruct (okd_cases a Ha) as [->|[Fa [_ Sa]]]; [apply dleb_inf_l in L1; auto|].
  destruct (okd_cases b Hb) as [->|[Fb [_ Sb]]]; [apply dleb_inf_l in L2; auto|].
  apply (dleb_fin a b Fa Fb) in L1. apply (dleb_fin b a Fb Fa) in L2.
  apply B2R_Bsign_inj; auto; [lra|congruence].
Qed.

(* ---- fdj_run is an accepted, completed run of the generic model at (dbl, Bleb, +0, rounded addition) ---- *)
Notation fcost := (gcost dbl dbl dzero dadd).
Definition fokD (x : dbl) : Prop := okd x = true.
Definition fokW (w : dbl) : Prop := okw w = true.
Local Open Scope nat_scope.

Lemma fdj_wf_spec (g : fadj) (s : nat) : fdj_wf g s = true -> s < length g /\ gwf g /\ gwok dbl fokW g.
Proof.
  unfold fdj_wf. intros H. apply andb_prop in H as [H1 H2]. apply Nat.ltb_lt in H1. split; auto.
  rewrite forallb_forall in H2.
  assert (A : forall u v w, In (v, w) (nth u g []) -> v < length g /\ okw w = true).
  { intros u v w Hin. destruct (Nat.lt_ge_cases u (length g)) as [L|L]; [|rewrite nth_overflow in Hin by auto; destruct Hin].
    specialize (H2 (nth u g []) (nth_In g [] L)). rewrite forallb_forall in H2. specialize (H2 (v, w) Hin). cbn [fst snd] in H2.
    apply andb_prop in H2 as [H3 H4]. apply Nat.ltb_lt in H3. auto. }
  split; intros u v w Hin; apply (A u v w Hin).
Qed.

Lemma fdj_run_chk_spec (g : fadj) cs : forall st st', fdj_run_chk g st cs = Some st' ->
  grun dbl dbl dleb dadd g st cs = Some st' /\ (fdj_finite st = true -> fdj_finite st' = true).
Proof.
  induction cs as [|c cs IH]; intros st st'; cbn [fdj_run_chk grun].
  - intros E; injection E as <-. auto.
  - unfold fdj_step. destruct (gstep dbl dbl dleb dadd g st c) as [st1|]; [|discriminate].
    destruct (fdj_finite st1) eqn:F; [|discriminate]. intros R. destruct (IH _ _ R) as [R1 R2]. auto.
Qed.

Lemma forallb_set_nth {A} (f : A -> bool) i x l : forallb f l = true -> f x = true -> forallb f (set_nth i x l) = true.
Proof. revert i; induction l as [|h t IH]; intros [|i] H Hx; cbn [set_nth forallb] in *; auto; apply andb_prop in H as [H1 H2]; rewrite ?Hx, ?H1; cbn [andb]; auto. Qed.
Lemma fdj_init_finite n s : fdj_finite (fdj_init n s) = true.
Proof. unfold fdj_finite, fdj_init, ginit; cbn [gdist]. apply forallb_set_nth; [|reflexivity]. induction n; cbn; auto. Qed.

Lemma fdj_run_spec (g : fadj) s cs ds ps : fdj_run g s cs = Some (ds, ps) ->
  (s < length g /\ gwf g /\ gwok dbl fokW g) /\
  exists st, grun dbl dbl dleb dadd g (ginit dbl dzero (length g) s) cs = Some st /\ gwork st = [] /\ gdist st = ds /\ gpred st = ps /\ fdj_finite st = true.
Proof.
  unfold fdj_run. destruct (fdj_wf g s) eqn:Wf; [|discriminate]. split; [apply fdj_wf_spec; auto|].
  destruct (fdj_run_chk g (fdj_init (length g) s) cs) as [st|] eqn:R; [|discriminate].
  destruct (gwork st) eqn:Wk; [|discriminate]. injection H as <- <-.
  destruct (fdj_run_chk_spec g cs _ _ R) as [R1 R2]. exists st. repeat split; auto. apply R2, fdj_init_finite.
Qed.

Lemma fdj_finite_nth (st : fdj_state) v d : fdj_finite st = true -> nth v (gdist st) None = Some d -> is_finite d = true.
Proof.
  unfold fdj_finite. intros F E. rewrite forallb_forall in F.
  destruct (Nat.lt_ge_cases v (length (gdist st))) as [L|L]; [|rewrite nth_overflow in E by auto; discriminate E].
  specialize (F _ (nth_In (gdist st) None L)). rewrite E in F. exact F.
Qed.

(* (2) distances of the float run: costs of walks under rounded left-to-right summation, minimal for IEEE <= *)
Theorem fdj_distances (g : fadj) s cs ds ps : fdj_run g s cs = Some (ds, ps) ->
  length ds = length g /\
  forall v, match nth v ds None with
            | Some d => is_finite d = true /\ okd d = true /\
                        (exists p, gwalk g s p v /\ fcost p = d) /\ forall p, gwalk g s p v -> dleb d (fcost p) = true
            | None => forall p, ~ gwalk g s p v
            end.
Proof.
  intros H. destruct (fdj_run_spec g s cs ds ps H) as [[Hs [Hwf Hwok]] [st [R [Wk [<- [<- Fin]]]]]].
  pose proof (run_inv dbl dbl dleb dzero dadd fokD fokW eq_refl dadd_ok dleb_total dleb_trans dadd_mono dadd_infl g s Hwf Hwok Hs cs st R) as I.
  split; [apply (i_len _ _ _ _ _ _ _ _ I)|]. intros v.
  pose proof (gdj_distances dbl dbl dleb dzero dadd fokD fokW eq_refl dadd_ok dleb_total dleb_trans dadd_mono dadd_infl g s Hwf Hwok Hs cs st R Wk v) as T.
  change (ggetd (gdist st) v) with (nth v (gdist st) None) in T.
  destruct (nth v (gdist st) None) as [d|] eqn:E; auto. destruct T as [[p [Wp Cp]] T2].
  split; [eapply fdj_finite_nth; eauto|]. split; [|split; eauto].
  rewrite <- Cp. apply (walk_ok dbl dbl dzero dadd fokD fokW eq_refl dadd_ok g s Hwok p v Wp).
Qed.

(* (2) the tree, with LITERAL equality of doubles *)
Theorem fdj_predecessors (g : fadj) s cs ds ps : fdj_run g s cs = Some (ds, ps) ->
  length ps = length g /\ nth s ds None = Some dzero /\ nth s ps None = Some s /\
  (forall v, nth v ds None = None -> nth v ps None = None) /\
  (forall v d, v <> s -> nth v ds None = Some d ->
     exists p dp w, nth v ps None = Some p /\ nth p ds None = Some dp /\ In (v, w) (nth p g []) /\ d = dadd dp w).
Proof.
  intros H. destruct (fdj_run_spec g s cs ds ps H) as [[Hs [Hwf Hwok]] [st [R [Wk [<- [<- Fin]]]]]].
  pose proof (run_hinv dbl dbl dleb dzero dadd fokD fokW eq_refl dadd_ok dleb_total dleb_trans dadd_mono dadd_infl g s Hwf Hwok cs _ _ _
                (init_hinv dbl dbl dleb dzero dadd g s Hs) R) as HI.
  split; [apply (h_plen _ _ _ _ _ _ _ _ _ HI)|].
  exact (gdj_predecessors dbl dbl dleb dzero dadd fokD fokW eq_refl dadd_ok dleb_total dleb_trans dadd_mono dadd_infl g s Hwf Hwok Hs cs st R).
Qed.
Print Assumptions fdj_distances.
Print Assumptions fdj_predecessors.

(* the strict test of the model, negb (y <= x), is IEEE x < y on admissible values (the C++ writes newPathLength < distances[neighbour]) *)
Lemma gltb_Bltb (x y : dbl) : okd x = true -> okd y = true -> gltb dbl dleb x y = Bltb x y.
Proof.
  intros Hx Hy. unfold gltb.
  destruct (okd_cases x Hx) as [->|[Fx _]]; destruct (okd_cases y Hy) as [->|[Fy _]]; try reflexivity.
  - destruct y as [sy|sy| |sy my ey Hy']; try discriminate Fy; reflexivity.
  - destruct x as [sx|sx| |sx mx ex Hx']; try discriminate Fx; reflexivity.
  - unfold dleb. rewrite (Bleb_correct 53 1024 y x Fy Fx), (Bltb_correct 53 1024 x y Fx Fy).
    destruct (Rle_bool_spec (B2R y) (B2R x)); destruct (Rlt_bool_spec (B2R x) (B2R y)); auto; lra.
Qed.

(* ================= 3. shortcutting walks; rounding bound; exactness ================= *)
(* cycles can be cut out of a walk without increasing its cost: any cost structure with a reflexive transitive [le], ext monotone and inflationary *)
Section Short.
Variables D W : Type.
Variable le : D -> D -> Prop.
Variable zero : D.
Variable ext : D -> W -> D.
Variables (okD : D -> Prop) (okW : W -> Prop).
Hypothesis ok_zero : okD zero.
Hypothesis ok_ext : forall a w, okD a -> okW w -> okD (ext a w).
Hypothesis le_refl : forall a, okD a -> le a a.
Hypothesis le_trans : forall a b c, le a b -> le b c -> le a c.
Hypothesis ext_mono : forall a b w, okD a -> okD b -> okW w -> le a b -> le (ext a w) (ext b w).
Hypothesis ext_infl : forall a w, okD a -> okW w -> le a (ext a w).
Variables (g : gadj W) (s : nat).
Hypothesis Hwf : gwf g.
Hypothesis Hwok : gwok W okW g.
Notation cost := (gcost D W zero ext).
Notation walk := (gwalk g s).
Definition pathok (p : gpath W) : Prop := forall e, In e p -> okW (snd e).

Lemma cost_snoc' p e : cost (p ++ [e]) = ext (cost p) (snd e).
Proof. unfold gcost. rewrite fold_left_app. reflexivity. Qed.
Lemma pathok_cost p : pathok p -> okD (cost p).
Proof. induction p as [|e p IH] using rev_ind; intros H; [exact ok_zero|]. rewrite cost_snoc'. apply ok_ext.
  - apply IH. intros e' He'. apply H. apply in_or_app; left; auto.
  - apply H. apply in_or_app; right; left; auto. Qed.
Lemma walk_pathok p v : walk p v -> pathok p.
Proof. induction 1 as [Hs|p u v w Wk IH Hin]; intros e He; [destruct He|]. apply in_app_or in He as [He|[<-|[]]]; auto. eapply Hwok; eauto. Qed.
Lemma cost_prefix a b : pathok (a ++ b) -> le (cost a) (cost (a ++ b)).
Proof. induction b as [|e b IH] using rev_ind; intros H.
  - rewrite app_nil_r. apply le_refl, pathok_cost. rewrite app_nil_r in H; auto.
  - rewrite app_assoc in *. rewrite cost_snoc'.
    assert (H' : pathok (a ++ b)) by (intros e' He'; apply H; apply in_or_app; left; auto).
    eapply le_trans; [apply IH; auto|]. apply ext_infl; [apply pathok_cost; auto|]. apply H. apply in_or_app; right; left; auto.
Qed.
Lemma walk_snoc_inv p e v : walk (p ++ [e]) v -> exists u, walk p u /\ In e (nth u g []) /\ fst e = v.
Proof. intros H. inversion H as [Hs E|p' u v' w Wk Hin E Ev]; [destruct p; discriminate E|].
  subst v'. apply app_inj_tail in E as [-> <-]. exists u. auto. Qed.
Lemma walk_prefix a e b v : walk (a ++ [e] ++ b) v -> walk (a ++ [e]) (fst e).
Proof. revert v. induction b as [|x b IH] using rev_ind; intros v H.
  - rewrite app_nil_r in H. destruct (walk_snoc_inv _ _ _ H) as [u [Wa [Hin Ev]]]. rewrite Ev. exact H.
  - rewrite !app_assoc in H. destruct (walk_snoc_inv _ _ _ H) as [u [Wa _]]. rewrite <- app_assoc in Wa. eapply IH; eauto.
Qed.
Lemma walk_range' p v : walk p v -> v < length g.
Proof. induction 1 as [Hs|p u v w Wk IH Hin]; auto. eapply Hwf; eauto. Qed.
Lemma walk_src : forall p v, walk p v -> s < length g.
Proof. induction 1; auto. Qed.

Lemma NoDup_snoc {A} (l : list A) x : NoDup l -> ~ In x l -> NoDup (l ++ [x]).
Proof. induction l as [|h t IH]; intros ND Hn; cbn [app]; [constructor; auto; constructor|].
  inversion ND as [|h' t' Hh Ht]; subst. constructor.
  - intros Hin. apply in_app_or in Hin as [Hin|[<-|[]]]; auto. apply Hn; left; auto.
  - apply IH; auto. intros Hin; apply Hn; right; auto. Qed.
Lemma NoDup_prefix {A} (l1 l2 : list A) : NoDup (l1 ++ l2) -> NoDup l1.
Proof. induction l1 as [|h t IH]; intros ND; [constructor|]. cbn [app] in ND. inversion ND as [|h' t' Hh Ht]; subst.
  constructor; auto. intros Hin; apply Hh; apply in_or_app; left; auto. Qed.

(* a walk is simple when it never returns to a vertex *)
Definition simple (p : gpath W) : Prop := NoDup (s :: map fst p).

Lemma shortcut p v : walk p v -> exists p', walk p' v /\ simple p' /\ le (cost p') (cost p).
Proof.
  induction 1 as [Hs|p u v w Wk IH Hin].
  - exists []. split; [constructor; auto|]. split; [constructor; [intros []|constructor]|]. apply le_refl; exact ok_zero.
  - destruct IH as [p0 [W0 [S0 L0]]].
    assert (Hw : okW w) by (eapply Hwok; eauto).
    pose proof (pathok_cost _ (walk_pathok _ _ Wk)) as Okp. pose proof (pathok_cost _ (walk_pathok _ _ W0)) as Ok0.
    assert (Lp : le (cost p) (cost (p ++ [(v, w)]))) by (rewrite cost_snoc'; apply ext_infl; auto).
    destruct (in_dec Nat.eq_dec v (s :: map fst p0)) as [[<-|Hv]|Hv].
    + exists []. split; [constructor; eapply walk_src; eauto|]. split; [constructor; [intros []|constructor]|].
      change (cost []) with (cost ([] ++ [])). eapply le_trans; [|exact Lp]. eapply le_trans; [|exact L0].
      apply (cost_prefix [] p0). cbn [app]. eapply walk_pathok; eauto.
    + apply in_map_iff in Hv as [[v' w'] [Ev Hin']]. cbn [fst] in Ev; subst v'.
      apply in_split in Hin' as [a [b Eab]]. subst p0.
      exists (a ++ [(v, w')]). change (a ++ (v, w') :: b) with (a ++ [(v, w')] ++ b) in *.
      split; [apply (walk_prefix a (v, w') b u W0)|]. split.
      * unfold simple in *. rewrite app_assoc, map_app in S0. rewrite app_comm_cons in S0. eapply NoDup_prefix; eauto.
      * eapply le_trans; [|exact Lp]. eapply le_trans; [|exact L0]. rewrite app_assoc. apply cost_prefix. rewrite <- app_assoc. eapply walk_pathok; eauto.
    + exists (p0 ++ [(v, w)]). split; [econstructor; eauto|]. split.
      * unfold simple in *. rewrite map_app. cbn [map fst]. rewrite app_comm_cons. apply NoDup_snoc; auto.
      * rewrite !cost_snoc'. cbn [snd]. apply ext_mono; auto.
Qed.

Lemma walk_vertices p v : walk p v -> forall x, In x (s :: map fst p) -> x < length g.
Proof. induction 1 as [Hs|p u v w Wk IH Hin]; intros x [<-|Hx]; auto; [destruct Hx|eapply walk_src; eauto; econstructor; eauto|].
  rewrite map_app in Hx. apply in_app_or in Hx as [Hx|[<-|[]]]; [apply IH; right; auto|]. cbn [fst]. eapply Hwf; eauto. Qed.
(* a simple walk has at most n - 1 edges *)
Lemma simple_length p v : walk p v -> simple p -> S (length p) <= length g.
Proof. intros Wk S. pose proof (NoDup_incl_length S (l' := seq 0 (length g))) as L.
  cbn [length] in L. rewrite map_length, seq_length in L. apply L. intros x Hx. apply in_seq. pose proof (walk_vertices p v Wk x Hx). lia. Qed.
End Short.

(* ---- exact real cost of a walk, and the float cost of the SAME walk ---- *)
Local Open Scope R_scope.
Definition radd (r : R) (w : dbl) : R := r + B2R w.
Notation rcost := (gcost R dbl 0 radd).

Lemma u53_lt_1 : u53 < 1.
Proof. unfold u53. change 1 with (bpow radix2 0). apply bpow_lt. reflexivity. Qed.

Lemma dadd_bounds (a w : dbl) : okd a = true -> is_finite a = true -> okw w = true ->
  (is_finite (dadd a w) = true /\ (B2R a + B2R w) * (1 - u53) <= B2R (dadd a w) <= (B2R a + B2R w) * (1 + u53)) \/
  (dadd a w = B754_infinity false /\ bpow radix2 1024 <= (B2R a + B2R w) * (1 + u53)).
Proof.
  intros Ha Fa Hw. destruct (okd_cases a Ha) as [->|[_ [Pa Sa]]]; [discriminate Fa|].
  destruct (okw_spec w Hw) as [Fw Pw].
  pose proof (plus_err 53 1024 p53' (B2R a) (B2R w) (generic_format_B2R 53 1024 a) (generic_format_B2R 53 1024 w)) as E.
  rewrite (Rabs_pos_eq (B2R a + B2R w)) in E by lra. change (bpow radix2 (- (53))) with u53 in E. apply Rabs_le_inv in E.
  destruct (dadd_cases a w Fa Pa Sa Hw) as [[F [R1 _]]|[I B]].
  - left. split; auto. rewrite R1. lra.
  - right. split; auto. lra.
Qed.

Lemma fcost_bounds (p : gpath dbl) : (forall e, In e p -> okw (snd e) = true) ->
  0 <= rcost p /\ okd (fcost p) = true /\
  (is_finite (fcost p) = true -> rcost p * (1 - u53) ^ length p <= B2R (fcost p) <= rcost p * (1 + u53) ^ length p) /\
  (is_finite (fcost p) = false -> bpow radix2 1024 <= rcost p * (1 + u53) ^ length p).
Proof.
  pose proof u53_pos as U0. pose proof u53_lt_1 as U1.
  induction p as [|e p IH] using rev_ind; intros Hok.
  - cbn. split; [lra|]. split; auto. split; [intros _; lra|discriminate].
  - assert (Hw : okw (snd e) = true) by (apply Hok, in_or_app; right; left; auto).
    destruct IH as [R0 [OkF [IHf IHi]]]; [intros e' He'; apply Hok, in_or_app; left; auto|].
    rewrite !cost_snoc', app_length. cbn [length]. rewrite Nat.add_1_r. cbn [pow]. unfold radd at 1 3 5 7.
    destruct (okw_spec _ Hw) as [Fw Pw].
    set (k := length p) in *. set (Rp := rcost p) in *. set (w := B2R (snd e)) in *.
    assert (A1 : 1 <= (1 + u53) ^ k) by (apply pow_R1_Rle; lra).
    assert (B0 : 0 <= (1 - u53) ^ k) by (apply pow_le; lra).
    assert (B1 : (1 - u53) ^ k <= 1 ^ k) by (apply pow_incr; lra). rewrite pow1 in B1.
    set (A := (1 + u53) ^ k) in *. set (B := (1 - u53) ^ k) in *.
    split; [lra|]. split; [apply dadd_ok; auto|].
    assert (UP : forall F : R, F <= Rp * A -> (F + w) * (1 + u53) <= (Rp + w) * ((1 + u53) * A)).
    { intros F HF. replace ((Rp + w) * ((1 + u53) * A)) with ((Rp * A + w * A) * (1 + u53)) by ring.
      apply Rmult_le_compat_r; [lra|]. assert (w <= w * A) by nra. lra. }
    destruct (is_finite (fcost p)) eqn:Fp.
    + destruct (IHf eq_refl) as [L1 L2]. clear IHi IHf.
      destruct (dadd_bounds (fcost p) (snd e) OkF Fp Hw) as [[F [D1 D2]]|[I D]].
      * split; [|rewrite F; discriminate]. intros _. fold w in D1, D2. split.
        -- eapply Rle_trans; [|exact D1]. replace ((Rp + w) * ((1 - u53) * B)) with ((Rp * B + w * B) * (1 - u53)) by ring.
           apply Rmult_le_compat_r; [lra|]. assert (w * B <= w) by nra. lra.
        -- eapply Rle_trans; [exact D2|]. apply UP; auto.
      * rewrite I. split; [discriminate|]. intros _. fold w in D. eapply Rle_trans; [exact D|]. apply UP; auto.
    + specialize (IHi eq_refl). clear IHf.
      destruct (okd_cases _ OkF) as [I|[F _]]; [|rewrite F in Fp; discriminate Fp].
      rewrite I, (dadd_inf _ Hw). split; [discriminate|]. intros _.
      eapply Rle_trans; [exact IHi|]. replace ((Rp + w) * ((1 + u53) * A)) with (Rp * A + (Rp * A * u53 + w * ((1 + u53) * A))) by ring.
      assert (0 <= Rp * A * u53) by (apply Rmult_le_pos; [apply Rmult_le_pos|]; lra).
      assert (0 <= w * ((1 + u53) * A)) by (apply Rmult_le_pos; [|apply Rmult_le_pos]; lra). lra.
Qed.

(* the two instances of the shortcut lemma *)
Lemma shortcut_float (g : fadj) s p v : gwok dbl fokW g -> gwalk g s p v ->
  exists p', gwalk g s p' v /\ simple dbl s p' /\ dleb (fcost p') (fcost p) = true.
Proof.
  intros Hwok. apply (shortcut dbl dbl (fun a b => dleb a b = true) dzero dadd fokD fokW eq_refl dadd_ok); auto.
  - intros a Ha. destruct (dleb_total a a Ha Ha); auto.
  - intros a b c. apply dleb_trans.
  - apply dadd_mono.
  - apply dadd_infl.
Qed.
Lemma shortcut_real (g : fadj) s p v : gwok dbl fokW g -> gwalk g s p v ->
  exists p', gwalk g s p' v /\ simple dbl s p' /\ rcost p' <= rcost p.
Proof.
  intros Hwok. apply (shortcut R dbl Rle 0 radd (fun _ => True) fokW I (fun _ _ _ _ => I)); auto.
  - intros a _. apply Rle_refl.
  - intros a b c. apply Rle_trans.
  - intros a b w _ _ _ H. unfold radd. lra.
  - intros a w _ Hw. destruct (okw_spec w Hw) as [_ Pw]. unfold radd. lra.
Qed.

Lemma pow_le_1_antitone (x : R) (m k : nat) : 0 <= x <= 1 -> (m <= k)%nat -> x ^ k <= x ^ m.
Proof. intros Hx Hmk. replace k with (m + (k - m))%nat by lia. rewrite pow_add.
  assert (0 <= x ^ m) by (apply pow_le; lra). assert (x ^ (k - m) <= 1 ^ (k - m)) by (apply pow_incr; lra). rewrite pow1 in *.
  assert (0 <= x ^ (k - m)) by (apply pow_le; lra). nra. Qed.

(* (3) ROUNDING BOUND, two-sided, against walks: with u = 2^-53 and n vertices,
   - some walk q to v has   exact(q) * (1-u)^(n-1) <= d_f(v)
   - every walk p to v has  d_f(v) <= exact(p) * (1+u)^(n-1)                                                           *)
Theorem fdj_rounding_walks (g : fadj) s cs ds ps : fdj_run g s cs = Some (ds, ps) ->
  forall v d, nth v ds None = Some d ->
    (exists q, gwalk g s q v /\ rcost q * (1 - u53) ^ (length g - 1) <= B2R d) /\
    (forall p, gwalk g s p v -> B2R d <= rcost p * (1 + u53) ^ (length g - 1)).
Proof.
  intros H v d E. pose proof u53_pos as U0. pose proof u53_lt_1 as U1.
  destruct (fdj_run_spec g s cs ds ps H) as [[Hs [Hwf Hwok]] _].
  destruct (fdj_distances g s cs ds ps H) as [_ T]. specialize (T v). rewrite E in T. destruct T as [Fd [Okd [[p0 [W0 C0]] Hmin]]].
  assert (Wok : forall p u, gwalk g s p u -> forall e, In e p -> okw (snd e) = true).
  { intros p u Wp. exact (walk_pathok dbl fokW g s Hwok p u Wp). }
  split.
  - destruct (shortcut_float g s p0 v Hwok W0) as [q [Wq [Sq Lq]]]. rewrite C0 in Lq.
    pose proof (Hmin q Wq) as Lq'.
    destruct (fcost_bounds q (Wok q v Wq)) as [Rq [Okq [Bf _]]].
    assert (Eq : fcost q = d) by (apply dleb_antisym; auto). rewrite Eq in Bf. destruct (Bf Fd) as [B1 _].
    pose proof (simple_length dbl g s Hwf q v Wq Sq) as Len.
    exists q. split; auto. eapply Rle_trans; [|exact B1]. apply Rmult_le_compat_l; auto.
    apply pow_le_1_antitone; [lra|lia].
  - intros p Wp. destruct (shortcut_real g s p v Hwok Wp) as [p' [Wp' [Sp' Lp']]].
    pose proof (Hmin p' Wp') as Lq'.
    destruct (fcost_bounds p' (Wok p' v Wp')) as [Rp' [Okp' [Bf Bi]]].
    pose proof (simple_length dbl g s Hwf p' v Wp' Sp') as Len.
    assert (Pw : (1 + u53) ^ length p' <= (1 + u53) ^ (length g - 1)) by (apply Rle_pow; [lra|lia]).
    assert (P0 : 0 <= (1 + u53) ^ (length g - 1)) by (apply pow_le; lra).
    assert (Up : rcost p' * (1 + u53) ^ length p' <= rcost p * (1 + u53) ^ (length g - 1)).
    { eapply Rle_trans; [apply Rmult_le_compat_l; [auto|exact Pw]|]. apply Rmult_le_compat_r; auto. }
    destruct (is_finite (fcost p')) eqn:Fp.
    + destruct (Bf eq_refl) as [_ B2]. apply (dleb_fin d (fcost p') Fd Fp) in Lq'. lra.
    + specialize (Bi eq_refl). pose proof (abs_B2R_lt_emax 53 1024 d) as M. apply Rabs_def2 in M. lra.
Qed.

(* the true distance: the minimum over all walks of the exact real sum of the weights *)
Definition true_dist (g : fadj) (s v : nat) (t : R) : Prop :=
  (exists q, gwalk g s q v /\ rcost q = t) /\ forall p, gwalk g s p v -> t <= rcost p.

Theorem fdj_rounding_true_dist (g : fadj) s cs ds ps : fdj_run g s cs = Some (ds, ps) ->
  forall v d t, nth v ds None = Some d -> true_dist g s v t ->
    t * (1 - u53) ^ (length g - 1) <= B2R d <= t * (1 + u53) ^ (length g - 1).
Proof.
  intros H v d t E [[q0 [W0 C0]] Tmin]. pose proof u53_pos as U0. pose proof u53_lt_1 as U1.
  destruct (fdj_rounding_walks g s cs ds ps H v d E) as [[q [Wq Lq]] Up]. split.
  - eapply Rle_trans; [|exact Lq]. apply Rmult_le_compat_r; [apply pow_le; lra|]. apply Tmin; auto.
  - rewrite <- C0. apply Up; auto.
Qed.
Print Assumptions fdj_rounding_true_dist.

(* ---- the true distance exists for every reachable vertex (minimum over the finitely many walks with fewer than n edges) ---- *)
Section Enum.
Variables (g : fadj) (s : nat).
Fixpoint walks_upto (k : nat) : list (gpath dbl * nat) :=
  match k with
  | O => [([], s)]
  | S k => ([], s) :: flat_map (fun pu => map (fun e => (fst pu ++ [e], fst e)) (nth (snd pu) g [])) (walks_upto k)
  end.
Lemma walks_complete p v : gwalk g s p v -> forall k, (length p <= k)%nat -> In (p, v) (walks_upto k).
Proof.
  induction 1 as [Hs|p u v w Wk IH Hin]; intros k Hk.
  - destruct k; left; reflexivity.
  - rewrite app_length in Hk. cbn [length] in Hk. destruct k as [|k]; [lia|]. cbn [walks_upto]. right.
    apply in_flat_map. exists (p, u). split; [apply IH; lia|]. cbn [fst snd]. apply in_map_iff. exists (v, w). split; auto.
Qed.
Lemma walks_sound k : (s < length g)%nat -> forall p v, In (p, v) (walks_upto k) -> gwalk g s p v.
Proof.
  intros Hs. induction k as [|k IH]; intros p v Hin; cbn [walks_upto] in Hin.
  - destruct Hin as [E|[]]. injection E as <- <-. constructor; auto.
  - destruct Hin as [E|Hin]; [injection E as <- <-; constructor; auto|].
    apply in_flat_map in Hin as [[p0 u] [H0 H1]]. cbn [fst snd] in H1. apply in_map_iff in H1 as [[v' w] [E H2]].
    cbn [fst] in E. injection E as <- <-. econstructor; eauto.
Qed.
End Enum.

Lemma list_min {A} (f : A -> R) (l : list A) : l <> [] -> exists a, In a l /\ forall b, In b l -> f a <= f b.
Proof.
  induction l as [|h t IH]; intros N; [congruence|]. destruct t as [|h' t'].
  - exists h. split; [left; auto|]. intros b [<-|[]]. lra.
  - destruct IH as [a [Ha Hm]]; [discriminate|]. destruct (Rle_or_lt (f h) (f a)) as [L|L].
    + exists h. split; [left; auto|]. intros b [<-|Hb]; [lra|]. specialize (Hm b Hb). lra.
    + exists a. split; [right; auto|]. intros b [<-|Hb]; [lra|]. auto.
Qed.

Theorem true_dist_exists (g : fadj) (s v : nat) : gwf g -> gwok dbl fokW g -> (exists p, gwalk g s p v) -> exists t, true_dist g s v t.
Proof.
  intros Hwf Hwok [p0 W0].
  set (cand := filter (fun pu : gpath dbl * nat => Nat.eqb (snd pu) v) (walks_upto g s (length g - 1))).
  assert (C : forall p, gwalk g s p v -> exists p', In (p', v) cand /\ rcost p' <= rcost p).
  { intros p Wp. destruct (shortcut_real g s p v Hwok Wp) as [p' [Wp' [Sp' Lp']]].
    pose proof (simple_length dbl g s Hwf p' v Wp' Sp') as Len.
    exists p'. split; auto. apply filter_In. split; [apply walks_complete; auto; lia|]. cbn [snd]. apply Nat.eqb_refl. }
  assert (Hs : (s < length g)%nat) by (clear C; induction W0; auto).
  destruct (list_min (fun pu : gpath dbl * nat => rcost (fst pu)) cand) as [[q u] [Hq Hm]].
  { destruct (C p0 W0) as [p' [Hin _]]. intros E. rewrite E in Hin. destruct Hin. }
  apply filter_In in Hq as [Hq Eu]. cbn [snd] in Eu. apply Nat.eqb_eq in Eu. subst u. cbn [fst] in Hm.
  exists (rcost q). split.
  - exists q. split; auto. eapply walks_sound; eauto.
  - intros p Wp. destruct (C p Wp) as [p' [Hin Lp']]. specialize (Hm _ Hin). cbn [fst] in Hm. lra.
Qed.

(* (3) the bound as stated: for every reached vertex the true distance t exists and  t(1-u)^(n-1) <= d_f <= t(1+u)^(n-1) *)
Theorem fdj_rounding_bound (g : fadj) s cs ds ps : fdj_run g s cs = Some (ds, ps) ->
  forall v d, nth v ds None = Some d ->
    exists t, true_dist g s v t /\ t * (1 - u53) ^ (length g - 1) <= B2R d <= t * (1 + u53) ^ (length g - 1).
Proof.
  intros H v d E. destruct (fdj_run_spec g s cs ds ps H) as [[Hs [Hwf Hwok]] _].
  destruct (fdj_distances g s cs ds ps H) as [_ T]. specialize (T v). rewrite E in T. destruct T as [_ [_ [[p0 [W0 _]] _]]].
  destruct (true_dist_exists g s v Hwf Hwok (ex_intro _ p0 W0)) as [t Ht]. exists t. split; auto.
  eapply fdj_rounding_true_dist; eauto.
Qed.
(* and unreached vertices have no true distance *)
Theorem fdj_unreached (g : fadj) s cs ds ps : fdj_run g s cs = Some (ds, ps) ->
  forall v, nth v ds None = None -> forall t, ~ true_dist g s v t.
Proof.
  intros H v E t [[q [Wq _]] _]. destruct (fdj_distances g s cs ds ps H) as [_ T]. specialize (T v). rewrite E in T. exact (T q Wq).
Qed.
Print Assumptions fdj_rounding_bound.

(* ---- exactness: weights k/4 with 0 <= k < 2^40, at most 1024 vertices ---- *)
Definition qweight (w : dbl) : Prop := is_finite w = true /\ exists k : Z, (0 <= k < 1099511627776)%Z /\ B2R w = IZR k / 4.
Definition gquarters (g : fadj) : Prop := forall u v w, In (v, w) (nth u g []) -> qweight w.

Lemma fcost_exact (p : gpath dbl) : (forall e, In e p -> qweight (snd e)) -> (length p <= 1024)%nat ->
  is_finite (fcost p) = true /\ exists K : Z, (0 <= K <= Z.of_nat (length p) * 1099511627776)%Z /\ B2R (fcost p) = IZR K / 4 /\ rcost p = IZR K / 4.
Proof.
  induction p as [|e p IH] using rev_ind; intros Hq Hl.
  - split; [reflexivity|]. exists 0%Z. cbn. split; [lia|]. split; lra.
  - rewrite app_length in Hl. cbn [length] in Hl.
    destruct IH as [Fp [K [HK [EK RK]]]]; [intros e' He'; apply Hq, in_or_app; left; auto|lia|].
    destruct (Hq e) as [Fw [k [Hk Ek]]]; [apply in_or_app; right; left; auto|].
    rewrite !cost_snoc', app_length. cbn [length]. unfold radd at 1. rewrite dadd_Bplus.
    assert (ES : B2R (fcost p) + B2R (snd e) = F2R (Float radix2 (K + k) (-2))).
    { rewrite F2R_q, plus_IZR, EK, Ek. field. }
    destruct (Bplus_exact 53 1024 p53' pe53' (fcost p) (snd e) (K + k) (-2) Fp Fw ES) as [B1 B2].
    { change (2 ^ 53)%Z with 9007199254740992%Z. lia. }
    { unfold SpecFloat.emin. lia. }
    { lia. }
    split; auto. exists (K + k)%Z. split; [lia|]. rewrite B1, ES, F2R_q, RK, Ek, plus_IZR. split; field.
Qed.

(* (3) exactness corollary: the float distances ARE the exact minimum path sums *)
Theorem fdj_exact (g : fadj) s cs ds ps : fdj_run g s cs = Some (ds, ps) -> gquarters g -> (length g <= 1024)%nat ->
  forall v d, nth v ds None = Some d -> true_dist g s v (B2R d).
Proof.
  intros H Hq Hn v d E.
  destruct (fdj_run_spec g s cs ds ps H) as [[Hs [Hwf Hwok]] _].
  destruct (fdj_distances g s cs ds ps H) as [_ T]. specialize (T v). rewrite E in T. destruct T as [Fd [Okd [[p0 [W0 C0]] Hmin]]].
  assert (Wq : forall p u, gwalk g s p u -> forall e, In e p -> qweight (snd e)).
  { intros p u Wp. exact (walk_pathok dbl qweight g s Hq p u Wp). }
  split.
  - destruct (shortcut_float g s p0 v Hwok W0) as [q [Wk [Sq Lq]]]. rewrite C0 in Lq.
    pose proof (simple_length dbl g s Hwf q v Wk Sq) as Len.
    destruct (fcost_exact q (Wq q v Wk)) as [Fq [K [_ [EK RK]]]]; [lia|].
    pose proof (Hmin q Wk) as Lq'. apply (dleb_fin _ _ Fq Fd) in Lq. apply (dleb_fin _ _ Fd Fq) in Lq'.
    exists q. split; auto. rewrite RK, <- EK. lra.
  - intros p Wp. destruct (shortcut_real g s p v Hwok Wp) as [p' [Wp' [Sp' Lp']]].
    pose proof (simple_length dbl g s Hwf p' v Wp' Sp') as Len.
    destruct (fcost_exact p' (Wq p' v Wp')) as [Fq [K [_ [EK RK]]]]; [lia|].
    pose proof (Hmin p' Wp') as Lq'. apply (dleb_fin _ _ Fd Fq) in Lq'. rewrite RK, <- EK in Lp'. lra.
Qed.
Print Assumptions fdj_exact.

(* ---- consequences for the driver ---- *)
Local Open Scope nat_scope.
(* an accepted float run pops at most 1 + E times *)
Theorem fdj_pop_bound (g : fadj) s cs ds ps : fdj_run g s cs = Some (ds, ps) -> length cs <= 1 + gedges dbl g.
Proof.
  intros H. destruct (fdj_run_spec g s cs ds ps H) as [[Hs [Hwf Hwok]] [st [R _]]].
  exact (gdj_pop_bound dbl dbl dleb dzero dadd fokD fokW eq_refl dadd_ok dleb_total dleb_trans dadd_mono dadd_infl g s Hwf Hwok Hs cs st R).
Qed.
(* the self-scheduled pop sequence is a legal, complete run of the generic model once fuel > 1 + E:
   [fdj_auto] can then only fail through the overflow check *)
Theorem fdj_pops_accepted (g : fadj) s fuel : fdj_wf g s = true -> 1 + gedges dbl g < fuel ->
  exists st, grun dbl dbl dleb dadd g (ginit dbl dzero (length g) s) (fdj_pops g s fuel) = Some st /\ gwork st = [].
Proof.
  intros Wf P. destruct (fdj_wf_spec g s Wf) as [Hs [Hwf Hwok]].
  exact (gauto_accepted dbl dbl dleb dzero dadd fokD fokW eq_refl dadd_ok dleb_total dleb_trans dadd_mono dadd_infl g s Hwf Hwok Hs fuel P).
Qed.
(* the distances do not depend on the pop sequence (so the result of ANY legal scheduling can be compared bit for bit with the C++) *)
Theorem fdj_distances_unique (g : fadj) s cs1 cs2 ds1 ps1 ds2 ps2 :
  fdj_run g s cs1 = Some (ds1, ps1) -> fdj_run g s cs2 = Some (ds2, ps2) -> ds1 = ds2.
Proof.
  intros H1 H2. destruct (fdj_distances g s cs1 ds1 ps1 H1) as [L1 T1]. destruct (fdj_distances g s cs2 ds2 ps2 H2) as [L2 T2].
  apply (nth_ext ds1 ds2 None None); [congruence|]. intros v _. specialize (T1 v). specialize (T2 v).
  destruct (nth v ds1 None) as [d1|]; destruct (nth v ds2 None) as [d2|]; auto.
  - destruct T1 as [_ [O1 [[p1 [W1 C1]] M1]]]. destruct T2 as [_ [O2 [[p2 [W2 C2]] M2]]].
    f_equal. apply dleb_antisym; auto; [rewrite <- C2; auto|rewrite <- C1; auto].
  - destruct T1 as [_ [_ [[p1 [W1 _]] _]]]. destruct (T2 p1 W1).
  - destruct T2 as [_ [_ [[p2 [W2 _]] _]]]. destruct (T1 p2 W2).
Qed.
Print Assumptions fdj_distances_unique.
