(* Invariant and characterisation lemmas for the repaired directed model (force off). *)
From BG Require Import Base DirectedModel.
Local Open Scope Z_scope.

Definition total (a : list (list nat)) : Z := fold_right (fun l acc => Z.of_nat (length l) + acc) 0 a.
Lemma total_upd i f a : (i < length a)%nat ->
  total (upd i f a) = total a - Z.of_nat (length (nth i a [])) + Z.of_nat (length (f (nth i a []))).
Proof. revert i; induction a as [|x t IH]; intros [|i] H; simpl in *; try lia. rewrite IH by lia. lia. Qed.
Lemma total_app a b : total (a ++ b) = total a + total b.
Proof. induction a; simpl; lia. Qed.
Lemma total_repeat_nil n : total (repeat [] n) = 0.
Proof. induction n; simpl; lia. Qed.
Lemma total_map_nil (a : list (list nat)) : total (map (fun _ => []) a) = 0.
Proof. induction a; simpl; lia. Qed.

Lemma nth_map_nil (a : list (list nat)) i : nth i (map (fun _ => @nil nat) a) [] = [].
Proof. revert i; induction a; intros [|i]; simpl; auto. Qed.

Section Proofs.
Context {L : Type}.
Variable has_store : bool.
Notation dgraph := (@dgraph L).
Notation add_edge := (add_edge has_store repaired).
Notation remove_edge := (@remove_edge L).
Notation has_edge := (@has_edge L).

Implicit Types g : dgraph.
Definition nb (g : dgraph) (i : nat) : list nat := nth i (adj g) [].

Record Inv (g : dgraph) : Prop := {
  i_len : length (adj g) = size g;
  i_nodup : forall i, NoDup (nb g i);
  i_rng : forall i j, In j (nb g i) -> (i < size g)%nat /\ (j < size g)%nat;
  i_enum : enum g = total (adj g);
  i_lab : if has_store then forall i j, lfind (i, j) (labels g) <> None <-> In j (nb g i) else labels g = [] }.

Lemma in_range_true g v : in_range g v = true <-> (v < size g)%nat.
Proof. unfold in_range; apply Nat.ltb_lt. Qed.

Lemma has_edge_val g s d : Inv g -> (s < size g)%nat -> (d < size g)%nat -> has_edge g s d = Val (mem d (nb g s)).
Proof. intros I Hs Hd; unfold has_edge, DirectedModel.has_edge. rewrite (proj2 (in_range_true g s) Hs), (proj2 (in_range_true g d) Hd); simpl.
  rewrite (i_len _ I). rewrite (proj2 (Nat.ltb_lt _ _) Hs); auto. Qed.
Lemma has_edge_oor g s d : ((size g <= s)%nat \/ (size g <= d)%nat) -> has_edge g s d = Raise OutOfRange.
Proof. intros H; unfold has_edge, DirectedModel.has_edge, in_range.
  destruct (Nat.ltb_spec s (size g)), (Nat.ltb_spec d (size g)); simpl; auto; lia. Qed.

(* ---------- addEdge ---------- *)
Lemma add_edge_spec g s d l : Inv g -> (s < size g)%nat -> (d < size g)%nat ->
  let '(g', r) := add_edge g s d l false in
  r = Done /\ Inv g' /\ size g' = size g /\
  (forall i j, In j (nb g' i) <-> In j (nb g i) \/ (i = s /\ j = d)) /\
  (forall e, lfind e (labels g') = if has_store && edge_eqb (s, d) e && negb (mem d (nb g s)) then Some l else lfind e (labels g)).
Proof.
  intros I Hs Hd. unfold add_edge, DirectedModel.add_edge. fold (has_edge g s d). rewrite has_edge_val by auto.
  destruct (mem d (nb g s)) eqn:M.
  - (* already present: nothing changes *)
    split; auto. split; auto. split; auto. split.
    + intros i j; split; auto. intros [H|[-> ->]]; auto. apply mem_In; auto.
    + intros e. rewrite andb_false_r; auto.
  - unfold push_edge. rewrite (i_len _ I), (proj2 (Nat.ltb_lt _ _) Hs).
    assert (Hs' : (s < length (adj g))%nat) by (rewrite (i_len _ I); auto).
    assert (NB : forall i, nth i (upd s (fun x => x ++ [d]) (adj g)) [] = if Nat.eqb i s then nb g s ++ [d] else nb g i).
    { intros i. rewrite nth_upd by auto. reflexivity. }
    pose proof M as Mb. apply mem_false in M.
    split; auto. split; [|split; auto; split].
    + constructor; simpl.
      * rewrite upd_length; apply (i_len _ I).
      * intros i; unfold nb; simpl; rewrite NB. destruct (Nat.eqb_spec i s) as [->|]; [apply NoDup_snoc; auto; apply (i_nodup _ I)|apply (i_nodup _ I)].
      * intros i j; unfold nb; simpl; rewrite NB. destruct (Nat.eqb_spec i s) as [->|]; [|apply (i_rng _ I)].
        rewrite in_app_iff; simpl. intros [H|[<-|[]]]; auto. apply (i_rng _ I) in H; tauto.
      * rewrite total_upd by auto. rewrite app_length; simpl. rewrite (i_enum _ I). unfold nb. lia.
      * unfold set_label. pose proof (i_lab _ I) as IL. destruct has_store; auto.
        intros i j; unfold nb; cbn [adj labels]; rewrite NB, lfind_lset.
        destruct (edge_eqb_spec (s, d) (i, j)) as [E|NE].
        -- injection E as <- <-. rewrite Nat.eqb_refl, in_app_iff; simpl. split; auto; discriminate.
        -- rewrite IL. destruct (Nat.eqb_spec i s) as [->|]; [|reflexivity]. rewrite in_app_iff; simpl. unfold nb.
           split; auto. intros [H|[<-|[]]]; auto. congruence.
    + intros i j; unfold nb; simpl; rewrite NB. destruct (Nat.eqb_spec i s) as [->|Hne].
      * rewrite in_app_iff; simpl. unfold nb. intuition.
      * unfold nb; intuition.
    + intros e; cbn [labels]. unfold set_label. destruct has_store; cbn [andb negb]; [|auto]. rewrite lfind_lset, andb_true_r. reflexivity.
Qed.

(* ---------- removeEdge ---------- *)
Lemma remove_edge_spec g s d : Inv g -> (s < size g)%nat -> (d < size g)%nat ->
  let '(g', r) := remove_edge g s d in
  r = Done /\ Inv g' /\ size g' = size g /\
  (forall i j, In j (nb g' i) <-> In j (nb g i) /\ ~ (i = s /\ j = d)) /\
  (forall e, lfind e (labels g') = if edge_eqb (s, d) e then None else lfind e (labels g)).
Proof.
  intros I Hs Hd. unfold remove_edge, DirectedModel.remove_edge.
  rewrite (proj2 (in_range_true g s) Hs), (proj2 (in_range_true g d) Hd); simpl.
  rewrite (i_len _ I), (proj2 (Nat.ltb_lt _ _) Hs).
  assert (Hs' : (s < length (adj g))%nat) by (rewrite (i_len _ I); auto).
  assert (NB : forall i, nth i (upd s (fun _ => remove_all d (nth s (adj g) [])) (adj g)) [] = if Nat.eqb i s then remove_all d (nb g s) else nb g i).
  { intros i. rewrite nth_upd by auto. reflexivity. }
  split; auto. split; [|split; auto; split].
  - constructor; simpl.
    + rewrite upd_length; apply (i_len _ I).
    + intros i; unfold nb; simpl; rewrite NB. destruct (Nat.eqb_spec i s); [apply NoDup_remove_all|]; apply (i_nodup _ I).
    + intros i j; unfold nb; simpl; rewrite NB. destruct (Nat.eqb_spec i s) as [->|]; [|apply (i_rng _ I)].
      rewrite In_remove_all. intros [H _]. apply (i_rng _ I) in H; auto.
    + rewrite total_upd by auto. rewrite (i_enum _ I). lia.
    + pose proof (i_lab _ I) as IL. destruct has_store.
      * intros i j; unfold nb; simpl; rewrite NB, lfind_lerase.
        destruct (edge_eqb_spec (s, d) (i, j)) as [E|NE].
        -- injection E as <- <-. rewrite Nat.eqb_refl, In_remove_all. split; [congruence|tauto].
        -- rewrite IL. destruct (Nat.eqb_spec i s) as [->|]; [|reflexivity]. rewrite In_remove_all. unfold nb.
           split; [intros H; split; auto; congruence|tauto].
      * simpl; rewrite IL; reflexivity.
  - intros i j; unfold nb; simpl; rewrite NB. destruct (Nat.eqb_spec i s) as [->|Hne].
    + rewrite In_remove_all. unfold nb. intuition.
    + unfold nb; intuition.
  - intros e; simpl. apply lfind_lerase.
Qed.
(* ---------- loops of removeEdge (removeSelfLoops, second half of removeVertexFromEdgeList) ---------- *)
Lemma remove_loop_spec (tgt : nat -> nat) vs : forall g, Inv g ->
  (forall i, In i vs -> (i < size g)%nat /\ (tgt i < size g)%nat) ->
  let '(g', r) := for_vertices (fun g i => remove_edge g i (tgt i)) vs g in
  r = Done /\ Inv g' /\ size g' = size g /\
  (forall i j, In j (nb g' i) <-> In j (nb g i) /\ ~ (In i vs /\ j = tgt i)) /\
  (forall e, lfind e (labels g') = if existsb (fun i => edge_eqb (i, tgt i) e) vs then None else lfind e (labels g)).
Proof.
  induction vs as [|v vs IH]; intros g I R; simpl.
  - split; auto. split; auto. split; auto. split; [intros; tauto|auto].
  - destruct (R v (or_introl eq_refl)) as [Hv Ht].
    pose proof (remove_edge_spec g v (tgt v) I Hv Ht) as RS.
    destruct (remove_edge g v (tgt v)) as [g1 r1]. destruct RS as [-> [I1 [S1 [E1 L1]]]].
    specialize (IH g1 I1). destruct (for_vertices (fun g i => remove_edge g i (tgt i)) vs g1) as [g' r].
    destruct IH as [-> [I' [S' [E' L']]]]. { intros i Hi; rewrite S1; apply R; right; auto. }
    split; auto. split; auto. split; [congruence|]. split.
    + intros i j. rewrite E', E1. split.
      * intros [[A B] C]. split; auto. intros [[<-|Hin] ->]; [apply B; auto|apply C; auto].
      * intros [A B]. split; [split; auto|]; intros [X Y]; apply B; subst; auto.
    + intros e. rewrite L', L1. destruct (edge_eqb (v, tgt v) e); simpl; auto.
      destruct (existsb (fun i => edge_eqb (i, tgt i) e) vs); auto.
Qed.

Lemma remove_self_loops_spec g : Inv g ->
  let '(g', r) := remove_self_loops g in
  r = Done /\ Inv g' /\ size g' = size g /\
  (forall i j, In j (nb g' i) <-> In j (nb g i) /\ i <> j) /\
  (forall i j, lfind (i, j) (labels g') = if Nat.eqb i j && Nat.ltb i (size g) then None else lfind (i, j) (labels g)).
Proof.
  intros I. unfold remove_self_loops.
  pose proof (remove_loop_spec (fun i => i) (seq 0 (size g)) g I) as H.
  destruct (for_vertices _ (seq 0 (size g)) g) as [g' r].
  destruct H as [-> [I' [S' [E' L']]]]. { intros i Hi; apply in_seq in Hi; lia. }
  split; auto. split; auto. split; auto. split.
  - intros i j; rewrite E'. split.
    + intros [A B]; split; auto. intros <-. apply B; split; auto. apply in_seq. apply (i_rng _ I) in A. lia.
    + intros [A B]; split; auto. intros [_ ->]; congruence.
  - intros i j; rewrite L'. destruct (Nat.eqb_spec i j) as [<-|Hne]; simpl.
    + destruct (Nat.ltb_spec i (size g)).
      * replace (existsb _ _) with true; auto. symmetry; apply existsb_exists. exists i; split; [apply in_seq; lia|apply edge_eqb_refl].
      * replace (existsb _ _) with false; auto. symmetry. apply not_true_is_false. rewrite existsb_exists.
        intros [x [Hx E]]. apply in_seq in Hx. destruct (edge_eqb_spec (x, x) (i, i)) as [E'0|]; [|discriminate]. injection E'0 as ->. lia.
    + replace (existsb _ _) with false; auto. symmetry. apply not_true_is_false. rewrite existsb_exists.
      intros [x [Hx E]]. destruct (edge_eqb_spec (x, x) (i, j)) as [E0|]; [|discriminate]. congruence.
Qed.
(* ---------- removeVertexFromEdgeList (repaired: labels of erased out-edges are erased too) ---------- *)
Lemma lfind_fold_erase (v : nat) (succ : list nat) : forall (m : @lmap L) e,
  lfind e (fold_left (fun m j => lerase (v, j) m) succ m) = if existsb (fun j => edge_eqb (v, j) e) succ then None else lfind e m.
Proof. induction succ as [|j succ IH]; intros m e; simpl; auto. rewrite IH, lfind_lerase.
  destruct (edge_eqb (v, j) e); simpl; auto. destruct (existsb _ succ); auto. Qed.

Lemma remove_vertex_spec g v : Inv g -> (v < size g)%nat ->
  let '(g', r) := remove_vertex repaired g v in
  r = Done /\ Inv g' /\ size g' = size g /\
  (forall i j, In j (nb g' i) <-> In j (nb g i) /\ i <> v /\ j <> v) /\
  (has_store = true -> forall i j, lfind (i, j) (labels g') = if Nat.eqb i v || Nat.eqb j v then None else lfind (i, j) (labels g)).
Proof.
  intros I Hv. unfold remove_vertex. rewrite (proj2 (in_range_true g v) Hv), (i_len _ I), (proj2 (Nat.ltb_lt _ _) Hv).
  assert (Hv' : (v < length (adj g))%nat) by (rewrite (i_len _ I); auto).
  cbn [v_rmv_labels repaired].
  set (g1 := {| adj := upd v (fun _ => []) (adj g); size := size g; enum := enum g - Z.of_nat (length (nth v (adj g) []));
               labels := fold_left (fun m j => lerase (v, j) m) (nth v (adj g) []) (labels g) |}).
  assert (NB : forall i, nb g1 i = if Nat.eqb i v then [] else nb g i).
  { intros i; unfold nb, g1; cbn [adj]. rewrite nth_upd by auto. reflexivity. }
  assert (I1 : Inv g1).
  { constructor.
    - unfold g1; cbn [adj size]. rewrite upd_length; apply (i_len _ I).
    - intros i; rewrite NB. destruct (Nat.eqb i v); [constructor|apply (i_nodup _ I)].
    - intros i j; rewrite NB. destruct (Nat.eqb i v); [intros []|]. unfold g1; cbn [size]. apply (i_rng _ I).
    - unfold g1; cbn [enum adj]. rewrite total_upd by auto. rewrite (i_enum _ I). simpl. lia.
    - pose proof (i_lab _ I) as IL. destruct has_store.
      + intros i j. rewrite NB. unfold g1; cbn [labels]. rewrite lfind_fold_erase.
        destruct (Nat.eqb_spec i v) as [->|Hne].
        * destruct (existsb (fun j0 => edge_eqb (v, j0) (v, j)) (nth v (adj g) [])) eqn:EX; [split; [congruence|intros []]|].
          split; [|intros []]. intros H. apply IL in H. exfalso.
          apply not_true_iff_false in EX. apply EX. apply existsb_exists. exists j; split; auto. apply edge_eqb_refl.
        * replace (existsb _ _) with false; [apply IL|]. symmetry. apply not_true_is_false. rewrite existsb_exists.
          intros [x [_ E]]. destruct (edge_eqb_spec (v, x) (i, j)) as [E0|]; [|discriminate]. congruence.
      + unfold g1; cbn [labels]. rewrite IL. clear. induction (nth v (adj g) []); simpl; auto. }
  pose proof (remove_loop_spec (fun _ => v) (seq 0 (size g)) g1 I1) as H.
  destruct (for_vertices _ (seq 0 (size g)) g1) as [g' r].
  destruct H as [-> [I' [S' [E' L']]]]. { intros i Hi; apply in_seq in Hi; unfold g1; cbn [size]; lia. }
  split; auto. split; auto. split; [rewrite S'; reflexivity|]. split.
  - intros i j. rewrite E', NB. destruct (Nat.eqb_spec i v) as [->|Hne].
    + split; [intros [[] _]|tauto].
    + split.
      * intros [A B]. split; auto. split; auto. intros ->. apply B; split; auto. apply in_seq. apply (i_rng _ I) in A. lia.
      * intros [A [_ C]]. split; auto. intros [_ ->]; congruence.
  - intros HS i j. rewrite L'. unfold g1; cbn [labels]. rewrite lfind_fold_erase.
    pose proof (i_lab _ I) as IL. rewrite HS in IL.
    destruct (Nat.eqb_spec j v) as [->|Hj].
    + rewrite orb_true_r.
      destruct (existsb (fun i0 => edge_eqb (i0, v) (i, v)) (seq 0 (size g))) eqn:EX; auto.
      destruct (existsb (fun j0 => edge_eqb (v, j0) (i, v)) (nth v (adj g) [])); auto.
      destruct (lfind (i, v) (labels g)) eqn:F; auto. exfalso.
      assert (In v (nb g i)) by (apply IL; congruence). apply (i_rng _ I) in H.
      apply not_true_iff_false in EX. apply EX. apply existsb_exists. exists i; split; [apply in_seq; lia|apply edge_eqb_refl].
    + rewrite orb_false_r.
      replace (existsb (fun i0 => edge_eqb (i0, v) (i, j)) (seq 0 (size g))) with false.
      2:{ symmetry. apply not_true_is_false. rewrite existsb_exists. intros [x [_ E]].
          destruct (edge_eqb_spec (x, v) (i, j)) as [E0|]; [|discriminate]. congruence. }
      destruct (Nat.eqb_spec i v) as [->|Hi].
      * destruct (existsb (fun j0 => edge_eqb (v, j0) (v, j)) (nth v (adj g) [])) eqn:EX; auto.
        destruct (lfind (v, j) (labels g)) eqn:F; auto. exfalso.
        assert (In j (nb g v)) by (apply IL; congruence).
        apply not_true_iff_false in EX. apply EX. apply existsb_exists. exists j; split; auto. apply edge_eqb_refl.
      * replace (existsb (fun j0 => edge_eqb (v, j0) (i, j)) (nth v (adj g) [])) with false; auto.
        symmetry. apply not_true_is_false. rewrite existsb_exists. intros [x [_ E]].
        destruct (edge_eqb_spec (v, x) (i, j)) as [E0|]; [|discriminate]. congruence.
Qed.

(* ---------- clearEdges (repaired), resize, setEdgeLabel ---------- *)
Lemma clear_edges_spec g : Inv g ->
  let '(g', r) := clear_edges repaired g in
  r = Done /\ Inv g' /\ size g' = size g /\ (forall i, nb g' i = []) /\ labels g' = [].
Proof.
  intros I. unfold clear_edges. rewrite (i_len _ I), Nat.leb_refl. cbn [v_clear_labels repaired].
  assert (NB : forall i, nth i (map (fun _ : list nat => @nil nat) (adj g)) [] = []) by (intros; apply nth_map_nil).
  split; auto. split; [|split; auto; split; auto].
  constructor; cbn [adj size enum labels].
  - rewrite map_length; apply (i_len _ I).
  - intros i; unfold nb; cbn [adj]; rewrite NB; constructor.
  - intros i j; unfold nb; cbn [adj]; rewrite NB; intros [].
  - rewrite total_map_nil; auto.
  - destruct has_store; auto. intros i j; unfold nb; cbn [adj]; rewrite NB; simpl. split; [congruence|intros []].
Qed.

Lemma resize_spec g n : Inv g -> (size g <= n)%nat ->
  let '(g', r) := resize g n in
  r = Done /\ Inv g' /\ size g' = n /\ (forall i, nb g' i = nb g i) /\ labels g' = labels g.
Proof.
  intros I Hn. unfold resize. destruct (Nat.ltb_spec n (size g)); [lia|].
  assert (E : firstn n (adj g) = adj g) by (apply firstn_all2; rewrite (i_len _ I); auto).
  assert (NB : forall i, nth i (firstn n (adj g) ++ repeat [] (n - length (adj g))) [] = nb g i).
  { intros i. rewrite E. apply nth_app_repeat. }
  split; auto. split; [|split; auto; split; auto].
  constructor; cbn [adj size enum labels].
  - rewrite E, app_length, repeat_length, (i_len _ I). lia.
  - intros i; unfold nb; cbn [adj]; rewrite NB; apply (i_nodup _ I).
  - intros i j; unfold nb; cbn [adj]; rewrite NB. intros Hin; apply (i_rng _ I) in Hin. lia.
  - rewrite E, total_app, total_repeat_nil, (i_enum _ I). lia.
  - pose proof (i_lab _ I) as IL. destruct has_store; auto. intros i j; unfold nb; cbn [adj]; rewrite NB. apply IL.
Qed.

Lemma resize_shrink g n : (n < size g)%nat -> resize g n = (g, Thrown InvalidArgument).
Proof. intros H; unfold resize. rewrite (proj2 (Nat.ltb_lt _ _) H); auto. Qed.

Lemma set_label_spec g s d l : Inv g -> (s < size g)%nat -> (d < size g)%nat ->
  set_edge_label has_store g s d l false =
  if mem d (nb g s)
  then ({| adj := adj g; size := size g; enum := enum g; labels := set_label has_store (s, d) l (labels g) |}, Done)
  else (g, Thrown InvalidArgument).
Proof. intros I Hs Hd. unfold set_edge_label. rewrite (proj2 (in_range_true g s) Hs), (proj2 (in_range_true g d) Hd); simpl.
  fold (has_edge g s d). rewrite has_edge_val by auto. destruct (mem d (nb g s)); auto. Qed.

Lemma set_label_inv g s d l : Inv g -> In d (nb g s) ->
  Inv {| adj := adj g; size := size g; enum := enum g; labels := set_label has_store (s, d) l (labels g) |}.
Proof. intros I H. constructor; cbn [adj size enum labels]; try apply I.
  pose proof (i_lab _ I) as IL. unfold set_label. destruct has_store; auto.
  intros i j; unfold nb; cbn [adj]. rewrite lfind_lset. destruct (edge_eqb_spec (s, d) (i, j)) as [E|NE]; [|apply IL].
  injection E as <- <-. split; auto; discriminate. Qed.

(* ---------- removeDuplicateEdges on a duplicate-free graph: nothing to do ---------- *)
Lemma dedup_nodup_gen (l : list nat) : forall seen, NoDup l -> (forall x, In x l -> ~ In x seen) -> dedup seen l = l.
Proof. induction l as [|x t IH]; intros seen ND D; simpl; auto. inversion ND; subst.
  assert (mem x seen = false) as -> by (apply mem_false, D; simpl; auto).
  f_equal. apply IH; auto. intros y Hy [<-|Hs]; [contradiction|]. apply (D y); simpl; auto. Qed.
Lemma dedup_nodup (l : list nat) : NoDup l -> dedup [] l = l.
Proof. intros ND; apply dedup_nodup_gen; auto. Qed.
Lemma remove_duplicates_noop g : Inv g -> remove_duplicates g = (g, Done).
Proof.
  intros I. unfold remove_duplicates. rewrite (i_len _ I), Nat.leb_refl.
  assert (A : forall a : list (list nat), (forall l, In l a -> NoDup l) ->
     map (dedup []) a = a /\ fold_right (fun l acc => Z.of_nat (length l) - Z.of_nat (length (dedup [] l)) + acc) 0 a = 0).
  { induction a as [|x t IH]; simpl; intros H; auto. destruct IH as [E1 E2]; [intros; apply H; auto|].
    rewrite E1, E2, dedup_nodup by (apply H; auto). split; auto; lia. }
  destruct (A (adj g)) as [E1 E2].
  { intros l Hl. apply In_nth with (d := []) in Hl as [i [_ <-]]. apply (i_nodup _ I). }
  rewrite E1, E2, Z.sub_0_r. destruct g; reflexivity.
Qed.

End Proofs.
