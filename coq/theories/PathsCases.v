(* Case functions of the path searches for the correspondence driver: what the model reports (M) and what the property demands (S), the
   latter validating the implementation-chosen values (a parent, a shortest path, the pop sequence) instead of fixing them.  Definitions only. *)
From BG Require Import Base DirectedModel UndirectedModel MultiModel WeightedModel Bfs Dj PathsModel.
Local Open Scope Z_scope.

(* ---- canonical orders, in Gallina so that the driver stays a printer ---- *)
Fixpoint lex_leb (a b : list nat) : bool :=
  match a, b with [], _ => true | _ :: _, [] => false | x :: a', y :: b' => if Nat.ltb x y then true else if Nat.ltb y x then false else lex_leb a' b' end.
Fixpoint insert_by {A} (le : A -> A -> bool) (x : A) (l : list A) : list A := match l with [] => [x] | y :: t => if le x y then x :: l else y :: insert_by le x t end.
Definition sort_by {A} (le : A -> A -> bool) (l : list A) : list A := fold_right (insert_by le) [] l.
Definition zpath (p : list nat) : list Z := Z.of_nat (length p) :: map Z.of_nat p.
Definition zpaths (ps : list (list nat)) : list Z := Z.of_nat (length ps) :: flat_map zpath (sort_by lex_leb ps).
Definition zpreds (ps : list (list nat)) : list Z := flat_map (fun l => Z.of_nat (length l) :: map Z.of_nat (sort_by Nat.leb l)) ps.
Definition zerr {A} (f : A -> list (list Z)) (o : outcome A) : list (list Z) := match o with Val a => f a | Raise e => [[zexn e]] | Undef _ => [[zub]] end.

(* ---- BFS cases ---- *)
Definition path_case (strict once : bool) (fuel : nat) (g : adjl) (s t : nat) : list (list (list Z)) :=
  [ zerr (fun o => [map zopt (bo_dist o); map zopt (bo_pred o); [Z.of_nat (bo_scans o)]]) (bfs_single strict g s);
    zerr (fun o => [map zopt (ao_dist o); zpreds (ao_preds o); [Z.of_nat (ao_scans o)]]) (bfs_all strict once fuel g s);
    zerr (fun p => [zpath p]) (find_geodesics strict g s t);
    zerr (fun ps => [zpaths ps]) (find_all_geodesics strict once fuel g s t);
    zerr (fun ps => [flat_map zpath ps]) (geodesics_from_vertex strict g s);
    zerr (fun pss => [flat_map zpaths pss]) (all_geodesics_from_vertex strict once fuel g s) ].

(* fuel for the all-geodesics enumeration: the model's stack loop pops one entry per suffix of a shortest path, so |V| * (number of
   shortest paths to the farthest-reaching destination) always suffices (BfsAllProofs.find_all_geodesics_spec); 5000 on top for the
   pinned variant's re-queuing search, which is cut off (reported as undefined) beyond that *)
Definition path_fuel (g : adjl) (s : nat) : nat :=
  (5000 + length g * S (fold_right Nat.max 0 (map (fun t => length (shortest_paths g s t)) (seq 0 (length g)))))%nat.
(* what the implementation reported, as far as the spec has to validate it *)
Record path_impl := { pi_pred : list Z; pi_scans1 : Z; pi_scans2 : Z; pi_path : list Z; pi_from : list Z }.
Definition nat_of_z (z : Z) : option nat := if Z.eqb z vmax then None else Some (Z.to_nat z).
Definition pred_ok (g : adjl) (s v : nat) (p : Z) : bool :=
  match hopdist g s v with
  | None => Z.eqb p vmax
  | Some 0%nat => Z.eqb p vmax                      (* the source has no predecessor *)
  | Some (S k) => match nat_of_z p with None => false | Some q => mem v (nth q g []) && (match hopdist g s q with Some k' => Nat.eqb k' k | None => false end) end end.
(* a reported path: [len; v1; ...] must be empty when unreachable, and otherwise a walk from s to t with hopdist edges *)
Definition path_ok (g : adjl) (s t : nat) (p : list nat) : bool :=
  match hopdist g s t with
  | None => match p with [] => true | _ => false end
  | Some k => Nat.eqb (length p) (S k) && Nat.eqb (hd (S (length g)) p) s && Nat.eqb (last p (S (length g))) t && is_walk g p end.
Fixpoint split_paths (fuel : nat) (l : list Z) : option (list (list nat)) :=           (* [len; items...; len; items...] *)
  match fuel with O => None | S f =>
    match l with [] => Some [] | n :: t => let k := Z.to_nat n in
      if Nat.leb k (length t) then option_map (cons (map Z.to_nat (firstn k t))) (split_paths f (skipn k t)) else None end end.
Definition bad : list (list Z) := [[-8]].
Definition path_spec (g : adjl) (s t : nat) (im : path_impl) : list (option (list (list Z))) :=
  let n := length g in
  if negb (Nat.ltb s n) then repeat (Some [[zexn OutOfRange]]) 6 else
  let tbad := negb (Nat.ltb t n) in
  let d := map (fun v => zopt (hopdist g s v)) (seq 0 n) in
  let e := length (concat g) in
  [ Some [d;
          if forallb (fun v => pred_ok g s v (nth v (pi_pred im) (-1))) (seq 0 n) && Nat.eqb (length (pi_pred im)) n then pi_pred im else [-8];
          if Z.leb (pi_scans1 im) (Z.of_nat n) then [pi_scans1 im] else [-8]];
    Some [d;
          zpreds (map (fun v => match hopdist g s v with Some (S k) => filter (fun q => mem v (nth q g []) && (match hopdist g s q with Some k' => Nat.eqb k' k | None => false end)) (seq 0 n) | _ => [] end) (seq 0 n));
          if Z.leb (pi_scans2 im) (Z.of_nat (n + e)) then [pi_scans2 im] else [-8]];
    Some (if tbad then [[zexn OutOfRange]] else match split_paths 2 (pi_path im) with Some [p] => if path_ok g s t p then [pi_path im] else bad | _ => bad end);
    Some (if tbad then [[zexn OutOfRange]] else [zpaths (shortest_paths g s t)]);
    Some (match split_paths (S n) (pi_from im) with
          | Some ps => if Nat.eqb (length ps) n && forallb (fun jp => path_ok g s (fst jp) (snd jp)) (combine (seq 0 n) ps) then [pi_from im] else bad
          | None => bad end);
    Some [flat_map (fun j => zpaths (shortest_paths g s j)) (seq 0 n)] ].

(* ---- the two reconstruction entry points called directly (C07: they take vertex indices themselves).  The predecessor table handed
   in is the one the search from s computes (from vertex 0 when s is out of range - the call has to be rejected before looking at it) ---- *)
Definition direct_path (strict : bool) (g : adjl) (s t : nat) : outcome (list nat) :=
  checked strict (length g) [s; t]
   (if Nat.eqb s t then Val [s] else
    obind (bfs_single strict g s) (fun o => obind (reached (bo_dist o) t) (fun r => match r with Some k => path_from_preds (S k) (bo_pred o) s t | None => Raise RuntimeError end))).
Definition direct_paths (strict once : bool) (fuel : nat) (g : adjl) (s t : nat) : outcome (list (list nat)) :=
  checked strict (length g) [s; t]
   (if Nat.eqb s t then Val [[s]] else obind (bfs_all strict once fuel g s) (fun o => all_paths_from_preds fuel (ao_preds o) s t)).
Definition path_case_x (strict once : bool) (fuel : nat) (g : adjl) (s t : nat) : list (list (list Z)) :=
  path_case strict once fuel g s t ++ [ zerr (fun p => [zpath p]) (direct_path strict g s t); zerr (fun ps => [zpaths ps]) (direct_paths strict once fuel g s t) ].
Definition path_spec_x (g : adjl) (s t : nat) (im : path_impl) : list (option (list (list Z))) :=
  let rej := if Nat.ltb s (length g) && Nat.ltb t (length g) then None else Some [[zexn OutOfRange]] in
  path_spec g s t im ++ [rej; rej].

(* ---- Dijkstra cases ---- *)
Definition wadj_of (g : @dgraph Z) : Dj.wadj :=
  map (fun il => map (fun j => (j, Z.to_N (lget (fst il, j) (labels g)))) (snd il)) (combine (seq 0 (length (adj g))) (adj g)).
Definition uwadj_of (g : @dgraph Z) : Dj.wadj :=
  map (fun il => map (fun j => (j, Z.to_N (lget (ordered (fst il) j) (labels g)))) (snd il)) (combine (seq 0 (length (adj g))) (adj g)).
Definition zdist (o : option N) : Z := match o with Some d => Z.of_N d | None => -1 end.
Definition dj_case (strict : bool) (g : Dj.wadj) (s : nat) (cs : list nat) : list (list (list Z)) :=
  [ zerr (fun o => if do_legal o && do_done o then [map zdist (do_dist o); map zopt (do_pred o); [Z.of_nat (do_pops o)]; map Z.of_nat cs] else bad) (dijkstra strict g s cs) ].
Definition djpred_ok (g : Dj.wadj) (d : list (option N)) (s v : nat) (p : Z) : bool :=
  if Nat.eqb v s then Z.eqb p (Z.of_nat s) else
  match nth v d None with
  | None => Z.eqb p vmax
  | Some dv => match nat_of_z p with None => false | Some q =>
      match nth q d None with None => false | Some dq => existsb (fun e => Nat.eqb (fst e) v && N.eqb (dq + snd e) dv) (nth q g []) end end end.
Definition dj_spec (g : Dj.wadj) (s : nat) (ipred : list Z) (cs : list nat) : list (option (list (list Z))) :=
  let n := length g in
  if negb (Nat.ltb s n) then [Some [[zexn OutOfRange]]] else
  let d := bf_dist g s in
  let e := length (concat g) in
  [ Some [map zdist d;
          if forallb (fun v => djpred_ok g d s v (nth v ipred (-1))) (seq 0 n) && Nat.eqb (length ipred) n then ipred else [-8];
          if Nat.leb (length cs) (n + e + 1) then [Z.of_nat (length cs)] else [-8];
          map Z.of_nat cs] ].
