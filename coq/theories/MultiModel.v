(* Executable models of DirectedMultigraph / UndirectedMultigraph (include/BaseGraph/{directed,undirected}_multigraph.hpp):
   the labelled graph model with label = multiplicity (Z, never negative) plus the running totalEdgeNumber.  Definitions only. *)
From BG Require Import Base DirectedModel UndirectedModel.
Local Open Scope Z_scope.

Record mgraph := { mg : @dgraph Z; mtot : Z }.
Definition mk (g : @dgraph Z) (t : Z) : mgraph := {| mg := g; mtot := t |}.
Definition lget (e : edge) (m : @lmap Z) : Z := match lfind e m with Some x => x | None => 0 end.      (* getEdgeLabel(.., false) / operator[] on a fresh key *)
Fixpoint remove_first (d : nat) (l : list nat) : list nat :=                                         (* list.erase(first iterator with *j == d) *)
  match l with [] => [] | x :: t => if Nat.eqb x d then t else x :: remove_first d t end.
Definition with_g (m : mgraph) (r : @dgraph Z * res) : mgraph * res := (mk (fst r) (mtot m), snd r).
Definition nbl (g : @dgraph Z) (i : nat) : list nat := nth i (adj g) [].
Definition set_adj_lab (g : @dgraph Z) (a : list (list nat)) (e : Z) (l : @lmap Z) : @dgraph Z := {| adj := a; size := size g; enum := e; labels := l |}.

Section Multi.
Variable V : variant.

(* ================= DirectedMultigraph ================= *)
Definition dm_init (n : nat) : mgraph := mk (init n) 0.
Definition dm_in2 (m : mgraph) (s d : nat) : bool := in_range (mg m) s && in_range (mg m) d.
Definition dm_ok_rows (m : mgraph) : bool := Nat.leb (size (mg m)) (length (adj (mg m))).
Definition dm_add_multiedge (m : mgraph) (s d : nat) (k : Z) (force : bool) : mgraph * res :=
  if dm_in2 m s d then
    if Z.eqb k 0 then (m, Done) else
    match has_edge (mg m) s d with
    | Val ex =>
      if force || negb ex then
        let '(g1, r) := add_edge true V (mg m) s d k true in
        match r with Done => (mk g1 (mtot m + k), Done) | _ => (mk g1 (mtot m), r) end
      else (mk (set_adj_lab (mg m) (adj (mg m)) (enum (mg m)) (lset (s, d) (lget (s, d) (labels (mg m)) + k) (labels (mg m)))) (mtot m + k), Done)
    | Raise e => (m, Thrown e) | Undef u => (m, UBk u) end
  else (m, Thrown OutOfRange).
Definition dm_add_edge (m : mgraph) (s d : nat) (force : bool) := dm_add_multiedge m s d 1 force.
Definition dm_add_reciprocal_multiedge (m : mgraph) (s d : nat) (k : Z) (force : bool) : mgraph * res :=
  match dm_add_multiedge m s d k force with (m1, Done) => dm_add_multiedge m1 d s k force | r => r end.
Definition dm_remove_multiedge (m : mgraph) (s d : nat) (k : Z) : mgraph * res :=
  if dm_in2 m s d then
    if Nat.ltb s (length (adj (mg m))) then
      let g := mg m in
      if mem d (nbl g s) then
        let cur := lget (s, d) (labels g) in
        if Z.ltb k cur then (mk (set_adj_lab g (adj g) (enum g) (lset (s, d) (cur - k) (labels g))) (mtot m - k), Done)
        else (mk (set_adj_lab g (upd s (remove_first d) (adj g)) (enum g - 1) (lerase (s, d) (labels g))) (mtot m - cur), Done)
      else (m, Done)
    else (m, UBk IndexOOB)
  else (m, Thrown OutOfRange).
Definition dm_remove_edge (m : mgraph) (s d : nat) := dm_remove_multiedge m s d 1.
Definition dm_remove_all (m : mgraph) (s d : nat) : mgraph * res :=                    (* private removeAllEdges *)
  if dm_in2 m s d then
    if Nat.ltb s (length (adj (mg m))) then
      let g := mg m in
      let before := nbl g s in let after := remove_all d before in
      let diff := Z.of_nat (length before) - Z.of_nat (length after) in
      (mk (set_adj_lab g (upd s (fun _ => after) (adj g)) (enum g - diff) (lerase (s, d) (labels g))) (mtot m - lget (s, d) (labels g) * diff), Done)
    else (m, UBk IndexOOB)
  else (m, Thrown OutOfRange).
Definition dm_get_multiplicity (m : mgraph) (s d : nat) : outcome Z :=
  if dm_in2 m s d then Val (lget (s, d) (labels (mg m))) else Raise OutOfRange.
Definition dm_set_multiplicity (m : mgraph) (s d : nat) (k : Z) : mgraph * res :=
  if dm_in2 m s d then
    if Z.eqb k 0 then dm_remove_all m s d else
    match has_edge (mg m) s d with
    | Val true => let g := mg m in let cur := lget (s, d) (labels g) in
                  (mk (set_adj_lab g (adj g) (enum g) (lset (s, d) k (labels g))) (mtot m + (k - cur)), Done)
    | Val false => dm_add_multiedge m s d k true
    | Raise e => (m, Thrown e) | Undef u => (m, UBk u) end
  else (m, Thrown OutOfRange).
Fixpoint m_for (f : mgraph -> nat -> mgraph * res) (vs : list nat) (m : mgraph) : mgraph * res :=
  match vs with [] => (m, Done) | v :: vs' => match f m v with (m1, Done) => m_for f vs' m1 | r => r end end.
Definition dm_remove_self_loops (m : mgraph) := m_for (fun m i => dm_remove_all m i i) (seq 0 (size (mg m))) m.
(* the erase loop over the out-list of [vertex]: subtract the stored multiplicity, erase the label (repaired), erase the entry *)
Fixpoint dm_drain (v : nat) (succ : list nat) (lab : @lmap Z) (t e : Z) : @lmap Z * Z * Z :=
  match succ with [] => (lab, t, e) | j :: r => dm_drain v r (if v_rmv_labels V then lerase (v, j) lab else lab) (t - lget (v, j) lab) (e - 1) end.
Definition dm_remove_vertex (m : mgraph) (v : nat) : mgraph * res :=
  if in_range (mg m) v then
    if Nat.ltb v (length (adj (mg m))) then
      let g := mg m in
      let '(lab, t, e) := dm_drain v (nbl g v) (labels g) (mtot m) (enum g) in
      m_for (fun m i => dm_remove_all m i v) (seq 0 (size g)) (mk (set_adj_lab g (upd v (fun _ => []) (adj g)) e lab) t)
    else (m, UBk IndexOOB)
  else (m, Thrown OutOfRange).
Definition dm_clear (m : mgraph) : mgraph * res :=
  if dm_ok_rows m then let g := mg m in (mk (set_adj_lab g (map (fun _ => []) (adj g)) 0 (if v_clear_labels V then [] else labels g)) 0, Done)
  else (m, UBk IndexOOB).
Definition dm_resize (m : mgraph) (n : nat) : mgraph * res := with_g m (resize (mg m) n).
(* removeDuplicateEdges: every repeated entry costs its stored multiplicity *)
Fixpoint dm_dedup_row (i : nat) (lab : @lmap Z) (seen : list nat) (l : list nat) : list nat * Z * Z :=     (* row, removed entries, total lost *)
  match l with [] => ([], 0, 0)
  | x :: t => if mem x seen then let '(r, c, w) := dm_dedup_row i lab seen t in (r, c + 1, w + lget (i, x) lab)
              else let '(r, c, w) := dm_dedup_row i lab (x :: seen) t in (x :: r, c, w) end.
Fixpoint dm_dedup_rows (i : nat) (lab : @lmap Z) (rows : list (list nat)) : list (list nat) * Z * Z :=
  match rows with [] => ([], 0, 0) | r :: rs =>
    let '(r', c, w) := dm_dedup_row i lab [] r in let '(rs', c', w') := dm_dedup_rows (S i) lab rs in (r' :: rs', c + c', w + w') end.
Definition dm_remove_duplicates (m : mgraph) : mgraph * res :=
  if dm_ok_rows m then let g := mg m in
    let '(rows, c, w) := dm_dedup_rows 0 (labels g) (adj g) in (mk (set_adj_lab g rows (enum g - c) (labels g)) (mtot m - w), Done)
  else (m, UBk IndexOOB).

(* observers *)
Definition dm_out_degree (m : mgraph) (v : nat) : outcome Z :=
  obind (out_neighbours (mg m) v) (fun l => omap (fun ms => fold_right Z.add 0 ms) (omapM (fun j => dm_get_multiplicity m v j) l)).
Definition dm_weighted_degrees (m : mgraph) (key : edge -> nat) (thr : bool) : outcome (list Z) :=      (* loops over edges() *)
  obind (iterate V (mg m)) (fun es =>
    fold_left (fun acc e => obind acc (fun d =>
       obind (if thr then get_label 0 true (mg m) (fst e) (snd e) true else dm_get_multiplicity m (fst e) (snd e)) (fun k =>
         match nth_error d (key e) with None => Undef IndexOOB | Some x => Val (upd (key e) (fun _ => x + k) d) end))) es (Val (repeat 0 (size (mg m))))).
Definition dm_out_degrees (m : mgraph) := dm_weighted_degrees m fst false.
Definition dm_in_degrees (m : mgraph) := dm_weighted_degrees m snd true.
Definition dm_in_degree (m : mgraph) (v : nat) : outcome Z :=
  if in_range (mg m) v then
    obind (iterate V (mg m)) (fun es => fold_left (fun acc e => obind acc (fun d =>
      if Nat.eqb (snd e) v then omap (fun k => d + k) (get_label 0 true (mg m) (fst e) (snd e) true) else Val d)) es (Val 0))
  else Raise OutOfRange.
Definition m_matrix_row (n : nat) (w : nat -> outcome Z) (l : list nat) : outcome (list Z) :=
  fold_left (fun acc j => obind acc (fun row => obind (w j) (fun k => match nth_error row j with None => Undef IndexOOB
      | Some x => Val (upd j (fun _ => x + k) row) end))) l (Val (repeat 0 n)).
Definition dm_adjacency_matrix (m : mgraph) : outcome (list (list Z)) :=
  omapM (fun i => obind (out_neighbours (mg m) i) (m_matrix_row (size (mg m)) (fun j => dm_get_multiplicity m i j))) (seq 0 (size (mg m))).

Definition zid (z : Z) := z.
Definition edge_counts (n : nat) (o : outcome (list edge)) : list Z :=
  match o with Val es => zn (length es) :: map (fun e => zn (length (filter (edge_eqb e) es))) (pairs n) | Raise e => repeat (zexn e) (S (n * n)) | Undef _ => repeat zub (S (n * n)) end.
Definition zmat (n : nat) (o : outcome (list (list Z))) : list Z :=
  match o with Val m => concat m | Raise e => repeat (zexn e) (n * n) | Undef _ => repeat zub (n * n) end.
(* segments: 0 size/edge count/total, 1 hasEdge, 2 neighbour multisets, 3 multiplicities, 4 degrees, 5 adjacency matrix, 6 edges() *)
Definition dm_observe (m : mgraph) : list (list Z) :=
  let g := mg m in let n := size g in let vs := seq 0 n in
  [ [zn n; enum g; mtot m];
    map (fun e => zout zbool (has_edge g (fst e) (snd e))) (pairs n);
    flat_map (fun i => zvec zn n (omap (fun l => map (fun j => count j l) vs) (out_neighbours g i))) vs;
    map (fun e => zout zid (dm_get_multiplicity m (fst e) (snd e))) (pairs n);
    map (fun i => zout zid (dm_out_degree m i)) vs ++ zvec zid n (dm_out_degrees m) ++ map (fun i => zout zid (dm_in_degree m i)) vs ++ zvec zid n (dm_in_degrees m);
    zmat n (dm_adjacency_matrix m);
    edge_counts n (iterate V g);
    iter_segment V g ].

Inductive mop :=
| MAdd (s d : nat) (force : bool) | MAddRecip (s d : nat) (force : bool) | MAddMulti (s d : nat) (k : Z) (force : bool) | MAddRecipMulti (s d : nat) (k : Z) (force : bool)
| MRemove (s d : nat) | MRemoveMulti (s d : nat) (k : Z) | MSet (s d : nat) (k : Z)
| MSelfLoops | MRemoveVertex (v : nat) | MClear | MResize (n : nat) | MRemoveDuplicates.
Definition dm_step (m : mgraph) (o : mop) : mgraph * res :=
  match o with
  | MAdd s d f => dm_add_edge m s d f
  | MAddRecip s d f => match dm_add_edge m s d f with (m1, Done) => dm_add_edge m1 d s f | r => r end
  | MAddMulti s d k f => dm_add_multiedge m s d k f | MAddRecipMulti s d k f => dm_add_reciprocal_multiedge m s d k f
  | MRemove s d => dm_remove_edge m s d | MRemoveMulti s d k => dm_remove_multiedge m s d k | MSet s d k => dm_set_multiplicity m s d k
  | MSelfLoops => dm_remove_self_loops m | MRemoveVertex v => dm_remove_vertex m v | MClear => dm_clear m | MResize n => dm_resize m n
  | MRemoveDuplicates => dm_remove_duplicates m end.

(* ================= UndirectedMultigraph ================= *)
Definition um_has_edge (m : mgraph) (a b : nat) : outcome bool := u_has_edge (mg m) a b.
Definition um_add_multiedge (m : mgraph) (a b : nat) (k : Z) (force : bool) : mgraph * res :=
  if dm_in2 m a b then
    if Z.eqb k 0 then (m, Done) else
    match um_has_edge m a b with
    | Val ex =>
      if force || negb ex then
        let '(g1, r) := u_add_edge true V (mg m) a b k true in
        match r with Done => (mk g1 (mtot m + k), Done) | _ => (mk g1 (mtot m), r) end
      else let e := ordered a b in
           (mk (set_adj_lab (mg m) (adj (mg m)) (enum (mg m)) (lset e (lget e (labels (mg m)) + k) (labels (mg m)))) (mtot m + k), Done)
    | Raise e => (m, Thrown e) | Undef u => (m, UBk u) end
  else (m, Thrown OutOfRange).
Definition um_remove_multiedge (m : mgraph) (a b : nat) (k : Z) : mgraph * res :=
  if dm_in2 m a b then
    if Nat.ltb a (length (adj (mg m))) && Nat.ltb b (length (adj (mg m))) then
      let g := mg m in let e := ordered a b in
      if mem b (nbl g a) then
        let cur := lget e (labels g) in
        if Z.ltb k cur then (mk (set_adj_lab g (adj g) (enum g) (lset e (cur - k) (labels g))) (mtot m - k), Done)
        else let adj1 := upd a (remove_first b) (adj g) in
             let adj2 := if Nat.eqb a b then adj1 else upd b (remove_all a) adj1 in
             (mk (set_adj_lab g adj2 (enum g - 1) (lerase e (labels g))) (mtot m - cur), Done)
      else (m, Done)
    else (m, UBk IndexOOB)
  else (m, Thrown OutOfRange).
Definition um_remove_all (m : mgraph) (a b : nat) : mgraph * res :=
  if dm_in2 m a b then
    if Nat.ltb a (length (adj (mg m))) && Nat.ltb b (length (adj (mg m))) then
      let g := mg m in let e := ordered a b in
      let before := nbl g a in let after := remove_all b before in
      let diff := Z.of_nat (length before) - Z.of_nat (length after) in
      let adj1 := upd a (fun _ => after) (adj g) in
      if Z.ltb 0 diff then
        (mk (set_adj_lab g (upd b (remove_all a) adj1) (enum g - diff) (lerase e (labels g))) (mtot m - lget e (labels g) * diff), Done)
      else (mk (set_adj_lab g adj1 (enum g) (labels g)) (mtot m), Done)
    else (m, UBk IndexOOB)
  else (m, Thrown OutOfRange).
Definition um_get_multiplicity (m : mgraph) (a b : nat) : outcome Z :=
  if dm_in2 m a b then Val (lget (ordered a b) (labels (mg m))) else Raise OutOfRange.
Variable um_set0_removes_all : bool.        (* repaired: setEdgeMultiplicity(i,j,0) deletes the edge; pinned: it called removeEdge (one copy) *)
Definition um_set_multiplicity (m : mgraph) (a b : nat) (k : Z) : mgraph * res :=
  if dm_in2 m a b then
    if Z.eqb k 0 then (if um_set0_removes_all then um_remove_all m a b else um_remove_multiedge m a b 1) else
    match um_has_edge m a b with
    | Val true => let g := mg m in let e := ordered a b in let cur := lget e (labels g) in
                  (mk (set_adj_lab g (adj g) (enum g) (lset e k (labels g))) (mtot m + (k - cur)), Done)
    | Val false => um_add_multiedge m a b k true
    | Raise e => (m, Thrown e) | Undef u => (m, UBk u) end
  else (m, Thrown OutOfRange).
Definition um_remove_self_loops (m : mgraph) := m_for (fun m i => um_remove_all m i i) (seq 0 (size (mg m))) m.
(* removeVertexFromEdgeList: one pass; entries with i = v or j = v are erased; on the i <= j half the stored multiplicity is subtracted
   (read before the label is erased) and the edge count drops *)
Fixpoint um_rmv_row (v i : nat) (row : list nat) (lab : @lmap Z) (t e : Z) : list nat * @lmap Z * Z * Z :=
  match row with [] => ([], lab, t, e)
  | j :: r =>
    if Nat.eqb i v || Nat.eqb j v then
      let t' := if Nat.leb i j then t - lget (ordered i j) lab else t in
      let e' := if Nat.leb i j then e - 1 else e in
      um_rmv_row v i r (if v_rmv_labels V then lerase (ordered i j) lab else lab) t' e'
    else let '(r', lab', t', e') := um_rmv_row v i r lab t e in (j :: r', lab', t', e') end.
Fixpoint um_rmv_rows (v i : nat) (rows : list (list nat)) (lab : @lmap Z) (t e : Z) : list (list nat) * @lmap Z * Z * Z :=
  match rows with [] => ([], lab, t, e)
  | r :: rs => let '(r', lab1, t1, e1) := um_rmv_row v i r lab t e in
               let '(rs', lab2, t2, e2) := um_rmv_rows v (S i) rs lab1 t1 e1 in (r' :: rs', lab2, t2, e2) end.
Definition um_remove_vertex (m : mgraph) (v : nat) : mgraph * res :=
  if in_range (mg m) v then
    if dm_ok_rows m then let g := mg m in
      let '(rows, lab, t, e) := um_rmv_rows v 0 (adj g) (labels g) (mtot m) (enum g) in (mk (set_adj_lab g rows e lab) t, Done)
    else (m, UBk IndexOOB)
  else (m, Thrown OutOfRange).
Fixpoint um_dedup_row (i : nat) (lab : @lmap Z) (seen : list nat) (l : list nat) : list nat * Z * Z :=
  match l with [] => ([], 0, 0)
  | x :: t => if mem x seen then let '(r, c, w) := um_dedup_row i lab seen t in
                                 if Nat.leb i x then (r, c + 1, w + lget (ordered i x) lab) else (r, c, w)
              else let '(r, c, w) := um_dedup_row i lab (x :: seen) t in (x :: r, c, w) end.
Fixpoint um_dedup_rows (i : nat) (lab : @lmap Z) (rows : list (list nat)) : list (list nat) * Z * Z :=
  match rows with [] => ([], 0, 0) | r :: rs =>
    let '(r', c, w) := um_dedup_row i lab [] r in let '(rs', c', w') := um_dedup_rows (S i) lab rs in (r' :: rs', c + c', w + w') end.
Definition um_remove_duplicates (m : mgraph) : mgraph * res :=
  if dm_ok_rows m then let g := mg m in
    let '(rows, c, w) := um_dedup_rows 0 (labels g) (adj g) in (mk (set_adj_lab g rows (enum g - c) (labels g)) (mtot m - w), Done)
  else (m, UBk IndexOOB).
Definition um_degree (m : mgraph) (v : nat) (twice : bool) : outcome Z :=
  obind (out_neighbours (mg m) v) (fun l => omap (fun ms => fold_right Z.add 0 ms)
    (omapM (fun j => omap (fun k => if twice && Nat.eqb v j then 2 * k else k) (um_get_multiplicity m v j)) l)).
Definition um_degrees (m : mgraph) (twice : bool) : outcome (list Z) := omapM (fun i => um_degree m i twice) (seq 0 (size (mg m))).
Definition um_adjacency_matrix (m : mgraph) (twice : bool) : outcome (list (list Z)) :=
  omapM (fun i => obind (out_neighbours (mg m) i)
     (m_matrix_row (size (mg m)) (fun j => omap (fun k => if Nat.eqb i j && twice then 2 * k else k) (u_get_label 0 true (mg m) i j true)))) (seq 0 (size (mg m))).
Definition um_observe (m : mgraph) : list (list Z) :=
  let g := mg m in let n := size g in let vs := seq 0 n in
  [ [zn n; enum g; mtot m];
    map (fun e => zout zbool (um_has_edge m (fst e) (snd e))) (pairs n);
    flat_map (fun i => zvec zn n (omap (fun l => map (fun j => count j l) vs) (out_neighbours g i))) vs;
    map (fun e => zout zid (um_get_multiplicity m (fst e) (snd e))) (pairs n);
    map (fun i => zout zid (um_degree m i true)) vs ++ map (fun i => zout zid (um_degree m i false)) vs ++ zvec zid n (um_degrees m true) ++ zvec zid n (um_degrees m false);
    zmat n (um_adjacency_matrix m true) ++ zmat n (um_adjacency_matrix m false);
    edge_counts n (u_iterate V g);
    iter_segment V g ].
Definition um_step (m : mgraph) (o : mop) : mgraph * res :=
  match o with
  | MAdd a b f | MAddRecip a b f => um_add_multiedge m a b 1 f
  | MAddMulti a b k f | MAddRecipMulti a b k f => um_add_multiedge m a b k f
  | MRemove a b => um_remove_multiedge m a b 1 | MRemoveMulti a b k => um_remove_multiedge m a b k | MSet a b k => um_set_multiplicity m a b k
  | MSelfLoops => um_remove_self_loops m | MRemoveVertex v => um_remove_vertex m v | MClear => dm_clear m | MResize n => dm_resize m n
  | MRemoveDuplicates => um_remove_duplicates m end.

Fixpoint m_trace (step : mgraph -> mop -> mgraph * res) (obs : mgraph -> list (list Z)) (m : mgraph) (ops : list mop) : list (list (list Z)) :=
  match ops with [] => [] | o :: ops' =>
    let '(m1, r) := step m o in ([zres r] :: obs m1) :: match r with UBk _ => [] | _ => m_trace step obs m1 ops' end end.
End Multi.
