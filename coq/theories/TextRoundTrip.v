(* C13, file level (directed): writeTextEdgeList followed by loadTextEdgeList gives the graph back.  The header line is skipped by the
   comment rule, getline cuts the file back into the written lines, the tokeniser returns the two printed indices and the printed label,
   std::stoi undoes std::to_string, and the loader rebuilds the adjacency lists in file order (RoundTrip.v). *)
From Coq Require Import List Arith NArith ZArith Lia Bool.
From BG Require Import Base DirectedModel DirectedProofs DirectedIter DirectedUsers DirectedObs Equality UndirectedModel UndirectedProofs UndirectedIter UndirectedObs IOModel IOProofs TextProofs RoundTrip URoundTrip.
Import ListNotations.
Local Open Scope nat_scope.
Local Arguments Z.of_nat : simpl never.

(* ---------- characters ---------- *)
Definition no_nl (l : bytes) : Prop := Forall (fun c => (c =? 10)%N = false) l.
Lemma digit_props c : is_digit c = true -> is_ws c = false /\ (c =? 10)%N = false /\ (c =? 35)%N = false.
Proof. unfold is_digit. intros H. apply andb_prop in H as [L1 L2]. apply N.leb_le in L1, L2. unfold is_ws.
  repeat split; repeat apply orb_false_intro; apply N.eqb_neq; lia. Qed.
Lemma all_dig_no_ws l : all_dig l -> no_ws l.
Proof. induction 1; constructor; auto. apply digit_props; auto. Qed.
Lemma all_dig_no_nl l : all_dig l -> no_nl l.
Proof. induction 1; constructor; auto. apply digit_props; auto. Qed.
Lemma to_string_digits n : (n < 2 ^ 31)%N -> exists c r, to_string n = c :: r /\ all_dig (c :: r).
Proof. intros H. unfold to_string. destruct (to_string_fuel_spec 40 n []) as [ds [E [A [NE _]]]]; [|lia|].
  { eapply N.lt_trans; [exact H|]. vm_compute. reflexivity. }
  rewrite E, app_nil_r. destruct ds as [|c r]; [congruence|]. eauto. Qed.
Lemma small_index i : i <= 3000 -> (N.of_nat i < 2 ^ 31)%N.
Proof. intros H. change (2 ^ 31)%N with 2147483648%N. lia. Qed.

(* ---------- getline ---------- *)
Lemma lines_of_line l rest : no_nl l -> forall cur, lines_of (l ++ 10%N :: rest) cur = (rev cur ++ l) :: lines_of rest [].
Proof. induction 1 as [|c t Hc Ht IH]; intros cur; cbn [app lines_of].
  - rewrite N.eqb_refl, app_nil_r. reflexivity.
  - rewrite Hc, IH. cbn [rev]. rewrite <- app_assoc. reflexivity. Qed.
Lemma lines_of_concat (ls : list bytes) : Forall no_nl ls -> lines_of (concat (map (fun l => l ++ [10%N]) ls)) [] = ls.
Proof. induction 1 as [|l t Hl Ht IH]; cbn [map concat]; [reflexivity|]. rewrite <- app_assoc. cbn [app]. rewrite lines_of_line by auto.
  cbn [rev app]. rewrite IH. reflexivity. Qed.

(* ---------- one vertex token ---------- *)
Lemma vertex_token i : i <= 3000 -> vertex_of_text true (to_string (N.of_nat i)) = Val i.
Proof. intros H. unfold vertex_of_text. rewrite stoi_to_string by (apply small_index; auto). cbn [obind].
  destruct (Z.ltb_spec (Z.of_N (N.of_nat i)) 0) as [X|X]; [lia|]. f_equal. lia. Qed.

Section TextRT.
Context {L : Type}.
Variable ldef : L.
Variable hs : bool.
Variable label_of_text : bytes -> outcome L.
Variable text_of_label : L -> bytes.
Variable okl : L -> Prop.         (* the labels that print to something the label parser reads back *)
Hypothesis text_ok : hs = true -> forall l, okl l ->
  exists c r, text_of_label l = c :: r /\ is_ws c = false /\ no_nl (c :: r) /\ label_of_text (c :: r) = Val l.
Hypothesis nil_ok : hs = false -> exists l0, label_of_text [] = Val l0.
Notation dgraph := (@dgraph L).
Implicit Types g h : dgraph.

Definition ts (i : nat) : bytes := to_string (N.of_nat i).
(* a written line, without its '\n' *)
Definition body (e : edge) (l : L) : bytes := ts (fst e) ++ [32%N] ++ ts (snd e) ++ (if hs then [32%N] ++ text_of_label l else []).
Definition tlab g (e : edge) : L := if hs then match lfind e (labels g) with Some l => l | None => ldef end else ldef.
Definition header : bytes := [35; 32; 86; 101; 114; 116; 101; 120; 49; 32; 86; 101; 114; 116; 101; 120; 50; 32; 76; 97; 98; 101; 108]%N.

Lemma body_no_nl i j l : i <= 3000 -> j <= 3000 -> (hs = true -> okl l) -> no_nl (body (i, j) l).
Proof. intros Hi Hj Hl. unfold body, ts. cbn [fst snd].
  destruct (to_string_digits _ (small_index i Hi)) as [c1 [r1 [E1 D1]]]. destruct (to_string_digits _ (small_index j Hj)) as [c2 [r2 [E2 D2]]].
  rewrite E1, E2. apply Forall_app; split; [apply all_dig_no_nl; auto|]. apply Forall_app; split; [repeat constructor|].
  apply Forall_app; split; [apply all_dig_no_nl; auto|]. destruct hs eqn:HS; [|constructor].
  destruct (text_ok eq_refl l (Hl eq_refl)) as [c [r [E [_ [NN _]]]]]. rewrite E. apply Forall_app; split; [repeat constructor|auto]. Qed.

(* ---------- the loader on one written line; [BuiltP] is what the loader has built so far (directed: Built, undirected: UBuilt) ---------- *)
Variable f : edge -> L.
Variable und : bool.
Variable BuiltP : list edge -> dgraph -> Prop.
Variable okE : edge -> Prop.
Hypothesis BuiltP_len : forall es h, BuiltP es h -> length (adj h) = size h.
Hypothesis BuiltP_step : forall es h i j h2 l, BuiltP es h -> Grown h i j h2 -> okE (i, j) -> (hs = true -> l = f (i, j)) ->
  exists h3, (if und then u_add_edge hs repaired h2 i j l true else add_edge hs repaired h2 i j l true) = (h3, Done) /\ BuiltP (es ++ [(i, j)]) h3.
Lemma text_step_line es h names i j : BuiltP es h -> i <= 3000 -> j <= 3000 -> (hs = true -> okl (f (i, j))) -> okE (i, j) ->
  exists h3 names3, text_step repaired und hs label_of_text (stoi_map true) (tt, h, names) (body (i, j) (f (i, j))) = Val (tt, h3, names3) /\
    BuiltP (es ++ [(i, j)]) h3.
Proof.
  intros B Hi Hj Hl HE. unfold text_step.
  destruct (to_string_digits _ (small_index i Hi)) as [c1 [r1 [E1 D1]]]. destruct (to_string_digits _ (small_index j Hj)) as [c2 [r2 [E2 D2]]].
  assert (HD : (match body (i, j) (f (i, j)) with c :: _ => (c =? 35)%N | [] => false end) = false).
  { unfold body, ts. cbn [fst snd]. rewrite E1. cbn [app]. inversion D1; subst. apply digit_props; auto. }
  rewrite HD.
  assert (W32 : all_ws [32%N]) by (repeat constructor).
  assert (TK : exists t3 l, find_edge_from_string (body (i, j) (f (i, j))) = Val (ts i, ts j, t3) /\ label_of_text t3 = Val l /\ (hs = true -> l = f (i, j))).
  { unfold body. cbn [fst snd]. destruct hs eqn:HS.
    - destruct (text_ok eq_refl _ (Hl eq_refl)) as [c [r [E [CW [_ LT]]]]]. rewrite E. exists (c :: r), (f (i, j)). split; [|split; auto].
      apply (tokeniser_three_tokens [] (ts i) [32%N] (ts j) [32%N] r c); auto; try discriminate; try (constructor; fail);
        unfold ts; [rewrite E1|rewrite E1|rewrite E2|rewrite E2]; try discriminate; apply all_dig_no_ws; auto.
    - destruct (nil_ok eq_refl) as [l0 LT]. exists [], l0. split; [|split; [auto|discriminate]].
      apply (tokeniser_two_tokens [] (ts i) [32%N] (ts j) []); auto; try discriminate; try (constructor; fail);
        unfold ts; [rewrite E1|rewrite E1|rewrite E2|rewrite E2]; try discriminate; apply all_dig_no_ws; auto. }
  destruct TK as [t3 [l [TK [LT LF]]]]. rewrite TK. cbn [obind].
  unfold stoi_map at 1. unfold ts at 1. rewrite (vertex_token i Hi). cbn [omap obind fst snd].
  unfold stoi_map at 1. unfold ts at 1. rewrite (vertex_token j Hj). cbn [omap obind fst snd].
  assert (G : exists h2 names2, (if Nat.leb (size h) (Nat.max i j) then
             (if Nat.ltb 3000 (Nat.max i j) then Raise RuntimeError
              else omap (fun h1 => (h1, names ++ repeat [] (S (Nat.max i j) - length names))) (DirectedModel.lift (resize h (S (Nat.max i j)))))
           else Val (h, names)) = Val (h2, names2) /\ Grown h i j h2).
  { destruct (Nat.leb_spec (size h) (Nat.max i j)) as [Le|Gt].
    - destruct (Nat.ltb_spec 3000 (Nat.max i j)) as [X|_]; [lia|].
      destruct (resize_grow h (S (Nat.max i j)) (BuiltP_len _ _ B)) as [h2 [R [A1 [A2 [A3 [A4 A5]]]]]]; [lia|].
      rewrite R. cbn [DirectedModel.lift omap obind]. eexists; eexists; split; [reflexivity|]. split; [lia|]. split; [lia|]. auto.
    - exists h, names. split; auto. apply grown_refl; [apply (BuiltP_len _ _ B)|lia|lia]. }
  destruct G as [h2 [names2 [G GR]]]. rewrite G. cbn [obind fst snd]. rewrite LT. cbn [obind].
  destruct (BuiltP_step es h i j h2 l B GR HE LF) as [h3 [A B3]].
  unfold t_add. rewrite A. cbn [DirectedModel.lift omap obind]. eexists; eexists; split; [reflexivity|exact B3].
Qed.

Definition tstep := fun (acc : outcome (unit * dgraph * list bytes)) (line : bytes) =>
  obind acc (fun st => text_step repaired und hs label_of_text (stoi_map true) st line).
Lemma text_lines : forall es es0 h names, BuiltP es0 h ->
  (forall e, In e es -> fst e <= 3000 /\ snd e <= 3000 /\ (hs = true -> okl (f e)) /\ okE e) ->
  exists h' names', fold_left tstep (map (fun e => body e (f e)) es) (Val (tt, h, names)) = Val (tt, h', names') /\ BuiltP (es0 ++ es) h'.
Proof.
  induction es as [|[i j] es IH]; intros es0 h names B OK; cbn [map fold_left].
  - exists h, names. rewrite app_nil_r. auto.
  - destruct (OK (i, j) (or_introl eq_refl)) as [Hi [Hj [Hl HE]]]. cbn [fst snd] in Hi, Hj.
    destruct (text_step_line es0 h names i j B Hi Hj Hl HE) as [h3 [names3 [E B3]]].
    unfold tstep at 2. cbn [obind]. rewrite E.
    destruct (IH (es0 ++ [(i, j)]) h3 names3 B3) as [h' [names' [F B']]]; [intros e He; apply OK; right; auto|].
    exists h', names'. split; auto. rewrite <- app_assoc in B'. exact B'.
Qed.
End TextRT.

Section TextRT2.
Context {L : Type}.
Variable leqb : L -> L -> bool.
Hypothesis leqb_refl : forall x, leqb x x = true.
Variable ldef : L.
Variable hs : bool.
Variable label_of_text : bytes -> outcome L.
Variable text_of_label : L -> bytes.
Variable okl : L -> Prop.
Hypothesis text_ok : hs = true -> forall l, okl l ->
  exists c r, text_of_label l = c :: r /\ is_ws c = false /\ no_nl (c :: r) /\ label_of_text (c :: r) = Val l.
Hypothesis nil_ok : hs = false -> exists l0, label_of_text [] = Val l0.
Notation dgraph := (@dgraph L).
Implicit Types g h : dgraph.
Notation body := (body hs text_of_label).
Notation tlab := (tlab ldef hs).

(* the writer: the header, then one line per edge of edges() *)
Lemma write_text_val g : Inv hs g ->
  write_text repaired false ldef hs text_of_label g = Val (header ++ 10%N :: concat (map (fun l => l ++ [10%N]) (map (fun e => body e (tlab g e)) (flatten g)))).
Proof.
  intros I. unfold write_text. rewrite (iterate_flatten g (i_len _ _ I)). cbn [obind].
  rewrite (omapM_val _ (fun e => body e (tlab g e) ++ [10%N])).
  - cbn [omap obind]. rewrite map_map. reflexivity.
  - intros [i j] Hin. cbn [fst snd]. apply DirectedUsers.In_flatten in Hin as [_ Hin]. pose proof (i_rng _ _ I _ _ Hin) as [Hi Hj].
    unfold get_label, in_range. rewrite (proj2 (Nat.ltb_lt _ _) Hi), (proj2 (Nat.ltb_lt _ _) Hj). cbn [andb].
    unfold TextRoundTrip.body, TextRoundTrip.tlab, ts. cbn [fst snd]. pose proof (i_lab _ _ I) as IL. destruct hs.
    + destruct (lfind (i, j) (labels g)) as [l|] eqn:F; [|exfalso; apply (proj2 (IL i j)); auto].
      cbn [omap obind]. rewrite <- !app_assoc. reflexivity.
    + cbn [omap obind]. rewrite <- !app_assoc. reflexivity.
Qed.

(* (B), any label type: [okl] holds of every label of g *)
Theorem text_round_trip_directed g : Inv hs g -> KeysOK g -> size g <= S 3000 ->
  (hs = true -> forall e l, lfind e (labels g) = Some l -> okl l) ->
  exists b h names h',
    write_text repaired false ldef hs text_of_label g = Val b /\
    load_text repaired false true hs label_of_text b = Val (h, names) /\
    size h <= size g /\ adj h = firstn (size h) (adj g) /\
    resize h (size g) = (h', Done) /\
    adj h' = adj g /\ size h' = size g /\ enum h' = enum g /\ (forall e, lfind e (labels h') = lfind e (labels g)) /\ KeysOK h' /\ Inv hs h' /\
    graph_eqb leqb h' g = Val true.
Proof.
  intros I K SZ OKL.
  assert (RNG : forall e, In e (flatten g) -> fst e <= 3000 /\ snd e <= 3000 /\ (hs = true -> okl (tlab g e)) /\ True).
  { intros [i j] Hin. apply DirectedUsers.In_flatten in Hin as [_ Hin]. pose proof (i_rng _ _ I _ _ Hin) as [Hi Hj]. cbn [fst snd].
    split; [lia|]. split; [lia|]. split; auto. intros HS. pose proof (i_lab _ _ I) as IL. unfold TextRoundTrip.tlab. rewrite HS in *.
    destruct (lfind (i, j) (labels g)) as [l|] eqn:F; [apply (OKL eq_refl _ _ F)|exfalso; apply (proj2 (IL i j)); auto]. }
  destruct (text_lines hs label_of_text text_of_label okl text_ok nil_ok (tlab g) false (Built hs (tlab g)) (fun _ => True) (b_len hs (tlab g))
              (fun es h i j h2 l B G _ HL => built_step hs (tlab g) es h i j h2 l B G HL) (flatten g) [] (init 0) [] (built_init hs (tlab g)) RNG)
    as [h [names [F B]]]. cbn [app] in B.
  assert (FL : forall e l, lfind e (labels g) = Some l -> tlab g e = l).
  { intros e l Fe. unfold TextRoundTrip.tlab. rewrite Fe. pose proof (i_lab _ _ I) as IL. destruct hs; auto. rewrite IL in Fe. discriminate. }
  destruct (built_final hs (tlab g) leqb g h leqb_refl I K B FL) as [SH [h' [R [A1 [A2 [A3 [A4 [A5 [A6 [A7 A8]]]]]]]]]].
  eexists; exists h, names, h'. split; [apply write_text_val; auto|].
  split.
  - unfold load_text, load_text_with.
    assert (HN : no_nl header) by (repeat constructor).
    rewrite (lines_of_line header _ HN []). cbn [rev app].
    rewrite lines_of_concat.
    + cbn [fold_left]. fold (tstep hs label_of_text false).
      match goal with |- context [obind (Val ?s) ?k] => change (obind (Val s) k) with (Val s) end.
      rewrite F. reflexivity.
    + apply Forall_forall. intros l Hl. apply in_map_iff in Hl as [[i j] [<- Hin]]. destruct (RNG _ Hin) as [Hi [Hj [Ho _]]].
      apply (body_no_nl hs label_of_text text_of_label okl text_ok); auto.
  - split; auto. split; [apply (built_prefix hs (tlab g)); auto; apply (i_len _ _ I)|]. repeat (split; auto).
Qed.
End TextRT2.

(* ---------- (C), text: undirected graphs ---------- *)
Section TextRT3.
Context {L : Type}.
Variable leqb : L -> L -> bool.
Hypothesis leqb_refl : forall x, leqb x x = true.
Variable ldef : L.
Variable hs : bool.
Variable label_of_text : bytes -> outcome L.
Variable text_of_label : L -> bytes.
Variable okl : L -> Prop.
Hypothesis text_ok : hs = true -> forall l, okl l ->
  exists c r, text_of_label l = c :: r /\ is_ws c = false /\ no_nl (c :: r) /\ label_of_text (c :: r) = Val l.
Hypothesis nil_ok : hs = false -> exists l0, label_of_text [] = Val l0.
Notation dgraph := (@dgraph L).
Implicit Types g h : dgraph.
Notation body := (body hs text_of_label).
Notation tlab := (tlab ldef hs).

Lemma u_write_text_val g : InvU hs g ->
  write_text repaired true ldef hs text_of_label g = Val (header ++ 10%N :: concat (map (fun l => l ++ [10%N]) (map (fun e => body e (tlab g e)) (filter up (flatten g))))).
Proof.
  intros I. unfold write_text. rewrite (u_iterate_flatten hs g I). cbn [obind].
  rewrite (omapM_val _ (fun e => body e (tlab g e) ++ [10%N])).
  - cbn [omap obind]. rewrite map_map. reflexivity.
  - intros [i j] Hin. cbn [fst snd]. apply filter_In in Hin as [Hin UP]. unfold up in UP; cbn [fst snd] in UP. apply Nat.leb_le in UP.
    apply DirectedUsers.In_flatten in Hin as [_ Hin]. pose proof (u_rng _ _ I _ _ Hin) as [Hi Hj].
    unfold u_get_label. rewrite (ordered_up i j UP). cbn [fst snd].
    unfold get_label, in_range. rewrite (proj2 (Nat.ltb_lt _ _) Hi), (proj2 (Nat.ltb_lt _ _) Hj). cbn [andb].
    unfold TextRoundTrip.body, TextRoundTrip.tlab, ts. cbn [fst snd]. pose proof (u_lab _ _ I) as IL. destruct hs.
    + destruct (lfind (i, j) (labels g)) as [l|] eqn:F; [|exfalso; apply (proj2 (IL i j)); auto].
      cbn [omap obind]. rewrite <- !app_assoc. reflexivity.
    + cbn [omap obind]. rewrite <- !app_assoc. reflexivity.
Qed.

Theorem text_round_trip_undirected g : InvU hs g -> KeysOK g -> size g <= S 3000 ->
  (hs = true -> forall e l, lfind e (labels g) = Some l -> okl l) ->
  exists b h names h',
    write_text repaired true ldef hs text_of_label g = Val b /\
    load_text repaired true true hs label_of_text b = Val (h, names) /\
    size h <= size g /\
    resize h (size g) = (h', Done) /\
    size h' = size g /\ enum h' = enum g /\
    (forall k, k < size g -> nb h' k = reloaded g k) /\ (forall i j, In j (nb h' i) <-> In j (nb g i)) /\
    (forall e, lfind e (labels h') = lfind e (labels g)) /\ KeysOK h' /\ InvU hs h' /\
    graph_eqb leqb h' g = Val true.
Proof.
  intros I K SZ OKL.
  assert (RNG : forall e, In e (filter up (flatten g)) -> fst e <= 3000 /\ snd e <= 3000 /\ (hs = true -> okl (tlab g e)) /\ fst e <= snd e).
  { intros [i j] Hin. apply filter_In in Hin as [Hin UP]. unfold up in UP; cbn [fst snd] in UP. apply Nat.leb_le in UP.
    apply DirectedUsers.In_flatten in Hin as [_ Hin]. pose proof (u_rng _ _ I _ _ Hin) as [Hi Hj]. cbn [fst snd].
    split; [lia|]. split; [lia|]. split; auto. intros HS. pose proof (u_lab _ _ I) as IL. unfold TextRoundTrip.tlab. rewrite HS in *.
    destruct (lfind (i, j) (labels g)) as [l|] eqn:F; [apply (OKL eq_refl _ _ F)|exfalso; apply (proj2 (IL i j)); auto]. }
  destruct (text_lines hs label_of_text text_of_label okl text_ok nil_ok (tlab g) true (UBuilt hs (tlab g)) (fun e => fst e <= snd e) (ub_len hs (tlab g))
              (fun es h i j h2 l B G HE HL => ubuilt_step hs (tlab g) es h i j h2 l B G HE HL) (filter up (flatten g)) [] (init 0) [] (ubuilt_init hs (tlab g)) RNG)
    as [h [names [F B]]]. cbn [app] in B.
  assert (FL : forall e l, lfind e (labels g) = Some l -> tlab g e = l).
  { intros e l Fe. unfold TextRoundTrip.tlab. rewrite Fe. pose proof (u_lab _ _ I) as IL. destruct hs; auto. rewrite IL in Fe. discriminate. }
  destruct (ubuilt_final hs (tlab g) leqb g h leqb_refl I K B FL) as [SH [h' [R [A1 [A2 [A3 [A4 [A5 [A6 [A7 A8]]]]]]]]]].
  eexists; exists h, names, h'. split; [apply u_write_text_val; auto|].
  split.
  - unfold load_text, load_text_with.
    assert (HN : no_nl header) by (repeat constructor).
    rewrite (lines_of_line header _ HN []). cbn [rev app].
    rewrite lines_of_concat.
    + cbn [fold_left]. fold (tstep hs label_of_text true).
      match goal with |- context [obind (Val ?s) ?k] => change (obind (Val s) k) with (Val s) end.
      rewrite F. reflexivity.
    + apply Forall_forall. intros l Hl. apply in_map_iff in Hl as [[i j] [<- Hin]]. destruct (RNG _ Hin) as [Hi [Hj [Ho _]]].
      apply (body_no_nl hs label_of_text text_of_label okl text_ok); auto.
  - repeat (split; auto).
Qed.
End TextRT3.

(* ---------- (B) for the instance of the property: int labels printed with std::to_string, parsed with std::stoi ---------- *)
Local Open Scope Z_scope.
Lemma int_label_text : forall l : Z, 0 <= l < 2 ^ 31 ->
  exists c r, to_string (Z.to_N l) = c :: r /\ is_ws c = false /\ no_nl (c :: r) /\ stoi (c :: r) = Val l.
Proof.
  intros l H. assert (HN : (Z.to_N l < 2 ^ 31)%N). { change (2 ^ 31)%N with 2147483648%N. change (2 ^ 31) with 2147483648 in H. lia. }
  destruct (to_string_digits _ HN) as [c [r [E D]]]. exists c, r. split; auto. split; [inversion D; subst; apply digit_props; auto|].
  split; [apply all_dig_no_nl; auto|]. rewrite <- E, stoi_to_string by auto. f_equal. lia. Qed.

Theorem C13_file_round_trip_partial : forall (g : @DirectedModel.dgraph Z), DirectedProofs.Inv true g -> KeysOK g -> (size g <= S 3000)%nat ->
  (forall e l, lfind e (DirectedModel.labels g) = Some l -> (0 <= l < 2 ^ 31)%Z) ->
  exists b h names, write_text DirectedModel.repaired false 0%Z true (fun z => to_string (Z.to_N z)) g = Val b /\
    load_text DirectedModel.repaired false true true stoi b = Val (h, names) /\
    exists h', DirectedModel.lift (DirectedModel.resize h (Nat.max (DirectedModel.size h) (DirectedModel.size g))) = Val h' /\
      DirectedModel.graph_eqb Z.eqb h' g = Val true /\
      adj h' = adj g /\ size h' = size g /\ enum h' = enum g /\ (forall e, lfind e (labels h') = lfind e (labels g)).
Proof.
  intros g I K SZ LB.
  destruct (text_round_trip_directed Z.eqb Z.eqb_refl 0 true stoi (fun z => to_string (Z.to_N z)) (fun l => 0 <= l < 2 ^ 31)
              (fun _ => int_label_text) (fun H => False_ind _ (diff_true_false H)) g I K SZ (fun _ => LB))
    as [b [h [names [h' [W [Ld [SH [_ [R [A1 [A2 [A3 [A4 [_ [_ A7]]]]]]]]]]]]]]].
  exists b, h, names. split; auto. split; auto. exists h'. rewrite Nat.max_r by auto. rewrite R. cbn [lift]. auto 10.
Qed.

Theorem C13_file_round_trip_undirected : forall (g : @DirectedModel.dgraph Z), InvU true g -> KeysOK g -> (size g <= S 3000)%nat ->
  (forall e l, lfind e (DirectedModel.labels g) = Some l -> (0 <= l < 2 ^ 31)%Z) ->
  exists b h names, write_text DirectedModel.repaired true 0%Z true (fun z => to_string (Z.to_N z)) g = Val b /\
    load_text DirectedModel.repaired true true true stoi b = Val (h, names) /\
    exists h', DirectedModel.lift (DirectedModel.resize h (Nat.max (DirectedModel.size h) (DirectedModel.size g))) = Val h' /\
      DirectedModel.graph_eqb Z.eqb h' g = Val true /\
      size h' = size g /\ enum h' = enum g /\ (forall k, (k < size g)%nat -> nb h' k = reloaded g k) /\ (forall i j, In j (nb h' i) <-> In j (nb g i)) /\
      (forall e, lfind e (labels h') = lfind e (labels g)).
Proof.
  intros g I K SZ LB.
  destruct (text_round_trip_undirected Z.eqb Z.eqb_refl 0 true stoi (fun z => to_string (Z.to_N z)) (fun l => 0 <= l < 2 ^ 31)
              (fun _ => int_label_text) (fun H => False_ind _ (diff_true_false H)) g I K SZ (fun _ => LB))
    as [b [h [names [h' [W [Ld [SH [R [A1 [A2 [A3 [A4 [A5 [_ [_ A8]]]]]]]]]]]]]]].
  exists b, h, names. split; auto. split; auto. exists h'. rewrite Nat.max_r by auto. rewrite R. cbn [DirectedModel.lift]. auto 10.
Qed.

(* ---------- why the two side conditions (KeysOK, size <= 3001) are there: the statement without them is false ---------- *)
(* (1) [Inv] alone lets the label store hold a key twice (the C++ store is a map: it never does); operator== compares store SIZES, so
       the reloaded graph (one binding per edge) is "different".  (2) the model of the loader refuses indices above 3000 (the harness
       limit "small enough to allocate"). *)
Definition dupkeys : @DirectedModel.dgraph Z := {| adj := [[0%nat]]; size := 1; enum := 1; labels := [((0%nat, 0%nat), 1); ((0%nat, 0%nat), 2)] |}.
Lemma dupkeys_inv : DirectedProofs.Inv true dupkeys.
Proof.
  assert (NB : forall i, nb dupkeys i = match i with O => [0%nat] | S _ => [] end) by (intros [|[|i]]; reflexivity).
  constructor.
  - reflexivity.
  - intros i. rewrite NB. destruct i; repeat constructor. intros [].
  - intros i j. rewrite NB. destruct i; [|intros []]. intros [<-|[]]. cbn. lia.
  - reflexivity.
  - intros i j. rewrite NB. destruct i as [|i]; [destruct j as [|j]|]; cbn; split; try congruence; try tauto; try discriminate.
    intros [X|[]]. discriminate.
Qed.
Example dupkeys_round_trip :
  exists b h names h', write_text DirectedModel.repaired false 0%Z true (fun z => to_string (Z.to_N z)) dupkeys = Val b /\
    load_text DirectedModel.repaired false true true stoi b = Val (h, names) /\
    DirectedModel.lift (DirectedModel.resize h (Nat.max (DirectedModel.size h) (DirectedModel.size dupkeys))) = Val h' /\
    DirectedModel.graph_eqb Z.eqb h' dupkeys = Val false.
Proof. eexists; eexists; eexists; eexists. split; [vm_compute; reflexivity|]. split; [vm_compute; reflexivity|]. split; vm_compute; reflexivity. Qed.
(* (2): an edge at vertex 3001 *)
Example big_index_not_loaded :
  load_text DirectedModel.repaired false true true stoi [51; 48; 48; 49; 32; 48; 32; 55; 10]%N = Raise RuntimeError.     (* "3001 0 7\n" *)
Proof. vm_compute. reflexivity. Qed.
