(* C18: in the interleaving semantics of ConcModel - generic in the graph type, the const entry points and their results - the shared
   graph never changes and a thread that has finished holds exactly its single-threaded results, under ANY schedule. *)
From Coq Require Import List Arith ZArith Lia Bool.
From BG Require Import Base ConcModel.
Import ListNotations.

Section ConcP.
Context {G R Q : Type}.
Variable evalf : G -> Q -> R.
Notation thread := (thread R Q). Notation config := (config G R Q).
Notation cstep := (cstep evalf). Notation crun := (crun evalf). Notation solo := (solo evalf).
Definition idle : thread := {| script := []; results := [] |}.

Lemma crun_shared sched : forall c : config, shared (crun c sched) = shared c.
Proof. induction sched as [|t s IH]; intros c; cbn [ConcModel.crun fold_left]; auto. fold (crun (cstep c t) s). rewrite IH. reflexivity. Qed.
Lemma nth_upd_thread i k f (l : list thread) d : nth k (upd_thread i f l) d = if Nat.eqb k i then (if Nat.ltb i (length l) then f (nth i l d) else nth k l d) else nth k l d.
Proof. revert i k. induction l as [|t r IH]; intros [|i] [|k]; cbn; auto.
  - destruct (Nat.eqb k i); auto.
  - rewrite IH. destruct (Nat.eqb k i); auto. Qed.
Lemma upd_thread_length i f (l : list thread) : length (upd_thread i f l) = length l.
Proof. revert i. induction l as [|t r IH]; intros [|i]; cbn; auto. Qed.

(* what thread k has done after any schedule: some prefix of its script, evaluated on the (unchanged) shared graph *)
Definition progress (g : G) (t0 t : thread) : Prop :=
  exists done, script t0 = done ++ script t /\ results t = results t0 ++ map (evalf g) done.
Theorem crun_progress sched : forall (c0 c : config), (forall k, k < length (threads c0) -> progress (shared c0) (nth k (threads c0) idle) (nth k (threads c) idle)) ->
  shared c = shared c0 -> length (threads c) = length (threads c0) ->
  forall k, k < length (threads c0) -> progress (shared c0) (nth k (threads c0) idle) (nth k (threads (crun c sched)) idle).
Proof.
  induction sched as [|t s IH]; intros c0 c P S Ln k Hk; cbn [ConcModel.crun fold_left]; [apply P; auto|].
  fold (crun (cstep c t) s). apply (IH c0 (cstep c t)); auto; [|cbn; rewrite upd_thread_length; auto].
  intros j Hj. cbn [ConcModel.cstep threads]. rewrite nth_upd_thread. destruct (Nat.eqb_spec j t) as [->|]; [|apply P; auto].
  rewrite Ln, (proj2 (Nat.ltb_lt _ _) Hj). destruct (P t Hj) as [dn [E1 E2]].
  destruct (script (nth t (threads c) _)) as [|o rest] eqn:SC; [exists dn; rewrite SC; auto|].
  exists (dn ++ [o]). cbn [script results]. split; [rewrite E1, <- app_assoc; reflexivity|]. rewrite E2, map_app, S, <- app_assoc. reflexivity.
Qed.
(* when a thread has run to completion - under ANY interleaving with the others - its results are exactly its single-threaded results *)
Corollary crun_solo sched (c0 : config) k : k < length (threads c0) ->
  let t0 := nth k (threads c0) idle in
  let t := nth k (threads (crun c0 sched)) idle in
  results t0 = [] -> script t = [] -> results t = solo (shared c0) (script t0) /\ shared (crun c0 sched) = shared c0.
Proof.
  intros Hk t0 t R0 Sc. split; [|apply crun_shared].
  destruct (crun_progress sched c0 c0 (fun j _ => ex_intro _ [] (conj eq_refl (eq_sym (app_nil_r _)))) eq_refl eq_refl k Hk) as [dn [E1 E2]].
  fold t0 t in E1, E2. rewrite Sc, app_nil_r in E1. rewrite E2, R0, E1. reflexivity.
Qed.
End ConcP.
