(* Spec oracles for histories with forced insertions (C16).  Simple/labelled classes: a multiset of pairs - every pair has a number of
   copies and the label of its last insertion.  Multigraph/weighted classes: the property only speaks about forced insertions (all copies
   of a pair carrying the same value) followed by removeDuplicateEdges, so the oracle tracks which pairs are duplicated and has an
   opinion only when none is.  Definitions only. *)
From BG Require Import Base DirectedModel DirectedSpec UndirectedModel UndirectedSpec MultiModel WeightedModel MultiSpec.
Local Open Scope Z_scope.

Section FSpec.
Context {L : Type}.
Variable leqb : L -> L -> bool.
Variable ldef : L.
Variable has_store : bool.
Variable lcode : L -> Z.
Variable lalpha : list L.
Variable und : bool.
Record fentry := { fcount : nat; flab : L }.
Notation fgraph := (@sgraph fentry).
Definition fkey (i j : nat) : edge := if und then ordered i j else (i, j).
Definition fcnt (a : fgraph) (i j : nat) : nat := match lfind (fkey i j) (se a) with Some e => fcount e | None => 0%nat end.
Definition fwith (a : fgraph) (m : @lmap fentry) : fgraph := {| sn := sn a; se := m |}.
Definition f_add (a : fgraph) (i j : nat) (l : L) (force : bool) : fgraph :=
  match lfind (fkey i j) (se a) with
  | None => fwith a ((fkey i j, {| fcount := 1; flab := l |}) :: se a)
  | Some e => if force then fwith a (lset (fkey i j) {| fcount := S (fcount e); flab := l |} (se a)) else a end.
Definition f_setlabel (a : fgraph) (i j : nat) (l : L) : fgraph :=
  match lfind (fkey i j) (se a) with Some e => fwith a (lset (fkey i j) {| fcount := fcount e; flab := l |} (se a)) | None => a end.
Definition f_dedup (a : fgraph) : fgraph := fwith a (map (fun kv => (fst kv, {| fcount := 1; flab := flab (snd kv) |})) (se a)).
Definition fstep_d (a : fgraph) (o : @dop L) : fgraph :=
  match o with
  | AddEdge s d l f => f_add a s d l f | AddReciprocal x y l f => f_add (f_add a x y l f) y x l f
  | RemoveEdge s d => s_remove a (fst (fkey s d)) (snd (fkey s d)) | RemoveSelfLoops => s_loops a | RemoveVertex v => s_rmv a v
  | ClearEdges => s_clear a | Resize n => s_resize a n | SetLabel s d l _ => f_setlabel a s d l | RemoveDuplicates => f_dedup a end.
Definition fstep_u (a : fgraph) (o : @uop L) : fgraph :=
  match o with
  | UAdd x y l f => f_add a x y l f | URemove x y => s_remove a (fst (fkey x y)) (snd (fkey x y)) | USelfLoops => s_loops a
  | URemoveVertex v => s_rmv a v | UClear => s_clear a | UResize n => s_resize a n | USetLabel x y l _ => f_setlabel a x y l
  | URemoveDuplicates => f_dedup a end.
Definition fbad (a : fgraph) (v : nat) := negb (Nat.ltb v (sn a)).
Definition frej_d (a : fgraph) (o : @dop L) : option Z :=
  match o with
  | AddEdge s d _ _ | AddReciprocal s d _ _ | RemoveEdge s d => if fbad a s || fbad a d then Some (zexn OutOfRange) else Some 0
  | RemoveVertex v => if fbad a v then Some (zexn OutOfRange) else Some 0
  | Resize n => if Nat.ltb n (sn a) then Some (zexn InvalidArgument) else Some 0
  | SetLabel s d _ f => if fbad a s || fbad a d then Some (zexn OutOfRange) else if f then None else if Nat.ltb 0 (fcnt a s d) then Some 0 else Some (zexn InvalidArgument)
  | _ => Some 0 end.
Definition frej_u (a : fgraph) (o : @uop L) : option Z :=
  match o with
  | UAdd s d _ _ | URemove s d => if fbad a s || fbad a d then Some (zexn OutOfRange) else Some 0
  | URemoveVertex v => if fbad a v then Some (zexn OutOfRange) else Some 0
  | UResize n => if Nat.ltb n (sn a) then Some (zexn InvalidArgument) else Some 0
  | USetLabel s d _ f => if fbad a s || fbad a d then Some (zexn OutOfRange) else if f then None else if Nat.ltb 0 (fcnt a s d) then Some 0 else Some (zexn InvalidArgument)
  | _ => Some 0 end.
Definition ftotal (a : fgraph) : nat := fold_right (fun kv acc => (fcount (snd kv) + acc)%nat) 0%nat (se a).
Definition nsum (n : nat) (f : nat -> nat) : nat := fold_right (fun j acc => (f j + acc)%nat) 0%nat (seq 0 n).
Definition flabel_obs (a : fgraph) (e : edge) : list Z :=
  if has_store then match lfind (fkey (fst e) (snd e)) (se a) with Some x => [lcode (flab x); 1] | None => [lcode ldef; zexn InvalidArgument] end else [lcode ldef; 1].
Definition fhasl_obs (a : fgraph) (e : edge) : list Z :=
  map (fun l => zbool (match lfind (fkey (fst e) (snd e)) (se a) with Some x => leqb (if has_store then flab x else ldef) l | None => false end)) lalpha.
Definition iter_obs (n total : nat) : list Z := map Z.of_nat (seq 0 n) ++ [1; 1; zbool (Nat.eqb total 0)].
(* layout of DirectedModel.observe *)
Definition fobserve_d (a : fgraph) : list (list Z) :=
  let n := sn a in let vs := seq 0 n in
  [ [zn n; zn (ftotal a)];
    map (fun e => zbool (Nat.ltb 0 (fcnt a (fst e) (snd e)))) (pairs n);
    flat_map (fun i => zn (nsum n (fcnt a i)) :: map (fun j => zn (fcnt a i j)) vs) vs;
    flat_map (flabel_obs a) (pairs n);
    flat_map (fhasl_obs a) (pairs n);
    map (fun j => zn (nsum n (fun i => fcnt a i j))) vs ++ map (fun j => zn (nsum n (fun i => fcnt a i j))) vs ++ map (fun i => zn (nsum n (fcnt a i))) vs;
    map (fun e => zn (fcnt a (fst e) (snd e))) (pairs n);
    zn (ftotal a) :: map (fun e => zn (fcnt a (fst e) (snd e))) (pairs n);
    iter_obs n (ftotal a) ].
(* layout of UndirectedModel.u_observe *)
Definition fobserve_u (a : fgraph) : list (list Z) :=
  let n := sn a in let vs := seq 0 n in
  let cell (tw : bool) (i j : nat) := (fcnt a i j * (if Nat.eqb i j && tw then 2 else 1))%nat in
  [ [zn n; zn (ftotal a)];
    map (fun e => zbool (Nat.ltb 0 (fcnt a (fst e) (snd e)))) (pairs n);
    flat_map (fun i => map (fun j => zn (fcnt a i j)) vs) vs;
    flat_map (flabel_obs a) (pairs n);
    flat_map (fhasl_obs a) (pairs n);
    map (fun i => zn (nsum n (cell true i))) vs ++ map (fun i => zn (nsum n (cell false i))) vs ++ map (fun i => zn (nsum n (cell true i))) vs ++ map (fun i => zn (nsum n (cell false i))) vs;
    flat_map (fun tw : bool => map (fun e => zn (cell tw (fst e) (snd e))) (pairs n)) [true; false];
    zn (ftotal a) :: map (fun e => zn (if Nat.leb (fst e) (snd e) then fcnt a (fst e) (snd e) else 0)) (pairs n);
    iter_obs n (ftotal a) ].
End FSpec.

(* ---- multigraph / weighted: opinion only while no pair is duplicated ---- *)
Section FMulti.
Variable und : bool.
Record fstate := { fa : @sgraph Z; fdup : list edge; ftaint : bool }.
Definition taint (s : fstate) : fstate := {| fa := fa s; fdup := fdup s; ftaint := true |}.
Definition clean (s : fstate) : bool := negb (ftaint s) && match fdup s with [] => true | _ => false end.
Definition is_dup (s : fstate) (e : edge) : bool := existsb (edge_eqb e) (fdup s).
Definition f_forced_add (s : fstate) (i j : nat) (k : Z) (absent_add : @sgraph Z) : fstate :=
  if mhas und (fa s) i j then (if Z.eqb (mval und (fa s) i j) k then {| fa := fa s; fdup := key und i j :: fdup s; ftaint := ftaint s |} else taint s)
  else {| fa := absent_add; fdup := fdup s; ftaint := ftaint s |}.
Definition f_plain (s : fstate) (a' : @sgraph Z) : fstate := match fdup s with [] => {| fa := a'; fdup := []; ftaint := ftaint s |} | _ => taint s end.
Definition fm_step (s : fstate) (o : mop) : fstate :=
  match o with
  | MAdd i j true => f_forced_add s i j 1 (ms_add und (fa s) i j 1)
  | MAddMulti i j k true => if Z.eqb k 0 then s else f_forced_add s i j k (ms_add und (fa s) i j k)
  | MAdd i j false => if is_dup s (key und i j) then taint s else {| fa := ms_add und (fa s) i j 1; fdup := fdup s; ftaint := ftaint s |}
  | MAddMulti i j k false => if is_dup s (key und i j) then taint s else {| fa := ms_add und (fa s) i j k; fdup := fdup s; ftaint := ftaint s |}
  | MAddRecip i j f | MAddRecipMulti i j _ f => if f then taint s else f_plain s (mspec_step und (fa s) o)
  | MRemoveDuplicates => {| fa := fa s; fdup := []; ftaint := ftaint s |}
  | _ => f_plain s (mspec_step und (fa s) o) end.
Definition fw_step (s : fstate) (o : wop) : fstate :=
  match o with
  | WAdd i j w true => f_forced_add s i j w (ws_add und (fa s) i j w)
  | WAdd i j w false => {| fa := ws_add und (fa s) i j w; fdup := fdup s; ftaint := ftaint s |}           (* no-op on a present pair, duplicated or not *)
  | WRemoveDuplicates => {| fa := fa s; fdup := []; ftaint := ftaint s |}
  | _ => f_plain s (wspec_step und (fa s) o) end.
Definition f_rej (bad : @sgraph Z -> option Z) (s : fstate) : option Z := bad (fa s).
End FMulti.
