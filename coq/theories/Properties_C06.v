(* C06 — operator== means same vertices, same edges, same labels - and nothing else.  Statements only; proofs in Equality.v (directed labelled class)
   and EqualityMore.v (undirected labelled class, both multigraphs, both weighted graphs - all eight classes use the same base-class operator==). *)
From BG Require Import Base DirectedModel DirectedProofs DirectedIter DirectedUsers DirectedSpec DirectedRefine DirectedObs Equality
  UndirectedModel UndirectedProofs UndirectedIter UndirectedSpec UndirectedRefine UndirectedObs
  MultiModel WeightedModel MultiSpec Totals MultiRefine WeightedRefine UTotals UMultiRefine UWeightedRefine Instances EqualityMore EqualityTrans.
Local Open Scope Z_scope.

(* On any two graphs satisfying the invariant (with a label store that is a map), the model of operator== - sizes, cached edge numbers,
   label maps, mutual inclusion of adjacency lists - is defined and true exactly when the two graphs have the same number of vertices,
   the same edges and related labels.  Insertion order (the order inside the lists, the order of the store) does not occur in the
   right-hand side, so it cannot influence the verdict. *)
Theorem C06_eq_decides_value_equality : forall (L : Type) (leqb : L -> L -> bool) hs (g h : @dgraph L),
  Inv hs g -> Inv hs h -> KeysOK g -> KeysOK h ->
  exists b, graph_eqb leqb g h = Val b /\ (b = true <-> size g = size h /\ same_edges g h /\ labels_agree leqb g h).
Proof. intros L leqb hs g h Ig Ih Kg Kh; apply (graph_eqb_spec leqb hs g h Ig Ih Kg Kh). Qed.
Print Assumptions C06_eq_decides_value_equality.

(* For ANY two valid histories (any lengths, any interleavings, any initial sizes, any label type) the verdict is "the two histories
   denote the same graph": edges and labels either graph held in the past and has since removed play no role, because the spec of a
   history does not contain them. *)
Theorem C06_histories : forall (L : Type) (leqb : L -> L -> bool) hs (n m : nat) (opsA opsB : list (@dop L)),
  valid_history (s_init n) opsA = true -> valid_history (s_init m) opsB = true ->
  exists g h b, run hs repaired (init n) opsA = (g, Done) /\ run hs repaired (init m) opsB = (h, Done) /\
    graph_eqb leqb g h = Val b /\ (b = true <-> spec_same leqb hs (spec_run (s_init n) opsA) (spec_run (s_init m) opsB)).
Proof. intros L leqb hs n m opsA opsB VA VB; apply (histories_eqb leqb hs n m opsA opsB VA VB). Qed.
Print Assumptions C06_histories.

(* reflexive, and symmetric, whenever the label type's == is *)
Theorem C06_refl_sym : forall (L : Type) (leqb : L -> L -> bool) hs (g h : @dgraph L), Inv hs g -> Inv hs h -> KeysOK g -> KeysOK h ->
  ((forall x, leqb x x = true) -> graph_eqb leqb g g = Val true) /\
  ((forall x y, leqb x y = leqb y x) -> graph_eqb leqb g h = graph_eqb leqb h g).
Proof. intros L leqb hs g h Ig Ih Kg Kh. split; [intros R; apply (graph_eqb_refl leqb hs g R Ig Kg)|intros S; apply (graph_eqb_sym leqb hs g h S Ig Ih Kg Kh)]. Qed.
Print Assumptions C06_refl_sym.

(* ... and transitive whenever the label type's == is: with the two above, operator== is an equivalence relation on the graphs any valid
   history can produce (the middle graph labels every pair the outer two label, because the store's keys are exactly the edges - the very
   clause of the invariant the repaired stale-label defects used to break) *)
Theorem C06_trans : forall (L : Type) (leqb : L -> L -> bool) hs (g h k : @dgraph L),
  (forall x y z, leqb x y = true -> leqb y z = true -> leqb x z = true) ->
  Inv hs g -> Inv hs h -> Inv hs k -> KeysOK g -> KeysOK h -> KeysOK k ->
  graph_eqb leqb g h = Val true -> graph_eqb leqb h k = Val true -> graph_eqb leqb g k = Val true.
Proof. intros L leqb hs g h k T Ig Ih Ik Kg Kh Kk; apply (graph_eqb_trans leqb hs g h k T Ig Ih Ik Kg Kh Kk). Qed.
Print Assumptions C06_trans.

(* ---- the other classes ---- *)
(* undirected labelled class: the verdict on any two states satisfying the symmetric invariant; KeysOK (the label store is a map) is kept by
   every call; for ANY two valid histories the verdict is "same graph", and equals the executable spec-side verdict spec_eqb that the
   differential test computes; multigraphs and weighted graphs (und selects the undirected class): the verdict is equality of the spec maps
   (same size, same support, same multiplicity / weight on every pair) - the running totals are not compared by operator== and are equal anyway *)
Theorem C06_undirected_eq : forall (L : Type) (leqb : L -> L -> bool) hs (g h : @dgraph L),
  InvU hs g -> InvU hs h -> KeysOK g -> KeysOK h ->
  exists b, graph_eqb leqb g h = Val b /\
    (b = true <-> size g = size h /\ (forall i j, In j (nb g i) <-> In j (nb h i)) /\
                  (forall e v v', lfind e (labels g) = Some v -> lfind e (labels h) = Some v' -> leqb v v' = true)).
Proof. exact EqualityMore.C06_undirected_eq. Qed.
Print Assumptions C06_undirected_eq.

(* transitive on the undirected labelled class too *)
Theorem C06_undirected_trans : forall (L : Type) (leqb : L -> L -> bool) hs (g h k : @dgraph L),
  (forall x y z, leqb x y = true -> leqb y z = true -> leqb x z = true) ->
  InvU hs g -> InvU hs h -> InvU hs k -> KeysOK g -> KeysOK h -> KeysOK k ->
  graph_eqb leqb g h = Val true -> graph_eqb leqb h k = Val true -> graph_eqb leqb g k = Val true.
Proof. exact EqualityTrans.u_graph_eqb_trans. Qed.
Print Assumptions C06_undirected_trans.
Theorem C06_undirected_keys : forall (L : Type) hs V (g : @dgraph L) (ops : list (@uop L)), KeysOK g -> KeysOK (fst (urun hs V g ops)).
Proof. exact EqualityMore.C06_undirected_keys. Qed.
Print Assumptions C06_undirected_keys.
Theorem C06_undirected_histories : forall (L : Type) (leqb : L -> L -> bool) hs (n m : nat) (opsA opsB : list (@uop L)),
  uvalid_history (s_init n) opsA = true -> uvalid_history (s_init m) opsB = true ->
  exists g h b, urun hs repaired (init n) opsA = (g, Done) /\ urun hs repaired (init m) opsB = (h, Done) /\
    graph_eqb leqb g h = Val b /\
    (b = true <-> spec_same leqb hs (uspec_run (s_init n) opsA) (uspec_run (s_init m) opsB)) /\
    ((forall x y, leqb x y = leqb y x) -> b = spec_eqb (lveq hs leqb) (uspec_run (s_init n) opsA) (uspec_run (s_init m) opsB)).
Proof. exact EqualityMore.C06_undirected_histories. Qed.
Print Assumptions C06_undirected_histories.
Theorem C06_directed_histories_eqb : forall (L : Type) (leqb : L -> L -> bool) hs (n m : nat) (opsA opsB : list (@dop L)),
  (forall x y, leqb x y = leqb y x) -> valid_history (s_init n) opsA = true -> valid_history (s_init m) opsB = true ->
  exists g h, run hs repaired (init n) opsA = (g, Done) /\ run hs repaired (init m) opsB = (h, Done) /\
    graph_eqb leqb g h = Val (spec_eqb (lveq hs leqb) (spec_run (s_init n) opsA) (spec_run (s_init m) opsB)).
Proof. exact EqualityMore.C06_directed_histories_eqb. Qed.
Print Assumptions C06_directed_histories_eqb.
Theorem C06_multigraph_histories : forall (und : bool) (n m : nat) (opsA opsB : list mop),
  m_valid_of und (s_init n) opsA = true -> m_valid_of und (s_init m) opsB = true ->
  exists m1 m2, m_run_of und (dm_init n) opsA = (m1, Done) /\ m_run_of und (dm_init m) opsB = (m2, Done) /\
    let a1 := m_spec_of und (s_init n) opsA in let a2 := m_spec_of und (s_init m) opsB in
    graph_eqb Z.eqb (mg m1) (mg m2) = Val (spec_eqb Z.eqb a1 a2) /\
    (spec_eqb Z.eqb a1 a2 = true <-> sn a1 = sn a2 /\ forall e, lfind e (se a1) = lfind e (se a2)) /\
    (spec_eqb Z.eqb a1 a2 = true -> mtot m1 = mtot m2).
Proof. exact EqualityMore.C06_multigraph_histories. Qed.
Print Assumptions C06_multigraph_histories.
Theorem C06_weighted_histories : forall (und : bool) (n m : nat) (opsA opsB : list wop),
  w_valid_of und (s_init n) opsA = true -> w_valid_of und (s_init m) opsB = true ->
  exists m1 m2, w_run_of und (dm_init n) opsA = (m1, Done) /\ w_run_of und (dm_init m) opsB = (m2, Done) /\
    let a1 := w_spec_of und (s_init n) opsA in let a2 := w_spec_of und (s_init m) opsB in
    graph_eqb Z.eqb (mg m1) (mg m2) = Val (spec_eqb Z.eqb a1 a2) /\
    (spec_eqb Z.eqb a1 a2 = true <-> sn a1 = sn a2 /\ forall e, lfind e (se a1) = lfind e (se a2)) /\
    (spec_eqb Z.eqb a1 a2 = true -> mtot m1 = mtot m2).
Proof. exact EqualityMore.C06_weighted_histories. Qed.
Print Assumptions C06_weighted_histories.
Theorem C06_multi_weighted_states : forall (m1 m2 : mgraph), (TInv m1 /\ TInv m2) \/ (UTInv m1 /\ UTInv m2) ->
  exists b, graph_eqb Z.eqb (mg m1) (mg m2) = Val b /\
    (b = true <-> size (mg m1) = size (mg m2) /\ (forall i j, In j (nb (mg m1) i) <-> In j (nb (mg m2) i)) /\
                  forall e, lfind e (labels (mg m1)) = lfind e (labels (mg m2))) /\
    (b = true -> mtot m1 = mtot m2).
Proof. exact EqualityMore.C06_multi_weighted_states. Qed.
Print Assumptions C06_multi_weighted_states.

(* transitive on the multigraph and weighted classes, with equal running totals at the two ends *)
Theorem C06_multi_weighted_trans : forall (m1 m2 m3 : mgraph),
  (TInv m1 /\ TInv m2 /\ TInv m3) \/ (UTInv m1 /\ UTInv m2 /\ UTInv m3) ->
  graph_eqb Z.eqb (mg m1) (mg m2) = Val true -> graph_eqb Z.eqb (mg m2) (mg m3) = Val true ->
  graph_eqb Z.eqb (mg m1) (mg m3) = Val true /\ mtot m1 = mtot m3.
Proof. exact EqualityTrans.m_graph_eqb_trans. Qed.
Print Assumptions C06_multi_weighted_trans.

(* the pinned commit: a cleared graph compared unequal to a fresh one because of its stale labels *)
Example C06_refuted_on_pinned :
  graph_eqb Z.eqb (fst (run true pinned (init 3) [AddEdge 0 1 7 false; ClearEdges])) (init 3) = Val false /\
  graph_eqb Z.eqb (fst (run true repaired (init 3) [AddEdge 0 1 7 false; ClearEdges])) (init 3) = Val true.
Proof. vm_compute. auto. Qed.
(* non-vacuity: two different histories of the same graph *)
Example C06_example :
  graph_eqb Z.eqb (fst (run true repaired (init 3) [AddEdge 0 1 7 false; AddEdge 2 2 5 false; AddEdge 1 0 1 false; RemoveEdge 1 0]))
                  (fst (run true repaired (init 2) [AddEdge 1 1 9 false; Resize 3; AddEdge 2 2 5 false; RemoveVertex 1; AddEdge 0 1 3 false; SetLabel 0 1 7 false])) = Val true.
Proof. vm_compute. reflexivity. Qed.

(* non-vacuity of the transitivity theorems: three different histories of one graph, pairwise equal *)
Example C06_trans_example :
  let g1 := fst (run true repaired (init 3) [AddEdge 0 1 7 false; AddEdge 2 2 5 false; AddEdge 1 0 1 false; RemoveEdge 1 0]) in
  let g2 := fst (run true repaired (init 2) [AddEdge 1 1 9 false; Resize 3; AddEdge 2 2 5 false; RemoveVertex 1; AddEdge 0 1 3 false; SetLabel 0 1 7 false]) in
  let g3 := fst (run true repaired (init 3) [AddEdge 2 2 5 false; AddEdge 0 1 7 false; AddEdge 0 1 8 false]) in
  graph_eqb Z.eqb g1 g2 = Val true /\ graph_eqb Z.eqb g2 g3 = Val true /\ graph_eqb Z.eqb g1 g3 = Val true.
Proof. vm_compute. auto. Qed.
