(* C06 — operator== means same vertices, same edges, same labels - and nothing else.  Statements only; proofs in Equality.v. *)
From BG Require Import Base DirectedModel DirectedProofs DirectedSpec DirectedRefine Equality.
Local Open Scope Z_scope.

(* On any two graphs satisfying the invariant (with a label store that is a map), the model of operator== - sizes, cached edge numbers,
   label maps, mutual inclusion of adjacency lists - is defined and true exactly when the two graphs have the same number of vertices,
   the same edges and related labels.  Insertion order (the order inside the lists, the order of the store) does not occur in the
   right-hand side, so it cannot influence the verdict. *)
Theorem C06_eq_decides_value_equality : forall (L : Type) (leqb : L -> L -> bool) hs (g h : @dgraph L),
  Inv hs g -> Inv hs h -> KeysOK g -> KeysOK h ->
  exists b, graph_eqb leqb g h = Val b /\ (b = true <-> size g = size h /\ same_edges g h /\ labels_agree leqb g h).
Proof. intros L leqb hs g h Ig Ih Kg Kh; apply (graph_eqb_spec leqb hs g h Ig Ih Kg Kh). Qed.
Print Assumptions C06_eq_decides_value_equality.

(* For ANY two valid histories (any lengths, any interleavings, any initial sizes, any label type) the verdict is "the two histories
   denote the same graph": edges and labels either graph held in the past and has since removed play no role, because the spec of a
   history does not contain them. *)
Theorem C06_histories : forall (L : Type) (leqb : L -> L -> bool) hs (n m : nat) (opsA opsB : list (@dop L)),
  valid_history (s_init n) opsA = true -> valid_history (s_init m) opsB = true ->
  exists g h b, run hs repaired (init n) opsA = (g, Done) /\ run hs repaired (init m) opsB = (h, Done) /\
    graph_eqb leqb g h = Val b /\ (b = true <-> spec_same leqb hs (spec_run (s_init n) opsA) (spec_run (s_init m) opsB)).
Proof. intros L leqb hs n m opsA opsB VA VB; apply (histories_eqb leqb hs n m opsA opsB VA VB). Qed.
Print Assumptions C06_histories.

(* reflexive, and symmetric, whenever the label type's == is *)
Theorem C06_refl_sym : forall (L : Type) (leqb : L -> L -> bool) hs (g h : @dgraph L), Inv hs g -> Inv hs h -> KeysOK g -> KeysOK h ->
  ((forall x, leqb x x = true) -> graph_eqb leqb g g = Val true) /\
  ((forall x y, leqb x y = leqb y x) -> graph_eqb leqb g h = graph_eqb leqb h g).
Proof. intros L leqb hs g h Ig Ih Kg Kh. split; [intros R; apply (graph_eqb_refl leqb hs g R Ig Kg)|intros S; apply (graph_eqb_sym leqb hs g h S Ig Ih Kg Kh)]. Qed.
Print Assumptions C06_refl_sym.

(* the pinned commit: a cleared graph compared unequal to a fresh one because of its stale labels *)
Example C06_refuted_on_pinned :
  graph_eqb Z.eqb (fst (run true pinned (init 3) [AddEdge 0 1 7 false; ClearEdges])) (init 3) = Val false /\
  graph_eqb Z.eqb (fst (run true repaired (init 3) [AddEdge 0 1 7 false; ClearEdges])) (init 3) = Val true.
Proof. vm_compute. auto. Qed.
(* non-vacuity: two different histories of the same graph *)
Example C06_example :
  graph_eqb Z.eqb (fst (run true repaired (init 3) [AddEdge 0 1 7 false; AddEdge 2 2 5 false; AddEdge 1 0 1 false; RemoveEdge 1 0]))
                  (fst (run true repaired (init 2) [AddEdge 1 1 9 false; Resize 3; AddEdge 2 2 5 false; RemoveVertex 1; AddEdge 0 1 3 false; SetLabel 0 1 7 false])) = Val true.
Proof. vm_compute. reflexivity. Qed.
