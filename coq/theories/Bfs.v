From Coq Require Import List Arith Lia Bool Sorted.
Import ListNotations.

(* ---------- model of findVertexPredecessors ---------- *)
Definition adjl := list (list nat).
Record bst := { dist : list (option nat); pred : list (option nat); disc : list bool; queue : list nat }.
Definition getd (d : list (option nat)) v := nth v d None.
Definition getb (d : list bool) v := nth v d false.
Fixpoint set_nth {A} (i:nat) (x:A) (l:list A) := match l, i with [], _ => [] | _::t, O => x::t | h::t, S i => h :: set_nth i x t end.

Definition visit1 (u du : nat) (st : bst) (v : nat) : bst :=
  if getb (disc st) v then st
  else {| dist := set_nth v (Some (S du)) (dist st); pred := set_nth v (Some u) (pred st);
          disc := set_nth v true (disc st); queue := queue st ++ [v] |}.

Definition step (g : adjl) (u : nat) (q : list nat) (st : bst) : bst :=
  match getd (dist st) u with
  | Some du => fold_left (visit1 u du) (nth u g []) {| dist := dist st; pred := pred st; disc := disc st; queue := q |}
  | None => {| dist := dist st; pred := pred st; disc := disc st; queue := q |}   (* unreachable: queue members are discovered *)
  end.

Fixpoint bfs (fuel : nat) (g : adjl) (st : bst) : bst :=
  match fuel with O => st | S f => match queue st with [] => st | u :: q => bfs f g (step g u q st) end end.

Definition init (n s : nat) : bst :=
  {| dist := set_nth s (Some 0) (repeat None n); pred := repeat None n; disc := set_nth s true (repeat false n); queue := [s] |}.

(* ---------- spec ---------- *)
Inductive walk (g : adjl) (s : nat) : nat -> nat -> Prop :=
| w_nil : s < length g -> walk g s s 0
| w_snoc u v k : walk g s u k -> In v (nth u g []) -> walk g s v (S k).
Definition wf (g : adjl) := forall u v, In v (nth u g []) -> v < length g.

(* ---------- list lemmas ---------- *)
Lemma set_nth_length {A} i (x:A) l : length (set_nth i x l) = length l.
Proof. revert i; induction l as [|h t IH]; intros [|i]; simpl; auto. Qed.
Lemma nth_set_nth_eq {A} i (x:A) l d : i < length l -> nth i (set_nth i x l) d = x.
Proof. revert i; induction l as [|h t IH]; intros [|i] H; simpl in *; try lia; auto. apply IH; lia. Qed.
Lemma nth_set_nth_neq {A} i j (x:A) l d : i <> j -> nth j (set_nth i x l) d = nth j l d.
Proof. revert i j; induction l as [|h t IH]; intros [|i] [|j] H; simpl; auto; try congruence. Qed.
Lemma nth_repeat {A} (a:A) n v : nth v (repeat a n) a = a.
Proof. revert v; induction n; intros [|v]; simpl; auto. Qed.

Definition cf (l : list bool) := length (filter negb l).
Lemma cf_set_true l v : v < length l -> nth v l false = false -> S (cf (set_nth v true l)) = cf l.
Proof. unfold cf; revert v; induction l as [|h t IH]; intros [|v] Hl Hv; simpl in *; try lia.
  - subst h; simpl; auto.
  - destruct h; simpl; rewrite <- (IH v); auto; lia. Qed.
Lemma cf_repeat_false n : cf (repeat false n) = n.
Proof. unfold cf; induction n; simpl; auto. Qed.

Section Fold.
Variables (u du n : nat).
Notation F := (fold_left (visit1 u du)).
Definition sized (st : bst) := length (dist st) = n /\ length (disc st) = n /\ length (pred st) = n.

Lemma visit1_cases st v :
  (getb (disc st) v = true /\ visit1 u du st v = st) \/
  (getb (disc st) v = false /\ visit1 u du st v =
     {| dist := set_nth v (Some (S du)) (dist st); pred := set_nth v (Some u) (pred st); disc := set_nth v true (disc st); queue := queue st ++ [v] |}).
Proof. unfold visit1; destruct (getb (disc st) v); auto. Qed.

Lemma visit1_sized st v : sized st -> sized (visit1 u du st v).
Proof. intros [A [B C]]; destruct (visit1_cases st v) as [[_ ->]|[_ ->]]; unfold sized; simpl; rewrite ?set_nth_length; auto. Qed.
Lemma fold_sized es : forall st, sized st -> sized (F es st).
Proof. induction es; simpl; auto using visit1_sized. Qed.

Lemma fold_old es : forall st v, getb (disc st) v = true ->
  getb (disc (F es st)) v = true /\ getd (dist (F es st)) v = getd (dist st) v /\ nth v (pred (F es st)) None = nth v (pred st) None.
Proof. induction es as [|e es IH]; intros st v H; simpl; auto.
  destruct (visit1_cases st e) as [[_ E]|[He E]]; rewrite E; [apply IH; auto|].
  assert (e <> v) by (intros ->; congruence).
  destruct (IH {| dist := set_nth e (Some (S du)) (dist st); pred := set_nth e (Some u) (pred st); disc := set_nth e true (disc st); queue := queue st ++ [e] |} v) as [A [B C]].
  { simpl; unfold getb; rewrite nth_set_nth_neq; auto. }
  simpl in *. unfold getd, getb in *. rewrite nth_set_nth_neq in B, C by auto. auto.
Qed.

Lemma fold_all es : forall st v, sized st -> (forall x, In x es -> x < n) -> In v es -> getb (disc (F es st)) v = true.
Proof. induction es as [|e es IH]; intros st v Sz R Hin; simpl in *; [tauto|]. destruct Hin as [->|Hin].
  - apply fold_old. destruct (visit1_cases st v) as [[H ->]|[_ ->]]; auto. simpl; unfold getb; apply nth_set_nth_eq.
    destruct Sz as [_ [-> _]]; auto.
  - apply IH; auto using visit1_sized.
Qed.

Lemma fold_new es : forall st v, sized st -> (forall x, In x es -> x < n) -> getb (disc st) v = false ->
  (getb (disc (F es st)) v = false /\ getd (dist (F es st)) v = getd (dist st) v /\ nth v (pred (F es st)) None = nth v (pred st) None) \/
  (getb (disc (F es st)) v = true /\ In v es /\ getd (dist (F es st)) v = Some (S du) /\ nth v (pred (F es st)) None = Some u /\ In v (queue (F es st))).
Proof. induction es as [|e es IH]; intros st v Sz R H; simpl in *; auto.
  destruct (visit1_cases st e) as [[He E]|[He E]]; rewrite E.
  - destruct (IH st v) as [X|[A [B C]]]; auto.
  - set (st1 := {| dist := set_nth e (Some (S du)) (dist st); pred := set_nth e (Some u) (pred st); disc := set_nth e true (disc st); queue := queue st ++ [e] |}).
    assert (S1 : sized st1) by (unfold st1; rewrite <- E; apply visit1_sized; auto).
    destruct Sz as [Sd [Sb Sp]]. assert (e < n) by auto.
    destruct (Nat.eq_dec e v) as [->|Hne].
    + right. destruct (fold_old es st1 v) as [A [B C]]; [simpl; unfold getb; apply nth_set_nth_eq; lia|].
      split; auto. split; auto. simpl in B, C. unfold getd in *. rewrite nth_set_nth_eq in B, C by lia. repeat split; auto.
      clear -es. assert (In v (queue st1)) by (simpl; apply in_or_app; right; simpl; auto).
      revert H; generalize st1; induction es as [|a es IH]; simpl; auto. intros s0 H; apply IH.
      destruct (visit1_cases s0 a) as [[_ ->]|[_ ->]]; simpl; auto using in_or_app.
    + destruct (IH st1 v) as [[A [B B']]|[A [B [C [D G]]]]]; auto.
      * simpl; unfold getb; rewrite nth_set_nth_neq; auto.
      * left; split; auto. rewrite B, B'; simpl; unfold getd; rewrite !nth_set_nth_neq; auto.
      * right; repeat split; auto.
Qed.

Lemma fold_queue es : forall st, exists pushed, queue (F es st) = queue st ++ pushed /\ (forall x, In x pushed -> In x es /\ getb (disc st) x = false).
Proof. induction es as [|e es IH]; intros st; simpl; [exists []; rewrite app_nil_r; split; auto; intros ? []|].
  destruct (visit1_cases st e) as [[He E]|[He E]]; rewrite E.
  - destruct (IH st) as [p [Q P]]; exists p; split; auto. intros x Hx; destruct (P x Hx); auto.
  - destruct (IH {| dist := set_nth e (Some (S du)) (dist st); pred := set_nth e (Some u) (pred st); disc := set_nth e true (disc st); queue := queue st ++ [e] |}) as [p [Q P]].
    simpl in *. exists (e :: p); split; [rewrite Q, <- app_assoc; auto|].
    intros x [<-|Hx]; auto. destruct (P x Hx) as [A B]; split; auto.
    destruct (Nat.eq_dec e x) as [->|Hne]; auto. unfold getb in *; rewrite nth_set_nth_neq in B; auto.
Qed.

Lemma fold_potential es : forall st, sized st -> (forall x, In x es -> x < n) ->
  length (queue (F es st)) + cf (disc (F es st)) = length (queue st) + cf (disc st).
Proof. induction es as [|e es IH]; intros st Sz R; simpl; auto.
  rewrite IH; auto using visit1_sized; [|intros; apply R; simpl; auto]. destruct (visit1_cases st e) as [[He E]|[He E]]; rewrite E; auto. simpl.
  destruct Sz as [_ [Sb _]]. rewrite app_length; simpl. pose proof (cf_set_true (disc st) e). unfold getb in He.
  assert (Hen : e < n) by (apply R; simpl; auto). rewrite <- Sb in Hen. specialize (H Hen He). lia.
Qed.
End Fold.

(* ---------- invariant ---------- *)
Definition dle (d : list (option nat)) (a b : nat) := forall da db, getd d a = Some da -> getd d b = Some db -> da <= db.
Fixpoint qs (d : list (option nat)) (q : list nat) : Prop :=
  match q with [] => True | h :: t => (forall x, In x t -> dle d h x) /\ qs d t end.
Lemma qs_ext d d' q : (forall x, In x q -> getd d' x = getd d x) -> qs d q -> qs d' q.
Proof. induction q as [|h t IH]; simpl; auto. intros E [A B]; split; [|apply IH; auto].
  intros x Hx da db Ha Hb. rewrite E in Ha, Hb by auto. eapply A; eauto. Qed.
Lemma qs_app d q p : qs d q -> qs d p -> (forall x y, In x q -> In y p -> dle d x y) -> qs d (q ++ p).
Proof. induction q as [|h t IH]; simpl; auto. intros [A B] P C; split; [|apply IH; auto].
  intros x Hx; apply in_app_or in Hx as [Hx|Hx]; auto. Qed.
Lemma qs_const d p k : (forall x, In x p -> getd d x = Some k) -> qs d p.
Proof. induction p as [|h t IH]; simpl; auto. intros H; split; [|apply IH; auto].
  intros x Hx da db Ha Hb. rewrite H in Ha by (simpl; auto). rewrite H in Hb by (simpl; auto). assert (da = db) by congruence. lia. Qed.

Section Inv.
Variables (g : adjl) (s : nat).
Hypothesis Hwf : wf g.
Let n := length g.

Record InvB (st : bst) : Prop := {
  b_sz : sized n st;
  b_src : getd (dist st) s = Some 0;
  b_dd : forall v, getb (disc st) v = true <-> getd (dist st) v <> None;
  b_wk : forall v k, getd (dist st) v = Some k -> walk g s v k;
  b_qd : forall x, In x (queue st) -> exists dx, getd (dist st) x = Some dx;
  b_srt : qs (dist st) (queue st);
  b_bnd : forall h t, queue st = h :: t -> forall v dv dh, getd (dist st) v = Some dv -> getd (dist st) h = Some dh -> dv <= S dh;
  b_cl : forall u du, getd (dist st) u = Some du -> ~ In u (queue st) -> forall v, In v (nth u g []) -> exists dv, getd (dist st) v = Some dv /\ dv <= S du;
  b_pr : forall v p, nth v (pred st) None = Some p -> exists dp, getd (dist st) p = Some dp /\ getd (dist st) v = Some (S dp) /\ In v (nth p g []);
  b_pn : forall v, getb (disc st) v = false -> nth v (pred st) None = None }.

Lemma disc_dec st v : {getb (disc st) v = true} + {getb (disc st) v = false}.
Proof. destruct (getb (disc st) v); auto. Qed.

Lemma step_inv st u q : InvB st -> queue st = u :: q -> InvB (step g u q st).
Proof.
  intros I Q. destruct (b_qd _ I u) as [du Du]; [rewrite Q; left; auto|].
  unfold step; rewrite Du.
  set (st0 := {| dist := dist st; pred := pred st; disc := disc st; queue := q |}).
  set (es := nth u g []). set (st' := fold_left (visit1 u du) es st0).
  assert (Sz0 : sized n st0) by apply (b_sz _ I).
  assert (R : forall x, In x es -> x < n) by (intros x Hx; eapply Hwf; eauto).
  (* classification of every vertex after the step *)
  assert (OLD : forall v, getb (disc st) v = true -> getb (disc st') v = true /\ getd (dist st') v = getd (dist st) v /\ nth v (pred st') None = nth v (pred st) None).
  { intros v H; apply (fold_old u du es st0 v H). }
  assert (NEW : forall v, getb (disc st) v = false ->
     (getb (disc st') v = false /\ getd (dist st') v = getd (dist st) v /\ nth v (pred st') None = nth v (pred st) None) \/
     (getb (disc st') v = true /\ In v es /\ getd (dist st') v = Some (S du) /\ nth v (pred st') None = Some u /\ In v (queue st'))).
  { intros v H; apply (fold_new u du n es st0 v Sz0 R H). }
  assert (FIN : forall v d, getd (dist st) v = Some d -> getd (dist st') v = Some d).
  { intros v d H. destruct (OLD v) as [_ [E _]]; [apply (b_dd _ I); congruence|congruence]. }
  assert (WK' : forall v k, getd (dist st') v = Some k -> walk g s v k).
  { intros v k H. destruct (disc_dec st v) as [D|D].
    - destruct (OLD v D) as [_ [E _]]. apply (b_wk _ I); congruence.
    - destruct (NEW v D) as [[_ [E _]]|[_ [Hin [E _]]]].
      + apply (b_wk _ I); congruence.
      + assert (k = S du) by congruence; subst. econstructor; [apply (b_wk _ I); eauto|auto]. }
  destruct (fold_queue u du es st0) as [pushed [Qe Pp]]. fold st' in Qe. simpl in Qe.
  assert (PD : forall x, In x pushed -> getd (dist st') x = Some (S du)).
  { intros x Hx. destruct (Pp x Hx) as [Hin D]. destruct (NEW x D) as [[A _]|[_ [_ [E _]]]]; auto.
    pose proof (fold_all u du n es st0 x Sz0 R Hin). fold st' in H. congruence. }
  assert (QOLD : forall x, In x q -> exists dx, getd (dist st) x = Some dx /\ getd (dist st') x = Some dx /\ du <= dx).
  { intros x Hx. destruct (b_qd _ I x) as [dx Dx]; [rewrite Q; right; auto|]. exists dx; repeat split; auto.
    pose proof (b_srt _ I) as Sr. rewrite Q in Sr; simpl in Sr. destruct Sr as [A _]. eapply A; eauto. }
  assert (QGE : forall x dx, In x (queue st') -> getd (dist st') x = Some dx -> du <= dx).
  { intros x dx Hx Dx. rewrite Qe in Hx. apply in_app_or in Hx as [Hx|Hx].
    - destruct (QOLD x Hx) as [d [_ [E L]]]. congruence.
    - rewrite (PD x Hx) in Dx. injection Dx as <-. lia. }
  assert (ALL : forall v dv, getd (dist st') v = Some dv -> dv <= S du).
  { intros v dv H. destruct (disc_dec st v) as [D|D].
    - destruct (OLD v D) as [_ [E _]]. rewrite E in H. eapply (b_bnd _ I u q Q); eauto.
    - destruct (NEW v D) as [[_ [E _]]|[_ [_ [E _]]]].
      + rewrite E in H. assert (getb (disc st) v = true) by (apply (b_dd _ I); congruence). congruence.
      + assert (dv = S du) by congruence. lia. }
  constructor.
  - apply fold_sized; auto.
  - apply FIN, (b_src _ I).
  - intros v. destruct (disc_dec st v) as [D|D].
    + destruct (OLD v D) as [A [E _]]. rewrite A, E. split; auto. intros _. apply (b_dd _ I); auto.
    + destruct (NEW v D) as [[A [E _]]|[A [_ [E _]]]]; rewrite A, E.
      * split; [discriminate|]. intros H. apply (b_dd _ I) in H. congruence.
      * split; auto. discriminate.
  - exact WK'.
  - intros x Hx. rewrite Qe in Hx. apply in_app_or in Hx as [Hx|Hx].
    + destruct (QOLD x Hx) as [dx [_ [E _]]]; eauto.
    + rewrite (PD x Hx); eauto.
  - rewrite Qe. apply qs_app.
    + apply (qs_ext (dist st)).
      * intros x Hx. destruct (QOLD x Hx) as [dx [A [B _]]]. congruence.
      * pose proof (b_srt _ I) as Sr. rewrite Q in Sr. simpl in Sr. tauto.
    + apply (qs_const _ _ (S du)); auto.
    + intros x y Hx Hy da db Ha Hb. rewrite (PD y Hy) in Hb. injection Hb as <-. eapply ALL; eauto.
  - intros h t Hq v dv dh Dv Dh. pose proof (ALL v dv Dv). assert (du <= dh); [|lia].
    eapply QGE; eauto. rewrite Hq; left; auto.
  - intros w dw Dw Hnq v Hv.
    destruct (Nat.eq_dec w u) as [->|Hne].
    + assert (dw = du) by (pose proof (FIN u du Du); congruence); subst dw.
      pose proof (fold_all u du n es st0 v Sz0 R Hv) as A. fold st' in A.
      destruct (getd (dist st') v) as [dv|] eqn:E.
      * exists dv; split; auto. eapply ALL; eauto.
      * exfalso. destruct (disc_dec st v) as [D|D].
        -- destruct (OLD v D) as [_ [E' _]]. apply (b_dd _ I) in D. congruence.
        -- destruct (NEW v D) as [[A' _]|[_ [_ [E' _]]]]; congruence.
    + destruct (disc_dec st w) as [D|D].
      * destruct (OLD w D) as [_ [E _]]. rewrite E in Dw.
        assert (Hnq0 : ~ In w (queue st)).
        { rewrite Q; intros [->|Hw]; [congruence|]. apply Hnq; rewrite Qe; apply in_or_app; auto. }
        destruct (b_cl _ I w dw Dw Hnq0 v Hv) as [dv [Dv L]]. exists dv; split; auto.
      * destruct (NEW w D) as [[_ [E _]]|[_ [_ [_ [_ Hin]]]]]; [|contradiction].
        rewrite E in Dw. assert (getb (disc st) w = true) by (apply (b_dd _ I); congruence). congruence.
  - intros v p Hp. destruct (disc_dec st v) as [D|D].
    + destruct (OLD v D) as [_ [E E']]. rewrite E' in Hp. destruct (b_pr _ I v p Hp) as [dp [A [B C]]].
      exists dp; repeat split; auto.
    + destruct (NEW v D) as [[_ [_ E']]|[_ [Hin [E [E' _]]]]].
      * rewrite E', (b_pn _ I v D) in Hp. discriminate.
      * assert (p = u) by congruence; subst p. exists du; repeat split; auto.
  - intros v Hv. destruct (disc_dec st v) as [D|D].
    + destruct (OLD v D) as [A _]. congruence.
    + destruct (NEW v D) as [[_ [_ E']]|[A _]]; [|congruence]. rewrite E'. apply (b_pn _ I); auto.
Qed.
End Inv.

Section Top.
Variables (g : adjl) (s : nat).
Hypothesis Hwf : wf g.
Hypothesis Hs : s < length g.
Let n := length g.

Lemma init_inv : InvB g s (init n s).
Proof.
  assert (L1 : s < length (repeat (@None nat) n)) by (rewrite repeat_length; auto).
  assert (L2 : s < length (repeat false n)) by (rewrite repeat_length; auto).
  assert (D : forall v, getd (dist (init n s)) v = if Nat.eq_dec s v then Some 0 else None).
  { intros v; simpl; unfold getd. destruct (Nat.eq_dec s v) as [<-|Hne]; [apply nth_set_nth_eq; auto|rewrite nth_set_nth_neq, nth_repeat; auto]. }
  assert (B : forall v, getb (disc (init n s)) v = if Nat.eq_dec s v then true else false).
  { intros v; simpl; unfold getb. destruct (Nat.eq_dec s v) as [<-|Hne]; [apply nth_set_nth_eq; auto|rewrite nth_set_nth_neq, nth_repeat; auto]. }
  constructor.
  - unfold sized; simpl; rewrite !set_nth_length, !repeat_length; auto.
  - rewrite D; destruct (Nat.eq_dec s s); congruence.
  - intros v; rewrite D, B; destruct (Nat.eq_dec s v); split; congruence.
  - intros v k; rewrite D; destruct (Nat.eq_dec s v) as [<-|]; [|discriminate]. intros H; injection H as <-; constructor; auto.
  - simpl; intros x [<-|[]]. rewrite D; destruct (Nat.eq_dec s s); [eauto|congruence].
  - simpl; split; auto; intros x [].
  - simpl; intros h t H v dv dh; injection H as <- <-. rewrite !D. destruct (Nat.eq_dec s v); [|discriminate]. destruct (Nat.eq_dec s s); [|congruence]. intros A C; injection A as <-; lia.
  - simpl; intros u du; rewrite D; destruct (Nat.eq_dec s u) as [<-|]; [|discriminate]. intros _ H; exfalso; apply H; auto.
  - simpl; intros v p. rewrite nth_repeat. discriminate.
  - simpl; intros v _. apply nth_repeat.
Qed.

Lemma bfs_inv fuel : forall st, InvB g s st -> InvB g s (bfs fuel g st).
Proof. induction fuel as [|f IH]; simpl; auto. intros st I. destruct (queue st) as [|u q] eqn:Q; auto.
  apply IH, step_inv; auto. Qed.

Lemma step_potential st u q : InvB g s st -> queue st = u :: q ->
  S (length (queue (step g u q st)) + cf (disc (step g u q st))) = length (queue st) + cf (disc st).
Proof. intros I Q. destruct (b_qd _ _ _ I u) as [du Du]; [rewrite Q; left; auto|]. unfold step; rewrite Du.
  rewrite (fold_potential u du n); simpl; [rewrite Q; simpl; lia|apply (b_sz _ _ _ I)|intros x Hx; eapply Hwf; eauto]. Qed.

Lemma bfs_done fuel : forall st, InvB g s st -> length (queue st) + cf (disc st) <= fuel -> queue (bfs fuel g st) = [].
Proof. induction fuel as [|f IH]; simpl; intros st I H.
  - destruct (queue st); simpl in *; auto; lia.
  - destruct (queue st) as [|u q] eqn:Q; auto. apply IH; [apply step_inv; auto|].
    pose proof (step_potential st u q I Q). rewrite Q in *. simpl in *. lia.
Qed.

Lemma init_potential : length (queue (init n s)) + cf (disc (init n s)) = n.
Proof. simpl. pose proof (cf_set_true (repeat false n) s). rewrite repeat_length, nth_repeat, cf_repeat_false in H.
  specialize (H Hs eq_refl). lia. Qed.

Lemma closed_lower st : InvB g s st -> queue st = [] -> forall v k, walk g s v k -> exists d, getd (dist st) v = Some d /\ d <= k.
Proof. intros I Q v k W; induction W as [|u v k W IH Hin].
  - exists 0; split; [apply (b_src _ _ _ I)|lia].
  - destruct IH as [du [Du L]]. destruct (b_cl _ _ _ I u du Du) with (v:=v) as [dv [Dv L']]; auto; [rewrite Q; simpl; tauto|].
    exists dv; split; auto; lia.
Qed.

(* findVertexPredecessors: V units of fuel suffice; distances are true hop minima; predecessors are one hop closer *)
Theorem bfs_single_correct : let st := bfs n g (init n s) in
  queue st = [] /\
  (forall v, match getd (dist st) v with
             | Some k => walk g s v k /\ (forall k', walk g s v k' -> k <= k')
             | None => forall k', ~ walk g s v k' end) /\
  (forall v p, nth v (pred st) None = Some p -> exists dp, getd (dist st) p = Some dp /\ getd (dist st) v = Some (S dp) /\ In v (nth p g [])) /\
  (forall v, getd (dist st) v = None -> nth v (pred st) None = None) /\
  nth s (pred st) None = None.
Proof. intros st. pose proof (bfs_inv n _ init_inv) as I. fold st in I.
  assert (Q : queue st = []) by (apply bfs_done; [apply init_inv|rewrite init_potential; auto]).
  split; auto. split; [|split; [|split]].
  - intros v. destruct (getd (dist st) v) as [k|] eqn:E.
    + split; [apply (b_wk _ _ _ I); auto|]. intros k' W. destruct (closed_lower st I Q v k' W) as [d [D L]]. congruence.
    + intros k' W. destruct (closed_lower st I Q v k' W) as [d [D _]]. congruence.
  - apply (b_pr _ _ _ I).
  - intros v H. apply (b_pn _ _ _ I). destruct (getb (disc st) v) eqn:D; auto. apply (b_dd _ _ _ I) in D. congruence.
  - destruct (nth s (pred st) None) as [p|] eqn:E; auto. destruct (b_pr _ _ _ I s p E) as [dp [_ [A _]]].
    rewrite (b_src _ _ _ I) in A. discriminate.
Qed.
End Top.
Print Assumptions bfs_single_correct.
