(* C18: the correspondence case - graph built by a history, observed as by the pure query "Q 0", T reader threads x R rounds. *)
From Coq Require Import List Arith ZArith.
From BG Require Import Base DirectedModel DirectedSpec UndirectedModel UndirectedSpec MultiModel WeightedModel MultiSpec Instances ConcModel.
Import ListNotations.
Local Open Scope Z_scope.
Definition conc_lines (l : list (list Z)) (T R : nat) (cnt : Z) : list (list (list Z)) := [l; [[Z.of_nat T; Z.of_nat R; cnt]]; l].
Definition idz (z : Z) := z.
Definition d_conc_case (hs : bool) (v : variant) (n : nat) (ops : list (@dop Z)) (T R : nat) (so : list nat) (s t : nat) : list (list (list Z)) :=
  match gfinal (step hs v) (init n) ops with
  | Some g => conc_lines ([0] :: observe Z.eqb 0 idz (alpha hs) hs v g ++ [[]]) T R (conc_mismatches hs false g T R so s t)
  | None => conc_lines [[zub]] T R (-1) end.
Definition u_conc_case (hs : bool) (v : variant) (n : nat) (ops : list (@uop Z)) (T R : nat) (so : list nat) (s t : nat) : list (list (list Z)) :=
  match gfinal (ustep hs v) (init n) ops with
  | Some g => conc_lines ([0] :: u_observe Z.eqb 0 idz (alpha hs) hs v g ++ [[]]) T R (conc_mismatches hs true g T R so s t)
  | None => conc_lines [[zub]] T R (-1) end.
Definition conc_spec_lines (l : option (list (list Z))) (T R : nat) : list (option (list (list Z))) := [l; Some [[Z.of_nat T; Z.of_nat R; 0]]; l].
Definition d_conc_spec (hs : bool) (n : nat) (ops : list (@dop Z)) (T R : nat) :=
  conc_spec_lines (option_map (fun a => [0] :: sobserve Z.eqb 0 hs idz (alpha hs) a ++ [[]]) (gsfinal rejected_code spec_step (s_init n) ops)) T R.
Definition u_conc_spec (hs : bool) (n : nat) (ops : list (@uop Z)) (T R : nat) :=
  conc_spec_lines (option_map (fun a => [0] :: sobserve_u Z.eqb 0 hs idz (alpha hs) a ++ [[]]) (gsfinal u_rejected_code uspec_step (s_init n) ops)) T R.

(* multigraph / weighted classes: cls 0 DM, 1 UM, 2 DW, 3 UW *)
Definition m_conc_case (cls : nat) (v : variant) (n : nat) (final : option mgraph) (T R : nat) (s t : nat) : list (list (list Z)) :=
  match final with
  | Some m => conc_lines ([0] :: mobs cls m ++ [[]]) T R (mconc_mismatches cls m T R s t)
  | None => conc_lines [[zub]] T R (-1) end.
Definition dm_conc_case v n (ops : list mop) := m_conc_case 0 v n (gfinal (dm_step v) (dm_init n) ops).
Definition um_conc_case v n (ops : list mop) := m_conc_case 1 v n (gfinal (um_step v true) (dm_init n) ops).
Definition dw_conc_case v n (ops : list wop) := m_conc_case 2 v n (gfinal (dw_step v) (dm_init n) ops).
Definition uw_conc_case v n (ops : list wop) := m_conc_case 3 v n (gfinal (uw_step v true) (dm_init n) ops).
Definition m_conc_spec (und : bool) (n : nat) (ops : list mop) (T R : nat) :=
  conc_spec_lines (option_map (fun a => [0] :: sobserve_m und a ++ [[]]) (gsfinal m_rejected_code (mspec_step und) (s_init n) ops)) T R.
Definition w_conc_spec (und : bool) (n : nat) (ops : list wop) (T R : nat) :=
  conc_spec_lines (option_map (fun a => [0] :: sobserve_w und a ++ [[]]) (gsfinal w_rejected_code (wspec_step und) (s_init n) ops)) T R.
