(* The predecessor vector of the choice-driven Dijkstra model (C12): the source is its own predecessor, unreachable vertices have none,
   and every other reached vertex v has a predecessor p joined to v by an edge of weight w with dist[v] = dist[p] + w at termination. *)
From Coq Require Import List Arith NArith Lia Bool.
From BG Require Import Dj.
Import ListNotations.
Local Open Scope N_scope.

Section Pred.
Variables (g : wadj) (s : nat).
Hypothesis Hwf : wf g.
Hypothesis Hs : (s < length g)%nat.
Definition getp (p : list (option nat)) (v : nat) : option nat := nth v p None.

Record PInv (st : dj) : Prop := {
  p_len : length (dist st) = length g /\ length (pred st) = length g;
  p_src0 : getd (dist st) s = Some 0;
  p_src : getp (pred st) s = Some s;
  p_edge : forall v d, v <> s -> getd (dist st) v = Some d ->
           exists p dp w, getp (pred st) v = Some p /\ getd (dist st) p = Some dp /\ In (v, w) (nth p g []) /\ dp + w <= d;
  p_none : forall v, getd (dist st) v = None -> getp (pred st) v = None }.

Lemma relax1_pinv c du st e : PInv st -> getd (dist st) c = Some du -> In e (nth c g []) ->
  PInv (relax1 c du st e) /\ getd (dist (relax1 c du st e)) c = Some du.
Proof.
  intros [[L1 L2] S0 SP PE PN] Dc Hin. destruct e as [y w]. pose proof (Hwf c y w Hin) as Hy.
  destruct (relax1_cases c du st (y, w)) as [[-> _]|[-> Hlt]]; [split; [constructor|]; auto|]. cbn [fst snd] in *.
  assert (Nyc : y <> c) by (intros ->; specialize (Hlt _ Dc); lia).
  assert (Nys : y <> s) by (intros ->; specialize (Hlt _ S0); lia).
  assert (GD : forall v, getd (set_nth y (Some (du + w)) (dist st)) v = if Nat.eqb v y then Some (du + w) else getd (dist st) v).
  { intros v. unfold getd. destruct (Nat.eqb_spec v y) as [->|N]; [apply nth_set_nth_eq; lia|apply nth_set_nth_neq; auto]. }
  assert (GP : forall v, getp (set_nth y (Some c) (pred st)) v = if Nat.eqb v y then Some c else getp (pred st) v).
  { intros v. unfold getp. destruct (Nat.eqb_spec v y) as [->|N]; [apply nth_set_nth_eq; lia|apply nth_set_nth_neq; auto]. }
  split; [constructor; cbn [dist pred work]|].
  - rewrite !set_nth_length. auto.
  - rewrite GD. destruct (Nat.eqb_spec s y); [congruence|auto].
  - rewrite GP. destruct (Nat.eqb_spec s y); [congruence|auto].
  - intros v d Nv. rewrite GD, GP. destruct (Nat.eqb_spec v y) as [->|Nvy].
    + intros E; injection E as <-. exists c, du, w. rewrite GD. destruct (Nat.eqb_spec c y); [congruence|]. repeat split; auto. lia.
    + intros Dv. destruct (PE v d Nv Dv) as [p [dp [w' [Pp [Dp [Ein Le]]]]]].
      destruct (Nat.eq_dec p y) as [->|Npy].
      * exists y, (du + w), w'. rewrite GD, Nat.eqb_refl. repeat split; auto. specialize (Hlt _ Dp). lia.
      * exists p, dp, w'. rewrite GD. destruct (Nat.eqb_spec p y); [congruence|]. auto.
  - intros v. rewrite GD, GP. destruct (Nat.eqb_spec v y); [discriminate|apply PN].
  - cbn [dist]. rewrite GD. destruct (Nat.eqb_spec c y); [congruence|auto].
Qed.
Lemma fold_pinv c du es : forall st, PInv st -> getd (dist st) c = Some du -> (forall e, In e es -> In e (nth c g [])) ->
  PInv (fold_left (relax1 c du) es st).
Proof. induction es as [|e es IH]; intros st P Dc R; cbn [fold_left]; auto.
  destruct (relax1_pinv c du st e P Dc (R e (or_introl eq_refl))) as [P1 D1]. apply IH; auto. intros; apply R; simpl; auto. Qed.
Lemma step_pinv st c st' : PInv st -> step g st c = Some st' -> PInv st'.
Proof. intros P. unfold step. destruct (legal st c); [|discriminate]. destruct (getd (dist st) c) as [du|] eqn:Dc; [|discriminate].
  intros E; injection E as <-. apply fold_pinv; auto. destruct P as [L S0 SP PE PN]. constructor; auto. Qed.
Lemma run_pinv cs : forall st st', PInv st -> run g st cs = Some st' -> PInv st'.
Proof. induction cs as [|c cs IH]; intros st st' P; cbn [run]; [intros E; injection E as <-; auto|].
  destruct (step g st c) as [st1|] eqn:E; [|discriminate]. intros R. eapply IH; [|exact R]. eapply step_pinv; eauto. Qed.
Lemma init_pinv : PInv (init (length g) s).
Proof.
  assert (GD : forall v, getd (set_nth s (Some 0) (repeat None (length g))) v = if Nat.eqb v s then Some 0 else None).
  { intros v. unfold getd. destruct (Nat.eqb_spec v s) as [->|N]; [apply nth_set_nth_eq; rewrite repeat_length; auto|rewrite nth_set_nth_neq by auto; apply nth_repeat_None]. }
  assert (GP : forall v, getp (set_nth s (Some s) (repeat None (length g))) v = if Nat.eqb v s then Some s else None).
  { intros v. unfold getp. destruct (Nat.eqb_spec v s) as [->|N]; [apply nth_set_nth_eq; rewrite repeat_length; auto|rewrite nth_set_nth_neq by auto].
    clear. revert v. induction (length g); intros [|v]; simpl; auto. }
  constructor; cbn [init dist pred work].
  - rewrite !set_nth_length, !repeat_length. auto.
  - rewrite GD, Nat.eqb_refl. auto.
  - rewrite GP, Nat.eqb_refl. auto.
  - intros v d Nv. rewrite GD. destruct (Nat.eqb_spec v s); [congruence|discriminate].
  - intros v. rewrite GD, GP. destruct (Nat.eqb_spec v s); [discriminate|auto].
Qed.

(* C12, the tree: at termination dist[v] = dist[p] + weight(p, v) along an existing edge *)
Theorem dijkstra_predecessors cs st : run g (init (length g) s) cs = Some st -> work st = [] ->
  getp (pred st) s = Some s /\
  (forall v, getd (dist st) v = None -> getp (pred st) v = None) /\
  (forall v d, v <> s -> getd (dist st) v = Some d ->
     exists p dp w, getp (pred st) v = Some p /\ getd (dist st) p = Some dp /\ In (v, w) (nth p g []) /\ d = dp + w).
Proof.
  intros R Hw. pose proof (run_pinv cs _ _ init_pinv R) as [L S0 SP PE PN]. pose proof (run_inv g s Hwf cs _ _ (init_inv g s Hs) R) as I.
  split; auto. split; auto. intros v d Nv Dv. destruct (PE v d Nv Dv) as [p [dp [w [Pp [Dp [Ein Le]]]]]]. exists p, dp, w. repeat split; auto.
  destruct (i_closed g s _ I p dp Dp) with (y := v) (w := w) as [dy [Dy Ly]]; auto; [rewrite Hw; intros []|]. rewrite Dv in Dy. injection Dy as <-. lia.
Qed.
End Pred.
Print Assumptions dijkstra_predecessors.
