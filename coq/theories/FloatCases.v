(* C05, floating-point half: case functions for the correspondence driver.  M = what the Flocq model of the running total computes (to be
   equal bit for bit to what getTotalWeight() returns), S = the implementation's own value, accepted iff it lies within the proved
   accumulated-rounding-error bound of the exact sum of the stored weights (FloatTotalProofs.ftotal_error / fget_error). *)
From Coq Require Import List ZArith.
From Flocq Require Import Core Operations BinarySingleNaN.
From BG Require Import Base FloatTotal.
Import ListNotations.
Local Open Scope Z_scope.
Fixpoint fstates (und : bool) (st : fstate) (ops : list fop) : list fstate :=
  match ops with [] => [] | o :: t => let st' := fstep und st o in st' :: fstates und st' t end.
Definition zt (t : Z * Z * Z) : list Z := let '(s, m, e) := t in [s; m; e].
Definition f_case (und : bool) (ops : list fop) : list (list (list Z)) :=
  map (fun st => [[0]; zt (fobs und (ftot st)); [Z.of_nat (length (fw st))]]) (fstates und finit ops).
Definition z_of_halves (hi lo : Z) : Z := hi * 4294967296 + lo.
Definition fop_add (i j : nat) (hi lo : Z) : fop := FAdd i j (dbl_of_bits (z_of_halves hi lo)).
Definition fop_set (i j : nat) (hi lo : Z) : fop := FSet i j (dbl_of_bits (z_of_halves hi lo)).
(* the observed value sign/mantissa/exponent as a dyadic number *)
Definition obsF (t : Z * Z * Z) : float radix2 := let '(s, m, e) := t in Float radix2 (if Z.eqb s 1 then - m else m) e.
Fixpoint f_spec_from (und : bool) (st : fstate) (E : float radix2) (ops : list fop) (obs : list (Z * Z * Z)) : list (option (list (list Z))) :=
  match ops with
  | [] => []
  | o :: t =>
    let st' := fstep und st o in let E' := faccF und st E o in
    match obs with
    | [] => None :: f_spec_from und st' E' t []
    | ob :: obs' =>
      let err := Fabs (Fminus (obsF ob) (rsumF (fw st'))) in
      let bound := if und then Fplus E' (Fplus (Fmult u53F (Fabs (B2F (ftot st')))) (Float radix2 1 (-1075))) else E' in
      let '(s, _, _) := ob in
      Some [[0]; if Z.eqb s 2 then [-8] else if Fleb err bound then zt ob else [-8]; [Z.of_nat (length (fw st'))]] :: f_spec_from und st' E' t obs'
    end
  end.
Definition f_spec (und : bool) (ops : list fop) (obs : list (Z * Z * Z)) := f_spec_from und finit F0 ops obs.
Example f_case_example : f_case false [fop_add 0 1 1069128089 2576980378; fop_add 1 2 1070176665 2576980378] =
  [[[0]; [0; 3602879701896397; -55]; [1]]; [[0]; [0; 10808639105689191; -55]; [2]]].
Proof. vm_compute. reflexivity. Qed.

(* ---- Dijkstra with double weights (C12, floating-point half): M follows the implementation's pop sequence (every pop must be a
   minimum of the worklist), S takes the distances of the model's own schedule (FloatDjProofs.fdj_distances_unique: the distances do not
   depend on the order of legal pops) and validates the implementation's predecessors: dist[v] = dist[p] (+) w, one rounded addition ---- *)
From BG Require Import FloatDj.
Fixpoint fupd_nth {A} (i : nat) (f : A -> A) (l : list A) : list A := match l, i with [], _ => [] | x :: t, O => f x :: t | x :: t, S i' => x :: fupd_nth i' f t end.
Definition fadj_add (und : bool) (g : fadj) (i j : nat) (w : dbl) : fadj :=
  if existsb (fun e => Nat.eqb (fst e) j) (nth i g []) then g
  else let g1 := fupd_nth i (fun l => l ++ [(j, w)]) g in if und && negb (Nat.eqb i j) then fupd_nth j (fun l => l ++ [(i, w)]) g1 else g1.
Definition fadj_of (und : bool) (n : nat) (es : list (nat * nat * (Z * Z))) : fadj :=
  fold_left (fun g e => let '(i, j, (hi, lo)) := e in if Nat.ltb i n && Nat.ltb j n then fadj_add und g i j (dbl_of_bits (z_of_halves hi lo)) else g) es (repeat [] n).
Definition vmaxz : Z := 4294967295.
(* the same search without the "no overflow" restriction: a tentative distance may be +infinity (huge weights); the comparison
   inf < inf is false, so such an edge relaxes nothing (FloatDjProofs.C12_generic_dijkstra covers +infinity as an admissible distance) *)
Definition fdj_any (g : fadj) (s : nat) (cs : list nat) : option (list Z * list Z) :=
  if fdj_wf g s then
    match grun dbl dbl dleb dadd g (fdj_init (length g) s) cs with
    | Some st => match gwork st with [] => Some (map dist_bits (gdist st), map pred_code (gpred st)) | _ :: _ => None end
    | None => None end
  else None.
(* When a path sum overflows, the C++ cannot tell "reached at distance +infinity" from "not reached" (both are +infinity in its distance
   vector) while the model keeps them apart: such runs are outside the modelled domain.  The model then echoes the implementation's values
   (no opinion) and only the spec side speaks: the search must have stopped within the scan bound. *)
(* the modelled domain, decided on the graph alone: the exact sum of ALL edge weights stays below 2^1024, so no path sum can overflow *)
Definition may_overflow (g : fadj) : bool :=
  negb (Fleb (Fplus (fold_right (fun e acc => Fplus (B2F (snd e)) acc) F0 (concat g)) (Float radix2 1 0)) (Float radix2 1 1024)).
Definition djf_case (und : bool) (n : nat) (es : list (nat * nat * (Z * Z))) (s : nat) (idist ipred : list Z) (cs : list nat) : list (list (list Z)) :=
  let g := fadj_of und n es in
  if fdj_wf g s && may_overflow g then [[idist; ipred; [Z.of_nat (length cs)]; map Z.of_nat cs]] else
  match fdj_trace g s cs with
  | Some (ds, ps) => [[ds; map (fun p => if Z.ltb p 0 then vmaxz else p) ps; [Z.of_nat (length cs)]; map Z.of_nat cs]]
  | None => [[[-8]]] end.
Definition fpred_ok (g : fadj) (ds : list Z) (s v : nat) (p : Z) : bool :=
  if Nat.eqb v s then Z.eqb p (Z.of_nat s) else
  let dv := nth v ds inf_bits in
  if Z.eqb dv inf_bits then Z.eqb p vmaxz else
  if Z.eqb p vmaxz then false else
  let q := Z.to_nat p in
  existsb (fun e => Nat.eqb (fst e) v && Z.eqb (bits_of_dbl (dadd (dbl_of_bits (nth q ds inf_bits)) (snd e))) dv) (nth q g []).
Definition djf_spec (und : bool) (n : nat) (es : list (nat * nat * (Z * Z))) (s : nat) (idist ipred : list Z) (cs : list nat) : list (option (list (list Z))) :=
  let g := fadj_of und n es in
  let scans := if Nat.leb (length cs) (n + length (concat g) + 1) then [Z.of_nat (length cs)] else [-8] in
  if fdj_wf g s && may_overflow g then [Some [idist; ipred; scans; map Z.of_nat cs]] else      (* outside the modelled domain: only the scan bound binds *)
  match fdj_auto g s (2 + length (concat g)) with
  | Some (ds, _) =>
    [Some [ds; if Nat.eqb (length ipred) n && forallb (fun v => fpred_ok g ds s v (nth v ipred (-1))) (seq 0 n) then ipred else [-8];
           if Nat.leb (length cs) (n + length (concat g) + 1) then [Z.of_nat (length cs)] else [-8]; map Z.of_nat cs]]
  | None => [None] end.

(* ---- operator== on weighted graphs whose weights are arbitrary doubles (C06): the base-class comparison (same pairs, weights equal as
   doubles: +0 == -0); the running totals are NOT part of it, whatever order the histories used ---- *)
Definition fw_sub (a b : list (nat * nat * dbl)) : bool :=
  forallb (fun kv => match flook (fst kv) b with Some w' => BinarySingleNaN.Beqb (snd kv) w' | None => false end) a.
Definition feq_case (und : bool) (opsA opsB : list fop) : list (list (list Z)) :=
  let a := fw (frun und opsA) in let b := fw (frun und opsB) in
  let e := fw_sub a b && fw_sub b a in
  let z (x : bool) := if x then 1 else 0 in
  [[[z e; z e; z (negb e); z (negb e); 1; 1]]].
