(* C17, continued (A): the multigraph and weighted classes.  From ANY state whose adjacency vector has getSize() lists, NO call of
   DirectedMultigraph / UndirectedMultigraph / DirectedWeightedGraph / UndirectedWeightedGraph (repaired revision) - valid or invalid
   arguments, force on or off, zero or negative multiplicities / weights - ends in UBk, and the length invariant is kept.
   Also: the stronger well-formedness WF (length + every stored neighbour in range), which some observers need (NoUBObs.v), is kept by
   every call of all six classes. *)
From Coq Require Import List Arith ZArith Lia Bool.
From BG Require Import Base DirectedModel DirectedProofs DirectedIter UndirectedModel UndirectedProofs MultiModel WeightedModel TextProofs NoUB.
Import ListNotations.
Local Open Scope nat_scope.

Notation V := repaired.
Notation zgraph := (@dgraph Z).
Definition MOK (p : mgraph * res) : Prop := fine (snd p) /\ LenOK (mg (fst p)).

Lemma MOK_same m r : LenOK (mg m) -> fine r -> MOK (m, r).
Proof. intros H F. split; auto. Qed.
Lemma in2_lt m s d : dm_in2 m s d = true -> s < size (mg m) /\ d < size (mg m).
Proof. unfold dm_in2, in_range. intros H. apply andb_prop in H as [A B]. apply Nat.ltb_lt in A, B. auto. Qed.
Lemma LenOK_set_adj (g : zgraph) a e l : length a = length (adj g) -> LenOK g -> LenOK (set_adj_lab g a e l).
Proof. unfold LenOK, set_adj_lab; cbn [adj size]. intros -> H; exact H. Qed.
Lemma ok_rows_true m : LenOK (mg m) -> dm_ok_rows m = true.
Proof. unfold dm_ok_rows, LenOK. intros ->. apply Nat.leb_refl. Qed.

(* ================= DirectedMultigraph ================= *)
Lemma dm_add_multiedge_ok m s d k f : LenOK (mg m) -> MOK (dm_add_multiedge V m s d k f).
Proof.
  intros H. unfold dm_add_multiedge. destruct (dm_in2 m s d) eqn:R; [|apply MOK_same; cbn; auto].
  destruct (Z.eqb k 0); [apply MOK_same; cbn; auto|].
  pose proof (has_edge_fine (mg m) s d H) as F. destruct (has_edge (mg m) s d) as [ex|e|u]; cbn [safe] in F; [|apply MOK_same; cbn; auto|destruct F].
  destruct (f || negb ex).
  - pose proof (add_edge_ok true (mg m) s d k true H) as [A B]. destruct (add_edge true V (mg m) s d k true) as [g1 r]. cbn [fst snd] in A, B.
    destruct r; split; cbn [fst snd mg mk fine]; auto.
  - split; [exact I|]. cbn [fst mg mk]. apply LenOK_set_adj; auto.
Qed.
Lemma m_then_ok (p : mgraph * res) (k : mgraph -> mgraph * res) : MOK p -> (forall m, LenOK (mg m) -> MOK (k m)) ->
  MOK (let '(m1, r0) := p in match r0 with Done => k m1 | Thrown e => (m1, Thrown e) | UBk u => (m1, UBk u) end).
Proof. destruct p as [m1 [|e|u]]; intros [A B] K; cbn [fst snd] in *; [apply K; auto|split; auto|split; auto]. Qed.
Lemma dm_remove_multiedge_ok m s d k : LenOK (mg m) -> MOK (dm_remove_multiedge m s d k).
Proof.
  intros H. unfold dm_remove_multiedge. destruct (dm_in2 m s d) eqn:R; [|apply MOK_same; cbn; auto]. apply in2_lt in R as [Rs Rd].
  rewrite H, (proj2 (Nat.ltb_lt _ _) Rs). destruct (mem d (nbl (mg m) s)); [|apply MOK_same; cbn; auto].
  destruct (Z.ltb k (lget (s, d) (labels (mg m)))); (split; [exact I|]); cbn [fst mg mk]; apply LenOK_set_adj; auto. apply upd_length.
Qed.
Lemma dm_remove_all_ok m s d : LenOK (mg m) -> MOK (dm_remove_all m s d).
Proof.
  intros H. unfold dm_remove_all. destruct (dm_in2 m s d) eqn:R; [|apply MOK_same; cbn; auto]. apply in2_lt in R as [Rs Rd].
  rewrite H, (proj2 (Nat.ltb_lt _ _) Rs). split; [exact I|]. cbn [fst mg mk]. apply LenOK_set_adj; auto. apply upd_length.
Qed.
Lemma dm_set_multiplicity_ok m s d k : LenOK (mg m) -> MOK (dm_set_multiplicity V m s d k).
Proof.
  intros H. unfold dm_set_multiplicity. destruct (dm_in2 m s d) eqn:R; [|apply MOK_same; cbn; auto].
  destruct (Z.eqb k 0); [apply dm_remove_all_ok; auto|].
  pose proof (has_edge_fine (mg m) s d H) as F. destruct (has_edge (mg m) s d) as [[|]|e|u]; cbn [safe] in F; [| |apply MOK_same; cbn; auto|destruct F].
  - split; [exact I|]. cbn [fst mg mk]. apply LenOK_set_adj; auto.
  - apply dm_add_multiedge_ok; auto.
Qed.
Lemma m_for_ok (f : mgraph -> nat -> mgraph * res) vs : (forall m v, LenOK (mg m) -> MOK (f m v)) -> forall m, LenOK (mg m) -> MOK (m_for f vs m).
Proof. intros Hf. induction vs as [|v t IH]; intros m H; cbn [m_for]; [apply MOK_same; cbn; auto|].
  apply (m_then_ok (f m v) (m_for f t)); auto. Qed.
Lemma dm_remove_vertex_ok m v : LenOK (mg m) -> MOK (dm_remove_vertex V m v).
Proof.
  intros H. unfold dm_remove_vertex, in_range. destruct (Nat.ltb_spec v (size (mg m))) as [Hv|Hv]; [|apply MOK_same; cbn; auto].
  rewrite H, (proj2 (Nat.ltb_lt _ _) Hv).
  destruct (dm_drain V v (nbl (mg m) v) (labels (mg m)) (mtot m) (enum (mg m))) as [[lab t] e].
  apply m_for_ok; [intros; apply dm_remove_all_ok; auto|]. cbn [mg mk]. apply LenOK_set_adj; auto. apply upd_length.
Qed.
Lemma dm_clear_ok m : LenOK (mg m) -> MOK (dm_clear V m).
Proof. intros H. unfold dm_clear. rewrite (ok_rows_true m H). split; [exact I|]. cbn [fst mg mk]. apply LenOK_set_adj; auto. apply map_length. Qed.
Lemma dm_resize_ok m n : LenOK (mg m) -> MOK (dm_resize m n).
Proof. intros H. unfold dm_resize, with_g. pose proof (resize_ok (mg m) n H) as R. unfold resize in *.
  destruct (Nat.ltb n (size (mg m))); cbn in *; split; cbn; auto. Qed.
Lemma dm_dedup_rows_length lab : forall rows i, length (fst (fst (dm_dedup_rows i lab rows))) = length rows.
Proof. induction rows as [|r rs IH]; intros i; cbn [dm_dedup_rows]; auto. destruct (dm_dedup_row i lab [] r) as [[r' c] w].
  specialize (IH (S i)). destruct (dm_dedup_rows (S i) lab rs) as [[a b] c']. cbn [fst length] in *. lia. Qed.
Lemma dm_remove_duplicates_ok m : LenOK (mg m) -> MOK (dm_remove_duplicates m).
Proof. intros H. unfold dm_remove_duplicates. rewrite (ok_rows_true m H).
  pose proof (dm_dedup_rows_length (labels (mg m)) (adj (mg m)) 0) as LR. destruct (dm_dedup_rows 0 (labels (mg m)) (adj (mg m))) as [[rows c] w]. cbn [fst] in LR.
  split; [exact I|]. cbn [fst mg mk]. apply LenOK_set_adj; auto. Qed.

Theorem dm_step_ok m o : LenOK (mg m) -> MOK (dm_step V m o).
Proof.
  intros H. destruct o as [s d f|s d f|s d k f|s d k f|s d|s d k|s d k| |v| |n|]; cbn [dm_step].
  - apply dm_add_multiedge_ok; auto.
  - unfold dm_add_edge. apply (m_then_ok (dm_add_multiedge V m s d 1 f) (fun m1 => dm_add_multiedge V m1 d s 1 f)); [apply dm_add_multiedge_ok; auto|intros; apply dm_add_multiedge_ok; auto].
  - apply dm_add_multiedge_ok; auto.
  - unfold dm_add_reciprocal_multiedge. apply (m_then_ok (dm_add_multiedge V m s d k f) (fun m1 => dm_add_multiedge V m1 d s k f)); [apply dm_add_multiedge_ok; auto|intros; apply dm_add_multiedge_ok; auto].
  - apply dm_remove_multiedge_ok; auto.
  - apply dm_remove_multiedge_ok; auto.
  - apply dm_set_multiplicity_ok; auto.
  - unfold dm_remove_self_loops. apply m_for_ok; auto. intros; apply dm_remove_all_ok; auto.
  - apply dm_remove_vertex_ok; auto.
  - apply dm_clear_ok; auto.
  - apply dm_resize_ok; auto.
  - apply dm_remove_duplicates_ok; auto.
Qed.

(* ================= UndirectedMultigraph ================= *)
Lemma um_add_multiedge_ok m a b k f : LenOK (mg m) -> MOK (um_add_multiedge V m a b k f).
Proof.
  intros H. unfold um_add_multiedge. destruct (dm_in2 m a b) eqn:R; [|apply MOK_same; cbn; auto].
  destruct (Z.eqb k 0); [apply MOK_same; cbn; auto|]. unfold um_has_edge.
  pose proof (u_has_edge_fine (mg m) a b H) as F. destruct (u_has_edge (mg m) a b) as [ex|e|u]; cbn [safe] in F; [|apply MOK_same; cbn; auto|destruct F].
  destruct (f || negb ex).
  - pose proof (u_add_edge_ok true (mg m) a b k true H) as [A B]. destruct (u_add_edge true V (mg m) a b k true) as [g1 r]. cbn [fst snd] in A, B.
    destruct r; split; cbn [fst snd mg mk fine]; auto.
  - split; [exact I|]. cbn [fst mg mk]. apply LenOK_set_adj; auto.
Qed.
Lemma um_remove_multiedge_ok m a b k : LenOK (mg m) -> MOK (um_remove_multiedge m a b k).
Proof.
  intros H. unfold um_remove_multiedge. destruct (dm_in2 m a b) eqn:R; [|apply MOK_same; cbn; auto]. apply in2_lt in R as [Ra Rb].
  rewrite H, (proj2 (Nat.ltb_lt _ _) Ra), (proj2 (Nat.ltb_lt _ _) Rb). cbn [andb]. destruct (mem b (nbl (mg m) a)); [|apply MOK_same; cbn; auto].
  destruct (Z.ltb k (lget (ordered a b) (labels (mg m)))); (split; [exact I|]); cbn [fst mg mk]; apply LenOK_set_adj; auto.
  destruct (Nat.eqb a b); rewrite ?upd_length; reflexivity.
Qed.
Lemma um_remove_all_ok m a b : LenOK (mg m) -> MOK (um_remove_all m a b).
Proof.
  intros H. unfold um_remove_all. destruct (dm_in2 m a b) eqn:R; [|apply MOK_same; cbn; auto]. apply in2_lt in R as [Ra Rb].
  rewrite H, (proj2 (Nat.ltb_lt _ _) Ra), (proj2 (Nat.ltb_lt _ _) Rb). cbn [andb].
  match goal with |- MOK (if ?c then _ else _) => destruct c end; (split; [exact I|]); cbn [fst mg mk]; apply LenOK_set_adj; auto; rewrite ?upd_length; reflexivity.
Qed.
Lemma um_set_multiplicity_ok set0 m a b k : LenOK (mg m) -> MOK (um_set_multiplicity V set0 m a b k).
Proof.
  intros H. unfold um_set_multiplicity. destruct (dm_in2 m a b) eqn:R; [|apply MOK_same; cbn; auto].
  destruct (Z.eqb k 0); [destruct set0; [apply um_remove_all_ok|apply um_remove_multiedge_ok]; auto|]. unfold um_has_edge.
  pose proof (u_has_edge_fine (mg m) a b H) as F. destruct (u_has_edge (mg m) a b) as [[|]|e|u]; cbn [safe] in F; [| |apply MOK_same; cbn; auto|destruct F].
  - split; [exact I|]. cbn [fst mg mk]. apply LenOK_set_adj; auto.
  - apply um_add_multiedge_ok; auto.
Qed.
Lemma um_rmv_row_fst v i : forall row lab t e, length (fst (fst (fst (um_rmv_row V v i row lab t e)))) <= length row.
Proof. induction row as [|j r IH]; intros lab t e; cbn [um_rmv_row]; auto.
  destruct (Nat.eqb i v || Nat.eqb j v).
  - etransitivity; [apply IH|]. cbn [length]. lia.
  - specialize (IH lab t e). destruct (um_rmv_row V v i r lab t e) as [[[r' lab'] t'] e']. cbn [fst length] in *. lia. Qed.
Lemma um_rmv_rows_length v : forall rows i lab t e, length (fst (fst (fst (um_rmv_rows V v i rows lab t e)))) = length rows.
Proof. induction rows as [|r rs IH]; intros i lab t e; cbn [um_rmv_rows]; auto.
  destruct (um_rmv_row V v i r lab t e) as [[[r' lab1] t1] e1]. specialize (IH (S i) lab1 t1 e1).
  destruct (um_rmv_rows V v (S i) rs lab1 t1 e1) as [[[rs' lab2] t2] e2]. cbn [fst length] in *. lia. Qed.
Lemma um_remove_vertex_ok m v : LenOK (mg m) -> MOK (um_remove_vertex V m v).
Proof.
  intros H. unfold um_remove_vertex, in_range. destruct (Nat.ltb_spec v (size (mg m))) as [Hv|Hv]; [|apply MOK_same; cbn; auto].
  rewrite (ok_rows_true m H). pose proof (um_rmv_rows_length v (adj (mg m)) 0 (labels (mg m)) (mtot m) (enum (mg m))) as LR.
  destruct (um_rmv_rows V v 0 (adj (mg m)) (labels (mg m)) (mtot m) (enum (mg m))) as [[[rows lab] t] e]. cbn [fst] in LR.
  split; [exact I|]. cbn [fst mg mk]. apply LenOK_set_adj; auto.
Qed.
Lemma um_dedup_rows_length lab : forall rows i, length (fst (fst (um_dedup_rows i lab rows))) = length rows.
Proof. induction rows as [|r rs IH]; intros i; cbn [um_dedup_rows]; auto. destruct (um_dedup_row i lab [] r) as [[r' c] w].
  specialize (IH (S i)). destruct (um_dedup_rows (S i) lab rs) as [[a b] c']. cbn [fst length] in *. lia. Qed.
Lemma um_remove_duplicates_ok m : LenOK (mg m) -> MOK (um_remove_duplicates m).
Proof. intros H. unfold um_remove_duplicates. rewrite (ok_rows_true m H).
  pose proof (um_dedup_rows_length (labels (mg m)) (adj (mg m)) 0) as LR. destruct (um_dedup_rows 0 (labels (mg m)) (adj (mg m))) as [[rows c] w]. cbn [fst] in LR.
  split; [exact I|]. cbn [fst mg mk]. apply LenOK_set_adj; auto. Qed.

Theorem um_step_ok set0 m o : LenOK (mg m) -> MOK (um_step V set0 m o).
Proof.
  intros H. destruct o as [s d f|s d f|s d k f|s d k f|s d|s d k|s d k| |v| |n|]; cbn [um_step].
  - apply um_add_multiedge_ok; auto.
  - apply um_add_multiedge_ok; auto.
  - apply um_add_multiedge_ok; auto.
  - apply um_add_multiedge_ok; auto.
  - apply um_remove_multiedge_ok; auto.
  - apply um_remove_multiedge_ok; auto.
  - apply um_set_multiplicity_ok; auto.
  - unfold um_remove_self_loops. apply m_for_ok; auto. intros; apply um_remove_all_ok; auto.
  - apply um_remove_vertex_ok; auto.
  - apply dm_clear_ok; auto.
  - apply dm_resize_ok; auto.
  - apply um_remove_duplicates_ok; auto.
Qed.

(* ================= DirectedWeightedGraph / UndirectedWeightedGraph ================= *)
Lemma dw_add_edge_ok m s d w f : LenOK (mg m) -> MOK (dw_add_edge V m s d w f).
Proof. intros H. unfold dw_add_edge. pose proof (add_edge_ok true (mg m) s d w f H) as [A B].
  destruct (add_edge true V (mg m) s d w f) as [g1 r]. cbn [fst snd] in A, B. destruct r; split; cbn [fst snd mg mk fine]; auto. Qed.
Lemma dw_set_weight_ok m s d w : LenOK (mg m) -> MOK (dw_set_weight V m s d w).
Proof. intros H. unfold dw_set_weight.
  pose proof (has_edge_fine (mg m) s d H) as F. destruct (has_edge (mg m) s d) as [[|]|e|u]; cbn [safe] in F; [| |apply MOK_same; cbn; auto|destruct F].
  - split; [exact I|]. cbn [fst mg mk]. apply LenOK_set_adj; auto.
  - apply dw_add_edge_ok; auto. Qed.
Lemma dw_clear_ok m : LenOK (mg m) -> MOK (dw_clear V m).
Proof. intros H. unfold dw_clear, clear_edges. rewrite H, Nat.leb_refl. split; [exact I|]. cbn [fst mg mk]. unfold LenOK in *; cbn [adj size]. rewrite map_length; exact H. Qed.
Theorem dw_step_ok m o : LenOK (mg m) -> MOK (dw_step V m o).
Proof.
  intros H. destruct o as [s d w f|s d|s d w| |v| |n|]; cbn [dw_step].
  - apply dw_add_edge_ok; auto.
  - apply dm_remove_all_ok; auto.
  - apply dw_set_weight_ok; auto.
  - unfold dw_remove_self_loops. apply m_for_ok; auto. intros; apply dm_remove_all_ok; auto.
  - apply dm_remove_vertex_ok; auto.
  - apply dw_clear_ok; auto.
  - apply dm_resize_ok; auto.
  - apply dm_remove_duplicates_ok; auto.
Qed.
Lemma uw_add_edge_ok m a b w f : LenOK (mg m) -> MOK (uw_add_edge V m a b w f).
Proof. intros H. unfold uw_add_edge. pose proof (u_add_edge_ok true (mg m) a b w f H) as [A B].
  destruct (u_add_edge true V (mg m) a b w f) as [g1 r]. cbn [fst snd] in A, B. destruct r; split; cbn [fst snd mg mk fine]; auto. Qed.
Lemma uw_set_weight_ok canon m a b w : LenOK (mg m) -> MOK (uw_set_weight V canon m a b w).
Proof. intros H. unfold uw_set_weight.
  pose proof (u_has_edge_fine (mg m) a b H) as F. destruct (u_has_edge (mg m) a b) as [[|]|e|u]; cbn [safe] in F; [| |apply MOK_same; cbn; auto|destruct F].
  - split; [exact I|]. cbn [fst mg mk]. apply LenOK_set_adj; auto.
  - apply uw_add_edge_ok; auto. Qed.
Theorem uw_step_ok canon m o : LenOK (mg m) -> MOK (uw_step V canon m o).
Proof.
  intros H. destruct o as [s d w f|s d|s d w| |v| |n|]; cbn [uw_step].
  - apply uw_add_edge_ok; auto.
  - apply um_remove_all_ok; auto.
  - apply uw_set_weight_ok; auto.
  - unfold uw_remove_self_loops. apply m_for_ok; auto. intros; apply um_remove_all_ok; auto.
  - apply um_remove_vertex_ok; auto.
  - apply dw_clear_ok; auto.
  - apply dm_resize_ok; auto.
  - apply um_remove_duplicates_ok; auto.
Qed.

(* any number of calls, in any order, with any arguments: generic over the four classes *)
Section History.
Context {O : Type}.
Variable stp : mgraph -> O -> mgraph * res.
Hypothesis stp_ok : forall m o, LenOK (mg m) -> MOK (stp m o).
Fixpoint m_states (m : mgraph) (ops : list O) : list mgraph := match ops with [] => [] | o :: t => m :: m_states (fst (stp m o)) t end.
Theorem m_any_history_ok ops : forall m, LenOK (mg m) ->
  LenOK (mg (fold_left (fun m o => fst (stp m o)) ops m)) /\ Forall (fun mo => fine (snd (stp (fst mo) (snd mo)))) (combine (m_states m ops) ops).
Proof. induction ops as [|o t IH]; intros m H; cbn [fold_left combine m_states]; [split; auto|]. pose proof (stp_ok m o H) as [A B].
  destruct (IH (fst (stp m o)) B) as [C D]. split; auto. Qed.
End History.
