(* C07 after forced calls.  The ordinary spec oracles (DirectedSpec/UndirectedSpec) have no opinion from the first forced call on,
   because forced duplicates and labels forced onto missing edges leave the abstract "set of labelled pairs".  What C07 says about a
   call - accepted, or rejected with which exception - does not depend on any of that: it depends on the number of vertices and on
   whether the pair is present, and both are still determined (ForcedSpec keeps the number of copies of every pair).  So the oracle
   goes on, speaking about the result code alone: a line  Some [[code]; codes_only]  tells the judge to compare the first segment only.
   Definitions only. *)
From Coq Require Import List ZArith Bool.
From BG Require Import Base DirectedModel DirectedSpec UndirectedModel UndirectedSpec ForcedSpec Instances.
Import ListNotations.
Local Open Scope Z_scope.
Definition codes_only : list Z := [-777].
Fixpoint gspec_codes {A O : Type} (rej : A -> O -> option Z) (sstep : A -> O -> A) (a : A) (ops : list (O + nat)) : list (option (list (list Z))) :=
  match ops with
  | [] => []
  | inl o :: t => match rej a o with
                  | None => map (fun _ => None) ops
                  | Some c => Some [[c]; codes_only] :: gspec_codes rej sstep (if Z.eqb c 0 then sstep a o else a) t end
  | inr _ :: t => None :: gspec_codes rej sstep a t end.
Definition or_else {X : Type} (x y : list (option X)) : list (option X) :=
  map (fun p => match fst p with Some v => Some v | None => snd p end) (combine x y).
(* a forced setEdgeLabel with both vertices in range is accepted whatever the graph holds (frej_* say None exactly there) *)
Definition accept_forced {A O : Type} (rej : A -> O -> option Z) (a : A) (o : O) : option Z := match rej a o with None => Some 0 | x => x end.
Definition d_codes (n : nat) (ops : list (@dop Z + nat)) := gspec_codes (accept_forced (frej_d false)) (fstep_d false) (s_init n) ops.
Definition u_codes (n : nat) (ops : list (@uop Z + nat)) := gspec_codes (accept_forced (frej_u true)) (fstep_u true) (s_init n) ops.
Definition d_cspec_trace (hs : bool) (n : nat) (ops : list (@dop Z + nat)) := or_else (d_spec_trace hs n ops) (d_codes n ops).
Definition u_cspec_trace (hs : bool) (n : nat) (ops : list (@uop Z + nat)) := or_else (u_spec_trace hs n ops) (u_codes n ops).
