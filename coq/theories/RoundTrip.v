(* Write-then-load round trips at the level of graphs (directed).  The loaders rebuild the graph with forced insertions in file order,
   the writers enumerate edges() = flatten g: the loaded graph, resized to the original number of vertices, has IDENTICAL adjacency
   lists (same order), the same edge counter and the same label of every edge, and operator== says "equal".
   Part 1: the generic rebuilding argument.  Part 2: the binary format. *)
From Coq Require Import List Arith NArith ZArith Lia Bool.
From BG Require Import Base DirectedModel DirectedProofs DirectedIter DirectedUsers DirectedObs Equality IOModel IOProofs.
Import ListNotations.
Local Open Scope nat_scope.
Local Arguments Z.of_nat : simpl never.

(* the i-th adjacency list denoted by a sequence of insertions *)
Definition sel (i : nat) (es : list edge) : list nat := map snd (filter (fun e => Nat.eqb (fst e) i) es).
Lemma sel_app i a b : sel i (a ++ b) = sel i a ++ sel i b.
Proof. unfold sel. rewrite filter_app, map_app. reflexivity. Qed.
Lemma sel_pairs i k (l : list nat) : sel i (map (pair k) l) = if Nat.eqb k i then l else [].
Proof. unfold sel. induction l as [|x t IH]; cbn [map filter fst]; [destruct (Nat.eqb k i); reflexivity|].
  destruct (Nat.eqb k i) eqn:E; cbn [map snd]; [f_equal|]; exact IH. Qed.

Section Rows.
Context {L : Type}.
Notation dgraph := (@dgraph L).
Implicit Types g h : dgraph.
Lemma sel_rows_out g i : forall k a, (i < a \/ a + k <= i) -> sel i (rows_from g a k) = [].
Proof. unfold rows_from. induction k as [|k IH]; intros a H; cbn [seq flat_map]; auto.
  rewrite sel_app. unfold row at 1. rewrite sel_pairs. destruct (Nat.eqb_spec a i); [lia|]. rewrite IH by lia. reflexivity. Qed.
Lemma sel_rows_in g i : forall k a, a <= i < a + k -> sel i (rows_from g a k) = nb g i.
Proof. unfold rows_from. induction k as [|k IH]; intros a H; cbn [seq flat_map]; [lia|].
  rewrite sel_app. unfold row at 1. rewrite sel_pairs. destruct (Nat.eqb_spec a i) as [->|NE].
  - fold (rows_from g (S i) k). rewrite sel_rows_out by lia. apply app_nil_r.
  - rewrite IH by lia. reflexivity. Qed.
Lemma sel_flatten g i : length (adj g) = size g -> sel i (flatten g) = nb g i.
Proof. intros E. unfold flatten. destruct (Nat.lt_ge_cases i (size g)) as [H|H].
  - apply sel_rows_in. lia.
  - rewrite sel_rows_out by lia. unfold nb. rewrite nth_overflow; auto. lia. Qed.
End Rows.

Section Build.
Context {L : Type}.
Variable hs : bool.
Notation dgraph := (@dgraph L).
Implicit Types g h : dgraph.

(* ---- the two phases of one loader step ---- *)
Definition Grown h (i j : nat) h2 : Prop :=
  length (adj h2) = size h2 /\ size h2 = Nat.max (size h) (S (Nat.max i j)) /\ (forall k, nb h2 k = nb h k) /\ enum h2 = enum h /\ labels h2 = labels h.
Lemma resize_grow h n : length (adj h) = size h -> size h <= n ->
  exists h2, resize h n = (h2, Done) /\ length (adj h2) = n /\ size h2 = n /\ (forall k, nb h2 k = nb h k) /\ enum h2 = enum h /\ labels h2 = labels h.
Proof. intros E Hn. unfold resize. destruct (Nat.ltb_spec n (size h)); [lia|]. eexists; split; [reflexivity|]. cbn [adj size enum labels].
  assert (F : firstn n (adj h) = adj h) by (apply firstn_all2; lia). rewrite F.
  split; [rewrite app_length, repeat_length; lia|]. split; auto. split; auto. intros k. unfold nb; cbn [adj]. apply nth_app_repeat. Qed.
Lemma grown_refl h i j : length (adj h) = size h -> i < size h -> j < size h -> Grown h i j h.
Proof. intros E Hi Hj. split; auto. split; [lia|]. auto. Qed.
(* loadBinaryEdgeList: if (v1 >= size) resize(v1 + 1); if (v2 >= size) resize(v2 + 1) *)
Lemma grow2_spec {B} h i j (k : dgraph -> outcome B) : length (adj h) = size h ->
  exists h2, Grown h i j h2 /\
    obind (if Nat.leb (size h) i then lift (resize h (S i)) else Val h) (fun h1 => obind (if Nat.leb (size h1) j then lift (resize h1 (S j)) else Val h1) k) = k h2.
Proof.
  intros E.
  assert (A : exists h1, (if Nat.leb (size h) i then lift (resize h (S i)) else Val h) = Val h1 /\ length (adj h1) = size h1 /\
            size h1 = Nat.max (size h) (S i) /\ (forall k, nb h1 k = nb h k) /\ enum h1 = enum h /\ labels h1 = labels h).
  { destruct (Nat.leb_spec (size h) i) as [Le|Gt].
    - destruct (resize_grow h (S i) E) as [h1 [R [A1 [A2 [A3 [A4 A5]]]]]]; [lia|]. exists h1. rewrite R. cbn [lift]. repeat split; auto; lia.
    - exists h. repeat split; auto; lia. }
  destruct A as [h1 [R1 [E1 [S1 [N1 [M1 L1]]]]]]. rewrite R1. cbn [obind].
  assert (A : exists h2, (if Nat.leb (size h1) j then lift (resize h1 (S j)) else Val h1) = Val h2 /\ length (adj h2) = size h2 /\
            size h2 = Nat.max (size h1) (S j) /\ (forall k, nb h2 k = nb h1 k) /\ enum h2 = enum h1 /\ labels h2 = labels h1).
  { destruct (Nat.leb_spec (size h1) j) as [Le|Gt].
    - destruct (resize_grow h1 (S j) E1) as [h2 [R [A1 [A2 [A3 [A4 A5]]]]]]; [lia|]. exists h2. rewrite R. cbn [lift]. repeat split; auto; lia.
    - exists h1. repeat split; auto; lia. }
  destruct A as [h2 [R2 [E2 [S2 [N2 [M2 L2]]]]]]. rewrite R2. cbn [obind]. exists h2. split; auto.
  split; auto. split; [lia|]. split; [intros; rewrite N2; auto|]. split; congruence.
Qed.
(* loadTextEdgeList: one resize to max(v1, v2) + 1 *)
Lemma grow1_spec h i j : length (adj h) = size h ->
  exists h2, Grown h i j h2 /\ (if Nat.leb (size h) (Nat.max i j) then lift (resize h (S (Nat.max i j))) else Val h) = Val h2.
Proof.
  intros E. destruct (Nat.leb_spec (size h) (Nat.max i j)) as [Le|Gt].
  - destruct (resize_grow h (S (Nat.max i j)) E) as [h2 [R [A1 [A2 [A3 [A4 A5]]]]]]; [lia|]. exists h2. rewrite R. cbn [lift]. split; auto.
    split; [lia|]. split; [lia|]. auto.
  - exists h. split; auto. apply grown_refl; auto; lia.
Qed.
(* addEdge(v1, v2, label, force = true): no search, the entry is appended *)
Lemma add_forced_spec h i j l : length (adj h) = size h -> i < size h -> j < size h ->
  exists h3, add_edge hs repaired h i j l true = (h3, Done) /\ length (adj h3) = size h3 /\ size h3 = size h /\
    (forall k, nb h3 k = if Nat.eqb k i then nb h i ++ [j] else nb h k) /\ enum h3 = (enum h + 1)%Z /\ labels h3 = set_label hs (i, j) l (labels h).
Proof.
  intros E Hi Hj. unfold add_edge. cbn [v_force_checks repaired]. unfold in_range.
  rewrite (proj2 (Nat.ltb_lt _ _) Hi), (proj2 (Nat.ltb_lt _ _) Hj). cbn [andb]. unfold push_edge. rewrite E, (proj2 (Nat.ltb_lt _ _) Hi).
  eexists; split; [reflexivity|]. cbn [adj size enum labels]. split; [rewrite upd_length; auto|]. split; auto. split; auto.
  intros k. unfold nb; cbn [adj]. rewrite nth_upd by lia. reflexivity.
Qed.

(* ---- what the loader has built after a sequence of records ---- *)
Variable f : edge -> L.        (* the label written with every edge *)
Record Built (es : list edge) h : Prop := {
  b_len : length (adj h) = size h;
  b_nb : forall k, nb h k = sel k es;
  b_enum : enum h = Z.of_nat (length es);
  b_in : forall e, In e es -> fst e < size h /\ snd e < size h;
  b_min : forall n, (forall e, In e es -> fst e < n /\ snd e < n) -> size h <= n;
  b_lab : if hs then forall k, lfind k (labels h) = if existsb (fun e => edge_eqb e k) es then Some (f k) else None else labels h = [];
  b_keys : KeysOK h }.
Lemma built_init : Built [] (init 0).
Proof. constructor; cbn; auto; try tauto.
  - intros [|k]; reflexivity.
  - intros; lia.
  - destruct hs; auto.
  - constructor. Qed.
Lemma built_step es h i j h2 l : Built es h -> Grown h i j h2 -> (hs = true -> l = f (i, j)) ->
  exists h3, add_edge hs repaired h2 i j l true = (h3, Done) /\ Built (es ++ [(i, j)]) h3.
Proof.
  intros B [E2 [S2 [N2 [M2 L2]]]] HL.
  destruct (add_forced_spec h2 i j l E2) as [h3 [A [E3 [S3 [N3 [M3 L3]]]]]]; [lia|lia|].
  exists h3. split; auto. constructor; auto.
  - intros k. rewrite N3, sel_app, !N2, !(b_nb _ _ B).
    assert (S1 : sel k [(i, j)] = if Nat.eqb k i then [j] else []).
    { unfold sel. cbn [filter fst]. rewrite Nat.eqb_sym. destruct (Nat.eqb k i); reflexivity. }
    rewrite S1. destruct (Nat.eqb_spec k i) as [Ek|NE]; [rewrite Ek; reflexivity|rewrite app_nil_r; reflexivity].
  - rewrite M3, M2, (b_enum _ _ B), app_length. cbn [length]. lia.
  - intros e Hin. apply in_app_or in Hin as [Hin|[<-|[]]].
    + apply (b_in _ _ B) in Hin. lia.
    + cbn [fst snd]. lia.
  - intros n Hn. rewrite S3, S2.
    assert (size h <= n) by (apply (b_min _ _ B); intros e He; apply Hn, in_or_app; auto).
    destruct (Hn (i, j)) as [X Y]; [apply in_or_app; right; left; reflexivity|]. cbn [fst snd] in X, Y. lia.
  - pose proof (b_lab _ _ B) as BL. rewrite L3, L2. unfold set_label. destruct hs; auto.
    rewrite (HL eq_refl). intros k. rewrite lfind_lset, existsb_app. cbn [existsb]. rewrite orb_false_r, BL.
    destruct (edge_eqb_spec (i, j) k) as [<-|NE]; [rewrite orb_true_r; reflexivity|rewrite orb_false_r; reflexivity].
  - unfold KeysOK. rewrite L3, L2. apply keys_set_label. apply (b_keys _ _ B).
Qed.

(* ---- after the records of flatten g: resizing to size g gives g back ---- *)
Lemma built_final (leqb : L -> L -> bool) g h : (forall x, leqb x x = true) -> Inv hs g -> KeysOK g -> Built (flatten g) h ->
  (forall e l, lfind e (labels g) = Some l -> f e = l) ->
  size h <= size g /\
  exists h', resize h (size g) = (h', Done) /\ adj h' = adj g /\ size h' = size g /\ enum h' = enum g /\
    (forall e, lfind e (labels h') = lfind e (labels g)) /\ labels h' = labels h /\ KeysOK h' /\ Inv hs h' /\ graph_eqb leqb h' g = Val true.
Proof.
  intros RF I K B FL.
  assert (RNG : forall e, In e (flatten g) -> fst e < size g /\ snd e < size g).
  { intros [i j] Hin. apply DirectedUsers.In_flatten in Hin as [_ Hin]. apply (i_rng _ _ I) in Hin. exact Hin. }
  assert (SZ : size h <= size g) by (apply (b_min _ _ B); exact RNG). split; auto.
  destruct (resize_grow h (size g) (b_len _ _ B) SZ) as [h' [R [E' [S' [N' [M' L']]]]]].
  exists h'. split; auto.
  assert (ADJ : adj h' = adj g).
  { apply (nth_ext _ _ [] []); [rewrite E', (i_len _ _ I); reflexivity|]. intros k _. change (nb h' k = nb g k).
    rewrite N', (b_nb _ _ B). apply sel_flatten. apply (i_len _ _ I). }
  assert (EN : enum h' = enum g).
  { rewrite M', (b_enum _ _ B), (i_enum _ _ I). apply (length_flatten hs g I). }
  assert (LF : forall e, lfind e (labels h') = lfind e (labels g)).
  { intros e. rewrite L'. pose proof (b_lab _ _ B) as BL. pose proof (i_lab _ _ I) as IL. destruct hs.
    - rewrite BL. destruct e as [i j]. destruct (lfind (i, j) (labels g)) as [l|] eqn:F.
      + assert (In j (nb g i)) as Hin by (apply IL; congruence).
        replace (existsb (fun e => edge_eqb e (i, j)) (flatten g)) with true; [rewrite (FL _ _ F); reflexivity|].
        symmetry. apply existsb_exists. exists (i, j). split; [|apply edge_eqb_refl]. apply DirectedUsers.In_flatten. split; auto. apply (i_rng _ _ I) in Hin. lia.
      + replace (existsb (fun e => edge_eqb e (i, j)) (flatten g)) with false; auto.
        symmetry. apply not_true_is_false. rewrite existsb_exists. intros [x [Hx Ex]]. destruct (edge_eqb_spec x (i, j)) as [->|]; [|discriminate].
        apply DirectedUsers.In_flatten in Hx as [_ Hx]. apply IL in Hx. congruence.
    - rewrite BL, IL. reflexivity. }
  assert (K' : KeysOK h') by (unfold KeysOK; rewrite L'; apply (b_keys _ _ B)).
  assert (I' : Inv hs h').
  { constructor.
    - rewrite E', S'. reflexivity.
    - intros i. unfold nb. rewrite ADJ. apply (i_nodup _ _ I).
    - intros i j. unfold nb. rewrite ADJ, S'. apply (i_rng _ _ I).
    - rewrite EN, ADJ. apply (i_enum _ _ I).
    - pose proof (b_lab _ _ B) as BL. pose proof (i_lab _ _ I) as IL. destruct hs; [|rewrite L'; exact BL].
      intros i j. rewrite LF. unfold nb. rewrite ADJ. apply IL. }
  repeat (split; auto).
  destruct (graph_eqb_spec leqb hs h' g I' I K' K) as [b [Eb Hb]]. rewrite Eb. f_equal. apply Hb.
  split; auto. split.
  - intros i j. unfold nb. rewrite ADJ. tauto.
  - intros e v v' F1 F2. rewrite LF in F1. rewrite F1 in F2. injection F2 as <-. apply RF.
Qed.
(* the loaded graph itself (before the resize) is g cut after the last vertex that has an edge *)
Lemma built_prefix g h : length (adj g) = size g -> Built (flatten g) h -> size h <= size g -> adj h = firstn (size h) (adj g).
Proof. intros E B SZ. apply (nth_ext _ _ [] []); [rewrite firstn_length, (b_len _ _ B); lia|]. intros k Hk. rewrite (b_len _ _ B) in Hk.
  change (nb h k = nth k (firstn (size h) (adj g)) []). rewrite (b_nb _ _ B), sel_flatten by auto.
  unfold nb. rewrite <- (firstn_skipn (size h) (adj g)) at 1. rewrite app_nth1; auto. rewrite firstn_length; lia. Qed.
End Build.

(* =================== the binary format, directed =================== *)
Section Binary.
Notation dgraph := (@dgraph N).
Implicit Types g h : dgraph.
Variable w : nat.              (* sizeof(EdgeLabel); 0 for unlabelled graphs *)
Notation hs := (hs_of w).

(* the label field of the record of edge e *)
Definition blab g (e : edge) : N := if Nat.eqb w 0 then 0%N else match lfind e (labels g) with Some l => l | None => 0%N end.
Definition brec g (e : edge) : brecord := (N.of_nat (fst e), N.of_nat (snd e), blab g e).
Definition bstep (acc : outcome dgraph) (r : brecord) : outcome dgraph :=
  obind acc (fun h => let '(s, d, l) := r in
     let i := N.to_nat s in let j := N.to_nat d in
     obind (if Nat.leb (size h) i then DirectedModel.lift (resize h (S i)) else Val h) (fun h1 =>
     obind (if Nat.leb (size h1) j then DirectedModel.lift (resize h1 (S j)) else Val h1) (fun h2 => b_add repaired false w h2 i j l))).
Lemma build_graph_fold rs : build_graph repaired false w rs = fold_left bstep rs (Val (init 0)).
Proof. reflexivity. Qed.

Lemma build_records g : forall es es0 h, Built hs (blab g) es0 h ->
  exists h', fold_left bstep (map (brec g) es) (Val h) = Val h' /\ Built hs (blab g) (es0 ++ es) h'.
Proof.
  induction es as [|[i j] es IH]; intros es0 h B; cbn [map fold_left].
  - exists h. rewrite app_nil_r. auto.
  - unfold bstep at 2, brec at 2. cbn [obind fst snd]. rewrite !Nat2N.id.
    destruct (grow2_spec h i j (fun h2 => b_add repaired false w h2 i j (blab g (i, j))) (b_len _ _ _ _ B)) as [h2 [G E]].
    rewrite E. destruct (built_step hs (blab g) es0 h i j h2 (blab g (i, j)) B G (fun _ => eq_refl)) as [h3 [A B3]].
    unfold b_add. rewrite A. cbn [lift]. destruct (IH (es0 ++ [(i, j)]) h3 B3) as [h' [F B']]. exists h'. split; auto.
    rewrite <- app_assoc in B'. exact B'.
Qed.

(* the writer emits the record of every edge of edges(), in that order *)
Lemma records_of_val g : Inv hs g -> records_of repaired false w g = Val (map (brec g) (flatten g)).
Proof.
  intros I. unfold records_of. rewrite (iterate_flatten g (i_len _ _ I)). cbn [obind].
  apply omapM_val. intros [i j] Hin. cbn [fst snd]. unfold brec, blab. cbn [fst snd].
  destruct (Nat.eqb w 0) eqn:W; [reflexivity|].
  apply DirectedUsers.In_flatten in Hin as [_ Hin]. pose proof (i_rng _ _ I _ _ Hin) as [Hi Hj].
  unfold get_label, in_range. rewrite (proj2 (Nat.ltb_lt _ _) Hi), (proj2 (Nat.ltb_lt _ _) Hj). cbn [andb].
  pose proof (i_lab _ _ I) as IL. unfold hs_of in IL. rewrite W in IL. cbn [negb] in IL.
  destruct (lfind (i, j) (labels g)) as [l|] eqn:F; [reflexivity|]. exfalso. apply (proj2 (IL i j)); auto.
Qed.

Definition fits g : Prop := (N.of_nat (size g) <= 256 ^ 4)%N /\ forall e l, lfind e (labels g) = Some l -> (l < 256 ^ N.of_nat w)%N.
Lemma brec_ok g : Inv hs g -> fits g -> Forall (rec_ok w) (map (brec g) (flatten g)).
Proof.
  intros I [FS FL]. apply Forall_forall. intros r Hr. apply in_map_iff in Hr as [[i j] [<- Hin]].
  apply DirectedUsers.In_flatten in Hin as [_ Hin]. pose proof (i_rng _ _ I _ _ Hin) as [Hi Hj].
  unfold brec, rec_ok. cbn [fst snd]. split; [lia|]. split; [lia|]. unfold blab.
  assert (P : (0 < 256 ^ N.of_nat w)%N) by (apply N.neq_0_lt_0, N.pow_nonzero; discriminate).
  destruct (Nat.eqb w 0); auto. destruct (lfind (i, j) (labels g)) as [l|] eqn:F; auto. apply (FL _ _ F).
Qed.

(* (A) *)
Theorem binary_round_trip_directed g : Inv hs g -> KeysOK g -> fits g ->
  exists b h h',
    write_binary repaired false w g = Val b /\ b = enc_records w (map (brec g) (flatten g)) /\
    load_binary repaired false w b = Val h /\ build_graph repaired false w (map (brec g) (flatten g)) = Val h /\
    size h <= size g /\ adj h = firstn (size h) (adj g) /\
    resize h (size g) = (h', Done) /\
    adj h' = adj g /\ size h' = size g /\ enum h' = enum g /\ (forall e, lfind e (labels h') = lfind e (labels g)) /\ KeysOK h' /\ Inv hs h' /\
    graph_eqb N.eqb h' g = Val true.
Proof.
  intros I K FT.
  destruct (build_records g (flatten g) [] (init 0) (built_init hs (blab g))) as [h [F B]]. cbn [app] in B.
  assert (FL : forall e l, lfind e (labels g) = Some l -> blab g e = l).
  { intros e l Fe. unfold blab. rewrite Fe. destruct (Nat.eqb w 0) eqn:W; auto.
    pose proof (i_lab _ _ I) as IL. unfold hs_of in IL. rewrite W in IL. cbn [negb] in IL. rewrite IL in Fe. discriminate. }
  destruct (built_final hs (blab g) N.eqb g h N.eqb_refl I K B FL) as [SZ [h' [R [A1 [A2 [A3 [A4 [A5 [A6 [A7 A8]]]]]]]]]].
  exists (enc_records w (map (brec g) (flatten g))), h, h'.
  split; [unfold write_binary; rewrite (records_of_val g I); reflexivity|]. split; auto.
  split; [rewrite load_binary_whole by (apply brec_ok; auto); rewrite build_graph_fold; exact F|].
  split; [rewrite build_graph_fold; exact F|]. split; auto.
  split; [apply (built_prefix hs (blab g)); auto; apply (i_len _ _ I)|].
  repeat (split; auto).
Qed.
End Binary.
