(* Executable model of LabeledUndirectedGraph<L> (include/BaseGraph/undirected_graph.hpp) on the same record as the directed model. *)
From BG Require Import Base DirectedModel.
Local Open Scope Z_scope.

Section Undirected.
Context {L : Type}.
Variable leqb : L -> L -> bool.
Variable ldef : L.
Variable lcode : L -> Z.
Variable lalpha : list L.
Variable has_store : bool.
Variable V : variant.
Notation dgraph := (@dgraph L).

Definition ordered (i j : nat) : edge := if Nat.ltb i j then (i, j) else (j, i).          (* orderedEdge *)
Definition u_has_edge (g : dgraph) (a b : nat) : outcome bool := let e := ordered a b in has_edge g (fst e) (snd e).
Definition u_get_label (g : dgraph) (a b : nat) (throw : bool) : outcome L := let e := ordered a b in get_label ldef has_store g (fst e) (snd e) throw.
Definition u_has_edge_l (g : dgraph) (a b : nat) (l : L) : outcome bool :=
  match u_has_edge g a b with
  | Val true => match u_get_label g a b false with Val l' => Val (leqb l' l) | Raise e => Raise e | Undef k => Undef k end
  | o => o end.
Definition u_degree (g : dgraph) (v : nat) (twice : bool) : outcome nat :=
  match out_neighbours g v with
  | Val l => Val (if twice then fold_right (fun x acc => ((if Nat.eqb x v then 2 else 1) + acc)%nat) 0%nat l else length l)
  | Raise e => Raise e | Undef k => Undef k end.

Definition u_push (g : dgraph) (a b : nat) (l : L) : dgraph * res :=
  if Nat.ltb a (length (adj g)) && Nat.ltb b (length (adj g)) then
    let adj1 := if Nat.eqb a b then adj g else upd a (fun x => x ++ [b]) (adj g) in
    ({| adj := upd b (fun x => x ++ [a]) adj1; size := size g; enum := enum g + 1;
        labels := set_label has_store (ordered a b) l (labels g) |}, Done)
  else (g, UBk IndexOOB).
Definition u_add_edge (g : dgraph) (a b : nat) (l : L) (force : bool) : dgraph * res :=
  if force then
    if v_force_checks V then (if in_range g a && in_range g b then u_push g a b l else (g, Thrown OutOfRange)) else u_push g a b l
  else match u_has_edge g a b with
       | Val true => (g, Done) | Val false => u_push g a b l | Raise e => (g, Thrown e) | Undef k => (g, UBk k) end.
Definition u_remove_edge (g : dgraph) (a b : nat) : dgraph * res :=
  if in_range g a && in_range g b then
    if Nat.ltb a (length (adj g)) && Nat.ltb b (length (adj g)) then
      let before := nth a (adj g) [] in let after := remove_all b before in
      let diff := (Z.of_nat (length before) - Z.of_nat (length after)) in
      let adj1 := upd a (fun _ => after) (adj g) in
      if Z.ltb 0 diff then
        ({| adj := upd b (fun x => remove_all a x) adj1; size := size g; enum := enum g - diff; labels := lerase (ordered a b) (labels g) |}, Done)
      else ({| adj := adj1; size := size g; enum := enum g; labels := labels g |}, Done)
    else (g, UBk IndexOOB)
  else (g, Thrown OutOfRange).
Definition u_remove_self_loops (g : dgraph) : dgraph * res := for_vertices (fun g i => u_remove_edge g i i) (seq 0 (size g)) g.
Definition u_set_edge_label (g : dgraph) (a b : nat) (l : L) (force : bool) : dgraph * res :=
  let e := ordered a b in set_edge_label has_store g (fst e) (snd e) l force.
(* removeVertexFromEdgeList: one pass over every list, erasing entries with i = v or j = v, counting on the i <= j half *)
Definition u_rmv_row (v i : nat) (row : list nat) : list nat * Z * list edge :=
  let hit j := Nat.eqb i v || Nat.eqb j v in
  (filter (fun j => negb (hit j)) row,
   Z.of_nat (length (filter (fun j => hit j && Nat.leb i j) row)),
   map (fun j => ordered i j) (filter hit row)).
Fixpoint u_rmv_rows (v i : nat) (rows : list (list nat)) : list (list nat) * Z * list edge :=
  match rows with [] => ([], 0, []) | r :: rs =>
    let '(r', c, es) := u_rmv_row v i r in let '(rs', c', es') := u_rmv_rows v (S i) rs in (r' :: rs', c + c', es ++ es') end.
Definition u_remove_vertex (g : dgraph) (v : nat) : dgraph * res :=
  if in_range g v then
    if Nat.leb (size g) (length (adj g)) then
      let '(rows, c, es) := u_rmv_rows v 0 (adj g) in
      ({| adj := rows; size := size g; enum := enum g - c;
          labels := if v_rmv_labels V then fold_left (fun m e => lerase e m) es (labels g) else labels g |}, Done)
    else (g, UBk IndexOOB)
  else (g, Thrown OutOfRange).

(* removeDuplicateEdges: per list keep first occurrences; the edge count drops once per removed entry on the i <= j half *)
Fixpoint u_dedup (i : nat) (seen : list nat) (l : list nat) : list nat * Z :=
  match l with [] => ([], 0)
  | x :: t => if mem x seen then let '(r, c) := u_dedup i seen t in (r, (if Nat.leb i x then 1 else 0) + c)
              else let '(r, c) := u_dedup i (x :: seen) t in (x :: r, c) end.
Fixpoint u_dedup_rows (i : nat) (rows : list (list nat)) : list (list nat) * Z :=
  match rows with [] => ([], 0) | r :: rs => let '(r', c) := u_dedup i [] r in let '(rs', c') := u_dedup_rows (S i) rs in (r' :: rs', c + c') end.
Definition u_remove_duplicates (g : dgraph) : dgraph * res :=
  if Nat.leb (size g) (length (adj g)) then
    let '(rows, c) := u_dedup_rows 0 (adj g) in ({| adj := rows; size := size g; enum := enum g - c; labels := labels g |}, Done)
  else (g, UBk IndexOOB).

(* ---- edges(): same begin()/end() as the directed cursor; operator++ additionally skips the half-edges with vertex > neighbour ---- *)
Fixpoint u_next_loop (fuel : nat) (g : dgraph) (c : cursor) : outcome cursor :=
  obind (skip_empty (size g) g {| cv := cv c; cpos := S (cpos c) |}) (fun c' =>
  obind (out_neighbours g (cv c')) (fun l =>
    if Nat.eqb (cpos c') (length l) && Nat.eqb (cv c') (end_vertex g) then Val c'                     (* hasReachedEnd *)
    else match nth_error l (cpos c') with
         | None => Undef DerefEnd
         | Some j => if Nat.ltb j (cv c') then match fuel with O => Undef Fuel | S f => u_next_loop f g c' end else Val c' end)).
Definition u_cursor_next (g : dgraph) (c : cursor) : outcome cursor := u_next_loop (entries g) g c.
Definition u_iterate (g : dgraph) : outcome (list edge) :=
  obind (edges_begin V g) (fun b => obind (edges_end V g) (fun e => iter_loop u_cursor_next (S (entries g)) g b e)).

(* ---- degrees, adjacency matrix ---- *)
Definition u_degrees (g : dgraph) (twice : bool) : outcome (list nat) := omapM (fun i => u_degree g i twice) (seq 0 (size g)).
Definition u_matrix_row (i n : nat) (twice : bool) (l : list nat) : outcome (list nat) :=
  fold_left (fun acc j => obind acc (fun row => match nth_error row j with None => Undef IndexOOB
      | Some x => Val (upd j (fun _ => (x + (if Nat.eqb i j && twice then 2 else 1))%nat) row) end)) l (Val (repeat 0%nat n)).
Definition u_adjacency_matrix (g : dgraph) (twice : bool) : outcome (list (list nat)) :=
  omapM (fun i => obind (out_neighbours g i) (u_matrix_row i (size g) twice)) (seq 0 (size g)).

(* ---- conversions ---- *)
Definition lift (r : dgraph * res) : outcome dgraph := match r with (g, Done) => Val g | (_, Thrown e) => Raise e | (_, UBk k) => Undef k end.
(* getDirectedGraph: both orientations of each edge (one for a loop), forced, carrying the edge's label (pinned: EdgeLabel() for non-loops) *)
Definition to_directed (keep_label : bool) (g : dgraph) : outcome dgraph :=
  obind (u_iterate g) (fun es =>
    fold_left (fun acc e => obind acc (fun h =>
      let '(i, j) := e in
      if Nat.ltb i j then
        obind (if keep_label then u_get_label g i j true else Val ldef) (fun l => lift (add_reciprocal has_store V h i j l true))
      else if Nat.eqb i j then obind (u_get_label g i j true) (fun l => lift (add_edge has_store V h i j l true))
      else Val h)) es (Val (init (size g)))).
(* LabeledUndirectedGraph(const Directed&) *)
Definition of_directed (d : dgraph) : outcome dgraph :=
  fold_left (fun acc i => obind acc (fun h => obind (out_neighbours d i) (fun l =>
     fold_left (fun acc2 j => obind acc2 (fun h2 => obind (get_label ldef has_store d i j true) (fun lb => lift (u_add_edge h2 i j lb false)))) l (Val h))))
    (seq 0 (size d)) (Val (init (size d))).
Definition u_of_edge_list (es : list (nat * nat * L)) : outcome dgraph :=
  fold_left (fun acc e => obind acc (fun h => let '(i, j, l) := e in
     let m := Nat.max i j in
     obind (if Nat.leb (size h) m then lift (resize h (S m)) else Val h) (fun h1 => lift (u_add_edge h1 i j l false)))) es (Val (init 0)).

(* ---- observations: 0 size/edge count, 1 hasEdge (all ordered pairs), 2 neighbour multisets, 3 labels, 4 hasEdge(i,j,l),
   5 degrees (single calls and vectors, both conventions), 6 adjacency matrix (both conventions), 7 edges() ---- *)
Definition u_observe (g : dgraph) : list (list Z) :=
  let n := size g in let vs := seq 0 n in
  [ [zn n; enum g];
    map (fun e => zout zbool (u_has_edge g (fst e) (snd e))) (pairs n);
    flat_map (fun i => zvec zn n (omap (fun l => map (fun j => count j l) vs) (out_neighbours g i))) vs;
    flat_map (fun e => [zout lcode (u_get_label g (fst e) (snd e) false); zout (fun _ => 1) (u_get_label g (fst e) (snd e) true)]) (pairs n);
    flat_map (fun e => map (fun l => zout zbool (u_has_edge_l g (fst e) (snd e) l)) lalpha) (pairs n);
    map (fun i => zout zn (u_degree g i true)) vs ++ map (fun i => zout zn (u_degree g i false)) vs ++ zvec zn n (u_degrees g true) ++ zvec zn n (u_degrees g false);
    flat_map (fun tw => match u_adjacency_matrix g tw with Val m => map zn (concat m) | Raise e => repeat (zexn e) (n * n) | Undef _ => repeat zub (n * n) end) [true; false];
    match u_iterate g with Val es => zn (length es) :: map (fun e => zn (length (filter (edge_eqb e) es))) (pairs n) | Raise e => repeat (zexn e) (S (n * n)) | Undef _ => repeat zub (S (n * n)) end;
    iter_segment V g ].

Inductive uop :=
| UAdd (a b : nat) (l : L) (force : bool) | URemove (a b : nat) | USelfLoops | URemoveVertex (v : nat) | UClear | UResize (n : nat)
| USetLabel (a b : nat) (l : L) (force : bool) | URemoveDuplicates.
Definition ustep (g : dgraph) (o : uop) : dgraph * res :=
  match o with
  | UAdd a b l f => u_add_edge g a b l f | URemove a b => u_remove_edge g a b | USelfLoops => u_remove_self_loops g
  | URemoveVertex v => u_remove_vertex g v | UClear => clear_edges V g | UResize n => resize g n | USetLabel a b l f => u_set_edge_label g a b l f | URemoveDuplicates => u_remove_duplicates g end.
Fixpoint urun (g : dgraph) (ops : list uop) : dgraph * res :=
  match ops with [] => (g, Done) | o :: ops' => match ustep g o with (g1, Done) => urun g1 ops' | r => r end end.
Fixpoint u_trace (g : dgraph) (ops : list uop) : list (list (list Z)) :=
  match ops with [] => [] | o :: ops' =>
    let '(g1, r) := ustep g o in ([zres r] :: u_observe g1) :: match r with UBk _ => [] | _ => u_trace g1 ops' end end.
End Undirected.

(* sanity: the model reproduces the pinned behaviour seen on the real code *)
Example u_pinned_rmv_stale :
  let '(g, r) := urun true pinned (init 3) [UAdd 0 1 7%Z false; UAdd 2 0 9%Z false; URemoveVertex 0] in
  r = Done /\ enum g = 0%Z /\ u_get_label 0%Z true g 0 1 false = Val 7%Z /\ u_get_label 0%Z true g 2 0 false = Val 9%Z.
Proof. vm_compute. auto. Qed.
Example u_repaired_rmv_clean :
  let '(g, r) := urun true repaired (init 3) [UAdd 0 1 7%Z false; UAdd 2 0 9%Z false; URemoveVertex 0] in
  r = Done /\ enum g = 0%Z /\ u_get_label 0%Z true g 0 1 true = Raise InvalidArgument /\ labels g = [].
Proof. vm_compute. auto. Qed.
