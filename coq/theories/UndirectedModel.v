(* Executable model of LabeledUndirectedGraph<L> (include/BaseGraph/undirected_graph.hpp) on the same record as the directed model. *)
From BG Require Import Base DirectedModel.
Local Open Scope Z_scope.

Section Undirected.
Context {L : Type}.
Variable leqb : L -> L -> bool.
Variable ldef : L.
Variable has_store : bool.
Variable V : variant.
Notation dgraph := (@dgraph L).

Definition ordered (i j : nat) : edge := if Nat.ltb i j then (i, j) else (j, i).          (* orderedEdge *)
Definition u_has_edge (g : dgraph) (a b : nat) : outcome bool := let e := ordered a b in has_edge g (fst e) (snd e).
Definition u_get_label (g : dgraph) (a b : nat) (throw : bool) : outcome L := let e := ordered a b in get_label ldef has_store g (fst e) (snd e) throw.
Definition u_has_edge_l (g : dgraph) (a b : nat) (l : L) : outcome bool :=
  match u_has_edge g a b with
  | Val true => match u_get_label g a b false with Val l' => Val (leqb l' l) | Raise e => Raise e | Undef k => Undef k end
  | o => o end.
Definition u_degree (g : dgraph) (v : nat) (twice : bool) : outcome nat :=
  match out_neighbours g v with
  | Val l => Val (if twice then fold_right (fun x acc => ((if Nat.eqb x v then 2 else 1) + acc)%nat) 0%nat l else length l)
  | Raise e => Raise e | Undef k => Undef k end.

Definition u_push (g : dgraph) (a b : nat) (l : L) : dgraph * res :=
  if Nat.ltb a (length (adj g)) && Nat.ltb b (length (adj g)) then
    let adj1 := if Nat.eqb a b then adj g else upd a (fun x => x ++ [b]) (adj g) in
    ({| adj := upd b (fun x => x ++ [a]) adj1; size := size g; enum := enum g + 1;
        labels := set_label has_store (ordered a b) l (labels g) |}, Done)
  else (g, UBk IndexOOB).
Definition u_add_edge (g : dgraph) (a b : nat) (l : L) (force : bool) : dgraph * res :=
  if force then
    if v_force_checks V then (if in_range g a && in_range g b then u_push g a b l else (g, Thrown OutOfRange)) else u_push g a b l
  else match u_has_edge g a b with
       | Val true => (g, Done) | Val false => u_push g a b l | Raise e => (g, Thrown e) | Undef k => (g, UBk k) end.
Definition u_remove_edge (g : dgraph) (a b : nat) : dgraph * res :=
  if in_range g a && in_range g b then
    if Nat.ltb a (length (adj g)) && Nat.ltb b (length (adj g)) then
      let before := nth a (adj g) [] in let after := remove_all b before in
      let diff := (Z.of_nat (length before) - Z.of_nat (length after)) in
      let adj1 := upd a (fun _ => after) (adj g) in
      if Z.ltb 0 diff then
        ({| adj := upd b (fun x => remove_all a x) adj1; size := size g; enum := enum g - diff; labels := lerase (ordered a b) (labels g) |}, Done)
      else ({| adj := adj1; size := size g; enum := enum g; labels := labels g |}, Done)
    else (g, UBk IndexOOB)
  else (g, Thrown OutOfRange).
Definition u_remove_self_loops (g : dgraph) : dgraph * res := for_vertices (fun g i => u_remove_edge g i i) (seq 0 (size g)) g.
Definition u_set_edge_label (g : dgraph) (a b : nat) (l : L) (force : bool) : dgraph * res :=
  let e := ordered a b in set_edge_label has_store g (fst e) (snd e) l force.
(* removeVertexFromEdgeList: one pass over every list, erasing entries with i = v or j = v, counting on the i <= j half *)
Definition u_rmv_row (v i : nat) (row : list nat) : list nat * Z * list edge :=
  let hit j := Nat.eqb i v || Nat.eqb j v in
  (filter (fun j => negb (hit j)) row,
   Z.of_nat (length (filter (fun j => hit j && Nat.leb i j) row)),
   map (fun j => ordered i j) (filter hit row)).
Fixpoint u_rmv_rows (v i : nat) (rows : list (list nat)) : list (list nat) * Z * list edge :=
  match rows with [] => ([], 0, []) | r :: rs =>
    let '(r', c, es) := u_rmv_row v i r in let '(rs', c', es') := u_rmv_rows v (S i) rs in (r' :: rs', c + c', es ++ es') end.
Definition u_remove_vertex (g : dgraph) (v : nat) : dgraph * res :=
  if in_range g v then
    if Nat.leb (size g) (length (adj g)) then
      let '(rows, c, es) := u_rmv_rows v 0 (adj g) in
      ({| adj := rows; size := size g; enum := enum g - c;
          labels := if v_rmv_labels V then fold_left (fun m e => lerase e m) es (labels g) else labels g |}, Done)
    else (g, UBk IndexOOB)
  else (g, Thrown OutOfRange).

Inductive uop :=
| UAdd (a b : nat) (l : L) (force : bool) | URemove (a b : nat) | USelfLoops | URemoveVertex (v : nat) | UClear | UResize (n : nat)
| USetLabel (a b : nat) (l : L) (force : bool).
Definition ustep (g : dgraph) (o : uop) : dgraph * res :=
  match o with
  | UAdd a b l f => u_add_edge g a b l f | URemove a b => u_remove_edge g a b | USelfLoops => u_remove_self_loops g
  | URemoveVertex v => u_remove_vertex g v | UClear => clear_edges V g | UResize n => resize g n | USetLabel a b l f => u_set_edge_label g a b l f end.
Fixpoint urun (g : dgraph) (ops : list uop) : dgraph * res :=
  match ops with [] => (g, Done) | o :: ops' => match ustep g o with (g1, Done) => urun g1 ops' | r => r end end.
End Undirected.

(* sanity: the model reproduces the pinned behaviour seen on the real code *)
Example u_pinned_rmv_stale :
  let '(g, r) := urun true pinned (init 3) [UAdd 0 1 7%Z false; UAdd 2 0 9%Z false; URemoveVertex 0] in
  r = Done /\ enum g = 0%Z /\ u_get_label 0%Z true g 0 1 false = Val 7%Z /\ u_get_label 0%Z true g 2 0 false = Val 9%Z.
Proof. vm_compute. auto. Qed.
Example u_repaired_rmv_clean :
  let '(g, r) := urun true repaired (init 3) [UAdd 0 1 7%Z false; UAdd 2 0 9%Z false; URemoveVertex 0] in
  r = Done /\ enum g = 0%Z /\ u_get_label 0%Z true g 0 1 true = Raise InvalidArgument /\ labels g = [].
Proof. vm_compute. auto. Qed.
