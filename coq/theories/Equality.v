(* C06: operator== of the model (sizes, cached edge numbers, label maps, mutual inclusion of adjacency) decides exactly
   "same vertices, same edges, equal labels" on graphs that satisfy the invariant. *)
From BG Require Import Base DirectedModel DirectedProofs DirectedIter DirectedUsers DirectedSpec DirectedRefine DirectedObs.
Local Open Scope Z_scope.
Local Arguments Z.of_nat : simpl never.

Section Eq.
Context {L : Type}.
Variable leqb : L -> L -> bool.
Variable has_store : bool.
Notation dgraph := (@dgraph L).
Implicit Types g h : dgraph.
Notation Inv := (Inv has_store).

(* the label store keeps its keys unique (it is a map) *)
Definition KeysOK g : Prop := NoDup (map fst (labels g)).
Lemma NoDup_keys_lerase e (m : @lmap L) : NoDup (map fst m) -> NoDup (map fst (lerase e m)).
Proof. unfold lerase. induction m as [|[k v] m IH]; simpl; intros H; [constructor|]. inversion H; subst.
  destruct (edge_eqb k e); simpl; auto. constructor; auto. intros X. apply H2.
  apply in_map_iff in X as [[k' v'] [E X]]. simpl in E; subst. apply filter_In in X as [X _]. apply in_map_iff. exists (k, v'); auto. Qed.
Lemma NoDup_keys_lset e l (m : @lmap L) : NoDup (map fst m) -> NoDup (map fst (lset e l m)).
Proof. intros H. unfold lset; simpl. constructor; [|apply NoDup_keys_lerase; auto].
  intros X. apply in_map_iff in X as [[k' v'] [E X]]. simpl in E; subst. apply filter_In in X as [_ X]. simpl in X. rewrite edge_eqb_refl in X. discriminate. Qed.
Lemma lfind_In_nodup (m : @lmap L) e v : NoDup (map fst m) -> (lfind e m = Some v <-> In (e, v) m).
Proof. induction m as [|[k w] m IH]; simpl; intros H; [split; [discriminate|tauto]|]. inversion H; subst.
  destruct (edge_eqb_spec k e) as [->|Ne].
  - split; [intros X; injection X as ->; auto|]. intros [X|X]; [injection X as ->; auto|]. exfalso. apply H2. apply in_map_iff. exists (e, v); auto.
  - rewrite IH by auto. split; auto. intros [X|X]; auto. injection X as -> ->. congruence. Qed.
Lemma lfind_some_in_keys (m : @lmap L) e : lfind e m <> None <-> In e (map fst m).
Proof. induction m as [|[k w] m IH]; simpl; [split; [congruence|tauto]|]. destruct (edge_eqb_spec k e) as [->|Ne]; [split; [auto|congruence]|].
  rewrite IH. split; auto. intros [X|X]; auto; congruence. Qed.

(* ---- the adjacency half of operator== ---- *)
Lemma has_edge_len h s d : length (adj h) = size h -> (s < size h)%nat -> (d < size h)%nat -> has_edge h s d = Val (mem d (nb h s)).
Proof. intros E Hs Hd. unfold has_edge, in_range. rewrite (proj2 (Nat.ltb_lt _ _) Hs), (proj2 (Nat.ltb_lt _ _) Hd), E, (proj2 (Nat.ltb_lt _ _) Hs). reflexivity. Qed.
Lemma all_edges_in_val h i (l : list nat) : length (adj h) = size h -> (i < size h)%nat -> (forall j, In j l -> (j < size h)%nat) ->
  all_edges_in h i l = Val (forallb (fun j => mem j (nb h i)) l).
Proof. intros E Hi. induction l as [|j t IH]; intros R; cbn [all_edges_in forallb]; auto.
  rewrite (has_edge_len h i j E Hi (R j (or_introl eq_refl))). cbn [obind].
  destruct (mem j (nb h i)); cbn [andb]; auto. apply IH. intros; apply R; simpl; auto. Qed.
Definition rows_agree g h (i : nat) : bool := forallb (fun j => mem j (nb h i)) (nb g i) && forallb (fun j => mem j (nb g i)) (nb h i).
Lemma eq_rows_val g h : Inv g -> Inv h -> size g = size h -> forall vs, (forall i, In i vs -> (i < size g)%nat) ->
  eq_rows g h vs = Val (forallb (rows_agree g h) vs).
Proof.
  intros Ig Ih S. induction vs as [|i t IH]; intros R; cbn [eq_rows forallb]; auto.
  assert (Hi : (i < size g)%nat) by (apply R; simpl; auto).
  assert (Hi' : (i < length (adj g))%nat) by (rewrite (i_len _ _ Ig); auto).
  assert (Hi'' : (i < length (adj h))%nat) by (rewrite (i_len _ _ Ih), <- S; auto).
  rewrite (nth_error_nth' _ [] Hi'), (nth_error_nth' _ [] Hi''). fold (nb g i) (nb h i).
  rewrite (all_edges_in_val h i (nb g i) (i_len _ _ Ih)); [|rewrite <- S; auto|intros j Hj; apply (i_rng _ _ Ig) in Hj; lia]. cbn [obind].
  unfold rows_agree at 1. destruct (forallb (fun j => mem j (nb h i)) (nb g i)); cbn [andb]; auto.
  rewrite (all_edges_in_val g i (nb h i) (i_len _ _ Ig) Hi); [|intros j Hj; apply (i_rng _ _ Ih) in Hj; lia]. cbn [obind].
  destruct (forallb (fun j => mem j (nb g i)) (nb h i)); cbn [andb]; auto. apply IH. intros; apply R; simpl; auto.
Qed.
Definition same_edges g h : Prop := forall i j, In j (nb g i) <-> In j (nb h i).
Lemma rows_agree_all g h : Inv g -> Inv h -> size g = size h ->
  (forallb (rows_agree g h) (seq 0 (size g)) = true <-> same_edges g h).
Proof.
  intros Ig Ih S. rewrite forallb_forall. split.
  - intros H i j. destruct (Nat.lt_ge_cases i (size g)) as [Hi|Hi].
    + specialize (H i (proj2 (in_seq _ _ _) (conj (Nat.le_0_l _) Hi))). unfold rows_agree in H. apply andb_prop in H as [A B].
      rewrite forallb_forall in A, B. split; intros X; [apply mem_In, A|apply mem_In, B]; auto.
    + split; intros X; [apply (i_rng _ _ Ig) in X|apply (i_rng _ _ Ih) in X]; lia.
  - intros H i _. unfold rows_agree. apply andb_true_intro; split; apply forallb_forall; intros j Hj; apply mem_In, H; auto.
Qed.

(* same edges => same cached edge number *)
Lemma same_edges_enum g h : Inv g -> Inv h -> size g = size h -> same_edges g h -> enum g = enum h.
Proof.
  intros Ig Ih S E. rewrite (i_enum _ _ Ig), (i_enum _ _ Ih), <- (length_flatten has_store g Ig), <- (length_flatten has_store h Ih). f_equal.
  apply Permutation_length, NoDup_Permutation; [apply (NoDup_flatten has_store g Ig)|apply (NoDup_flatten has_store h Ih)|].
  intros [i j]. rewrite !DirectedUsers.In_flatten, S, (E i j). tauto.
Qed.

(* ---- the label half ---- *)
Definition labels_agree g h : Prop := forall e v v', lfind e (labels g) = Some v -> lfind e (labels h) = Some v' -> leqb v v' = true.
Lemma lmap_eqb_iff g h : Inv g -> Inv h -> KeysOK g -> KeysOK h -> same_edges g h ->
  (lmap_eqb leqb (labels g) (labels h) = true <-> labels_agree g h).
Proof.
  intros Ig Ih Kg Kh E. unfold lmap_eqb. pose proof (i_lab _ _ Ig) as LG. pose proof (i_lab _ _ Ih) as LH.
  destruct has_store.
  - assert (DOM : forall e, lfind e (labels g) <> None <-> lfind e (labels h) <> None).
    { intros [i j]. rewrite LG, LH. apply E. }
    assert (LEN : length (labels g) = length (labels h)).
    { rewrite <- (map_length fst (labels g)), <- (map_length fst (labels h)). apply Permutation_length, NoDup_Permutation; auto.
      intros e. rewrite <- !lfind_some_in_keys. apply DOM. }
    rewrite LEN, Nat.eqb_refl. cbn [andb]. rewrite forallb_forall. split.
    + intros H e v v' F1 F2. apply (lfind_In_nodup _ _ _ Kg) in F1. specialize (H _ F1). cbn [fst snd] in H. rewrite F2 in H. auto.
    + intros H [e v] Hin. cbn [fst snd]. pose proof (proj2 (lfind_In_nodup _ _ _ Kg) Hin) as F1.
      destruct (lfind e (labels h)) as [v'|] eqn:F2; [apply (H e v v' F1 F2)|]. exfalso. apply (proj1 (DOM e)); congruence.
  - unfold labels_agree. rewrite LG, LH. cbn. split; [intros _ e v v' F; discriminate|auto].
Qed.

(* ---- C06: the verdict of operator== ---- *)
Theorem graph_eqb_spec g h : Inv g -> Inv h -> KeysOK g -> KeysOK h ->
  exists b, graph_eqb leqb g h = Val b /\ (b = true <-> size g = size h /\ same_edges g h /\ labels_agree g h).
Proof.
  intros Ig Ih Kg Kh. unfold graph_eqb.
  destruct (Nat.eqb_spec (size g) (size h)) as [S|NS]; cbn [andb].
  2:{ exists false; split; auto. split; [discriminate|intros [X _]; congruence]. }
  destruct (forallb (rows_agree g h) (seq 0 (size g))) eqn:RA.
  - pose proof (proj1 (rows_agree_all g h Ig Ih S) RA) as E.
    rewrite (same_edges_enum g h Ig Ih S E), Z.eqb_refl. cbn [andb].
    destruct (lmap_eqb leqb (labels g) (labels h)) eqn:LE.
    + rewrite (eq_rows_val g h Ig Ih S) by (intros i Hi; apply in_seq in Hi; lia). rewrite RA. exists true; split; auto.
      split; auto. intros _. split; auto. split; auto. apply (lmap_eqb_iff g h Ig Ih Kg Kh E); auto.
    + exists false; split; auto. split; [discriminate|]. intros [_ [_ LA]]. apply (lmap_eqb_iff g h Ig Ih Kg Kh E) in LA. congruence.
  - assert (NE : ~ same_edges g h) by (intros E; apply (rows_agree_all g h Ig Ih S) in E; congruence).
    destruct (Z.eqb (enum g) (enum h) && lmap_eqb leqb (labels g) (labels h)).
    + rewrite (eq_rows_val g h Ig Ih S) by (intros i Hi; apply in_seq in Hi; lia). rewrite RA. exists false; split; auto.
      split; [discriminate|intros [_ [E _]]; contradiction].
    + exists false; split; auto. split; [discriminate|intros [_ [E _]]; contradiction].
Qed.

(* reflexive and symmetric when the label equality is *)
Corollary graph_eqb_refl g : (forall x, leqb x x = true) -> Inv g -> KeysOK g -> graph_eqb leqb g g = Val true.
Proof. intros RF Ig Kg. destruct (graph_eqb_spec g g Ig Ig Kg Kg) as [b [E H]]. rewrite E. f_equal. apply H.
  split; auto. split; [intros i j; tauto|]. intros e v v' F1 F2. rewrite F1 in F2. injection F2 as <-. apply RF. Qed.
Corollary graph_eqb_sym g h : (forall x y, leqb x y = leqb y x) -> Inv g -> Inv h -> KeysOK g -> KeysOK h -> graph_eqb leqb g h = graph_eqb leqb h g.
Proof. intros SY Ig Ih Kg Kh. destruct (graph_eqb_spec g h Ig Ih Kg Kh) as [b [E H]]. destruct (graph_eqb_spec h g Ih Ig Kh Kg) as [b' [E' H']].
  rewrite E, E'. f_equal. destruct b, b'; auto.
  - destruct (proj1 H eq_refl) as [A [B C]]. assert (false = true); [|congruence]. apply H'. split; auto. split; [intros i j; symmetry; apply B|].
    intros e v v' F1 F2. rewrite SY. apply (C e v' v); auto.
  - destruct (proj1 H' eq_refl) as [A [B C]]. apply H. split; auto. split; [intros i j; symmetry; apply B|].
    intros e v v' F1 F2. rewrite SY. apply (C e v' v); auto.
Qed.

(* ---- the label store of every reachable state has unique keys ---- *)
Lemma for_vertices_pres (P : dgraph -> Prop) f : (forall g v, P g -> P (fst (f g v))) -> forall vs g, P g -> P (fst (for_vertices f vs g)).
Proof. intros Hf. induction vs as [|v vs IH]; intros g Pg; cbn [for_vertices]; auto.
  pose proof (Hf g v Pg) as P1. destruct (f g v) as [g1 r]. cbn [fst] in P1. destruct r; auto. Qed.
Lemma keys_set_label e l (m : @lmap L) : NoDup (map fst m) -> NoDup (map fst (set_label has_store e l m)).
Proof. unfold set_label. destruct has_store; auto. apply NoDup_keys_lset. Qed.
Lemma keys_fold_erase (f : nat -> edge) (l : list nat) : forall (m : @lmap L), NoDup (map fst m) -> NoDup (map fst (fold_left (fun m j => lerase (f j) m) l m)).
Proof. induction l as [|x t IH]; intros m H; simpl; auto. apply IH, NoDup_keys_lerase; auto. Qed.
Lemma keys_remove_edge g s d : KeysOK g -> KeysOK (fst (remove_edge g s d)).
Proof. unfold KeysOK, remove_edge. intros H. destruct (in_range g s && in_range g d); auto. destruct (Nat.ltb s (length (adj g))); auto.
  cbn [fst labels]. apply NoDup_keys_lerase; auto. Qed.
Lemma keys_add_edge V g s d l f : KeysOK g -> KeysOK (fst (add_edge has_store V g s d l f)).
Proof. unfold KeysOK, add_edge, push_edge. intros H.
  destruct f; [destruct (v_force_checks V); [destruct (in_range g s && in_range g d)|]|destruct (has_edge g s d) as [[|]| |]]; auto;
  destruct (Nat.ltb s (length (adj g))); auto; cbn [fst labels]; apply keys_set_label; auto. Qed.
Theorem keys_step V g o : KeysOK g -> KeysOK (fst (step has_store V g o)).
Proof.
  intros H. destruct o as [s d l f|x y l f|s d| |v| |n|s d l f|]; cbn [step].
  - apply keys_add_edge; auto.
  - unfold add_reciprocal. pose proof (keys_add_edge V g x y l f H) as H1. destruct (add_edge has_store V g x y l f) as [g1 r]. cbn [fst] in H1.
    destruct r; auto. apply keys_add_edge; auto.
  - apply keys_remove_edge; auto.
  - unfold remove_self_loops. apply for_vertices_pres; auto. intros; apply keys_remove_edge; auto.
  - unfold remove_vertex. destruct (in_range g v); auto. destruct (Nat.ltb v (length (adj g))); auto.
    apply for_vertices_pres; [intros; apply keys_remove_edge; auto|]. unfold KeysOK; cbn [labels].
    destruct (v_rmv_labels V); auto. apply keys_fold_erase; auto.
  - unfold clear_edges. destruct (Nat.leb (size g) (length (adj g))); auto. unfold KeysOK; cbn [fst labels]. destruct (v_clear_labels V); auto. constructor.
  - unfold resize. destruct (Nat.ltb n (size g)); auto.
  - unfold set_edge_label. destruct (in_range g s && in_range g d); auto. destruct f; [unfold KeysOK; cbn [fst labels]; apply keys_set_label; auto|].
    destruct (has_edge g s d) as [[|]| |]; auto. unfold KeysOK; cbn [fst labels]; apply keys_set_label; auto.
  - unfold remove_duplicates. destruct (Nat.leb (size g) (length (adj g))); auto.
Qed.
Lemma keys_run V ops : forall g, KeysOK g -> KeysOK (fst (run has_store V g ops)).
Proof. induction ops as [|o ops IH]; intros g H; cbn [run]; auto. pose proof (keys_step V g o H) as H1.
  destruct (step has_store V g o) as [g1 r]. cbn [fst] in H1. destruct r; auto. Qed.

(* ---- the verdict in terms of what the two histories denote ---- *)
Definition spec_same (a b : @sgraph L) : Prop :=
  sn a = sn b /\ (forall e, smem e a = smem e b) /\
  (has_store = true -> forall e v v', lfind e (se a) = Some v -> lfind e (se b) = Some v' -> leqb v v' = true).
Theorem histories_eqb (n m : nat) (opsA opsB : list (@dop L)) :
  valid_history (s_init n) opsA = true -> valid_history (s_init m) opsB = true ->
  exists g h b, run has_store repaired (init n) opsA = (g, Done) /\ run has_store repaired (init m) opsB = (h, Done) /\
    graph_eqb leqb g h = Val b /\ (b = true <-> spec_same (spec_run (s_init n) opsA) (spec_run (s_init m) opsB)).
Proof.
  intros VA VB.
  pose proof (run_refines has_store opsA (init n) (s_init n) (init_refines has_store n) VA) as HA.
  pose proof (run_refines has_store opsB (init m) (s_init m) (init_refines has_store m) VB) as HB.
  pose proof (keys_run repaired opsA (init n)) as KA. pose proof (keys_run repaired opsB (init m)) as KB.
  destruct (run has_store repaired (init n) opsA) as [g ra]. destruct (run has_store repaired (init m) opsB) as [h rb].
  destruct HA as [-> RA]. destruct HB as [-> RB]. cbn [fst] in KA, KB.
  assert (Kg : KeysOK g) by (apply KA; constructor). assert (Kh : KeysOK h) by (apply KB; constructor).
  destruct RA as [Ig Sg Mg Lg]. destruct RB as [Ih Sh Mh Lh].
  destruct (graph_eqb_spec g h Ig Ih Kg Kh) as [b [E H]]. exists g, h, b.
  split; [reflexivity|split; [reflexivity|split; [exact E|split]]].
  - intros Hb. apply H in Hb as [S [ED LA]]. split; [congruence|split].
    + intros [i j]. specialize (ED i j). rewrite Mg, Mh in ED.
      destruct (smem (i, j) (spec_run (s_init n) opsA)), (smem (i, j) (spec_run (s_init m) opsB)); auto; [symmetry|]; apply ED; auto.
    + intros HS e v v' F1 F2. apply (LA e v v'); [rewrite (Lg HS)|rewrite (Lh HS)]; auto.
  - intros [S [ME LE]]. apply H. split; [congruence|]. split.
    + intros i j. rewrite Mg, Mh, (ME (i, j)). tauto.
    + intros e v v' F1 F2. pose proof (i_lab _ _ Ig) as IL. destruct has_store eqn:HS.
      * apply (LE eq_refl e v v'); [rewrite <- (Lg eq_refl)|rewrite <- (Lh eq_refl)]; auto.
      * rewrite IL in F1. discriminate.
Qed.
End Eq.
