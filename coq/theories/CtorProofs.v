(* C09: the edge-list constructors of the classes other than the directed labelled one (whose theorem is ConvProofs.of_edge_list_spec):
   LabeledUndirectedGraph, DirectedMultigraph, UndirectedMultigraph, DirectedWeightedGraph, UndirectedWeightedGraph.  Every constructor
   is the same loop: grow to 1 + max(i, j) vertices when needed, then add the entry with the class's unforced add function. *)
From BG Require Import Base DirectedModel DirectedProofs DirectedIter DirectedUsers DirectedSpec DirectedRefine DirectedObs Equality ConvModel ConvProofs
  UndirectedModel UndirectedProofs UndirectedIter UndirectedSpec UndirectedRefine UndirectedObs UFoldProofs
  MultiModel WeightedModel MultiSpec Totals MultiRefine WeightedRefine UTotals UMultiRefine UWeightedRefine.
Local Open Scope Z_scope.
Local Arguments Z.of_nat : simpl never.

(* [lmax] (ConvProofs) is the vertex count every constructor ends with; it is the [el_size] of ConvModel *)
Lemma lmax_el_size {L} (es : list (nat * nat * L)) : lmax es = el_size es.
Proof.
  assert (H : forall l : list (nat * nat * L), l <> [] -> lmax l = S (list_max l)).
  { induction l as [|x t IH]; [intros X; exfalso; apply X; reflexivity|]. intros _. unfold lmax, list_max in *. cbn [fold_right]. destruct t as [|y t'].
    - cbn [fold_right]. lia.
    - rewrite IH by discriminate. lia. }
  destruct es as [|x t]; [reflexivity|]. unfold el_size. apply H. discriminate.
Qed.

(* ================= LabeledUndirectedGraph(edge list) ================= *)
Section UCtor.
Context {L : Type}.
Variable has_store : bool.
Notation dgraph := (@dgraph L).
Implicit Types g h : dgraph.
Notation InvU := (InvU has_store).
Notation V := repaired.
Notation ledge := (nat * nat * L)%type.

Definition u_ctor_from (es : list ledge) (o : outcome dgraph) : outcome dgraph :=
  fold_left (fun acc e => obind acc (fun h => let '(i, j, l) := e in
     let m := Nat.max i j in
     obind (if Nat.leb (size h) m then UndirectedModel.lift (resize h (S m)) else Val h) (fun h1 => UndirectedModel.lift (u_add_edge has_store V h1 i j l false)))) es o.

Lemma u_ctor_from_spec (es : list ledge) : forall h, InvU h -> KeysOK h ->
  exists h', u_ctor_from es (Val h) = Val h' /\ InvU h' /\ KeysOK h' /\ size h' = Nat.max (size h) (lmax es) /\
    (forall i j, In j (nb h' i) <-> In j (nb h i) \/ exists l, In (i, j, l) es \/ In (j, i, l) es) /\
    (has_store = true -> forall e, lfind e (labels h') = match lfind e (labels h) with Some v => Some v | None => ufirst e es end).
Proof.
  induction es as [|[[a b] l] t IH]; intros h I K; cbn [u_ctor_from fold_left].
  - exists h. split; [reflexivity|]. split; auto. split; auto. split; [unfold lmax; cbn [fold_right]; lia|]. split.
    + intros i j. split; [auto|intros [?|[l [[]|[]]]]; auto].
    + intros HS e. cbn [ufirst]. destruct (lfind e (labels h)); auto.
  - cbn [obind].
    assert (RZ : exists h1, (if Nat.leb (size h) (Nat.max a b) then UndirectedModel.lift (resize h (S (Nat.max a b))) else Val h) = Val h1 /\ InvU h1 /\ KeysOK h1 /\
                 size h1 = Nat.max (size h) (S (Nat.max a b)) /\ (forall i, nb h1 i = nb h i) /\ labels h1 = labels h).
    { destruct (Nat.leb_spec (size h) (Nat.max a b)) as [Le|Gt].
      - assert (LE : (size h <= S (Nat.max a b))%nat) by lia.
        pose proof (u_resize_spec has_store h (S (Nat.max a b)) I LE) as RS. destruct (resize h (S (Nat.max a b))) as [h1 r1].
        destruct RS as [-> [I1 [S1 [N1 L1]]]]. exists h1. cbn [UndirectedModel.lift].
        split; [reflexivity|split; [exact I1|split; [unfold KeysOK; rewrite L1; exact K|split; [lia|split; [exact N1|exact L1]]]]].
      - exists h. split; [reflexivity|split; [exact I|split; [exact K|split; [lia|split; [reflexivity|reflexivity]]]]]. }
    destruct RZ as [h1 [-> [I1 [K1 [S1 [N1 LB1]]]]]]. cbn [obind].
    assert (Ha : (a < size h1)%nat) by lia. assert (Hb : (b < size h1)%nat) by lia.
    pose proof (u_add_edge_spec has_store h1 a b l I1 Ha Hb) as AS. pose proof (keys_u_add_edge has_store h1 a b l false K1) as KA.
    destruct (u_add_edge has_store V h1 a b l false) as [h2 r2]. cbn [fst] in KA. destruct AS as [-> [I2 [S2 [E2 L2]]]]. cbn [UndirectedModel.lift].
    destruct (IH h2 I2 KA) as [h' [F [I' [K' [S' [E' L']]]]]].
    exists h'. fold (u_ctor_from t (Val h2)). split; [exact F|]. split; auto. split; auto.
    split; [unfold lmax in *; cbn [fold_right fst snd] in *; lia|]. split.
    + intros i j. rewrite E', E2, N1. split.
      * intros [[H|[[-> ->]|[-> ->]]]|[l' [H|H]]]; auto; right; [exists l|exists l|exists l'|exists l']; simpl; auto.
      * intros [H|[l' [[H|H]|[H|H]]]]; auto; [injection H as -> -> _; auto| |injection H as -> -> _; auto| ]; right; exists l'; auto.
    + intros HS e. rewrite (L' HS), L2, HS, LB1, N1. cbn [andb ufirst].
      destruct (edge_eqb_spec (ordered a b) e) as [<-|NE]; [|reflexivity].
      assert (Ia : forall x, In x (nb h a) <-> In x (nb h1 a)) by (intros x; rewrite N1; tauto).
      destruct (mem b (nb h a)) eqn:M; cbn [negb].
      * apply mem_In in M. pose proof (u_label_present has_store h a b I HS M) as P. destruct (lfind (ordered a b) (labels h)); [reflexivity|congruence].
      * apply mem_false in M. rewrite (u_label_absent has_store h a b I M). reflexivity.
Qed.

(* the constructor, for EVERY list of labelled pairs (duplicates in either orientation, loops, gaps, empty): 1 + largest index vertices
   (0 for the empty list), the undirected invariant, exactly the unordered pairs named by the list, and each pair carries the label of
   the FIRST entry naming it (in either orientation) *)
Theorem u_of_edge_list_spec (es : list ledge) :
  exists g, u_of_edge_list has_store V es = Val g /\ InvU g /\ KeysOK g /\ size g = lmax es /\
    (forall i j, In j (nb g i) <-> exists l, In (i, j, l) es \/ In (j, i, l) es) /\
    (has_store = true -> forall e, lfind e (labels g) = ufirst e es) /\
    (has_store = true -> forall i j, lfind (ordered i j) (labels g) = ufirst (ordered i j) es).
Proof.
  destruct (init_invU (L := L) has_store 0) as [I0 K0]. destruct (u_ctor_from_spec es (init 0) I0 K0) as [g [F [I [K [S [E LB]]]]]].
  exists g. split; [exact F|]. split; auto. split; auto. split; [cbn [init size] in S; lia|]. split; [|split].
  - intros i j. rewrite E, nb_init. split; [intros [[]|H]; exact H|auto].
  - intros HS e. rewrite (LB HS). reflexivity.
  - intros HS i j. rewrite (LB HS). reflexivity.
Qed.
End UCtor.
Print Assumptions u_of_edge_list_spec.

(* ================= the shared loop of the four multigraph / weighted constructors ================= *)
Notation zedge := (nat * nat * Z)%type.
Definition oget (o : option Z) : Z := match o with Some x => x | None => 0 end.
Lemma lget_oget e (m : @lmap Z) : lget e m = oget (lfind e m).
Proof. reflexivity. Qed.

Section Gen.
Variable add : mgraph -> nat -> nat -> Z -> mgraph * res.
Variable P : mgraph -> Prop.
Variable ok : Z -> Prop.
Variable kf : nat -> nat -> edge.
Variable upd : option Z -> Z -> option Z.          (* what one entry does to the stored value of its own key *)
Variable dt : option Z -> Z -> Z.                  (* ... and to the running total *)
Hypothesis HR : forall m n, P m -> (size (mg m) <= n)%nat ->
  exists m', dm_resize m n = (m', Done) /\ P m' /\ size (mg m') = n /\ labels (mg m') = labels (mg m) /\ mtot m' = mtot m.
Hypothesis HA : forall m i j k, P m -> (i < size (mg m))%nat -> (j < size (mg m))%nat -> ok k ->
  exists m', add m i j k = (m', Done) /\ P m' /\ size (mg m') = size (mg m) /\
    (forall e, lfind e (labels (mg m')) = if edge_eqb (kf i j) e then upd (lfind e (labels (mg m))) k else lfind e (labels (mg m))) /\
    mtot m' = mtot m + dt (lfind (kf i j) (labels (mg m))) k.

Definition ek (x : zedge) : edge := kf (fst (fst x)) (snd (fst x)).
Fixpoint lab_after (e : edge) (es : list zedge) (o : option Z) : option Z :=
  match es with [] => o | x :: t => lab_after e t (if edge_eqb (ek x) e then upd o (snd x) else o) end.
Fixpoint tot_after (es : list zedge) (f : edge -> option Z) : Z :=
  match es with [] => 0 | x :: t => dt (f (ek x)) (snd x) + tot_after t (fun e => if edge_eqb (ek x) e then upd (f e) (snd x) else f e) end.
Lemma tot_after_ext es : forall f f', (forall e, f e = f' e) -> tot_after es f = tot_after es f'.
Proof. induction es as [|x t IH]; intros f f' E; cbn [tot_after]; [reflexivity|]. rewrite (E (ek x)). f_equal. apply IH. intros e. rewrite (E e). reflexivity. Qed.

Definition m_ctor_from (es : list zedge) (o : outcome mgraph) : outcome mgraph :=
  fold_left (fun acc e => obind acc (fun h => let '(i, j, k) := e in
     let mx := Nat.max i j in
     obind (if Nat.leb (size (mg h)) mx then mlift (dm_resize h (S mx)) else Val h) (fun h1 => mlift (add h1 i j k)))) es o.

Lemma m_ctor_from_spec (es : list zedge) : forall m, P m -> (forall x, In x es -> ok (snd x)) ->
  exists m', m_ctor_from es (Val m) = Val m' /\ P m' /\ size (mg m') = Nat.max (size (mg m)) (lmax es) /\
    (forall e, lfind e (labels (mg m')) = lab_after e es (lfind e (labels (mg m)))) /\
    mtot m' = mtot m + tot_after es (fun e => lfind e (labels (mg m))).
Proof.
  induction es as [|[[a b] k] t IH]; intros m Pm OK; cbn [m_ctor_from fold_left].
  - exists m. split; [reflexivity|]. split; [exact Pm|]. split; [unfold lmax; cbn [fold_right]; lia|]. split; [intros e; reflexivity|]. cbn [tot_after]. lia.
  - cbn [obind].
    assert (RZ : exists m1, (if Nat.leb (size (mg m)) (Nat.max a b) then mlift (dm_resize m (S (Nat.max a b))) else Val m) = Val m1 /\ P m1 /\
                 size (mg m1) = Nat.max (size (mg m)) (S (Nat.max a b)) /\ labels (mg m1) = labels (mg m) /\ mtot m1 = mtot m).
    { destruct (Nat.leb_spec (size (mg m)) (Nat.max a b)) as [Le|Gt].
      - destruct (HR m (S (Nat.max a b)) Pm) as [m1 [E [P1 [S1 [L1 T1]]]]]; [lia|]. exists m1. rewrite E. cbn [mlift].
        split; [reflexivity|]. split; [exact P1|]. split; [lia|]. split; [exact L1|exact T1].
      - exists m. split; [reflexivity|]. split; [exact Pm|]. split; [lia|]. split; reflexivity. }
    destruct RZ as [m1 [-> [P1 [S1 [L1 T1]]]]]. cbn [obind].
    assert (Ha : (a < size (mg m1))%nat) by lia. assert (Hb : (b < size (mg m1))%nat) by lia.
    destruct (HA m1 a b k P1 Ha Hb) as [m2 [E2 [P2 [S2 [L2 T2]]]]]. { apply (OK (a, b, k)). left; reflexivity. }
    rewrite E2. cbn [mlift].
    destruct (IH m2 P2) as [m' [F [P' [S' [L' T']]]]]. { intros x Hx. apply OK. right; exact Hx. }
    exists m'. fold (m_ctor_from t (Val m2)). split; [exact F|]. split; [exact P'|].
    split; [unfold lmax in *; cbn [fold_right fst snd] in *; lia|]. split.
    + intros e. rewrite L'. cbn [lab_after]. unfold ek; cbn [fst snd]. rewrite L2, L1. reflexivity.
    + rewrite T', T2, T1, L1. cbn [tot_after]. unfold ek at 1 2; cbn [fst snd].
      rewrite (tot_after_ext t (fun e => lfind e (labels (mg m2))) (fun e => if edge_eqb (kf a b) e then upd (lfind e (labels (mg m))) k else lfind e (labels (mg m)))).
      * lia.
      * intros e. rewrite L2, L1. reflexivity.
Qed.
End Gen.

(* ---------- what the entries of a list add up to ---------- *)
(* multigraphs: an entry adds its multiplicity to its pair and to the total (an entry with multiplicity 0 changes nothing) *)
Definition mupd (o : option Z) (k : Z) : option Z := if Z.eqb k 0 then o else Some (oget o + k).
Definition mdt (o : option Z) (k : Z) : Z := k.
Definition mult_sum (und : bool) (e : edge) (es : list zedge) : Z :=
  fold_right (fun x acc => if edge_eqb (key und (fst (fst x)) (snd (fst x))) e then snd x + acc else acc) 0 es.
Definition mult_total (es : list zedge) : Z := fold_right (fun x acc => snd x + acc) 0 es.
Lemma oget_mupd o k : oget (mupd o k) = oget o + k.
Proof. unfold mupd. destruct (Z.eqb_spec k 0) as [->|]; cbn [oget]; lia. Qed.
Lemma lab_after_mult und e es : forall o, oget (lab_after (key und) mupd e es o) = oget o + mult_sum und e es.
Proof.
  induction es as [|x t IH]; intros o; cbn [lab_after mult_sum fold_right]; [lia|]. rewrite IH. unfold ek. fold (mult_sum und e t).
  destruct (edge_eqb (key und (fst (fst x)) (snd (fst x))) e); [rewrite oget_mupd; lia|lia].
Qed.
Lemma tot_after_mult kf es : forall f, tot_after kf mupd mdt es f = mult_total es.
Proof. induction es as [|x t IH]; intros f; cbn [tot_after mult_total fold_right]; [reflexivity|]. rewrite IH. reflexivity. Qed.

(* weighted graphs: the first entry naming a pair fixes its weight and adds it to the total; later entries naming it are no-ops *)
Definition wupd (o : option Z) (w : Z) : option Z := match o with Some v => Some v | None => Some w end.
Definition wdt (o : option Z) (w : Z) : Z := match o with Some _ => 0 | None => w end.
Fixpoint wfirst (und : bool) (e : edge) (es : list zedge) : option Z :=
  match es with [] => None | x :: t => if edge_eqb (key und (fst (fst x)) (snd (fst x))) e then Some (snd x) else wfirst und e t end.
(* sum of the weights of the entries whose pair is neither in [seen] nor named by an earlier entry *)
Fixpoint wnew (und : bool) (seen : list edge) (es : list zedge) : Z :=
  match es with [] => 0 | x :: t =>
    let k := key und (fst (fst x)) (snd (fst x)) in
    if existsb (edge_eqb k) seen then wnew und seen t else snd x + wnew und (k :: seen) t end.
Definition wtotal (und : bool) (es : list zedge) : Z := wnew und [] es.
Lemma lab_after_w_some kf e es : forall v, lab_after kf wupd e es (Some v) = Some v.
Proof. induction es as [|x t IH]; intros v; cbn [lab_after]; [reflexivity|]. destruct (edge_eqb (ek kf x) e); cbn [wupd]; apply IH. Qed.
Lemma lab_after_w_none und e es : lab_after (key und) wupd e es None = wfirst und e es.
Proof. induction es as [|x t IH]; cbn [lab_after wfirst]; [reflexivity|]. unfold ek.
  destruct (edge_eqb (key und (fst (fst x)) (snd (fst x))) e); cbn [wupd]; [apply lab_after_w_some|exact IH]. Qed.
Lemma edge_eqb_sym a b : edge_eqb a b = edge_eqb b a.
Proof. destruct (edge_eqb_spec a b) as [->|N]; [rewrite edge_eqb_refl; reflexivity|]. destruct (edge_eqb_spec b a) as [->|]; [contradiction N; reflexivity|reflexivity]. Qed.
Lemma tot_after_w und es : forall f seen, (forall e, f e <> None <-> existsb (edge_eqb e) seen = true) ->
  tot_after (key und) wupd wdt es f = wnew und seen es.
Proof.
  induction es as [|x t IH]; intros f seen H; cbn [tot_after wnew]; [reflexivity|]. unfold ek at 1 2. cbv zeta.
  set (k := key und (fst (fst x)) (snd (fst x))). destruct (f k) as [v|] eqn:F.
  - assert (X : existsb (edge_eqb k) seen = true) by (apply H; congruence). rewrite X. cbn [wdt]. rewrite Z.add_0_l.
    rewrite (tot_after_ext (key und) wupd wdt t _ f); [apply IH; exact H|].
    intros e. destruct (edge_eqb_spec k e) as [<-|]; [rewrite F; reflexivity|reflexivity].
  - assert (X : existsb (edge_eqb k) seen = false).
    { destruct (existsb (edge_eqb k) seen) eqn:Y; [|reflexivity]. apply H in Y. congruence. }
    rewrite X. cbn [wdt]. f_equal. apply IH. intros e. cbn [existsb]. rewrite (edge_eqb_sym e k).
    destruct (edge_eqb_spec k e) as [<-|N]; cbn [orb].
    + rewrite F. cbn [wupd]. split; [reflexivity|discriminate].
    + apply H.
Qed.
Lemma wfirst_directed i j es : wfirst false (i, j) es = first_label i j es.
Proof. induction es as [|[[a b] l] t IH]; cbn [wfirst first_label]; [reflexivity|]. unfold key, edge_eqb; cbn [fst snd]. rewrite IH. reflexivity. Qed.
Lemma wfirst_undirected e es : wfirst true e es = ufirst e es.
Proof. induction es as [|[[a b] l] t IH]; cbn [wfirst ufirst]; [reflexivity|]. unfold key; cbn [fst snd]. rewrite IH. reflexivity. Qed.
Lemma ufirst_present {L} (es : list (nat * nat * L)) i j : ufirst (ordered i j) es <> None <-> exists l, In (i, j, l) es \/ In (j, i, l) es.
Proof.
  split.
  - intros H. destruct (ufirst (ordered i j) es) as [l|] eqn:F; [|congruence]. apply ufirst_some in F as [a [b [Hin E]]].
    apply ordered_eq_iff in E as [[-> ->]|[-> ->]]; exists l; auto.
  - intros [l [H|H]] F; rewrite ufirst_none in F; [apply (F i j l H); reflexivity|apply (F j i l H); apply ordered_sym].
Qed.

(* ---------- the one-step facts, from the refinement lemmas applied to the graph's own content as spec state ---------- *)
Notation V := repaired.
Definition PosM (m : mgraph) : Prop := forall e v, lfind e (labels (mg m)) = Some v -> 0 < v.        (* stored multiplicities are positive *)
Definition self_spec (m : mgraph) : @sgraph Z := {| sn := size (mg m); se := labels (mg m) |}.

Lemma msum_cons_new k w (l : @lmap Z) : msum ((k, w) :: l) = w + msum l.
Proof. reflexivity. Qed.
Lemma keys_cons_new k (w : Z) (l : @lmap Z) : NoDup (map fst l) -> lfind k l = None -> NoDup (map fst ((k, w) :: l)).
Proof. intros K F. cbn [map fst]. constructor; [|exact K]. rewrite <- lfind_some_in_keys. congruence. Qed.

(* directed *)
Lemma d_resize_step (Q : mgraph -> Prop) (HQ : forall m m', labels (mg m') = labels (mg m) -> Q m -> Q m') m n :
  TInv m /\ Q m -> (size (mg m) <= n)%nat ->
  exists m', dm_resize m n = (m', Done) /\ (TInv m' /\ Q m') /\ size (mg m') = n /\ labels (mg m') = labels (mg m) /\ mtot m' = mtot m.
Proof.
  intros [TI Qm] Hn. destruct (resize_spec_t m n TI Hn) as [m' [E [PR [TI' MT]]]].
  pose proof (resize_spec true (mg m) n (t_inv _ TI) Hn) as RS. destruct (resize (mg m) n) as [g' r]. cbn [fst] in PR. destruct RS as [_ [_ [S' [_ LB]]]].
  rewrite <- PR in S', LB. exists m'. split; [exact E|]. split; [split; [exact TI'|exact (HQ m m' LB Qm)]|]. split; [exact S'|]. split; [exact LB|exact MT].
Qed.
Lemma PosM_labels m m' : labels (mg m') = labels (mg m) -> PosM m -> PosM m'.
Proof. unfold PosM. intros ->. auto. Qed.
Lemma dm_add_step m i j k : TInv m /\ PosM m -> (i < size (mg m))%nat -> (j < size (mg m))%nat -> 0 <= k ->
  exists m', dm_add_multiedge V m i j k false = (m', Done) /\ (TInv m' /\ PosM m') /\ size (mg m') = size (mg m) /\
    (forall e, lfind e (labels (mg m')) = if edge_eqb (key false i j) e then mupd (lfind e (labels (mg m))) k else lfind e (labels (mg m))) /\
    mtot m' = mtot m + mdt (lfind (key false i j) (labels (mg m))) k.
Proof.
  intros [TI Pm] Hi Hj Hk.
  assert (RM : RfM m (self_spec m)).
  { constructor; [exact TI| |exact Pm]. apply rf_of; [apply (t_inv _ TI)|reflexivity|reflexivity]. }
  destruct (add_multi_refines m (self_spec m) i j k RM Hi Hj Hk) as [m' [E [TI' R' P']]].
  pose proof (r_lab _ _ _ R' eq_refl) as LF. pose proof (r_size _ _ _ R') as SZ.
  exists m'. split; [exact E|]. split; [split; [exact TI'|intros e v F; apply (P' e v); rewrite <- LF; exact F]|].
  unfold ms_add in LF, SZ. unfold mdt, mupd. destruct (Z.eqb_spec k 0) as [->|Nk].
  - cbn [self_spec se sn] in LF, SZ. split; [exact SZ|]. split.
    + intros e. rewrite LF. destruct (edge_eqb (key false i j) e); reflexivity.
    + rewrite (t_tot _ TI'), (t_tot _ TI), Z.add_0_r. apply msum_ext; [apply (t_keys _ TI')|apply (t_keys _ TI)|exact LF].
  - cbn [with_se self_spec se sn] in LF, SZ. split; [exact SZ|]. split.
    + intros e. rewrite LF, lfind_lset. destruct (edge_eqb_spec (key false i j) e) as [<-|]; [|reflexivity]. unfold mval. cbn [self_spec se]. rewrite lget_oget. reflexivity.
    + rewrite (t_tot _ TI'), (t_tot _ TI).
      rewrite (msum_ext _ _ (t_keys _ TI') (NoDup_keys_lset _ _ _ (t_keys _ TI)) LF), msum_lset by (apply (t_keys _ TI)). unfold mval. cbn [self_spec se]. lia.
Qed.
Lemma dw_add_step m i j w : TInv m /\ True -> (i < size (mg m))%nat -> (j < size (mg m))%nat -> True ->
  exists m', dw_add_edge V m i j w false = (m', Done) /\ (TInv m' /\ True) /\ size (mg m') = size (mg m) /\
    (forall e, lfind e (labels (mg m')) = if edge_eqb (key false i j) e then wupd (lfind e (labels (mg m))) w else lfind e (labels (mg m))) /\
    mtot m' = mtot m + wdt (lfind (key false i j) (labels (mg m))) w.
Proof.
  intros [TI _] Hi Hj _.
  assert (RW : RfW m (self_spec m)).
  { constructor; [exact TI|]. apply rf_of; [apply (t_inv _ TI)|reflexivity|reflexivity]. }
  destruct (w_add_refines m (self_spec m) i j w RW Hi Hj) as [m' [E [TI' R']]].
  pose proof (r_lab _ _ _ R' eq_refl) as LF. pose proof (r_size _ _ _ R') as SZ.
  exists m'. split; [exact E|]. split; [split; [exact TI'|exact I]|].
  unfold ws_add, mhas, smem in LF, SZ. cbn [self_spec se] in LF, SZ. destruct (lfind (key false i j) (labels (mg m))) as [v|] eqn:F.
  - cbn [self_spec se sn] in LF, SZ. split; [exact SZ|]. split.
    + intros e. rewrite LF. destruct (edge_eqb_spec (key false i j) e) as [<-|]; [rewrite F|]; reflexivity.
    + cbn [wdt]. rewrite (t_tot _ TI'), (t_tot _ TI), Z.add_0_r. apply msum_ext; [apply (t_keys _ TI')|apply (t_keys _ TI)|exact LF].
  - cbn [with_se self_spec se sn] in LF, SZ. split; [exact SZ|]. split.
    + intros e. rewrite LF. cbn [lfind]. destruct (edge_eqb_spec (key false i j) e) as [<-|]; [rewrite F|]; reflexivity.
    + cbn [wdt]. rewrite (t_tot _ TI'), (t_tot _ TI).
      rewrite (msum_ext _ _ (t_keys _ TI') (keys_cons_new _ w _ (t_keys _ TI) F) LF), msum_cons_new. lia.
Qed.

(* undirected *)
Lemma u_resize_step (Q : mgraph -> Prop) (HQ : forall m m', labels (mg m') = labels (mg m) -> Q m -> Q m') m n :
  UTInv m /\ Q m -> (size (mg m) <= n)%nat ->
  exists m', dm_resize m n = (m', Done) /\ (UTInv m' /\ Q m') /\ size (mg m') = n /\ labels (mg m') = labels (mg m) /\ mtot m' = mtot m.
Proof.
  intros [TI Qm] Hn. destruct (u_resize_spec_t m n TI Hn) as [m' [E [PR [TI' MT]]]].
  pose proof (u_resize_spec true (mg m) n (ut_inv _ TI) Hn) as RS. destruct (resize (mg m) n) as [g' r]. cbn [fst] in PR. destruct RS as [_ [_ [S' [_ LB]]]].
  rewrite <- PR in S', LB. exists m'. split; [exact E|]. split; [split; [exact TI'|exact (HQ m m' LB Qm)]|]. split; [exact S'|]. split; [exact LB|exact MT].
Qed.
Lemma um_add_step m i j k : UTInv m /\ PosM m -> (i < size (mg m))%nat -> (j < size (mg m))%nat -> 0 <= k ->
  exists m', um_add_multiedge V m i j k false = (m', Done) /\ (UTInv m' /\ PosM m') /\ size (mg m') = size (mg m) /\
    (forall e, lfind e (labels (mg m')) = if edge_eqb (key true i j) e then mupd (lfind e (labels (mg m))) k else lfind e (labels (mg m))) /\
    mtot m' = mtot m + mdt (lfind (key true i j) (labels (mg m))) k.
Proof.
  intros [TI Pm] Hi Hj Hk.
  assert (RM : RfUM m (self_spec m)).
  { constructor; [exact TI| |exact Pm]. apply rfu_of; [apply (ut_inv _ TI)|reflexivity|reflexivity]. }
  destruct (um_add_multi_refines m (self_spec m) i j k RM Hi Hj Hk) as [m' [E [TI' R' P']]].
  pose proof (ru_lab _ _ _ R' eq_refl) as LF. pose proof (ru_size _ _ _ R') as SZ.
  exists m'. split; [exact E|]. split; [split; [exact TI'|intros e v F; apply (P' e v); rewrite <- LF; exact F]|].
  unfold ms_add in LF, SZ. unfold mdt, mupd. destruct (Z.eqb_spec k 0) as [->|Nk].
  - cbn [self_spec se sn] in LF, SZ. split; [exact SZ|]. split.
    + intros e. rewrite LF. destruct (edge_eqb (key true i j) e); reflexivity.
    + rewrite (ut_tot _ TI'), (ut_tot _ TI), Z.add_0_r. apply msum_ext; [apply (ut_keys _ TI')|apply (ut_keys _ TI)|exact LF].
  - cbn [with_se self_spec se sn] in LF, SZ. split; [exact SZ|]. split.
    + intros e. rewrite LF, lfind_lset. destruct (edge_eqb_spec (key true i j) e) as [<-|]; [|reflexivity]. unfold mval. cbn [self_spec se]. rewrite lget_oget. reflexivity.
    + rewrite (ut_tot _ TI'), (ut_tot _ TI).
      rewrite (msum_ext _ _ (ut_keys _ TI') (NoDup_keys_lset _ _ _ (ut_keys _ TI)) LF), msum_lset by (apply (ut_keys _ TI)). unfold mval. cbn [self_spec se]. lia.
Qed.
Lemma uw_add_step m i j w : UTInv m /\ True -> (i < size (mg m))%nat -> (j < size (mg m))%nat -> True ->
  exists m', uw_add_edge V m i j w false = (m', Done) /\ (UTInv m' /\ True) /\ size (mg m') = size (mg m) /\
    (forall e, lfind e (labels (mg m')) = if edge_eqb (key true i j) e then wupd (lfind e (labels (mg m))) w else lfind e (labels (mg m))) /\
    mtot m' = mtot m + wdt (lfind (key true i j) (labels (mg m))) w.
Proof.
  intros [TI _] Hi Hj _.
  assert (RW : RfUW m (self_spec m)).
  { constructor; [exact TI|]. apply rfu_of; [apply (ut_inv _ TI)|reflexivity|reflexivity]. }
  destruct (uw_add_refines m (self_spec m) i j w RW Hi Hj) as [m' [E [TI' R']]].
  pose proof (ru_lab _ _ _ R' eq_refl) as LF. pose proof (ru_size _ _ _ R') as SZ.
  exists m'. split; [exact E|]. split; [split; [exact TI'|exact I]|].
  unfold ws_add, mhas, smem in LF, SZ. cbn [self_spec se] in LF, SZ. destruct (lfind (key true i j) (labels (mg m))) as [v|] eqn:F.
  - cbn [self_spec se sn] in LF, SZ. split; [exact SZ|]. split.
    + intros e. rewrite LF. destruct (edge_eqb_spec (key true i j) e) as [<-|]; [rewrite F|]; reflexivity.
    + cbn [wdt]. rewrite (ut_tot _ TI'), (ut_tot _ TI), Z.add_0_r. apply msum_ext; [apply (ut_keys _ TI')|apply (ut_keys _ TI)|exact LF].
  - cbn [with_se self_spec se sn] in LF, SZ. split; [exact SZ|]. split.
    + intros e. rewrite LF. cbn [lfind]. destruct (edge_eqb_spec (key true i j) e) as [<-|]; [rewrite F|]; reflexivity.
    + cbn [wdt]. rewrite (ut_tot _ TI'), (ut_tot _ TI).
      rewrite (msum_ext _ _ (ut_keys _ TI') (keys_cons_new _ w _ (ut_keys _ TI) F) LF), msum_cons_new. lia.
Qed.

Lemma dm_init0 : TInv (dm_init 0) /\ PosM (dm_init 0).
Proof. split; [apply (rm_t _ _ (dm_init_refines 0))|intros e v; cbn; discriminate]. Qed.
Lemma um_init0 : UTInv (dm_init 0) /\ PosM (dm_init 0).
Proof. split; [apply (rum_t _ _ (um_init_refines 0))|intros e v; cbn; discriminate]. Qed.
Lemma PosM_present m e : PosM m -> (lfind e (labels (mg m)) <> None <-> 0 < lget e (labels (mg m))).
Proof. intros Pm. rewrite lget_oget. destruct (lfind e (labels (mg m))) as [v|] eqn:F; cbn [oget].
  - pose proof (Pm e v F). split; [auto|congruence]. - split; [congruence|lia]. Qed.

(* ================= DirectedMultigraph(edge list) ================= *)
(* for EVERY list of (source, destination, multiplicity) entries with non-negative multiplicities (the C++ type is unsigned): 1 + largest
   index vertices - an entry with multiplicity 0 still counts for the size -, the invariant (in particular totalEdgeNumber = sum of the
   stored multiplicities), the multiplicity of (i,j) is the SUM over all entries naming (i,j), (i,j) is an edge iff that sum is positive,
   and totalEdgeNumber is the sum of all multiplicities in the list *)
Theorem dm_of_edge_list_spec (es : list zedge) : (forall x, In x es -> 0 <= snd x) ->
  exists m, dm_of_edge_list V es = Val m /\ TInv m /\ size (mg m) = lmax es /\
    (forall i j, lget (i, j) (labels (mg m)) = mult_sum false (i, j) es) /\
    (forall i j, In j (nb (mg m) i) <-> 0 < mult_sum false (i, j) es) /\
    (forall i j, (i < lmax es)%nat -> (j < lmax es)%nat -> dm_get_multiplicity m i j = Val (mult_sum false (i, j) es)) /\
    mtot m = mult_total es.
Proof.
  intros OK.
  destruct (m_ctor_from_spec (fun h i j k => dm_add_multiedge V h i j k false) (fun m => TInv m /\ PosM m) (fun k => 0 <= k) (key false) mupd mdt
              (d_resize_step PosM PosM_labels) dm_add_step es (dm_init 0) dm_init0 OK) as [m [F [[TI Pm] [S [LB TT]]]]].
  assert (G : forall i j, lget (i, j) (labels (mg m)) = mult_sum false (i, j) es).
  { intros i j. rewrite lget_oget, LB, lab_after_mult. reflexivity. }
  exists m. split; [exact F|]. split; [exact TI|]. split; [cbn [dm_init mk mg init size] in S; lia|]. split; [exact G|]. split; [|split].
  - intros i j. pose proof (i_lab _ _ (t_inv _ TI)) as IL. cbn in IL. rewrite <- IL, (PosM_present m (i, j) Pm), G. tauto.
  - intros i j Hi Hj. unfold dm_get_multiplicity. rewrite in2_true by (cbn [dm_init mk mg init size] in S; lia). rewrite G. reflexivity.
  - rewrite TT, tot_after_mult. reflexivity.
Qed.
Print Assumptions dm_of_edge_list_spec.

(* ================= UndirectedMultigraph(edge list) ================= *)
(* same, with unordered pairs: the multiplicity of {i,j} is the sum over the entries naming it in either orientation *)
Theorem um_of_edge_list_spec (es : list zedge) : (forall x, In x es -> 0 <= snd x) ->
  exists m, um_of_edge_list V es = Val m /\ UTInv m /\ size (mg m) = lmax es /\
    (forall i j, lget (ordered i j) (labels (mg m)) = mult_sum true (ordered i j) es) /\
    (forall i j, In j (nb (mg m) i) <-> 0 < mult_sum true (ordered i j) es) /\
    (forall i j, (i < lmax es)%nat -> (j < lmax es)%nat -> um_get_multiplicity m i j = Val (mult_sum true (ordered i j) es)) /\
    mtot m = mult_total es.
Proof.
  intros OK.
  destruct (m_ctor_from_spec (fun h i j k => um_add_multiedge V h i j k false) (fun m => UTInv m /\ PosM m) (fun k => 0 <= k) (key true) mupd mdt
              (u_resize_step PosM PosM_labels) um_add_step es (dm_init 0) um_init0 OK) as [m [F [[TI Pm] [S [LB TT]]]]].
  assert (G : forall e, lget e (labels (mg m)) = mult_sum true e es).
  { intros e. rewrite lget_oget, LB, lab_after_mult. reflexivity. }
  exists m. split; [exact F|]. split; [exact TI|]. split; [cbn [dm_init mk mg init size] in S; lia|]. split; [intros i j; apply G|]. split; [|split].
  - intros i j. rewrite <- (u_lab_in (mg m) i j (ut_inv _ TI)), (PosM_present m (ordered i j) Pm), G. tauto.
  - intros i j Hi Hj. unfold um_get_multiplicity. rewrite in2_true by (cbn [dm_init mk mg init size] in S; lia). rewrite G. reflexivity.
  - rewrite TT, tot_after_mult. reflexivity.
Qed.
Print Assumptions um_of_edge_list_spec.

(* ================= DirectedWeightedGraph(edge list) ================= *)
(* for EVERY list of (source, destination, weight) entries (any sign, zero included): 1 + largest index vertices, the invariant (totalWeight =
   sum of the stored weights, one per edge), (i,j) is an edge iff some entry names it, its weight is that of the FIRST such entry (addEdge on a
   present edge is a no-op), and totalWeight is the sum of the weights of those first entries *)
Theorem dw_of_edge_list_spec (es : list zedge) :
  exists m, dw_of_edge_list V es = Val m /\ TInv m /\ size (mg m) = lmax es /\
    (forall i j, lfind (i, j) (labels (mg m)) = first_label i j es) /\
    (forall i j, In j (nb (mg m) i) <-> exists w, In (i, j, w) es) /\
    mtot m = wtotal false es.
Proof.
  destruct (m_ctor_from_spec (fun h i j k => dw_add_edge V h i j k false) (fun m => TInv m /\ True) (fun _ => True) (key false) wupd wdt
              (d_resize_step (fun _ => True) (fun _ _ _ _ => I)) dw_add_step es (dm_init 0) (conj (proj1 dm_init0) I) (fun _ _ => I)) as [m [F [[TI _] [S [LB TT]]]]].
  assert (G : forall i j, lfind (i, j) (labels (mg m)) = first_label i j es).
  { intros i j. rewrite LB. cbn [dm_init mk mg init labels lfind]. rewrite lab_after_w_none. apply wfirst_directed. }
  exists m. split; [exact F|]. split; [exact TI|]. split; [cbn [dm_init mk mg init size] in S; lia|]. split; [exact G|]. split.
  - intros i j. pose proof (i_lab _ _ (t_inv _ TI)) as IL. cbn in IL. rewrite <- IL, G. symmetry. apply first_label_some.
  - rewrite TT. cbn [dm_init mk mtot]. rewrite Z.add_0_l. apply tot_after_w. intros e. cbn. split; [congruence|discriminate].
Qed.
Print Assumptions dw_of_edge_list_spec.

(* ================= UndirectedWeightedGraph(edge list) ================= *)
Theorem uw_of_edge_list_spec (es : list zedge) :
  exists m, uw_of_edge_list V es = Val m /\ UTInv m /\ size (mg m) = lmax es /\
    (forall e, lfind e (labels (mg m)) = ufirst e es) /\
    (forall i j, lfind (ordered i j) (labels (mg m)) = ufirst (ordered i j) es) /\
    (forall i j, In j (nb (mg m) i) <-> exists w, In (i, j, w) es \/ In (j, i, w) es) /\
    mtot m = wtotal true es.
Proof.
  destruct (m_ctor_from_spec (fun h i j k => uw_add_edge V h i j k false) (fun m => UTInv m /\ True) (fun _ => True) (key true) wupd wdt
              (u_resize_step (fun _ => True) (fun _ _ _ _ => I)) uw_add_step es (dm_init 0) (conj (proj1 um_init0) I) (fun _ _ => I)) as [m [F [[TI _] [S [LB TT]]]]].
  assert (G : forall e, lfind e (labels (mg m)) = ufirst e es).
  { intros e. rewrite LB. cbn [dm_init mk mg init labels lfind]. rewrite lab_after_w_none. apply wfirst_undirected. }
  exists m. split; [exact F|]. split; [exact TI|]. split; [cbn [dm_init mk mg init size] in S; lia|]. split; [exact G|]. split; [intros i j; apply G|]. split.
  - intros i j. rewrite <- (u_lab_in (mg m) i j (ut_inv _ TI)), G. apply ufirst_present.
  - rewrite TT. cbn [dm_init mk mtot]. rewrite Z.add_0_l. apply tot_after_w. intros e. cbn. split; [congruence|discriminate].
Qed.
Print Assumptions uw_of_edge_list_spec.

(* sanity: duplicates add up (multigraphs) / are ignored (weighted, labelled); an entry with multiplicity 0 only contributes to the size *)
Example ctor_examples :
  omap (fun m => (size (mg m), adj (mg m), labels (mg m), mtot m)) (dm_of_edge_list V [(0%nat, 2%nat, 2); (5%nat, 1%nat, 0); (0%nat, 2%nat, 3); (4%nat, 4%nat, 1)])
    = Val (6%nat, [[2%nat]; []; []; []; [4%nat]; []], [(4%nat, 4%nat, 1); (0%nat, 2%nat, 5)], 6) /\
  omap (fun m => (size (mg m), adj (mg m), labels (mg m), mtot m)) (um_of_edge_list V [(0%nat, 2%nat, 2); (5%nat, 1%nat, 0); (2%nat, 0%nat, 3); (4%nat, 4%nat, 1)])
    = Val (6%nat, [[2%nat]; []; [0%nat]; []; [4%nat]; []], [(4%nat, 4%nat, 1); (0%nat, 2%nat, 5)], 6) /\
  omap (fun m => (size (mg m), adj (mg m), labels (mg m), mtot m)) (dw_of_edge_list V [(0%nat, 2%nat, 2); (2%nat, 0%nat, -7); (0%nat, 2%nat, 3); (4%nat, 4%nat, 0)])
    = Val (5%nat, [[2%nat]; []; [0%nat]; []; [4%nat]], [(4%nat, 4%nat, 0); (2%nat, 0%nat, -7); (0%nat, 2%nat, 2)], -5) /\
  omap (fun m => (size (mg m), adj (mg m), labels (mg m), mtot m)) (uw_of_edge_list V [(0%nat, 2%nat, 2); (2%nat, 0%nat, -7); (0%nat, 2%nat, 3); (4%nat, 4%nat, 0)])
    = Val (5%nat, [[2%nat]; []; [0%nat]; []; [4%nat]], [(4%nat, 4%nat, 0); (0%nat, 2%nat, 2)], 2) /\
  omap (fun g => (size g, adj g, labels g)) (u_of_edge_list true V [(3%nat, 1%nat, 5); (1%nat, 3%nat, 9); (2%nat, 2%nat, 4)])
    = Val (4%nat, [[]; [3%nat]; [2%nat]; [1%nat]], [(2%nat, 2%nat, 4); (1%nat, 3%nat, 5)]).
Proof. vm_compute. repeat split. Qed.
