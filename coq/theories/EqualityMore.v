(* C06 beyond the directed labelled class: the same base-class operator== (sizes, cached edge numbers, label maps, mutual inclusion of the
   adjacency lists) decides value equality on the undirected labelled class, on both multigraphs and on both weighted graphs.
   The directed proof (Equality.v) is replayed on a weaker "shape" hypothesis so that it can be shared by the two invariants. *)
From BG Require Import Base DirectedModel DirectedProofs DirectedIter DirectedUsers DirectedSpec DirectedRefine DirectedObs Equality
  UndirectedModel UndirectedProofs UndirectedIter UndirectedSpec UndirectedRefine UndirectedObs
  MultiModel WeightedModel MultiSpec Totals MultiRefine WeightedRefine UTotals UMultiRefine UWeightedRefine Instances.
Local Open Scope Z_scope.
Local Arguments Z.of_nat : simpl never.

Lemma bool_iff (b c : bool) : (b = true <-> c = true) -> b = c.
Proof. intros [A B]. destruct b, c; try reflexivity; [symmetry; apply A; reflexivity|apply B; reflexivity]. Qed.

(* ================= the verdict of operator== on any two well-shaped graphs ================= *)
Section Core.
Context {L : Type}.
Variable leqb : L -> L -> bool.
Notation dgraph := (@dgraph L).
Implicit Types g h : dgraph.

(* what the adjacency half of operator== needs: one list per vertex, every entry a vertex *)
Record Shape g : Prop := {
  sh_len : length (adj g) = size g;
  sh_rng : forall i j, In j (nb g i) -> (i < size g)%nat /\ (j < size g)%nat }.
(* the two label stores have the same keys *)
Definition same_dom g h : Prop := forall e, lfind e (labels g) <> None <-> lfind e (labels h) <> None.

Lemma eq_rows_shape g h : Shape g -> Shape h -> size g = size h -> forall vs, (forall i, In i vs -> (i < size g)%nat) ->
  eq_rows g h vs = Val (forallb (rows_agree g h) vs).
Proof.
  intros Sg Sh S. induction vs as [|i t IH]; intros R; cbn [eq_rows forallb]; auto.
  assert (Hi : (i < size g)%nat) by (apply R; simpl; auto).
  assert (Hi' : (i < length (adj g))%nat) by (rewrite (sh_len _ Sg); auto).
  assert (Hi'' : (i < length (adj h))%nat) by (rewrite (sh_len _ Sh), <- S; auto).
  rewrite (nth_error_nth' _ [] Hi'), (nth_error_nth' _ [] Hi''). fold (nb g i) (nb h i).
  rewrite (all_edges_in_val h i (nb g i) (sh_len _ Sh)); [|rewrite <- S; auto|intros j Hj; apply (sh_rng _ Sg) in Hj; lia]. cbn [obind].
  unfold rows_agree at 1. destruct (forallb (fun j => mem j (nb h i)) (nb g i)); cbn [andb]; auto.
  rewrite (all_edges_in_val g i (nb h i) (sh_len _ Sg) Hi); [|intros j Hj; apply (sh_rng _ Sh) in Hj; lia]. cbn [obind].
  destruct (forallb (fun j => mem j (nb g i)) (nb h i)); cbn [andb]; auto. apply IH. intros; apply R; simpl; auto.
Qed.
Lemma rows_agree_shape g h : Shape g -> Shape h -> size g = size h ->
  (forallb (rows_agree g h) (seq 0 (size g)) = true <-> same_edges g h).
Proof.
  intros Sg Sh S. rewrite forallb_forall. split.
  - intros H i j. destruct (Nat.lt_ge_cases i (size g)) as [Hi|Hi].
    + specialize (H i (proj2 (in_seq _ _ _) (conj (Nat.le_0_l _) Hi))). unfold rows_agree in H. apply andb_prop in H as [A B].
      rewrite forallb_forall in A, B. split; intros X; [apply mem_In, A|apply mem_In, B]; auto.
    + split; intros X; [apply (sh_rng _ Sg) in X|apply (sh_rng _ Sh) in X]; lia.
  - intros H i _. unfold rows_agree. apply andb_true_intro; split; apply forallb_forall; intros j Hj; apply mem_In, H; auto.
Qed.
Lemma lmap_eqb_dom g h : KeysOK g -> KeysOK h -> same_dom g h ->
  (lmap_eqb leqb (labels g) (labels h) = true <-> labels_agree leqb g h).
Proof.
  intros Kg Kh DOM. unfold lmap_eqb.
  assert (LEN : length (labels g) = length (labels h)).
  { rewrite <- (map_length fst (labels g)), <- (map_length fst (labels h)). apply Permutation_length, NoDup_Permutation; auto.
    intros e. rewrite <- !lfind_some_in_keys. apply DOM. }
  rewrite LEN, Nat.eqb_refl. cbn [andb]. rewrite forallb_forall. split.
  - intros H e v v' F1 F2. apply (lfind_In_nodup leqb _ _ _ Kg) in F1. specialize (H _ F1). cbn [fst snd] in H. rewrite F2 in H. auto.
  - intros H [e v] Hin. cbn [fst snd]. pose proof (proj2 (lfind_In_nodup leqb _ _ _ Kg) Hin) as F1.
    destruct (lfind e (labels h)) as [v'|] eqn:F2; [apply (H e v v' F1 F2)|]. exfalso. apply (proj1 (DOM e)); congruence.
Qed.

(* operator== never reaches undefined behaviour and never throws on well-shaped operands; whenever "same edges" forces the cached edge
   numbers and the key sets of the two stores to coincide, its verdict is exactly: same size, same edges, related labels. *)
Theorem graph_eqb_core g h : Shape g -> Shape h -> KeysOK g -> KeysOK h ->
  (size g = size h -> same_edges g h -> enum g = enum h /\ same_dom g h) ->
  exists b, graph_eqb leqb g h = Val b /\ (b = true <-> size g = size h /\ same_edges g h /\ labels_agree leqb g h).
Proof.
  intros Sg Sh Kg Kh CO. unfold graph_eqb.
  destruct (Nat.eqb_spec (size g) (size h)) as [S|NS]; cbn [andb].
  2:{ exists false; split; auto. split; [discriminate|intros [X _]; congruence]. }
  destruct (forallb (rows_agree g h) (seq 0 (size g))) eqn:RA.
  - pose proof (proj1 (rows_agree_shape g h Sg Sh S) RA) as E. destruct (CO S E) as [EN DOM].
    rewrite EN, Z.eqb_refl. cbn [andb].
    destruct (lmap_eqb leqb (labels g) (labels h)) eqn:LE.
    + rewrite (eq_rows_shape g h Sg Sh S) by (intros i Hi; apply in_seq in Hi; lia). rewrite RA. exists true; split; auto.
      split; auto. intros _. split; auto. split; auto. apply (lmap_eqb_dom g h Kg Kh DOM); auto.
    + exists false; split; auto. split; [discriminate|]. intros [_ [_ LA]]. apply (lmap_eqb_dom g h Kg Kh DOM) in LA. congruence.
  - assert (NE : ~ same_edges g h) by (intros E; apply (rows_agree_shape g h Sg Sh S) in E; congruence).
    destruct (Z.eqb (enum g) (enum h) && lmap_eqb leqb (labels g) (labels h)).
    + rewrite (eq_rows_shape g h Sg Sh S) by (intros i Hi; apply in_seq in Hi; lia). rewrite RA. exists false; split; auto.
      split; [discriminate|intros [_ [E _]]; contradiction].
    + exists false; split; auto. split; [discriminate|intros [_ [E _]]; contradiction].
Qed.
End Core.

(* ================= (A) the undirected labelled class ================= *)
Lemma cnt_same i (l l' : list nat) : NoDup l -> NoDup l' -> (forall j, In j l <-> In j l') -> cnt i l = cnt i l'.
Proof. intros N N' E. unfold cnt. f_equal. apply Permutation_length, NoDup_Permutation; try apply NoDup_filter; auto.
  intros j. rewrite !filter_In, (E j). tauto. Qed.
Lemma utotal_from_ext : forall (a b : list (list nat)) k, length a = length b ->
  (forall i, cnt (k + i) (nth i a []) = cnt (k + i) (nth i b [])) -> utotal_from k a = utotal_from k b.
Proof.
  induction a as [|x t IH]; intros [|y u] k Hl H; simpl in Hl; try discriminate; auto. cbn [utotal_from]. f_equal.
  - specialize (H 0%nat). cbn [nth] in H. rewrite Nat.add_0_r in H. exact H.
  - apply IH; [lia|]. intros i. specialize (H (S i)). cbn [nth] in H. replace (S k + i)%nat with (k + S i)%nat by lia. exact H.
Qed.

Section UEq.
Context {L : Type}.
Variable leqb : L -> L -> bool.
Variable has_store : bool.
Notation dgraph := (@dgraph L).
Notation sgraph := (@sgraph L).
Implicit Types g h : dgraph.
Notation InvU := (InvU has_store).
Notation Inv := (Inv has_store).

Lemma shape_u g : InvU g -> Shape g.
Proof. intros I. constructor; [apply (u_len _ _ I)|apply (u_rng _ _ I)]. Qed.
Lemma shape_d g : Inv g -> Shape g.
Proof. intros I. constructor; [apply (i_len _ _ I)|apply (i_rng _ _ I)]. Qed.
(* the cached edge number of an undirected graph (entries on the i <= j half) is a function of the edge set *)
Lemma u_same_enum g h : InvU g -> InvU h -> size g = size h -> same_edges g h -> enum g = enum h.
Proof.
  intros Ig Ih S E. rewrite (u_enum _ _ Ig), (u_enum _ _ Ih). unfold utotal. apply utotal_from_ext.
  - rewrite (u_len _ _ Ig), (u_len _ _ Ih); exact S.
  - intros i. apply (cnt_same (0 + i) (nb g i) (nb h i)); [apply (u_nodup _ _ Ig)|apply (u_nodup _ _ Ih)|apply E].
Qed.
Lemma u_same_dom g h : InvU g -> InvU h -> same_edges g h -> same_dom g h.
Proof.
  intros Ig Ih E. pose proof (u_lab _ _ Ig) as LG. pose proof (u_lab _ _ Ih) as LH. unfold same_dom. destruct has_store.
  - intros [i j]. rewrite LG, LH, (E i j). tauto.
  - rewrite LG, LH. tauto.
Qed.
Lemma d_same_dom g h : Inv g -> Inv h -> same_edges g h -> same_dom g h.
Proof.
  intros Ig Ih E. pose proof (i_lab _ _ Ig) as LG. pose proof (i_lab _ _ Ih) as LH. unfold same_dom. destruct has_store.
  - intros [i j]. rewrite LG, LH. apply E.
  - rewrite LG, LH. tauto.
Qed.

Theorem u_graph_eqb_spec g h : InvU g -> InvU h -> KeysOK g -> KeysOK h ->
  exists b, graph_eqb leqb g h = Val b /\ (b = true <-> size g = size h /\ same_edges g h /\ labels_agree leqb g h).
Proof.
  intros Ig Ih Kg Kh. apply graph_eqb_core; auto using shape_u.
  intros S E. split; [apply u_same_enum; auto|apply u_same_dom; auto].
Qed.

(* ---- the label store of the undirected model keeps its keys unique: an invariant of every step, both revisions, forced calls included ---- *)
Lemma keys_fold_lerase_gen (es : list edge) : forall (m : @lmap L), NoDup (map fst m) -> NoDup (map fst (fold_left (fun m e => lerase e m) es m)).
Proof. induction es as [|x t IH]; intros m H; cbn [fold_left]; auto. apply IH, NoDup_keys_lerase; auto. Qed.
Lemma keys_u_remove_edge g a b : KeysOK g -> KeysOK (fst (u_remove_edge g a b)).
Proof. unfold KeysOK, u_remove_edge. cbv zeta. intros H. destruct (in_range g a && in_range g b); auto.
  destruct (Nat.ltb a (length (adj g)) && Nat.ltb b (length (adj g))); auto.
  destruct (Z.ltb 0 _); cbn [fst labels]; auto. apply NoDup_keys_lerase; auto. Qed.
Lemma keys_u_add_edge V g a b l f : KeysOK g -> KeysOK (fst (u_add_edge has_store V g a b l f)).
Proof. unfold KeysOK, u_add_edge, u_push. intros H.
  destruct f; [destruct (v_force_checks V); [destruct (in_range g a && in_range g b)|]|destruct (u_has_edge g a b) as [[|]| |]]; auto;
  destruct (Nat.ltb a (length (adj g)) && Nat.ltb b (length (adj g))); auto; cbn [fst labels]; apply keys_set_label; auto. Qed.
Theorem keys_ustep V g o : KeysOK g -> KeysOK (fst (ustep has_store V g o)).
Proof.
  intros H. destruct o as [a b l f|a b| |v| |n|a b l f|]; cbn [ustep].
  - apply keys_u_add_edge; auto.
  - apply keys_u_remove_edge; auto.
  - unfold u_remove_self_loops. apply for_vertices_pres; auto. intros; apply keys_u_remove_edge; auto.
  - unfold u_remove_vertex. destruct (in_range g v); auto. destruct (Nat.leb (size g) (length (adj g))); auto.
    destruct (u_rmv_rows v 0 (adj g)) as [[rows c] es]. unfold KeysOK; cbn [fst labels]. destruct (v_rmv_labels V); auto.
    apply keys_fold_lerase_gen; auto.
  - unfold clear_edges. destruct (Nat.leb (size g) (length (adj g))); auto. unfold KeysOK; cbn [fst labels]. destruct (v_clear_labels V); auto. constructor.
  - unfold resize. destruct (Nat.ltb n (size g)); auto.
  - unfold u_set_edge_label, set_edge_label. cbv zeta. destruct (in_range g (fst (ordered a b)) && in_range g (snd (ordered a b))); auto.
    destruct f; [unfold KeysOK; cbn [fst labels]; apply keys_set_label; auto|].
    destruct (has_edge g (fst (ordered a b)) (snd (ordered a b))) as [[|]| |]; auto. unfold KeysOK; cbn [fst labels]; apply keys_set_label; auto.
  - unfold u_remove_duplicates. destruct (Nat.leb (size g) (length (adj g))); auto. destruct (u_dedup_rows 0 (adj g)) as [rows c]. exact H.
Qed.
Lemma keys_urun V ops : forall g, KeysOK g -> KeysOK (fst (urun has_store V g ops)).
Proof. induction ops as [|o ops IH]; intros g H; cbn [urun]; auto. pose proof (keys_ustep V g o H) as H1.
  destruct (ustep has_store V g o) as [g1 r]. cbn [fst] in H1. destruct r; auto. Qed.

(* ---- the verdict on two refined states, in terms of the spec graphs ---- *)
Lemma rf_eqb g h (a b : sgraph) : Rf has_store g a -> Rf has_store h b -> KeysOK g -> KeysOK h ->
  exists v, graph_eqb leqb g h = Val v /\ (v = true <-> spec_same leqb has_store a b).
Proof.
  intros [Ig Sg Mg Lg] [Ih Sh Mh Lh] Kg Kh.
  destruct (graph_eqb_spec leqb has_store g h Ig Ih Kg Kh) as [v [E H]]. exists v. split; [exact E|split].
  - intros Hb. apply H in Hb as [S [ED LA]]. split; [congruence|split].
    + intros [i j]. specialize (ED i j). rewrite Mg, Mh in ED.
      destruct (smem (i, j) a), (smem (i, j) b); auto; [symmetry|]; apply ED; auto.
    + intros HS e x x' F1 F2. apply (LA e x x'); [rewrite (Lg HS)|rewrite (Lh HS)]; auto.
  - intros [S [ME LE]]. apply H. split; [congruence|]. split.
    + intros i j. rewrite Mg, Mh, (ME (i, j)). tauto.
    + intros e x x' F1 F2. pose proof (i_lab _ _ Ig) as IL. destruct has_store eqn:HS.
      * apply (LE eq_refl e x x'); [rewrite <- (Lg eq_refl)|rewrite <- (Lh eq_refl)]; auto.
      * rewrite IL in F1. discriminate.
Qed.
Lemma rfu_eqb g h (a b : sgraph) : RfU has_store g a -> RfU has_store h b -> KeysOK g -> KeysOK h -> Canon a -> Canon b ->
  exists v, graph_eqb leqb g h = Val v /\ (v = true <-> spec_same leqb has_store a b).
Proof.
  intros [Ig Sg Mg Lg] [Ih Sh Mh Lh] Kg Kh Ca Cb.
  destruct (u_graph_eqb_spec g h Ig Ih Kg Kh) as [v [E H]]. exists v. split; [exact E|split].
  - intros Hb. apply H in Hb as [S [ED LA]]. split; [congruence|split].
    + intros [i j]. destruct (Nat.le_gt_cases i j) as [Le|Gt].
      * specialize (ED i j). rewrite Mg, Mh in ED. unfold umem, okey in ED.
        pose proof (ordered_fst_snd (i, j) Le) as OK. cbn [fst snd] in OK. rewrite OK in ED.
        destruct (smem (i, j) a), (smem (i, j) b); auto; [symmetry|]; apply ED; auto.
      * destruct (smem (i, j) a) eqn:X; [apply Ca in X; cbn [fst snd] in X; lia|].
        destruct (smem (i, j) b) eqn:Y; [apply Cb in Y; cbn [fst snd] in Y; lia|]. reflexivity.
    + intros HS e x x' F1 F2. apply (LA e x x'); [rewrite (Lg HS)|rewrite (Lh HS)]; auto.
  - intros [S [ME LE]]. apply H. split; [congruence|]. split.
    + intros i j. rewrite Mg, Mh. unfold umem. rewrite (ME (okey i j)). tauto.
    + intros e x x' F1 F2. pose proof (u_lab _ _ Ig) as IL. destruct has_store eqn:HS.
      * apply (LE eq_refl e x x'); [rewrite <- (Lg eq_refl)|rewrite <- (Lh eq_refl)]; auto.
      * rewrite IL in F1. discriminate.
Qed.
End UEq.

(* ---- spec_eqb (the executable spec-side verdict used by the differential test) against spec_same ---- *)
Definition lveq {L : Type} (hs : bool) (leqb : L -> L -> bool) : L -> L -> bool := if hs then leqb else fun _ _ => true.
Definition SK {L : Type} (a : @sgraph L) : Prop := NoDup (map fst (se a)).

Lemma lmap_sub_iff {V : Type} (veq : V -> V -> bool) (m1 m2 : @lmap V) : NoDup (map fst m1) ->
  (lmap_sub veq m1 m2 = true <-> forall e v, lfind e m1 = Some v -> exists v', lfind e m2 = Some v' /\ veq v v' = true).
Proof.
  intros K. unfold lmap_sub. rewrite forallb_forall. split.
  - intros H e v F. apply (lfind_In_nodup veq _ _ _ K) in F. specialize (H _ F). cbn [fst snd] in H.
    destruct (lfind e m2) as [v'|]; [exists v'; auto|discriminate].
  - intros H [e v] Hin. cbn [fst snd]. apply (lfind_In_nodup veq _ _ _ K) in Hin. destruct (H e v Hin) as [v' [F E]]. rewrite F; auto.
Qed.
Lemma spec_eqb_iff {V : Type} (veq : V -> V -> bool) (a b : @sgraph V) : SK a -> SK b ->
  (spec_eqb veq a b = true <->
   sn a = sn b /\ (forall e, smem e a = smem e b) /\
   (forall e v v', lfind e (se a) = Some v -> lfind e (se b) = Some v' -> veq v v' = true /\ veq v' v = true)).
Proof.
  intros Ka Kb. unfold spec_eqb. rewrite !andb_true_iff, Nat.eqb_eq, (lmap_sub_iff veq _ _ Ka), (lmap_sub_iff veq _ _ Kb). split.
  - intros [[S A] B]. split; [exact S|split].
    + intros e. unfold smem. destruct (lfind e (se a)) as [x|] eqn:Fa; destruct (lfind e (se b)) as [y|] eqn:Fb; auto.
      * destruct (A e x Fa) as [w [F _]]. congruence.
      * destruct (B e y Fb) as [w [F _]]. congruence.
    + intros e v v' F1 F2. destruct (A e v F1) as [w [F E]]. rewrite F2 in F. injection F as <-.
      destruct (B e v' F2) as [w [F' E']]. rewrite F1 in F'. injection F' as <-. auto.
  - intros [S [M LE]]. split; [split; [exact S|]|].
    + intros e v F. specialize (M e). unfold smem in M. rewrite F in M. destruct (lfind e (se b)) as [v'|] eqn:F2; [|discriminate].
      exists v'; split; auto. apply (LE e v v' F F2).
    + intros e v F. specialize (M e). unfold smem in M. rewrite F in M. destruct (lfind e (se a)) as [v'|] eqn:F2; [|discriminate].
      exists v'; split; auto. apply (LE e v' v F2 F).
Qed.
Lemma spec_eqb_same {L : Type} (leqb : L -> L -> bool) hs (a b : @sgraph L) : (forall x y, leqb x y = leqb y x) -> SK a -> SK b ->
  (spec_eqb (lveq hs leqb) a b = true <-> spec_same leqb hs a b).
Proof.
  intros SY Ka Kb. rewrite (spec_eqb_iff _ a b Ka Kb). unfold spec_same, lveq. split.
  - intros [S [M LE]]. split; auto. split; auto. intros HS e v v' F1 F2. rewrite HS in LE. apply (LE e v v' F1 F2).
  - intros [S [M LE]]. split; auto. split; auto. intros e v v' F1 F2. destruct hs; auto.
    split; [|rewrite SY]; apply (LE eq_refl e v v' F1 F2).
Qed.

(* unique keys on the spec side, for every history (valid or not) *)
Lemma SK_filter {L : Type} (a : @sgraph L) p : SK a -> SK (s_filter a p).
Proof. unfold SK, s_filter; cbn [se]. intros Hb. induction (se a) as [|[k v] l IH]; simpl; [constructor|]. inversion Hb; subst.
  destruct (p k); simpl; auto. constructor; auto. intros X. apply H1. apply in_map_iff in X as [[k' v'] [E X]]. simpl in E; subst.
  apply filter_In in X as [X _]. apply in_map_iff. exists (k, v'); auto. Qed.
Lemma SK_add {L : Type} (a : @sgraph L) s d l : SK a -> SK (s_add a s d l).
Proof. unfold SK, s_add. intros H. destruct (smem (s, d) a) eqn:M; auto. cbn [se map fst]. constructor; auto.
  rewrite <- lfind_some_in_keys. unfold smem in M. destruct (lfind (s, d) (se a)); congruence. Qed.
Lemma SK_remove {L : Type} (a : @sgraph L) s d : SK a -> SK (s_remove a s d).
Proof. unfold SK, s_remove; cbn [se]. apply NoDup_keys_lerase. Qed.
Lemma SK_setlabel {L : Type} (a : @sgraph L) s d l : SK a -> SK (s_setlabel a s d l).
Proof. unfold SK, s_setlabel. intros H. destruct (smem (s, d) a); auto. cbn [se]. apply NoDup_keys_lset; auto. Qed.
Lemma SK_ustep {L : Type} (a : @sgraph L) o : SK a -> SK (uspec_step a o).
Proof. intros H. destruct o; cbn [uspec_step]; auto using SK_add, SK_remove, SK_setlabel.
  - apply SK_filter; auto.
  - apply SK_filter; auto.
  - unfold SK; cbn; constructor. Qed.
Lemma SK_urun {L : Type} ops : forall (a : @sgraph L), SK a -> SK (uspec_run a ops).
Proof. induction ops as [|o t IH]; intros a H; cbn [uspec_run]; auto. apply IH, SK_ustep; auto. Qed.
Lemma SK_step {L : Type} (a : @sgraph L) o : SK a -> SK (spec_step a o).
Proof. intros H. destruct o; cbn [spec_step]; auto using SK_add, SK_remove, SK_setlabel.
  - apply SK_filter; auto.
  - apply SK_filter; auto.
  - unfold SK; cbn; constructor. Qed.
Lemma SK_run {L : Type} ops : forall (a : @sgraph L), SK a -> SK (spec_run a ops).
Proof. induction ops as [|o t IH]; intros a H; cbn [spec_run]; auto. apply IH, SK_step; auto. Qed.
Lemma SK_init {L : Type} n : SK (@s_init L n).
Proof. unfold SK; cbn; constructor. Qed.
Lemma Canon_init {L : Type} n : Canon (@s_init L n).
Proof. intros e; unfold smem; cbn; discriminate. Qed.

(* ---- histories of the undirected labelled class ---- *)
Theorem u_histories_eqb {L : Type} (leqb : L -> L -> bool) hs (n m : nat) (opsA opsB : list (@uop L)) :
  uvalid_history (s_init n) opsA = true -> uvalid_history (s_init m) opsB = true ->
  exists g h b, urun hs repaired (init n) opsA = (g, Done) /\ urun hs repaired (init m) opsB = (h, Done) /\
    graph_eqb leqb g h = Val b /\
    (b = true <-> spec_same leqb hs (uspec_run (s_init n) opsA) (uspec_run (s_init m) opsB)) /\
    ((forall x y, leqb x y = leqb y x) -> b = spec_eqb (lveq hs leqb) (uspec_run (s_init n) opsA) (uspec_run (s_init m) opsB)).
Proof.
  intros VA VB.
  pose proof (urun_refines hs opsA (init n) (s_init n) (u_init_refines hs n) VA) as HA.
  pose proof (urun_refines hs opsB (init m) (s_init m) (u_init_refines hs m) VB) as HB.
  pose proof (keys_urun hs repaired opsA (init n)) as KA. pose proof (keys_urun hs repaired opsB (init m)) as KB.
  destruct (urun hs repaired (init n) opsA) as [g ra]. destruct (urun hs repaired (init m) opsB) as [h rb].
  destruct HA as [-> RA]. destruct HB as [-> RB]. cbn [fst] in KA, KB.
  assert (Kg : KeysOK g) by (apply KA; constructor). assert (Kh : KeysOK h) by (apply KB; constructor).
  destruct (rfu_eqb leqb hs g h _ _ RA RB Kg Kh (Canon_run opsA _ (Canon_init n)) (Canon_run opsB _ (Canon_init m))) as [b [E H]].
  exists g, h, b. split; [reflexivity|split; [reflexivity|split; [exact E|split; [exact H|]]]].
  intros SY. apply bool_iff. rewrite H. symmetry. apply spec_eqb_same; auto using SK_urun, SK_init.
Qed.

(* ================= (B) multigraphs and weighted graphs ================= *)
(* with integer labels compared by Z.eqb, "same support and related labels" is "the same finite map" *)
Lemma same_Z_lfind (a b : @sgraph Z) : spec_same Z.eqb true a b <-> sn a = sn b /\ forall e, lfind e (se a) = lfind e (se b).
Proof.
  unfold spec_same. split.
  - intros [S [M LE]]. split; auto. intros e. specialize (M e). unfold smem in M.
    destruct (lfind e (se a)) as [x|] eqn:Fa; destruct (lfind e (se b)) as [y|] eqn:Fb; try discriminate; auto.
    f_equal. apply Z.eqb_eq. apply (LE eq_refl e x y Fa Fb).
  - intros [S E]. split; auto. split; [intros e; unfold smem; rewrite (E e); reflexivity|].
    intros _ e v v' F1 F2. rewrite (E e), F2 in F1. injection F1 as ->. apply Z.eqb_refl.
Qed.
Lemma ssum_ext (a b : @sgraph Z) : SKeys a -> SKeys b -> (forall e, lfind e (se a) = lfind e (se b)) -> ssum a = ssum b.
Proof. intros Ka Kb E. apply (msum_ext (se a) (se b) Ka Kb E). Qed.
Lemma lfind_eq_mval und (a b : @sgraph Z) : (forall e, lfind e (se a) = lfind e (se b)) ->
  forall i j, mhas und a i j = mhas und b i j /\ mval und a i j = mval und b i j.
Proof. intros E i j. unfold mhas, mval, smem, lget. rewrite (E (key und i j)). auto. Qed.

(* state level: on any two states satisfying the invariant of the directed (TInv) or undirected (UTInv) multigraph / weighted model,
   operator== is defined, decides "same size, same edges, same multiplicity / weight on every edge", and - although the running totals
   are NOT compared by operator== - a true verdict forces the totals to be equal, because under the invariant the total is the sum of
   the label store. *)
Lemma agree_Z_eq (g h : @dgraph Z) : same_dom g h -> labels_agree Z.eqb g h -> forall e, lfind e (labels g) = lfind e (labels h).
Proof. intros DOM LA e. specialize (DOM e).
  destruct (lfind e (labels g)) as [x|] eqn:Fa; destruct (lfind e (labels h)) as [y|] eqn:Fb; auto.
  - f_equal. apply Z.eqb_eq. apply (LA e x y Fa Fb).
  - exfalso. apply (proj1 DOM); congruence.
  - exfalso. apply (proj2 DOM); congruence. Qed.
Theorem m_state_eqb (m1 m2 : mgraph) : TInv m1 -> TInv m2 ->
  exists b, m_eqb m1 m2 = Val b /\
    (b = true <-> size (mg m1) = size (mg m2) /\ same_edges (mg m1) (mg m2) /\ forall e, lfind e (labels (mg m1)) = lfind e (labels (mg m2))) /\
    (b = true -> mtot m1 = mtot m2).
Proof.
  intros [I1 K1 T1] [I2 K2 T2]. unfold m_eqb. destruct (graph_eqb_spec Z.eqb true _ _ I1 I2 K1 K2) as [b [E H]]. exists b. split; [exact E|].
  assert (X : b = true <-> size (mg m1) = size (mg m2) /\ same_edges (mg m1) (mg m2) /\ forall e, lfind e (labels (mg m1)) = lfind e (labels (mg m2))).
  { rewrite H. split.
    - intros [S [ED LA]]. split; auto. split; auto. apply agree_Z_eq; auto. apply (d_same_dom true); auto.
    - intros [S [ED LE]]. split; auto. split; auto. intros e v v' F1 F2. rewrite (LE e), F2 in F1. injection F1 as ->. apply Z.eqb_refl. }
  split; [exact X|]. intros Hb. apply X in Hb as [_ [_ LE]]. rewrite T1, T2. apply msum_ext; auto.
Qed.
Theorem um_state_eqb (m1 m2 : mgraph) : UTInv m1 -> UTInv m2 ->
  exists b, m_eqb m1 m2 = Val b /\
    (b = true <-> size (mg m1) = size (mg m2) /\ same_edges (mg m1) (mg m2) /\ forall e, lfind e (labels (mg m1)) = lfind e (labels (mg m2))) /\
    (b = true -> mtot m1 = mtot m2).
Proof.
  intros [I1 K1 T1] [I2 K2 T2]. unfold m_eqb. destruct (u_graph_eqb_spec Z.eqb true _ _ I1 I2 K1 K2) as [b [E H]]. exists b. split; [exact E|].
  assert (X : b = true <-> size (mg m1) = size (mg m2) /\ same_edges (mg m1) (mg m2) /\ forall e, lfind e (labels (mg m1)) = lfind e (labels (mg m2))).
  { rewrite H. split.
    - intros [S [ED LA]]. split; auto. split; auto. apply agree_Z_eq; auto. apply (u_same_dom true); auto.
    - intros [S [ED LE]]. split; auto. split; auto. intros e v v' F1 F2. rewrite (LE e), F2 in F1. injection F1 as ->. apply Z.eqb_refl. }
  split; [exact X|]. intros Hb. apply X in Hb as [_ [_ LE]]. rewrite T1, T2. apply msum_ext; auto.
Qed.

(* history level: what the four refinement relations have in common *)
Definition verdict_ok (m1 m2 : mgraph) (a1 a2 : @sgraph Z) : Prop :=
  m_eqb m1 m2 = Val (spec_eqb Z.eqb a1 a2) /\
  (spec_eqb Z.eqb a1 a2 = true <-> sn a1 = sn a2 /\ forall e, lfind e (se a1) = lfind e (se a2)) /\
  (spec_eqb Z.eqb a1 a2 = true -> mtot m1 = mtot m2).
Lemma verdict_of_spec_same (m1 m2 : mgraph) (a1 a2 : @sgraph Z) (v : bool) : SKeys a1 -> SKeys a2 -> mtot m1 = ssum a1 -> mtot m2 = ssum a2 ->
  m_eqb m1 m2 = Val v -> (v = true <-> spec_same Z.eqb true a1 a2) -> verdict_ok m1 m2 a1 a2.
Proof.
  intros K1 K2 T1 T2 E H.
  assert (SE : spec_eqb Z.eqb a1 a2 = true <-> spec_same Z.eqb true a1 a2).
  { apply (spec_eqb_same Z.eqb true a1 a2 Z.eqb_sym K1 K2). }
  assert (V : v = spec_eqb Z.eqb a1 a2) by (apply bool_iff; rewrite H, SE; tauto).
  unfold verdict_ok. rewrite <- V. split; [exact E|split].
  - rewrite H. apply same_Z_lfind.
  - intros Hv. apply H, same_Z_lfind in Hv as [_ LE]. rewrite T1, T2. apply ssum_ext; auto.
Qed.
Lemma rf_total (m : mgraph) (a : @sgraph Z) : TInv m -> Rf true (mg m) a -> SKeys a -> mtot m = ssum a.
Proof. intros [I K T] R SKa. rewrite T. apply msum_ext; auto. intros e. apply (r_lab _ _ _ R eq_refl). Qed.
Lemma rfu_canon (g : @dgraph Z) (a : @sgraph Z) : RfU true g a -> Canon a.
Proof. intros [I S M LB] e H. pose proof (u_lab _ _ I) as IL. cbn in IL.
  assert (X : lfind (fst e, snd e) (labels g) <> None).
  { rewrite <- surjective_pairing, (LB eq_refl). unfold smem in H. destruct (lfind e (se a)); congruence. }
  apply IL in X. tauto. Qed.
Lemma verdict_directed (m1 m2 : mgraph) (a1 a2 : @sgraph Z) : TInv m1 -> TInv m2 -> Rf true (mg m1) a1 -> Rf true (mg m2) a2 -> SKeys a1 -> SKeys a2 ->
  verdict_ok m1 m2 a1 a2.
Proof.
  intros T1 T2 R1 R2 K1 K2. destruct (rf_eqb Z.eqb true _ _ _ _ R1 R2 (t_keys _ T1) (t_keys _ T2)) as [v [E H]].
  apply (verdict_of_spec_same m1 m2 a1 a2 v); auto using rf_total.
Qed.
Lemma verdict_undirected (m1 m2 : mgraph) (a1 a2 : @sgraph Z) : UTInv m1 -> UTInv m2 -> RfU true (mg m1) a1 -> RfU true (mg m2) a2 -> SKeys a1 -> SKeys a2 ->
  verdict_ok m1 m2 a1 a2.
Proof.
  intros T1 T2 R1 R2 K1 K2.
  destruct (rfu_eqb Z.eqb true _ _ _ _ R1 R2 (ut_keys _ T1) (ut_keys _ T2) (rfu_canon _ _ R1) (rfu_canon _ _ R2)) as [v [E H]].
  apply (verdict_of_spec_same m1 m2 a1 a2 v); auto using rfu_total.
Qed.
Lemma SKeys_init n : SKeys (s_init n).
Proof. unfold SKeys; cbn; constructor. Qed.

Theorem dm_histories_eqb (n m : nat) (opsA opsB : list mop) :
  valid_mhistory (s_init n) opsA = true -> valid_mhistory (s_init m) opsB = true ->
  exists m1 m2, dm_run (dm_init n) opsA = (m1, Done) /\ dm_run (dm_init m) opsB = (m2, Done) /\
    verdict_ok m1 m2 (mspec_run (s_init n) opsA) (mspec_run (s_init m) opsB).
Proof.
  intros VA VB. destruct (dm_run_refines opsA _ _ (dm_init_refines n) VA) as [m1 [E1 [T1 R1 _]]].
  destruct (dm_run_refines opsB _ _ (dm_init_refines m) VB) as [m2 [E2 [T2 R2 _]]].
  exists m1, m2. split; [exact E1|split; [exact E2|]]. apply verdict_directed; auto using SKeys_run, SKeys_init.
Qed.
Theorem um_histories_eqb (n m : nat) (opsA opsB : list mop) :
  um_valid_history (s_init n) opsA = true -> um_valid_history (s_init m) opsB = true ->
  exists m1 m2, um_run (dm_init n) opsA = (m1, Done) /\ um_run (dm_init m) opsB = (m2, Done) /\
    verdict_ok m1 m2 (umspec_run (s_init n) opsA) (umspec_run (s_init m) opsB).
Proof.
  intros VA VB. destruct (um_run_refines opsA _ _ (um_init_refines n) VA) as [m1 [E1 [T1 R1 _]]].
  destruct (um_run_refines opsB _ _ (um_init_refines m) VB) as [m2 [E2 [T2 R2 _]]].
  exists m1, m2. split; [exact E1|split; [exact E2|]]. apply verdict_undirected; auto using SKeys_urun, SKeys_init.
Qed.
Theorem dw_histories_eqb (n m : nat) (opsA opsB : list wop) :
  valid_whistory (s_init n) opsA = true -> valid_whistory (s_init m) opsB = true ->
  exists m1 m2, dw_run (dm_init n) opsA = (m1, Done) /\ dw_run (dm_init m) opsB = (m2, Done) /\
    verdict_ok m1 m2 (wspec_run (s_init n) opsA) (wspec_run (s_init m) opsB).
Proof.
  intros VA VB. destruct (dw_run_refines opsA _ _ (dw_init_refines n) VA) as [m1 [E1 [T1 R1]]].
  destruct (dw_run_refines opsB _ _ (dw_init_refines m) VB) as [m2 [E2 [T2 R2]]].
  exists m1, m2. split; [exact E1|split; [exact E2|]]. apply verdict_directed; auto using WKeys_run, SKeys_init.
Qed.
Theorem uw_histories_eqb (n m : nat) (opsA opsB : list wop) :
  uw_valid_history (s_init n) opsA = true -> uw_valid_history (s_init m) opsB = true ->
  exists m1 m2, uw_run (dm_init n) opsA = (m1, Done) /\ uw_run (dm_init m) opsB = (m2, Done) /\
    verdict_ok m1 m2 (uwspec_run (s_init n) opsA) (uwspec_run (s_init m) opsB).
Proof.
  intros VA VB. destruct (uw_run_refines opsA _ _ (uw_init_refines n) VA) as [m1 [E1 [T1 R1]]].
  destruct (uw_run_refines opsB _ _ (uw_init_refines m) VB) as [m2 [E2 [T2 R2]]].
  exists m1, m2. split; [exact E1|split; [exact E2|]]. apply verdict_undirected; auto using WKeys_urun, SKeys_init.
Qed.

(* reflexive and symmetric when the label equality is (undirected class) *)
Corollary u_graph_eqb_refl {L : Type} (leqb : L -> L -> bool) hs (g : @dgraph L) :
  (forall x, leqb x x = true) -> InvU hs g -> KeysOK g -> graph_eqb leqb g g = Val true.
Proof. intros RF Ig Kg. destruct (u_graph_eqb_spec leqb hs g g Ig Ig Kg Kg) as [b [E H]]. rewrite E. f_equal. apply H.
  split; auto. split; [intros i j; tauto|]. intros e v v' F1 F2. rewrite F1 in F2. injection F2 as <-. apply RF. Qed.
Corollary u_graph_eqb_sym {L : Type} (leqb : L -> L -> bool) hs (g h : @dgraph L) :
  (forall x y, leqb x y = leqb y x) -> InvU hs g -> InvU hs h -> KeysOK g -> KeysOK h -> graph_eqb leqb g h = graph_eqb leqb h g.
Proof. intros SY Ig Ih Kg Kh. destruct (u_graph_eqb_spec leqb hs g h Ig Ih Kg Kh) as [b [E H]]. destruct (u_graph_eqb_spec leqb hs h g Ih Ig Kh Kg) as [b' [E' H']].
  rewrite E, E'. f_equal. apply bool_iff. rewrite H, H'. split.
  - intros [A [B C]]. split; auto. split; [intros i j; symmetry; apply B|]. intros e v v' F1 F2. rewrite SY. apply (C e v' v); auto.
  - intros [A [B C]]. split; auto. split; [intros i j; symmetry; apply B|]. intros e v v' F1 F2. rewrite SY. apply (C e v' v); auto.
Qed.

(* ================= C06, stated ================= *)

(* (A1) Undirected labelled class, any two states satisfying the invariant InvU (symmetric lists without repetition, edge number = number of
   entries on the i <= j half, label keys = the ordered pairs (min, max) of the present edges) whose stores are maps: operator== is
   defined, and true exactly when the sizes agree, the neighbour SETS agree and the labels found under a common key are related.
   Insertion order and the order inside the lists do not occur in the right-hand side.  (With NoLabel, hs = false, the stores are
   empty and the last conjunct holds vacuously.) *)
Theorem C06_undirected_eq : forall (L : Type) (leqb : L -> L -> bool) hs (g h : @dgraph L),
  InvU hs g -> InvU hs h -> KeysOK g -> KeysOK h ->
  exists b, graph_eqb leqb g h = Val b /\
    (b = true <-> size g = size h /\ (forall i j, In j (nb g i) <-> In j (nb h i)) /\
                  (forall e v v', lfind e (labels g) = Some v -> lfind e (labels h) = Some v' -> leqb v v' = true)).
Proof. intros L leqb hs g h Ig Ih Kg Kh. exact (u_graph_eqb_spec leqb hs g h Ig Ih Kg Kh). Qed.
Print Assumptions C06_undirected_eq.

(* (A2) KeysOK is an invariant of every step of the undirected model - pinned or repaired revision, forced calls and calls that throw included. *)
Theorem C06_undirected_keys : forall (L : Type) hs V (g : @dgraph L) (ops : list (@uop L)), KeysOK g -> KeysOK (fst (urun hs V g ops)).
Proof. intros L hs V g ops. apply keys_urun. Qed.
Print Assumptions C06_undirected_keys.

(* (A3) For ANY two valid undirected histories (any lengths, initial sizes, label type) the verdict is "the two histories denote the same
   graph": spec_same = same size, same set of unordered pairs, related labels; edges and labels removed in the past play no role since the
   spec of a history does not contain them.  When the label comparison is symmetric the verdict is literally the executable spec-side
   verdict spec_eqb that the differential test computes (Instances.u_eq_spec: veq_of hs = lveq hs Z.eqb). *)
Theorem C06_undirected_histories : forall (L : Type) (leqb : L -> L -> bool) hs (n m : nat) (opsA opsB : list (@uop L)),
  uvalid_history (s_init n) opsA = true -> uvalid_history (s_init m) opsB = true ->
  exists g h b, urun hs repaired (init n) opsA = (g, Done) /\ urun hs repaired (init m) opsB = (h, Done) /\
    graph_eqb leqb g h = Val b /\
    (b = true <-> spec_same leqb hs (uspec_run (s_init n) opsA) (uspec_run (s_init m) opsB)) /\
    ((forall x y, leqb x y = leqb y x) -> b = spec_eqb (lveq hs leqb) (uspec_run (s_init n) opsA) (uspec_run (s_init m) opsB)).
Proof. intros L leqb hs n m opsA opsB. apply u_histories_eqb. Qed.
Print Assumptions C06_undirected_histories.
Lemma veq_of_lveq hs : veq_of hs = lveq hs Z.eqb. Proof. reflexivity. Qed.

(* the same bridge to the executable verdict for the directed labelled class (complements Properties_C06.C06_histories) *)
Theorem C06_directed_histories_eqb : forall (L : Type) (leqb : L -> L -> bool) hs (n m : nat) (opsA opsB : list (@dop L)),
  (forall x y, leqb x y = leqb y x) -> valid_history (s_init n) opsA = true -> valid_history (s_init m) opsB = true ->
  exists g h, run hs repaired (init n) opsA = (g, Done) /\ run hs repaired (init m) opsB = (h, Done) /\
    graph_eqb leqb g h = Val (spec_eqb (lveq hs leqb) (spec_run (s_init n) opsA) (spec_run (s_init m) opsB)).
Proof.
  intros L leqb hs n m opsA opsB SY VA VB. destruct (histories_eqb leqb hs n m opsA opsB VA VB) as [g [h [b [EA [EB [E H]]]]]].
  exists g, h. split; [exact EA|split; [exact EB|]]. rewrite E. f_equal. apply bool_iff. rewrite H. symmetry.
  apply spec_eqb_same; auto using SK_run, SK_init.
Qed.
Print Assumptions C06_directed_histories_eqb.

(* (B) Multigraphs and weighted graphs.  [und] selects the undirected class.  operator== of these four classes is the base-class
   operator== on the labelled graph part (Instances.m_eqb): the running total (totalEdgeNumber / totalWeight, mtot) is NOT compared.
   For any two valid histories the verdict is the executable spec-side verdict spec_eqb Z.eqb of the two denoted multiplicity / weight
   functions, which is true exactly when they have the same size and are the same finite map (same support, same value on every pair);
   and whenever the verdict is true the two totals are equal all the same, the total being the sum of the store under the invariant. *)
Definition m_valid_of (und : bool) := if und then um_valid_history else valid_mhistory.
Definition m_run_of (und : bool) := if und then um_run else dm_run.
Definition m_spec_of (und : bool) := if und then umspec_run else mspec_run.
Definition w_valid_of (und : bool) := if und then uw_valid_history else valid_whistory.
Definition w_run_of (und : bool) := if und then uw_run else dw_run.
Definition w_spec_of (und : bool) := if und then uwspec_run else wspec_run.

Theorem C06_multigraph_histories : forall (und : bool) (n m : nat) (opsA opsB : list mop),
  m_valid_of und (s_init n) opsA = true -> m_valid_of und (s_init m) opsB = true ->
  exists m1 m2, m_run_of und (dm_init n) opsA = (m1, Done) /\ m_run_of und (dm_init m) opsB = (m2, Done) /\
    let a1 := m_spec_of und (s_init n) opsA in let a2 := m_spec_of und (s_init m) opsB in
    graph_eqb Z.eqb (mg m1) (mg m2) = Val (spec_eqb Z.eqb a1 a2) /\
    (spec_eqb Z.eqb a1 a2 = true <-> sn a1 = sn a2 /\ forall e, lfind e (se a1) = lfind e (se a2)) /\
    (spec_eqb Z.eqb a1 a2 = true -> mtot m1 = mtot m2).
Proof. intros [|] n m opsA opsB VA VB; [exact (um_histories_eqb n m opsA opsB VA VB)|exact (dm_histories_eqb n m opsA opsB VA VB)]. Qed.
Print Assumptions C06_multigraph_histories.

Theorem C06_weighted_histories : forall (und : bool) (n m : nat) (opsA opsB : list wop),
  w_valid_of und (s_init n) opsA = true -> w_valid_of und (s_init m) opsB = true ->
  exists m1 m2, w_run_of und (dm_init n) opsA = (m1, Done) /\ w_run_of und (dm_init m) opsB = (m2, Done) /\
    let a1 := w_spec_of und (s_init n) opsA in let a2 := w_spec_of und (s_init m) opsB in
    graph_eqb Z.eqb (mg m1) (mg m2) = Val (spec_eqb Z.eqb a1 a2) /\
    (spec_eqb Z.eqb a1 a2 = true <-> sn a1 = sn a2 /\ forall e, lfind e (se a1) = lfind e (se a2)) /\
    (spec_eqb Z.eqb a1 a2 = true -> mtot m1 = mtot m2).
Proof. intros [|] n m opsA opsB VA VB; [exact (uw_histories_eqb n m opsA opsB VA VB)|exact (dw_histories_eqb n m opsA opsB VA VB)]. Qed.
Print Assumptions C06_weighted_histories.

(* "the same finite map" read through the class's own observers: same support (hasEdge) and same multiplicity / weight on every pair *)
Corollary C06_same_map_same_values : forall und (a1 a2 : @sgraph Z), (forall e, lfind e (se a1) = lfind e (se a2)) ->
  forall i j, mhas und a1 i j = mhas und a2 i j /\ mval und a1 i j = mval und a2 i j.
Proof. exact lfind_eq_mval. Qed.

(* state-level versions (any two states satisfying the class invariant, reachable or not) *)
Theorem C06_multi_weighted_states : forall (m1 m2 : mgraph), (TInv m1 /\ TInv m2) \/ (UTInv m1 /\ UTInv m2) ->
  exists b, graph_eqb Z.eqb (mg m1) (mg m2) = Val b /\
    (b = true <-> size (mg m1) = size (mg m2) /\ (forall i j, In j (nb (mg m1) i) <-> In j (nb (mg m2) i)) /\
                  forall e, lfind e (labels (mg m1)) = lfind e (labels (mg m2))) /\
    (b = true -> mtot m1 = mtot m2).
Proof. intros m1 m2 [[A B]|[A B]]; [exact (m_state_eqb m1 m2 A B)|exact (um_state_eqb m1 m2 A B)]. Qed.
Print Assumptions C06_multi_weighted_states.

(* ---- why the theorems are about the repaired revision: in the pinned revision removeVertexFromEdgeList and clearEdges leave labels
   behind, the stale entries are counted by the size comparison of the two stores, and past content DOES change the verdict: both
   graphs below have three vertices and no edge, yet operator== says "different". ---- *)
Example C06_pinned_stale_labels_matter :
  let '(g, r) := urun true pinned (init 3) [UAdd 0 1 7%Z false; URemoveVertex 0] in
  r = Done /\ adj g = adj (@init Z 3) /\ size g = 3%nat /\ enum g = 0 /\ graph_eqb Z.eqb g (init 3) = Val false /\
  fst (urun true repaired (init 3) [UAdd 0 1 7%Z false; URemoveVertex 0]) = init 3.
Proof. vm_compute. repeat split. Qed.
Example C06_pinned_stale_labels_matter_directed :
  let '(g, r) := run true pinned (init 3) [AddEdge 0 1 7%Z false; ClearEdges] in
  r = Done /\ adj g = adj (@init Z 3) /\ size g = 3%nat /\ enum g = 0 /\ graph_eqb Z.eqb g (init 3) = Val false /\
  graph_eqb Z.eqb (fst (run true repaired (init 3) [AddEdge 0 1 7%Z false; ClearEdges])) (init 3) = Val true.
Proof. vm_compute. repeat split. Qed.
