(* C16: forced insertions (force = true) create duplicate entries; the weak invariant they keep, what removeEdge and
   removeDuplicateEdges do to them.  Directed model; the undirected dedup lemma is at the end. *)
From BG Require Import Base DirectedModel DirectedProofs DirectedIter DirectedUsers UndirectedModel UndirectedProofs.
Local Open Scope Z_scope.
Local Arguments Z.of_nat : simpl never.

(* ---- dedup: keep the first occurrence of every element ---- *)
Lemma In_dedup (l : list nat) : forall seen x, In x (dedup seen l) <-> In x l /\ ~ In x seen.
Proof. induction l as [|y t IH]; intros seen x; cbn [dedup]; [simpl; tauto|].
  destruct (mem y seen) eqn:M.
  - rewrite IH. apply mem_In in M. simpl. split; [tauto|]. intros [[->|H] N]; [contradiction|tauto].
  - apply mem_false in M. simpl. rewrite IH. simpl. split.
    + intros [->|[H N]]; [tauto|]. split; [tauto|]. intros Hs. apply N; auto.
    + intros [[->|H] N]; [auto|]. destruct (Nat.eq_dec y x) as [->|Ne]; [auto|]. right. split; auto. intros [E|Hs]; [congruence|contradiction].
Qed.
Lemma NoDup_dedup (l : list nat) : forall seen, NoDup (dedup seen l).
Proof. induction l as [|y t IH]; intros seen; cbn [dedup]; [constructor|]. destruct (mem y seen); auto.
  constructor; auto. rewrite In_dedup. simpl. tauto. Qed.
Lemma dedup_length_le (l : list nat) : forall seen, (length (dedup seen l) <= length l)%nat.
Proof. induction l as [|y t IH]; intros seen; cbn [dedup]; auto. destruct (mem y seen); simpl; [specialize (IH seen)|specialize (IH (y :: seen))]; lia. Qed.

Lemma count_remove_all_eq d l : count d (remove_all d l) = 0%nat.
Proof. unfold count, remove_all. induction l as [|x t IH]; simpl; auto. destruct (Nat.eqb_spec x d) as [->|N]; simpl; auto.
  destruct (Nat.eqb_spec d x); [congruence|auto]. Qed.
Lemma count_remove_all_neq j d l : j <> d -> count j (remove_all d l) = count j l.
Proof. intros Ne. unfold count, remove_all. induction l as [|x t IH]; simpl; auto. destruct (Nat.eqb_spec x d) as [->|N]; simpl.
  - destruct (Nat.eqb_spec j d); [congruence|auto].
  - destruct (Nat.eqb j x); simpl; rewrite IH; auto. Qed.

Section Forced.
Context {L : Type}.
Variable has_store : bool.
Notation dgraph := (@dgraph L).
Implicit Types g : dgraph.

(* the invariant of the simple graph without "no duplicates": what every state reachable WITH forced insertions satisfies *)
Record WInv g : Prop := {
  w_len : length (adj g) = size g;
  w_rng : forall i j, In j (nb g i) -> (i < size g)%nat /\ (j < size g)%nat;
  w_enum : enum g = total (adj g);
  w_lab : if has_store then forall i j, lfind (i, j) (labels g) <> None <-> In j (nb g i) else labels g = [] }.
Lemma Inv_WInv g : Inv has_store g -> WInv g.
Proof. intros [A B C D E]; constructor; auto. Qed.
Lemma WInv_Inv g : WInv g -> (forall i, NoDup (nb g i)) -> Inv has_store g.
Proof. intros [A C D E] B; constructor; auto. Qed.

Lemma has_edge_weak g s d : WInv g -> (s < size g)%nat -> (d < size g)%nat -> has_edge g s d = Val (mem d (nb g s)).
Proof. intros I Hs Hd; unfold has_edge. rewrite (proj2 (in_range_true g s) Hs), (proj2 (in_range_true g d) Hd); simpl.
  rewrite (w_len _ I). rewrite (proj2 (Nat.ltb_lt _ _) Hs); auto. Qed.

(* one insertion at the end of the list of s *)
Lemma push_edge_weak g s d l : WInv g -> (s < size g)%nat -> (d < size g)%nat ->
  exists g', push_edge has_store g s d l = (g', Done) /\ WInv g' /\ size g' = size g /\ enum g' = enum g + 1 /\
    (forall i, nb g' i = if Nat.eqb i s then nb g s ++ [d] else nb g i) /\
    (forall e, lfind e (labels g') = if has_store && edge_eqb (s, d) e then Some l else lfind e (labels g)).
Proof.
  intros I Hs Hd. unfold push_edge. rewrite (w_len _ I), (proj2 (Nat.ltb_lt _ _) Hs).
  assert (Hs' : (s < length (adj g))%nat) by (rewrite (w_len _ I); auto).
  assert (NB : forall i, nth i (upd s (fun x => x ++ [d]) (adj g)) [] = if Nat.eqb i s then nb g s ++ [d] else nb g i).
  { intros i. rewrite nth_upd by auto. reflexivity. }
  eexists; split; [reflexivity|]. split; [|split; [reflexivity|split; [reflexivity|split]]].
  - constructor; cbn [adj size enum labels].
    + rewrite upd_length; apply (w_len _ I).
    + intros i j; unfold nb; cbn [adj]; rewrite NB. destruct (Nat.eqb_spec i s) as [->|]; [|apply (w_rng _ I)].
      rewrite in_app_iff; simpl. intros [H|[<-|[]]]; auto. apply (w_rng _ I) in H; tauto.
    + rewrite total_upd by auto. rewrite app_length; simpl. rewrite (w_enum _ I). unfold nb. lia.
    + unfold set_label. pose proof (w_lab _ I) as IL. destruct has_store; auto.
      intros i j; unfold nb; cbn [adj labels]; rewrite NB, lfind_lset.
      destruct (edge_eqb_spec (s, d) (i, j)) as [E|NE].
      * injection E as <- <-. rewrite Nat.eqb_refl, in_app_iff; simpl. split; auto; discriminate.
      * rewrite IL. destruct (Nat.eqb_spec i s) as [->|]; [|reflexivity]. rewrite in_app_iff; simpl. unfold nb.
        split; auto. intros [H|[<-|[]]]; auto. congruence.
  - intros i; unfold nb; cbn [adj]; apply NB.
  - intros e; cbn [labels]. unfold set_label. destruct has_store; cbn [andb]; [apply lfind_lset|reflexivity].
Qed.

(* addEdge(force = true): always inserts one more copy; addEdge(force = false): inserts only when absent *)
Theorem forced_add_spec g s d l : WInv g -> (s < size g)%nat -> (d < size g)%nat ->
  exists g', add_edge has_store repaired g s d l true = (g', Done) /\ WInv g' /\ size g' = size g /\ enum g' = enum g + 1 /\
    (forall i j, count j (nb g' i) = (count j (nb g i) + (if Nat.eqb i s && Nat.eqb j d then 1 else 0))%nat) /\
    has_edge g' s d = Val true /\
    (forall e, lfind e (labels g') = if has_store && edge_eqb (s, d) e then Some l else lfind e (labels g)).
Proof.
  intros I Hs Hd. unfold add_edge. cbn [v_force_checks repaired].
  rewrite (proj2 (in_range_true g s) Hs), (proj2 (in_range_true g d) Hd). cbn [andb].
  destruct (push_edge_weak g s d l I Hs Hd) as [g' [E [I' [S' [N' [NB LB]]]]]].
  exists g'; split; auto. split; auto. split; auto. split; auto. split; [|split; auto].
  - intros i j. rewrite NB. destruct (Nat.eqb_spec i s) as [->|]; cbn [andb]; [|lia].
    unfold count. rewrite filter_app, app_length. cbn [filter]. destruct (Nat.eqb j d); cbn [length]; lia.
  - rewrite (has_edge_weak g' s d I') by (rewrite S'; auto). f_equal. apply mem_In. rewrite NB, Nat.eqb_refl, in_app_iff. simpl; auto.
Qed.
Theorem unforced_add_weak g s d l : WInv g -> (s < size g)%nat -> (d < size g)%nat ->
  add_edge has_store repaired g s d l false = if mem d (nb g s) then (g, Done) else push_edge has_store g s d l.
Proof. intros I Hs Hd. unfold add_edge. rewrite (has_edge_weak g s d I Hs Hd). destruct (mem d (nb g s)); reflexivity. Qed.

(* removeEdge deletes ALL copies, and the edge count drops by their number *)
Lemma length_remove_all d l : length l = (length (remove_all d l) + count d l)%nat.
Proof. unfold remove_all, count. induction l as [|x t IH]; simpl; auto. rewrite (Nat.eqb_sym d x). destruct (Nat.eqb x d); simpl; lia. Qed.
Theorem remove_edge_weak g s d : WInv g -> (s < size g)%nat -> (d < size g)%nat ->
  exists g', remove_edge g s d = (g', Done) /\ WInv g' /\ size g' = size g /\
    enum g' = enum g - Z.of_nat (count d (nb g s)) /\
    (forall i, nb g' i = if Nat.eqb i s then remove_all d (nb g s) else nb g i) /\
    (forall i j, count j (nb g' i) = if Nat.eqb i s && Nat.eqb j d then 0%nat else count j (nb g i)) /\
    (forall e, lfind e (labels g') = if edge_eqb (s, d) e then None else lfind e (labels g)).
Proof.
  intros I Hs Hd. unfold remove_edge.
  rewrite (proj2 (in_range_true g s) Hs), (proj2 (in_range_true g d) Hd); cbn [andb].
  rewrite (w_len _ I), (proj2 (Nat.ltb_lt _ _) Hs).
  assert (Hs' : (s < length (adj g))%nat) by (rewrite (w_len _ I); auto).
  assert (NB : forall i, nth i (upd s (fun _ => remove_all d (nth s (adj g) [])) (adj g)) [] = if Nat.eqb i s then remove_all d (nb g s) else nb g i).
  { intros i. rewrite nth_upd by auto. reflexivity. }
  eexists; split; [reflexivity|]. split; [|split; [reflexivity|split; [|split; [|split]]]].
  - constructor; cbn [adj size enum labels].
    + rewrite upd_length; apply (w_len _ I).
    + intros i j; unfold nb; cbn [adj]; rewrite NB. destruct (Nat.eqb_spec i s) as [->|]; [|apply (w_rng _ I)].
      rewrite In_remove_all. intros [H _]. apply (w_rng _ I) in H; auto.
    + rewrite total_upd by auto. rewrite (w_enum _ I). lia.
    + pose proof (w_lab _ I) as IL. destruct has_store.
      * intros i j; unfold nb; cbn [adj]; rewrite NB, lfind_lerase.
        destruct (edge_eqb_spec (s, d) (i, j)) as [E|NE].
        -- injection E as <- <-. rewrite Nat.eqb_refl, In_remove_all. split; [congruence|tauto].
        -- rewrite IL. destruct (Nat.eqb_spec i s) as [->|]; [|reflexivity]. rewrite In_remove_all. unfold nb.
           split; [intros H; split; auto; congruence|tauto].
      * simpl; rewrite IL; reflexivity.
  - cbn [enum]. fold (nb g s). rewrite (length_remove_all d (nb g s)) at 1. lia.
  - intros i; unfold nb; cbn [adj]; apply NB.
  - intros i j. unfold nb at 1; cbn [adj]. rewrite NB. destruct (Nat.eqb_spec i s) as [->|]; cbn [andb]; [|reflexivity].
    destruct (Nat.eqb_spec j d) as [->|Ne]; [apply count_remove_all_eq|apply count_remove_all_neq; auto].
  - intros e; cbn [labels]. apply lfind_lerase.
Qed.

(* removeDuplicateEdges: back to the full invariant, same connected pairs, edge count = number of distinct pairs, labels untouched *)
Theorem remove_duplicates_spec g : WInv g ->
  exists g', remove_duplicates g = (g', Done) /\ Inv has_store g' /\ size g' = size g /\ labels g' = labels g /\
    (forall i, nb g' i = dedup [] (nb g i)) /\
    (forall i j, In j (nb g' i) <-> In j (nb g i)) /\
    (forall i j, count j (nb g' i) = if mem j (nb g i) then 1%nat else 0%nat).
Proof.
  intros I. unfold remove_duplicates. rewrite (w_len _ I), Nat.leb_refl.
  assert (NB : forall i, nth i (map (dedup []) (adj g)) [] = dedup [] (nb g i)).
  { intros i. unfold nb. exact (map_nth (dedup []) (adj g) [] i). }
  assert (MEM : forall i j, In j (dedup [] (nb g i)) <-> In j (nb g i)) by (intros; rewrite In_dedup; simpl; tauto).
  eexists; split; [reflexivity|]. split; [|split; [reflexivity|split; [reflexivity|split; [|split]]]].
  - constructor; cbn [adj size enum labels].
    + rewrite map_length; apply (w_len _ I).
    + intros i; unfold nb; cbn [adj]; rewrite NB. apply NoDup_dedup.
    + intros i j; unfold nb; cbn [adj]; rewrite NB, MEM. apply (w_rng _ I).
    + rewrite (w_enum _ I). clear. induction (adj g) as [|x t IH]; simpl; lia.
    + pose proof (w_lab _ I) as IL. destruct has_store; auto. intros i j; unfold nb; cbn [adj]; rewrite NB, MEM. apply IL.
  - intros i; unfold nb; cbn [adj]; apply NB.
  - intros i j; unfold nb at 1; cbn [adj]; rewrite NB. apply MEM.
  - intros i j; unfold nb at 1; cbn [adj]; rewrite NB. rewrite (count_nodup j _ (NoDup_dedup (nb g i) [])).
    destruct (mem j (nb g i)) eqn:Mj.
    + apply mem_In, MEM, mem_In in Mj. rewrite Mj. reflexivity.
    + destruct (mem j (dedup [] (nb g i))) eqn:Md; auto. apply mem_In, MEM, mem_In in Md. congruence.
Qed.
End Forced.
