(* C06: operator== of the directed labelled model is transitive on graphs satisfying the invariant whenever the label type's == is,
   so together with Equality.graph_eqb_refl / graph_eqb_sym it is an equivalence relation - "value equality" in the full sense. *)
From BG Require Import Base DirectedModel DirectedProofs DirectedIter DirectedUsers DirectedSpec DirectedRefine DirectedObs Equality
  UndirectedModel UndirectedProofs UndirectedIter UndirectedSpec UndirectedRefine UndirectedObs
  MultiModel WeightedModel MultiSpec Totals MultiRefine WeightedRefine UTotals UMultiRefine UWeightedRefine EqualityMore.

Section EqTrans.
Context {L : Type}.
Variable leqb : L -> L -> bool.
Variable has_store : bool.
Notation dgraph := (@dgraph L).
Implicit Types g h k : dgraph.
Notation Inv := (Inv has_store).

Lemma same_edges_trans g h k : same_edges g h -> same_edges h k -> same_edges g k.
Proof. intros A B i j. rewrite (A i j). apply B. Qed.

(* the middle graph carries a label on every pair both outer graphs label: the store's keys are exactly the edges *)
Lemma labels_agree_trans g h k : (forall x y z, leqb x y = true -> leqb y z = true -> leqb x z = true) ->
  Inv g -> Inv h -> same_edges g h ->
  labels_agree leqb g h -> labels_agree leqb h k -> labels_agree leqb g k.
Proof.
  intros T Ig Ih SE A B [i j] v v'' F1 F3.
  pose proof (i_lab _ _ Ig) as ILg. pose proof (i_lab _ _ Ih) as ILh.
  destruct has_store.
  - assert (E : In j (nb g i)) by (apply ILg; rewrite F1; discriminate).
    apply SE in E. apply ILh in E.
    destruct (lfind (i, j) (labels h)) as [v'|] eqn:F2; [|congruence].
    apply (T v v' v''); [apply (A (i, j) v v' F1 F2)|apply (B (i, j) v' v'' F2 F3)].
  - rewrite ILg in F1. discriminate.
Qed.

Theorem graph_eqb_trans g h k : (forall x y z, leqb x y = true -> leqb y z = true -> leqb x z = true) ->
  Inv g -> Inv h -> Inv k -> KeysOK g -> KeysOK h -> KeysOK k ->
  graph_eqb leqb g h = Val true -> graph_eqb leqb h k = Val true -> graph_eqb leqb g k = Val true.
Proof.
  intros T Ig Ih Ik Kg Kh Kk E1 E2.
  destruct (graph_eqb_spec leqb has_store g h Ig Ih Kg Kh) as [b1 [Q1 [D1 _]]].
  destruct (graph_eqb_spec leqb has_store h k Ih Ik Kh Kk) as [b2 [Q2 [D2 _]]].
  destruct (graph_eqb_spec leqb has_store g k Ig Ik Kg Kk) as [b3 [Q3 [_ U3]]].
  rewrite E1 in Q1. rewrite E2 in Q2. injection Q1 as <-. injection Q2 as <-.
  destruct (D1 eq_refl) as [S1 [SE1 LA1]]. destruct (D2 eq_refl) as [S2 [SE2 LA2]].
  rewrite Q3. f_equal. apply U3. split; [congruence|]. split.
  - apply (same_edges_trans g h k SE1 SE2).
  - apply (labels_agree_trans g h k T Ig Ih SE1 LA1 LA2).
Qed.
End EqTrans.

(* the undirected labelled class, under the symmetric invariant: same argument, the store's keys being exactly the ordered (i<=j) edges *)
Theorem u_graph_eqb_trans : forall (L : Type) (leqb : L -> L -> bool) hs (g h k : @dgraph L),
  (forall x y z, leqb x y = true -> leqb y z = true -> leqb x z = true) ->
  InvU hs g -> InvU hs h -> InvU hs k -> KeysOK g -> KeysOK h -> KeysOK k ->
  graph_eqb leqb g h = Val true -> graph_eqb leqb h k = Val true -> graph_eqb leqb g k = Val true.
Proof.
  intros L leqb hs g h k T Ig Ih Ik Kg Kh Kk E1 E2.
  destruct (EqualityMore.C06_undirected_eq L leqb hs g h Ig Ih Kg Kh) as [b1 [Q1 [D1 _]]].
  destruct (EqualityMore.C06_undirected_eq L leqb hs h k Ih Ik Kh Kk) as [b2 [Q2 [D2 _]]].
  destruct (EqualityMore.C06_undirected_eq L leqb hs g k Ig Ik Kg Kk) as [b3 [Q3 [_ U3]]].
  rewrite E1 in Q1. rewrite E2 in Q2. injection Q1 as <-. injection Q2 as <-.
  destruct (D1 eq_refl) as [S1 [SE1 LA1]]. destruct (D2 eq_refl) as [S2 [SE2 LA2]].
  rewrite Q3. f_equal. apply U3. split; [congruence|]. split.
  - intros i j. rewrite (SE1 i j). apply SE2.
  - intros [i j] v v'' F1 F3.
    pose proof (u_lab _ _ Ig) as ILg. pose proof (u_lab _ _ Ih) as ILh.
    destruct hs.
    + assert (E : (i <= j)%nat /\ In j (nb g i)) by (apply ILg; rewrite F1; discriminate).
      destruct E as [Le E]. apply SE1 in E. assert (E' : lfind (i, j) (labels h) <> None) by (apply ILh; split; assumption).
      destruct (lfind (i, j) (labels h)) as [v'|] eqn:F2; [|congruence].
      apply (T v v' v''); [apply (LA1 (i, j) v v' F1 F2)|apply (LA2 (i, j) v' v'' F2 F3)].
    + rewrite ILg in F1. discriminate.
Qed.

(* both multigraphs and both weighted graphs (multiplicity / weight compared with Z.eqb): transitive, and the running totals of the outer
   graphs agree although operator== never reads them *)
Local Open Scope Z_scope.
Theorem m_graph_eqb_trans : forall (m1 m2 m3 : mgraph),
  (TInv m1 /\ TInv m2 /\ TInv m3) \/ (UTInv m1 /\ UTInv m2 /\ UTInv m3) ->
  graph_eqb Z.eqb (mg m1) (mg m2) = Val true -> graph_eqb Z.eqb (mg m2) (mg m3) = Val true ->
  graph_eqb Z.eqb (mg m1) (mg m3) = Val true /\ mtot m1 = mtot m3.
Proof.
  intros m1 m2 m3 I E1 E2.
  assert (I12 : (TInv m1 /\ TInv m2) \/ (UTInv m1 /\ UTInv m2)) by tauto.
  assert (I23 : (TInv m2 /\ TInv m3) \/ (UTInv m2 /\ UTInv m3)) by tauto.
  assert (I13 : (TInv m1 /\ TInv m3) \/ (UTInv m1 /\ UTInv m3)) by tauto.
  destruct (EqualityMore.C06_multi_weighted_states m1 m2 I12) as [b1 [Q1 [[D1 _] _]]].
  destruct (EqualityMore.C06_multi_weighted_states m2 m3 I23) as [b2 [Q2 [[D2 _] _]]].
  destruct (EqualityMore.C06_multi_weighted_states m1 m3 I13) as [b3 [Q3 [[_ U3] TT]]].
  rewrite E1 in Q1. rewrite E2 in Q2. injection Q1 as <-. injection Q2 as <-.
  destruct (D1 eq_refl) as [S1 [SE1 LA1]]. destruct (D2 eq_refl) as [S2 [SE2 LA2]].
  assert (B : b3 = true).
  { apply U3. split; [congruence|]. split.
    - intros i j. rewrite (SE1 i j). apply SE2.
    - intros e. rewrite (LA1 e). apply LA2. }
  subst b3. split; [exact Q3|apply TT; reflexivity].
Qed.
