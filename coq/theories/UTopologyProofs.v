(* C10 (undirected): getSubgraph / getSubgraphWithRemap on a LabeledUndirectedGraph return exactly the induced subgraph with its labels
   (resp. its image under the returned one-to-one map).  The loop meets every edge of the subgraph from both endpoints (a self-loop once);
   the second visit calls addEdge on an edge that is already there, which changes nothing - that is the content of [u_add_all_spec]. *)
From BG Require Import Base DirectedModel DirectedProofs DirectedIter DirectedUsers DirectedSpec DirectedRefine DirectedObs Equality ConvProofs
  UndirectedModel UndirectedProofs UndirectedIter UndirectedRefine UndirectedObs TopologyModel TopologyProofs UFoldProofs.
Local Open Scope Z_scope.
Local Arguments Z.of_nat : simpl never.

Section UTopoP.
Context {L : Type}.
Variable ldef : L.
Variable has_store : bool.
Notation dgraph := (@dgraph L).
Implicit Types g h : dgraph.
Notation InvU := (InvU has_store).
Notation V := repaired.
Notation ledge := (nat * nat * L)%type.
Notation u_add_all := (@UFoldProofs.u_add_all L has_store).
Notation ulab_of := (@UFoldProofs.ulab_of L ldef).

Definition urow_edges g (so : list nat) (f : nat -> nat) (i : nat) : list ledge :=
  map (fun j => (f i, f j, ulab_of g i j)) (filter (fun j => mem j so) (nb g i)).
Definition usub_edges g (so : list nat) (f : nat -> nat) (vs : list nat) : list ledge := flat_map (urow_edges g so f) vs.

Lemma In_usub_edges g so f vs a b l :
  In (a, b, l) (usub_edges g so f vs) <-> exists i j, In i vs /\ In j so /\ In j (nb g i) /\ a = f i /\ b = f j /\ l = ulab_of g i j.
Proof.
  unfold usub_edges, urow_edges. rewrite in_flat_map. split.
  - intros [i [Hi H]]. apply in_map_iff in H as [j [E Hj]]. injection E as <- <- <-. apply filter_In in Hj as [Hin Mj]. apply mem_In in Mj.
    exists i, j. auto 10.
  - intros [i [j [Hi [Hj [Hin [-> [-> ->]]]]]]]. exists i. split; auto. apply in_map_iff. exists j. split; auto. apply filter_In. split; auto. apply mem_In; auto.
Qed.

(* the inner loop over one neighbour list *)
Lemma inner_loop_u g so f i : InvU g -> forall (l : list nat) o, (forall j, In j l -> In j (nb g i)) ->
  fold_left (fun acc2 j => obind acc2 (fun h2 => if mem j so then obind (t_label ldef has_store true g i j) (fun lb => t_add has_store V true h2 (f i) (f j) lb) else Val h2)) l o
  = u_add_all (map (fun j => (f i, f j, ulab_of g i j)) (filter (fun j => mem j so) l)) o.
Proof.
  intros I. induction l as [|j t IH]; intros o R; cbn [fold_left filter map]; auto.
  rewrite IH by (intros; apply R; simpl; auto). destruct (mem j so) eqn:M; cbn [map].
  - rewrite u_add_all_cons. f_equal. destruct o as [h| |]; cbn [obind]; auto. cbn [fst snd]. unfold t_label, t_add.
    rewrite (u_get_label_val ldef has_store g i j I (R j (or_introl eq_refl))). reflexivity.
  - f_equal. destruct o; reflexivity.
Qed.
Lemma sub_loop_as_u_add_all g so f : InvU g -> forall vs o, (forall i, In i vs -> (i < size g)%nat) ->
  fold_left (fun acc i => obind acc (fun h =>
    if in_range g i then obind (out_neighbours g i) (fun l =>
        fold_left (fun acc2 j => obind acc2 (fun h2 => if mem j so then obind (t_label ldef has_store true g i j) (fun lb => t_add has_store V true h2 (f i) (f j) lb) else Val h2)) l (Val h))
    else Raise OutOfRange)) vs o
  = u_add_all (usub_edges g so f vs) o.
Proof.
  intros I. induction vs as [|i t IH]; intros o R; cbn [fold_left usub_edges flat_map]; auto.
  rewrite IH by (intros; apply R; simpl; auto). fold (usub_edges g so f t). rewrite u_add_all_app. f_equal.
  pose proof (R i (or_introl eq_refl)) as Hi.
  destruct o as [h|e|k]; cbn [obind]; [|rewrite u_add_all_raise; auto|rewrite u_add_all_undef; auto].
  rewrite (proj2 (in_range_true g i) Hi), (out_nb g i (u_len _ _ I) Hi). cbn [obind].
  rewrite (inner_loop_u g so f i I (nb g i) (Val h)) by auto. reflexivity.
Qed.

(* ---- the general statement: any map f that is one-to-one on S and lands in range of the target size (S may even list a vertex twice) ---- *)
Theorem usub_loop_spec g (so : list nat) (f : nat -> nat) (n' : nat) : InvU g -> (forall i, In i so -> (i < size g)%nat) ->
  (forall x y, In x so -> In y so -> f x = f y -> x = y) -> (forall i, In i so -> (f i < n')%nat) ->
  exists h, sub_loop ldef has_store V true g so f (init n') = Val h /\ InvU h /\ KeysOK h /\ size h = n' /\
    (forall a b, In b (nb h a) <-> exists i j, a = f i /\ b = f j /\ In i so /\ In j so /\ In j (nb g i)) /\
    (has_store = true -> forall i j, In i so -> In j so ->
       lfind (ordered (f i) (f j)) (labels h) = if mem j (nb g i) then lfind (ordered i j) (labels g) else None) /\
    (forall i j, In i so -> In j so -> In j (nb g i) -> u_get_label ldef has_store h (f i) (f j) true = u_get_label ldef has_store g i j true).
Proof.
  intros I R INJ RNG. unfold sub_loop. rewrite (sub_loop_as_u_add_all g so f I so (Val (init n')) R).
  destruct (init_invU (L := L) has_store n') as [I0 K0].
  destruct (u_add_all_spec has_store (usub_edges g so f so) (init n') I0 K0) as [h [F [I' [K' [S' [E' L']]]]]].
  { intros [[a b] l] He. apply In_usub_edges in He as [i [j [Hi [Hj [_ [-> [-> _]]]]]]]. cbn [fst snd init size]. split; apply RNG; auto. }
  assert (EDGES : forall a b, In b (nb h a) <-> exists i j, a = f i /\ b = f j /\ In i so /\ In j so /\ In j (nb g i)).
  { intros a b. rewrite E', nb_init. split.
    - intros [[]|[l [H|H]]]; apply In_usub_edges in H as [i [j [Hi [Hj [Hin [Ea [Eb _]]]]]]].
      + exists i, j. auto 10.
      + exists j, i. repeat split; auto. apply (u_sym _ _ I); auto.
    - intros [i [j [-> [-> [Hi [Hj Hin]]]]]]. right. exists (ulab_of g i j). left. apply In_usub_edges. exists i, j. auto 10. }
  assert (LABS : has_store = true -> forall i j, In i so -> In j so ->
       lfind (ordered (f i) (f j)) (labels h) = if mem j (nb g i) then lfind (ordered i j) (labels g) else None).
  { intros HS i j Hi Hj. rewrite (L' HS). cbn [init labels lfind].
    destruct (mem j (nb g i)) eqn:M.
    - apply mem_In in M. pose proof (u_label_present has_store g i j I HS M) as P.
      destruct (lfind (ordered i j) (labels g)) as [v|] eqn:FF; [|congruence].
      assert (LV : ulab_of g i j = v) by (unfold UFoldProofs.ulab_of; rewrite FF; reflexivity).
      apply ufirst_const.
      + intros a b l' Hin Eo. apply In_usub_edges in Hin as [i0 [j0 [Hi0 [Hj0 [Hin0 [-> [-> ->]]]]]]].
        apply ordered_eq_iff in Eo as [[E1 E2]|[E1 E2]].
        * apply INJ in E1; auto. apply INJ in E2; auto. subst i0 j0. exact LV.
        * apply INJ in E1; auto. apply INJ in E2; auto. subst i0 j0. rewrite ulab_of_sym. exact LV.
      + exists (f i), (f j), (ulab_of g i j). split; [|reflexivity]. apply In_usub_edges. exists i, j. auto 10.
    - apply mem_false in M. apply ufirst_none. intros a b l' Hin Eo. apply In_usub_edges in Hin as [i0 [j0 [Hi0 [Hj0 [Hin0 [-> [-> _]]]]]]].
      apply ordered_eq_iff in Eo as [[E1 E2]|[E1 E2]]; apply INJ in E1; auto; apply INJ in E2; auto; subst i0 j0; [auto|]. apply M, (u_sym _ _ I); auto. }
  exists h. split; [exact F|]. split; auto. split; auto. split; [exact S'|]. split; [exact EDGES|]. split; [exact LABS|].
  intros i j Hi Hj Hin.
  assert (Hin' : In (f j) (nb h (f i))) by (apply EDGES; exists i, j; auto).
  rewrite (u_get_label_val ldef has_store h (f i) (f j) I' Hin'), (u_get_label_val ldef has_store g i j I Hin). f_equal.
  unfold UFoldProofs.ulab_of. pose proof (u_lab _ _ I) as LG. pose proof (u_lab _ _ I') as LH. destruct has_store.
  - rewrite (LABS eq_refl i j Hi Hj), (proj2 (mem_In _ _) Hin). reflexivity.
  - rewrite LG, LH. reflexivity.
Qed.

(* getSubgraph on an undirected graph: f = identity, same number of vertices *)
Theorem subgraph_undirected_induced g (so : list nat) : InvU g -> NoDup so -> (forall i, In i so -> (i < size g)%nat) ->
  exists h, subgraph ldef has_store V true g so = Val h /\ InvU h /\ KeysOK h /\ size h = size g /\
    (forall i j, In j (nb h i) <-> In i so /\ In j so /\ In j (nb g i)) /\
    (has_store = true -> forall i j, In i so -> In j so ->
       lfind (ordered i j) (labels h) = if mem j (nb g i) then lfind (ordered i j) (labels g) else None) /\
    (forall i j, In j (nb h i) -> u_get_label ldef has_store h i j true = u_get_label ldef has_store g i j true).
Proof.
  intros I _ R. destruct (usub_loop_spec g so (fun v => v) (size g) I R) as [h [F [I' [K' [S' [E' [L' G']]]]]]]; auto.
  assert (EDGES : forall i j, In j (nb h i) <-> In i so /\ In j so /\ In j (nb g i)).
  { intros i j. rewrite E'. split; [intros [a [b [-> [-> H]]]]; tauto|intros [A [B C]]; exists i, j; auto]. }
  exists h. split; [exact F|]. split; auto. split; auto. split; auto. split; [exact EDGES|]. split; [exact L'|].
  intros i j Hin. apply EDGES in Hin as [A [B C]]. apply G'; auto.
Qed.

(* getSubgraphWithRemap on an undirected graph: |S| vertices, the returned map is index-in-iteration-order (one-to-one from S onto 0..|S|-1),
   and the result is the image of the induced subgraph under it *)
Theorem subgraph_remap_undirected g (so : list nat) : InvU g -> NoDup so -> (forall i, In i so -> (i < size g)%nat) ->
  exists h fm, subgraph_remap ldef has_store V true g so = Val (h, fm) /\ InvU h /\ KeysOK h /\ size h = length so /\
    fm = map (fun v => (v, index_of v so)) so /\
    (forall v, In v so -> (index_of v so < length so)%nat) /\
    (forall x y, In x so -> In y so -> index_of x so = index_of y so -> x = y) /\
    (forall k, (k < length so)%nat -> exists v, In v so /\ index_of v so = k) /\
    (forall a b, In b (nb h a) <-> exists i j, a = index_of i so /\ b = index_of j so /\ In i so /\ In j so /\ In j (nb g i)) /\
    (forall i j, In i so -> In j so -> (In (index_of j so) (nb h (index_of i so)) <-> In j (nb g i))) /\
    (has_store = true -> forall i j, In i so -> In j so ->
       lfind (ordered (index_of i so) (index_of j so)) (labels h) = if mem j (nb g i) then lfind (ordered i j) (labels g) else None) /\
    (forall i j, In i so -> In j so -> In j (nb g i) ->
       u_get_label ldef has_store h (index_of i so) (index_of j so) true = u_get_label ldef has_store g i j true).
Proof.
  intros I ND R.
  destruct (usub_loop_spec g so (fun v => index_of v so) (length so) I R) as [h [F [I' [K' [S' [E' [L' G']]]]]]];
    [intros x y; apply index_of_inj|intros i; apply index_of_lt|].
  exists h, (map (fun v => (v, index_of v so)) so). unfold subgraph_remap. rewrite F. cbn [omap obind].
  split; [reflexivity|]. split; auto. split; auto. split; auto. split; auto. split; [intros v; apply index_of_lt|]. split; [intros x y; apply index_of_inj|].
  split; [intros k Hk; apply index_of_onto; auto|]. split; [exact E'|]. split; [|split; [exact L'|exact G']].
  intros i j Hi Hj. rewrite E'. split.
  - intros [a [b [Ea [Eb [Ha [Hb Hin]]]]]]. apply index_of_inj in Ea; auto. apply index_of_inj in Eb; auto. subst; auto.
  - intros H. exists i, j. auto.
Qed.
End UTopoP.

(* a closed instance: the triangle 0-1-2 with a pendant vertex 3 and a loop at 2; the subset {2,0,1} enumerated in that order.
   4 edges although the loop makes 7 addEdge calls *)
Local Open Scope nat_scope.
Example subgraph_undirected_example :
  let g := fst (urun true repaired (init 4) [UAdd 0 1 7%Z false; UAdd 1 2 5%Z false; UAdd 2 0 9%Z false; UAdd 2 3 4%Z false; UAdd 2 2 1%Z false]) in
  omap (fun h => (adj h, enum h, labels h)) (subgraph 0%Z true repaired true g [2; 0; 1])
    = Val ([[2; 1]; [2; 0]; [1; 0; 2]; []], 4%Z, [(0, 1, 7%Z); (2, 2, 1%Z); (0, 2, 9%Z); (1, 2, 5%Z)]) /\
  omap (fun r => (adj (fst r), labels (fst r), snd r)) (subgraph_remap 0%Z true repaired true g [2; 0; 1])
    = Val ([[2; 1; 0]; [0; 2]; [0; 1]], [(1, 2, 7%Z); (0, 0, 1%Z); (0, 1, 9%Z); (0, 2, 5%Z)], [(2, 0); (0, 1); (1, 2)]).
Proof. vm_compute. auto. Qed.
