(* C13 / C15 (text): the tokeniser returns the two vertex tokens and the rest of the line for every line of the documented shape;
   decimal printing and std::stoi round-trip; the loaders never leave the "graph or std::exception" outcomes on ANY byte string. *)
From Coq Require Import List Arith NArith ZArith Lia Bool.
From BG Require Import Base DirectedModel DirectedProofs UndirectedModel IOModel.
Import ListNotations.
Local Open Scope nat_scope.

(* ---------- the tokeniser ---------- *)
Definition all_ws (l : bytes) : Prop := Forall (fun c => is_ws c = true) l.
Definition no_ws (l : bytes) : Prop := Forall (fun c => is_ws c = false) l.
Lemma find_from_skip (p : N -> bool) (a b : bytes) i : Forall (fun c => p c = false) a -> find_from p (a ++ b) i = find_from p b (i + length a).
Proof. revert i. induction a as [|c t IH]; intros i H; cbn [app find_from length]; [f_equal; lia|]. inversion H; subst. rewrite H2, IH by auto. f_equal; lia. Qed.
Lemma find_from_hit (p : N -> bool) c (b : bytes) i : p c = true -> find_from p (c :: b) i = Some i.
Proof. intros H. cbn. rewrite H. reflexivity. Qed.
Lemma find_from_none (p : N -> bool) (a : bytes) i : Forall (fun c => p c = false) a -> find_from p a i = None.
Proof. revert i. induction a as [|c t IH]; intros i H; cbn; auto. inversion H; subst. rewrite H2. auto. Qed.
Lemma negb_forall (l : bytes) : all_ws l -> Forall (fun c => negb (is_ws c) = false) l.
Proof. induction 1; constructor; auto. rewrite H; auto. Qed.
Lemma skipn_app_len {A} (a b : list A) : skipn (length a) (a ++ b) = b.
Proof. rewrite skipn_app, skipn_all, Nat.sub_diag. reflexivity. Qed.
Lemma skipn_plus {A} a b (l : list A) : skipn (a + b) l = skipn b (skipn a l).
Proof. revert l. induction a as [|a IH]; intros l; cbn [plus skipn]; auto. destruct l; cbn [skipn]; auto. destruct b; reflexivity. Qed.
Lemma firstn_app_len {A} (a b : list A) : firstn (length a) (a ++ b) = a.
Proof. rewrite firstn_app, firstn_all, Nat.sub_diag. cbn. apply app_nil_r. Qed.

(* a data line: optional leading whitespace, token, whitespace, token, and then nothing / whitespace only / whitespace and a rest
   that starts with a non-blank *)
Theorem tokeniser_two_tokens (w0 t1 w1 t2 w2 : bytes) : all_ws w0 -> no_ws t1 -> t1 <> [] -> all_ws w1 -> w1 <> [] -> no_ws t2 -> t2 <> [] -> all_ws w2 ->
  find_edge_from_string (w0 ++ t1 ++ w1 ++ t2 ++ w2) = Val (t1, t2, []).
Proof.
  intros W0 T1 N1 W1 NW1 T2 N2 W2. unfold find_edge_from_string.
  destruct t1 as [|c1 t1']; [congruence|]. destruct w1 as [|d1 w1']; [congruence|]. destruct t2 as [|c2 t2']; [congruence|].
  inversion T1; subst. inversion W1; subst. inversion T2; subst.
  set (s := w0 ++ (c1 :: t1') ++ (d1 :: w1') ++ (c2 :: t2') ++ w2).
  (* pos1 *)
  assert (P1 : find_first (fun c => negb (is_ws c)) s (Some 0) = Some (length w0)).
  { unfold find_first, s. cbn [skipn]. rewrite find_from_skip by (apply negb_forall; auto). cbn [app]. rewrite find_from_hit by (rewrite H1; auto). reflexivity. }
  rewrite P1.
  assert (P2 : find_first is_ws s (Some (length w0)) = Some (length w0 + length (c1 :: t1'))).
  { unfold find_first, s. rewrite skipn_app_len. rewrite find_from_skip by auto. cbn [app]. rewrite find_from_hit by auto. reflexivity. }
  rewrite P2.
  assert (S2 : skipn (length w0 + length (c1 :: t1')) s = (d1 :: w1') ++ (c2 :: t2') ++ w2).
  { unfold s. rewrite <- app_length, app_assoc. apply skipn_app_len. }
  assert (P3 : find_first (fun c => negb (is_ws c)) s (Some (length w0 + length (c1 :: t1'))) = Some (length w0 + length (c1 :: t1') + length (d1 :: w1'))).
  { unfold find_first. rewrite S2. rewrite find_from_skip by (apply negb_forall; auto). cbn [app]. rewrite find_from_hit by (rewrite H5; auto). reflexivity. }
  rewrite P3.
  assert (S3 : skipn (length w0 + length (c1 :: t1') + length (d1 :: w1')) s = (c2 :: t2') ++ w2).
  { unfold s. rewrite <- !app_length. rewrite !app_assoc. rewrite <- (app_assoc _ (c2 :: t2') w2). apply skipn_app_len. }
  set (p3 := length w0 + length (c1 :: t1') + length (d1 :: w1')) in *.
  destruct w2 as [|e2 w2'].
  - assert (P4 : find_first is_ws s (Some p3) = None).
    { unfold find_first. rewrite S3, app_nil_r. apply find_from_none. auto. }
    rewrite P4. cbn [find_first span substr].
    assert (L : length s = p3 + length (c2 :: t2')). { unfold s, p3. rewrite !app_length. cbn [length]. lia. }
    assert (Nat.ltb (length s) (length w0) = false) as -> by (apply Nat.ltb_ge; lia).
    assert (Nat.ltb (length s) p3 = false) as -> by (apply Nat.ltb_ge; lia). cbn [obind].
    replace (length w0 + length (c1 :: t1') - length w0) with (length (c1 :: t1')) by lia.
    unfold s at 1. rewrite skipn_app_len, firstn_app_len. rewrite S3, app_nil_r. reflexivity.
  - inversion W2; subst.
    assert (P4 : find_first is_ws s (Some p3) = Some (p3 + length (c2 :: t2'))).
    { unfold find_first. rewrite S3. rewrite find_from_skip by auto. cbn [app]. rewrite find_from_hit by auto. reflexivity. }
    rewrite P4.
    assert (S4 : skipn (p3 + length (c2 :: t2')) s = e2 :: w2').
    { unfold s, p3. rewrite <- !app_length. rewrite !app_assoc. apply skipn_app_len. }
    assert (P5 : find_first (fun c => negb (is_ws c)) s (Some (p3 + length (c2 :: t2'))) = None).
    { unfold find_first. rewrite S4. apply find_from_none. apply (negb_forall (e2 :: w2')). auto. }
    rewrite P5. cbn [span substr].
    assert (L : length s = p3 + length (c2 :: t2') + length (e2 :: w2')). { unfold s, p3. rewrite !app_length. cbn [length]. lia. }
    assert (Nat.ltb (length s) (length w0) = false) as -> by (apply Nat.ltb_ge; lia).
    assert (Nat.ltb (length s) p3 = false) as -> by (apply Nat.ltb_ge; lia). cbn [obind].
    replace (length w0 + length (c1 :: t1') - length w0) with (length (c1 :: t1')) by lia.
    replace (p3 + length (c2 :: t2') - p3) with (length (c2 :: t2')) by lia.
    unfold s at 1. rewrite skipn_app_len, firstn_app_len. rewrite S3, firstn_app_len. reflexivity.
Qed.

Theorem tokeniser_three_tokens (w0 t1 w1 t2 w2 rest : bytes) c3 : all_ws w0 -> no_ws t1 -> t1 <> [] -> all_ws w1 -> w1 <> [] -> no_ws t2 -> t2 <> [] ->
  all_ws w2 -> w2 <> [] -> is_ws c3 = false ->
  find_edge_from_string (w0 ++ t1 ++ w1 ++ t2 ++ w2 ++ c3 :: rest) = Val (t1, t2, c3 :: rest).
Proof.
  intros W0 T1 N1 W1 NW1 T2 N2 W2 NW2 C3. unfold find_edge_from_string.
  destruct t1 as [|c1 t1']; [congruence|]. destruct w1 as [|d1 w1']; [congruence|]. destruct t2 as [|c2 t2']; [congruence|]. destruct w2 as [|e2 w2']; [congruence|].
  inversion T1; subst. inversion W1; subst. inversion T2; subst. inversion W2; subst.
  set (s := w0 ++ (c1 :: t1') ++ (d1 :: w1') ++ (c2 :: t2') ++ (e2 :: w2') ++ c3 :: rest).
  assert (P1 : find_first (fun c => negb (is_ws c)) s (Some 0) = Some (length w0)).
  { unfold find_first, s. cbn [skipn]. rewrite find_from_skip by (apply negb_forall; auto). cbn [app]. rewrite find_from_hit by (rewrite H1; auto). reflexivity. }
  rewrite P1.
  assert (P2 : find_first is_ws s (Some (length w0)) = Some (length w0 + length (c1 :: t1'))).
  { unfold find_first, s. rewrite skipn_app_len. rewrite find_from_skip by auto. cbn [app]. rewrite find_from_hit by auto. reflexivity. }
  rewrite P2.
  assert (S2 : skipn (length w0 + length (c1 :: t1')) s = (d1 :: w1') ++ (c2 :: t2') ++ (e2 :: w2') ++ c3 :: rest).
  { unfold s. rewrite <- app_length, app_assoc. apply skipn_app_len. }
  assert (P3 : find_first (fun c => negb (is_ws c)) s (Some (length w0 + length (c1 :: t1'))) = Some (length w0 + length (c1 :: t1') + length (d1 :: w1'))).
  { unfold find_first. rewrite S2. rewrite find_from_skip by (apply negb_forall; auto). cbn [app]. rewrite find_from_hit by (rewrite H5; auto). reflexivity. }
  rewrite P3. set (p3 := length w0 + length (c1 :: t1') + length (d1 :: w1')) in *.
  assert (S3 : skipn p3 s = (c2 :: t2') ++ (e2 :: w2') ++ c3 :: rest).
  { unfold s, p3. rewrite !skipn_plus, !skipn_app_len. reflexivity. }
  assert (P4 : find_first is_ws s (Some p3) = Some (p3 + length (c2 :: t2'))).
  { unfold find_first. rewrite S3. rewrite find_from_skip by auto. cbn [app]. rewrite find_from_hit by auto. reflexivity. }
  rewrite P4.
  assert (S4 : skipn (p3 + length (c2 :: t2')) s = (e2 :: w2') ++ c3 :: rest).
  { unfold s, p3. rewrite !skipn_plus, !skipn_app_len. reflexivity. }
  assert (P5 : find_first (fun c => negb (is_ws c)) s (Some (p3 + length (c2 :: t2'))) = Some (p3 + length (c2 :: t2') + length (e2 :: w2'))).
  { unfold find_first. rewrite S4. rewrite find_from_skip by (apply (negb_forall (e2 :: w2')); auto). rewrite find_from_hit by (rewrite C3; auto). reflexivity. }
  rewrite P5. cbn [span substr].
  assert (S5 : skipn (p3 + length (c2 :: t2') + length (e2 :: w2')) s = c3 :: rest).
  { unfold s, p3. rewrite !skipn_plus, !skipn_app_len. reflexivity. }
  assert (L : length s = p3 + length (c2 :: t2') + length (e2 :: w2') + length (c3 :: rest)). { unfold s, p3. rewrite !app_length. cbn [length]. lia. }
  assert (Nat.ltb (length s) (length w0) = false) as -> by (apply Nat.ltb_ge; lia).
  assert (Nat.ltb (length s) p3 = false) as -> by (apply Nat.ltb_ge; lia).
  assert (Nat.ltb (length s) (p3 + length (c2 :: t2') + length (e2 :: w2')) = false) as -> by (apply Nat.ltb_ge; lia). cbn [obind].
  replace (length w0 + length (c1 :: t1') - length w0) with (length (c1 :: t1')) by lia.
  replace (p3 + length (c2 :: t2') - p3) with (length (c2 :: t2')) by lia.
  unfold s at 1. rewrite skipn_app_len, firstn_app_len. rewrite S3, firstn_app_len, S5. reflexivity.
Qed.

(* ---------- decimal printing and std::stoi ---------- *)
Local Open Scope N_scope.
Definition dv (l : bytes) (acc : Z) : Z := fold_left (fun a c => (a * 10 + Z.of_N (c - 48))%Z) l acc.
Definition all_dig (l : bytes) : Prop := Forall (fun c => is_digit c = true) l.
Lemma digits_val_dv l : all_dig l -> forall acc, fst (digits_val l acc) = dv l acc.
Proof. induction 1 as [|c t Hc Ht IH]; intros acc; cbn [digits_val dv fold_left]; auto. rewrite Hc. cbn [fst]. apply IH. Qed.
Lemma dv_app a b acc : dv (a ++ b) acc = dv b (dv a acc).
Proof. unfold dv. apply fold_left_app. Qed.
Lemma digit_char n : n < 10 -> is_digit (48 + n) = true /\ (48 + n) - 48 = n /\ is_ws (48 + n) = false /\ (48 + n =? 45) = false /\ (48 + n =? 43) = false.
Proof. intros H. unfold is_digit, is_ws. repeat split; try lia; repeat (apply orb_false_intro || apply andb_true_intro || split); try (apply N.leb_le; lia); try (apply N.eqb_neq; lia). Qed.
Lemma to_string_fuel_spec fuel : forall n acc, n < 10 ^ N.of_nat fuel -> (0 < fuel)%nat ->
  exists ds, to_string_fuel fuel n acc = ds ++ acc /\ all_dig ds /\ ds <> [] /\ forall z, dv ds z = (z * 10 ^ Z.of_nat (length ds) + Z.of_N n)%Z.
Proof.
  induction fuel as [|f IH]; intros n acc H F; [lia|]. cbn [to_string_fuel].
  assert (M : n mod 10 < 10) by (apply N.mod_lt; lia). destruct (digit_char _ M) as [D1 [D2 _]].
  destruct (N.eqb_spec (n / 10) 0) as [E|NE].
  - exists [48 + n mod 10]. split; auto. split; [constructor; auto|]. split; [discriminate|]. intros z. cbn [dv fold_left length]. rewrite D2.
    assert (n = n mod 10) by (pose proof (N.div_mod n 10); lia). rewrite <- H0. change (Z.of_nat 1) with 1%Z. lia.
  - assert (Hf : (0 < f)%nat). { destruct f as [|f']; [|lia]. exfalso. apply NE. apply N.div_small. change (10 ^ N.of_nat 1) with 10 in H. exact H. }
    destruct (IH (n / 10) ((48 + n mod 10) :: acc)) as [ds [E [A [NE' V]]]]; auto.
    { rewrite Nat2N.inj_succ, N.pow_succ_r' in H. apply N.div_lt_upper_bound; lia. }
    exists (ds ++ [48 + n mod 10]). split; [rewrite E, <- app_assoc; reflexivity|]. split; [apply Forall_app; split; auto|]. split; [destruct ds; discriminate|].
    intros z. rewrite dv_app, V. cbn [dv fold_left]. rewrite D2, app_length. cbn [length]. rewrite Nat2Z.inj_add. change (Z.of_nat 1) with 1%Z.
    rewrite Z.pow_add_r by lia. pose proof (N.div_mod n 10). rewrite (N2Z.inj_div n 10), (N2Z.inj_mod n 10) in *.
    assert (Z.of_N n = (10 * (Z.of_N n / 10) + Z.of_N n mod 10)%Z) by (apply Z.div_mod; lia). change (Z.of_N 10) with 10%Z. lia.
Qed.
(* writing a vertex index (or a non-negative int label) with std::to_string and reading it with std::stoi gives it back *)
Theorem stoi_to_string n : n < 2 ^ 31 -> stoi (to_string n) = Val (Z.of_N n).
Proof.
  intros H. unfold to_string. destruct (to_string_fuel_spec 40 n []) as [ds [E [A [NE V]]]]; [|lia|].
  { eapply N.lt_trans; [exact H|]. vm_compute. reflexivity. }
  rewrite E, app_nil_r. destruct ds as [|c t]; [congruence|]. inversion A; subst.
  assert (CW : is_ws c = false /\ (c =? 45) = false /\ (c =? 43) = false).
  { unfold is_digit in H2. apply andb_prop in H2 as [L1 L2]. apply N.leb_le in L1, L2. unfold is_ws. repeat split; repeat apply orb_false_intro; apply N.eqb_neq; lia. }
  destruct CW as [CW [C45 C43]]. unfold stoi. cbn [drop_ws]. rewrite CW, C45, C43, H2.
  rewrite (digits_val_dv (c :: t) A), V. rewrite Z.mul_0_l, Z.add_0_l.
  assert (R : ((-2147483648 <=? Z.of_N n) && (Z.of_N n <=? 2147483647))%Z = true).
  { assert (B : (Z.of_N n < Z.of_N (2 ^ 31))%Z) by (apply N2Z.inj_lt; auto). change (Z.of_N (2 ^ 31)) with 2147483648%Z in B.
    apply andb_true_intro; split; apply Z.leb_le; lia. }
  rewrite R. reflexivity.
Qed.

(* ---------- C15: whatever the bytes, a loader ends with a graph or a C++ exception - never with undefined behaviour ---------- *)
Local Open Scope nat_scope.
Definition safe {A} (o : outcome A) : Prop := match o with Undef _ => False | _ => True end.
Lemma safe_obind {A B} (o : outcome A) (f : A -> outcome B) (P : A -> Prop) : (match o with Val a => P a | _ => True end) -> safe o -> (forall a, P a -> safe (f a)) -> safe (obind o f).
Proof. destruct o; cbn; auto. Qed.
Section Safe.
Context {L : Type}.
Notation dgraph := (@dgraph L).
Definition LenOK (h : dgraph) : Prop := length (adj h) = size h.
Lemma resize_ok (h : dgraph) n : LenOK h -> match DirectedModel.lift (resize h n) with Val h' => LenOK h' | Raise _ => True | Undef _ => False end.
Proof. intros H. unfold resize. destruct (Nat.ltb_spec n (size h)); cbn; auto. unfold LenOK in *; cbn [adj size].
  rewrite app_length, firstn_length, repeat_length. lia. Qed.
Lemma push_ok hs (h : dgraph) i j (l : L) : LenOK h -> i < size h -> exists h', push_edge hs h i j l = (h', Done) /\ LenOK h'.
Proof. intros H Hi. unfold push_edge. rewrite H, (proj2 (Nat.ltb_lt _ _) Hi). eexists; split; [reflexivity|]. unfold LenOK in *; cbn [adj size]. rewrite upd_length; auto. Qed.
Lemma add_forced_ok hs (h : dgraph) i j (l : L) : LenOK h ->
  match DirectedModel.lift (add_edge hs repaired h i j l true) with Val h' => LenOK h' | Raise _ => True | Undef _ => False end.
Proof. intros H. unfold add_edge. cbn [v_force_checks repaired]. unfold in_range. destruct (Nat.ltb_spec i (size h)); cbn [andb]; [|cbn; auto].
  destruct (Nat.ltb j (size h)); cbn [andb]; [|cbn; auto]. destruct (push_ok hs h i j l H H0) as [h' [E K]]. rewrite E. cbn. auto. Qed.
Lemma u_add_forced_ok hs (h : dgraph) i j (l : L) : LenOK h ->
  match DirectedModel.lift (u_add_edge hs repaired h i j l true) with Val h' => LenOK h' | Raise _ => True | Undef _ => False end.
Proof. intros H. unfold u_add_edge. cbn [v_force_checks repaired]. unfold in_range. destruct (Nat.ltb_spec i (size h)); cbn [andb]; [|cbn; auto].
  destruct (Nat.ltb_spec j (size h)); cbn [andb]; [|cbn; auto]. unfold u_push. rewrite H, (proj2 (Nat.ltb_lt _ _) H0), (proj2 (Nat.ltb_lt _ _) H1). cbn [andb]. cbn.
  unfold LenOK in *; cbn [adj size]. destruct (Nat.eqb i j); rewrite !upd_length; auto. Qed.

Variable und strict : bool.
Variable hs : bool.
Variable label_of_text : bytes -> outcome L.
Hypothesis label_safe : forall t, safe (label_of_text t).
Lemma substr_safe s p l : safe (substr s p l).
Proof. unfold substr. destruct p as [k|]; [|exact I]. destruct (Nat.ltb (length s) k); exact I. Qed.
Lemma substr_cases s p l : (exists v, substr s p l = Val v) \/ substr s p l = Raise StdOutOfRange.
Proof. unfold substr. destruct p as [k|]; auto. destruct (Nat.ltb (length s) k); eauto. Qed.
Lemma tokeniser_safe s : safe (find_edge_from_string s).
Proof. unfold find_edge_from_string.
  match goal with |- safe (obind ?a _) => destruct (substr_cases s (find_first (fun c => negb (is_ws c)) s (Some 0)) (span (find_first (fun c => negb (is_ws c)) s (Some 0)) (find_first is_ws s (find_first (fun c => negb (is_ws c)) s (Some 0))))) as [[v1 E1]|E1]; rewrite E1; cbn [obind]; [|exact I] end.
  match goal with |- safe (obind (substr s ?p ?l) _) => destruct (substr_cases s p l) as [[v2 E2]|E2]; rewrite E2; cbn [obind]; [|exact I] end.
  match goal with |- safe (match ?x with _ => _ end) => destruct x; [|exact I] end.
  match goal with |- safe (obind (substr s ?p ?l) _) => destruct (substr_cases s p l) as [[v3 E3]|E3]; rewrite E3; cbn [obind]; exact I end.
Qed.
Lemma stoi_safe t : safe (stoi t).
Proof. unfold stoi. destruct (drop_ws t) as [|c r]; cbn; auto.
  destruct (c =? 45)%N; [|destruct (c =? 43)%N]; (match goal with |- safe (match ?l with _ => _ end) => destruct l as [|d r'] end; cbn; auto;
    destruct (is_digit _); cbn; auto; match goal with |- safe (if ?b then _ else _) => destruct b end; cbn; auto). Qed.
Lemma t_add_ok (h : dgraph) i j l : LenOK h -> match t_add repaired und hs h i j l with Val h' => LenOK h' | Raise _ => True | Undef _ => False end.
Proof. intros H. unfold t_add. destruct und; [apply u_add_forced_ok|apply add_forced_ok]; auto. Qed.

Section Step.
Context {M : Type}.
Variable vmap : M -> bytes -> outcome (M * nat).
Hypothesis vmap_safe : forall m t, safe (vmap m t).
Lemma text_step_ok st line : LenOK (snd (fst st)) ->
  match text_step repaired und hs label_of_text vmap st line with Val st' => LenOK (snd (fst st')) | Raise _ => True | Undef _ => False end.
Proof.
  destruct st as [[m h] names]. cbn [fst snd]. intros H. unfold text_step.
  destruct (match line with c :: _ => (c =? 35)%N | [] => false end); [cbn; auto|].
  pose proof (tokeniser_safe line) as TS. destruct (find_edge_from_string line) as [[[t1 t2] t3]| |]; cbn [obind]; auto.
  pose proof (vmap_safe m t1) as V1. destruct (vmap m t1) as [[m1 i]| |]; cbn [obind fst snd]; auto.
  pose proof (vmap_safe m1 t2) as V2. destruct (vmap m1 t2) as [[m2 j]| |]; cbn [obind fst snd]; auto.
  assert (RZ : match (if Nat.leb (size h) (Nat.max i j) then (if Nat.ltb 3000 (Nat.max i j) then Raise RuntimeError
                       else omap (fun h1 => (h1, names ++ repeat [] (S (Nat.max i j) - length names))) (DirectedModel.lift (resize h (S (Nat.max i j)))))
                     else Val (h, names)) with Val hn => LenOK (fst hn) | Raise _ => True | Undef _ => False end).
  { destruct (Nat.leb (size h) (Nat.max i j)); [|cbn; auto]. destruct (Nat.ltb 3000 (Nat.max i j)); [cbn; auto|].
    pose proof (resize_ok h (S (Nat.max i j)) H) as R. destruct (DirectedModel.lift (resize h (S (Nat.max i j)))); cbn; auto. }
  destruct (if Nat.leb (size h) (Nat.max i j) then _ else _) as [[h1 names1]| |]; cbn [obind fst snd] in *; auto.
  pose proof (label_safe t3) as LS. destruct (label_of_text t3) as [l| |]; cbn [obind]; auto.
  pose proof (t_add_ok h1 i j l RZ) as TA. destruct (t_add repaired und hs h1 i j l); cbn; auto.
Qed.
Theorem load_text_with_safe m0 b : safe (load_text_with repaired und hs label_of_text vmap m0 b).
Proof.
  unfold load_text_with.
  assert (G : forall ls o, match o with Val st => LenOK (snd (fst st)) | Raise _ => True | Undef _ => False end ->
     match fold_left (fun acc line => obind acc (fun st => text_step repaired und hs label_of_text vmap st line)) ls o with Val st => LenOK (snd (fst st)) | Raise _ => True | Undef _ => False end).
  { induction ls as [|l t IH]; intros o H; cbn [fold_left]; auto. apply IH. destruct o as [st| |]; cbn [obind]; auto. apply text_step_ok; auto. }
  specialize (G (lines_of b []) (Val (m0, init 0, []))). cbn in G. specialize (G eq_refl).
  destruct (fold_left _ _ _); cbn; auto.
Qed.
End Step.
Theorem load_text_safe b : safe (load_text repaired und strict hs label_of_text b).
Proof. unfold load_text. apply load_text_with_safe. intros m t. unfold stoi_map, vertex_of_text. pose proof (stoi_safe t). destruct (stoi t); cbn; auto.
  destruct (a <? 0)%Z; cbn; auto. destruct strict; cbn; auto. Qed.
Theorem load_text_names_safe b : safe (load_text_names repaired und hs label_of_text b).
Proof. unfold load_text_names. apply load_text_with_safe. intros m t. unfold count_map. destruct (name_index t m 0); cbn; auto. Qed.
End Safe.
