(* "No undefined behaviour" theorems for the path-search models of PathsModel.v with the range checks in place (strict = true). *)
From Coq Require Import List Arith NArith ZArith Lia Bool.
From BG Require Import Base Bfs Dj DjPred PathsModel PathsProofs TextProofs.
Import ListNotations.
Local Open Scope nat_scope.

(* ================= the range check ================= *)
Lemma checked_in (strict : bool) n vs {A} (k : outcome A) : (forall v, In v vs -> v < n) -> checked strict n vs k = k.
Proof. intros H. unfold checked. replace (forallb (fun v => Nat.ltb v n) vs) with true; auto.
  symmetry. apply forallb_forall. intros v Hv. apply Nat.ltb_lt; auto. Qed.
Lemma checked_out n vs {A} (k : outcome A) v : In v vs -> n <= v -> checked true n vs k = Raise OutOfRange.
Proof. intros Hin Hv. unfold checked. destruct (forallb (fun v => Nat.ltb v n) vs) eqn:E; auto.
  rewrite forallb_forall in E. apply E, Nat.ltb_lt in Hin. lia. Qed.
Lemma checked_safe n vs {A} (k : outcome A) : safe k -> safe (checked true n vs k).
Proof. unfold checked. destruct (forallb _ vs); cbn; auto. Qed.

(* ================= 1. findVertexPredecessors ================= *)
Theorem bfs_single_oor g s : length g <= s -> bfs_single true g s = Raise OutOfRange.
Proof. intros H. unfold bfs_single. apply (checked_out _ _ _ s); simpl; auto. Qed.
Theorem bfs_single_val g s : Bfs.wf g -> s < length g -> exists o, bfs_single true g s = Val o.
Proof. intros W H. destruct (bfs_single_spec g s W H) as [o [E _]]. eauto. Qed.
Theorem bfs_single_safe g s : Bfs.wf g -> safe (bfs_single true g s).
Proof. intros W. destruct (Nat.lt_ge_cases s (length g)) as [H|H].
  - destruct (bfs_single_val g s W H) as [o ->]. exact I.
  - rewrite bfs_single_oor by auto. exact I. Qed.

(* ================= 2. findGeodesics ================= *)
Theorem find_geodesics_oor g s t : length g <= s \/ length g <= t -> find_geodesics true g s t = Raise OutOfRange.
Proof. intros [H|H]; unfold find_geodesics; [apply (checked_out _ _ _ s)|apply (checked_out _ _ _ t)]; simpl; auto. Qed.
Theorem find_geodesics_val g s t : Bfs.wf g -> s < length g -> t < length g -> exists p, find_geodesics true g s t = Val p.
Proof. intros W Hs Ht. destruct (find_geodesics_spec g s W Hs t Ht) as [p [E _]]. eauto. Qed.
Theorem find_geodesics_safe g s t : Bfs.wf g -> safe (find_geodesics true g s t).
Proof. intros W. destruct (Nat.lt_ge_cases s (length g)) as [Hs|Hs]; [destruct (Nat.lt_ge_cases t (length g)) as [Ht|Ht]|].
  - destruct (find_geodesics_val g s t W Hs Ht) as [p ->]. exact I.
  - rewrite find_geodesics_oor by auto. exact I.
  - rewrite find_geodesics_oor by auto. exact I. Qed.

(* ================= 3. findGeodesicsDijkstra (no well-formedness needed, any pop sequence) ================= *)
Theorem dijkstra_oor g s cs : length g <= s -> dijkstra true g s cs = Raise OutOfRange.
Proof. intros H. unfold dijkstra. apply (checked_out _ _ _ s); simpl; auto. Qed.
Theorem dijkstra_val g s cs : s < length g -> exists o, dijkstra true g s cs = Val o.
Proof. intros H. unfold dijkstra. rewrite checked_in by (intros v [<-|[]]; auto).
  destruct (dj_follow g (Dj.init (length g) s) cs 0) as [[st k] ok]. eauto. Qed.
Theorem dijkstra_safe g s cs : safe (dijkstra true g s cs).
Proof. destruct (Nat.lt_ge_cases s (length g)) as [H|H].
  - destruct (dijkstra_val g s cs H) as [o ->]. exact I.
  - rewrite dijkstra_oor by auto. exact I. Qed.

(* ================= 4. findGeodesicsFromVertex ================= *)
Lemma omapM_val {A B} (f : A -> outcome B) l : (forall x, In x l -> exists y, f x = Val y) -> exists ys, omapM f l = Val ys /\ length ys = length l.
Proof. induction l as [|x t IH]; intros H; cbn [omapM]; [exists []; auto|].
  destruct (H x) as [y ->]; [simpl; auto|]. destruct IH as [ys [-> L]]; [intros; apply H; simpl; auto|]. cbn [obind]. exists (y :: ys). simpl; auto. Qed.
Lemma geodesic_entry_val g s o j : Bfs.wf g -> s < length g -> bfs_facts g s o -> j < length g ->
  exists p, obind (reached (bo_dist o) j) (fun r => match r with Some k => path_from_preds (S k) (bo_pred o) s j | None => Val [] end) = Val p.
Proof.
  intros W Hs F Hj. pose proof F as [LD [LP [Wk _]]]. unfold reached. rewrite <- LD in Hj. rewrite (nth_error_nth' _ None Hj). cbn [obind].
  pose proof (Wk j) as Wj. destruct (nth j (bo_dist o) None) as [k|] eqn:Dj; [|eauto].
  unfold path_from_preds. destruct (Nat.eqb_spec s j) as [<-|N]; [eauto|].
  destruct Wj as [Wj _]. destruct k as [|k]; [apply (walk0 g s) in Wj; congruence|].
  destruct (parent_walk_spec g s W Hs o F k j [] (S (S k)) Dj) as [pre [E _]]; [lia|]. rewrite E. eauto.
Qed.
Theorem geodesics_from_vertex_oor g s : length g <= s -> geodesics_from_vertex true g s = Raise OutOfRange.
Proof. intros H. unfold geodesics_from_vertex. rewrite bfs_single_oor by auto. reflexivity. Qed.
Theorem geodesics_from_vertex_val g s : Bfs.wf g -> s < length g -> exists ps, geodesics_from_vertex true g s = Val ps /\ length ps = length g.
Proof. intros W Hs. unfold geodesics_from_vertex. destruct (bfs_single_spec g s W Hs) as [o [E [_ F]]]. rewrite E. cbn [obind].
  match goal with |- exists ps, omapM ?f ?l = _ /\ _ => destruct (omapM_val f l) as [ys [E2 L]] end.
  - intros j Hj. apply in_seq in Hj. apply (geodesic_entry_val g); auto. lia.
  - exists ys. split; auto. rewrite L, seq_length. auto. Qed.
Theorem geodesics_from_vertex_safe g s : Bfs.wf g -> safe (geodesics_from_vertex true g s).
Proof. intros W. destruct (Nat.lt_ge_cases s (length g)) as [H|H].
  - destruct (geodesics_from_vertex_val g s W H) as [o [-> _]]. exact I.
  - rewrite geodesics_from_vertex_oor by auto. exact I. Qed.

(* ================= 5. findAllVertexPredecessors (repaired: one enqueue per vertex, once = true) ================= *)
Definition isnone (d : option nat) : bool := match d with None => true | Some _ => false end.
Definition cn (l : list (option nat)) : nat := length (filter isnone l).          (* vertices not discovered yet *)
Definition pot (st : ast) : nat := length (a_queue st) + cn (a_dist st).           (* termination potential *)
Lemma cn_set_none l v x : v < length l -> nth v l None = None -> S (cn (Bfs.set_nth v (Some x) l)) = cn l.
Proof. unfold cn; revert v; induction l as [|h t IH]; intros [|v] Hl Hv; simpl in *; try lia.
  - subst h; simpl; auto.
  - destruct h; simpl; rewrite <- (IH v); auto; lia. Qed.
Lemma cn_set_some l v x y : nth v l None = Some y -> cn (Bfs.set_nth v (Some x) l) = cn l.
Proof. unfold cn; revert v; induction l as [|h t IH]; intros [|v] Hv; simpl in *; try discriminate.
  - subst h; simpl; auto.
  - destruct h; simpl; rewrite (IH v); auto. Qed.
Lemma cn_repeat n : cn (repeat None n) = n.
Proof. unfold cn; induction n; simpl; auto. Qed.
Lemma nth_some_lt {A} (l : list (option A)) v x : nth v l None = Some x -> v < length l.
Proof. intros H. destruct (Nat.lt_ge_cases v (length l)); auto. rewrite nth_overflow in H by auto. discriminate. Qed.

Section AFold.
Variables (n s u du : nat) (q : list nat).
Record FInv (st : ast) : Prop := {
  f_ld : length (a_dist st) = n;
  f_lp : length (a_preds st) = n;
  f_q : forall x, In x (a_queue st) -> x < n;
  f_pr : forall v p, In p (nth v (a_preds st) []) -> p < n;
  f_np : forall v, nth v (a_dist st) None = None -> nth v (a_preds st) [] = [];
  f_bnd : forall v dv, nth v (a_dist st) None = Some dv -> dv <= S du;
  f_u : nth u (a_dist st) None = Some du;
  f_pd : forall v p, In p (nth v (a_preds st) []) -> exists dp, nth p (a_dist st) None = Some dp /\ nth v (a_dist st) None = Some (S dp);
  f_hp : forall v k, nth v (a_dist st) None = Some (S k) -> nth v (a_preds st) [] <> [];
  f_z : forall v, nth v (a_dist st) None = Some 0 -> v = s;
  f_push : exists pushed, a_queue st = q ++ pushed /\ forall x, In x pushed -> nth x (a_dist st) None = Some (S du) }.
Definition dmono (st st' : ast) : Prop := forall x d, nth x (a_dist st) None = Some d -> nth x (a_dist st') None = Some d.

Lemma upd_FInv st v qx : FInv st -> v < n -> u < n ->
  nth v (a_dist st) None = None \/ nth v (a_dist st) None = Some (S du) -> qx = [] \/ qx = [v] ->
  let st' := {| a_dist := Bfs.set_nth v (Some (S du)) (a_dist st); a_preds := Bfs.set_nth v (nth v (a_preds st) [] ++ [u]) (a_preds st);
                a_proc := a_proc st; a_queue := a_queue st ++ qx |} in
  FInv st' /\ dmono st st'.
Proof.
  intros F Hv Hu Dv Qx st'.
  pose proof (f_ld _ F) as LD. pose proof (f_lp _ F) as LP.
  assert (DV : nth v (a_dist st') None = Some (S du)) by (unfold st'; cbn [a_dist]; apply Bfs.nth_set_nth_eq; lia).
  assert (DN : forall w, w <> v -> nth w (a_dist st') None = nth w (a_dist st) None) by (intros w N; unfold st'; cbn [a_dist]; apply Bfs.nth_set_nth_neq; auto).
  assert (PV : nth v (a_preds st') [] = nth v (a_preds st) [] ++ [u]) by (unfold st'; cbn [a_preds]; apply Bfs.nth_set_nth_eq; lia).
  assert (PN : forall w, w <> v -> nth w (a_preds st') [] = nth w (a_preds st) []) by (intros w N; unfold st'; cbn [a_preds]; apply Bfs.nth_set_nth_neq; auto).
  assert (M : dmono st st').
  { intros x d Dx. destruct (Nat.eq_dec x v) as [->|N]; [|rewrite DN; auto]. rewrite DV. destruct Dv as [Dv|Dv]; congruence. }
  split; [|exact M]. constructor.
  - unfold st'; cbn [a_dist]. rewrite Bfs.set_nth_length; auto.
  - unfold st'; cbn [a_preds]. rewrite Bfs.set_nth_length; auto.
  - unfold st'; cbn [a_queue]. intros x Hx. apply in_app_or in Hx as [Hx|Hx]; [apply (f_q _ F); auto|]. destruct Qx as [-> | ->]; [destruct Hx|destruct Hx as [<-|[]]; auto].
  - intros w p Hp. destruct (Nat.eq_dec w v) as [->|N].
    + rewrite PV in Hp. apply in_app_or in Hp as [Hp|[<-|[]]]; auto. apply (f_pr _ F v p Hp).
    + rewrite PN in Hp by auto. apply (f_pr _ F w p Hp).
  - intros w Dw. destruct (Nat.eq_dec w v) as [->|N]; [congruence|]. rewrite DN in Dw by auto. rewrite PN by auto. apply (f_np _ F); auto.
  - intros w dw Dw. destruct (Nat.eq_dec w v) as [->|N]; [rewrite DV in Dw; injection Dw as <-; lia|]. rewrite DN in Dw by auto. apply (f_bnd _ F w); auto.
  - apply M, (f_u _ F).
  - intros w p Hp. destruct (Nat.eq_dec w v) as [->|N].
    + rewrite PV in Hp. apply in_app_or in Hp as [Hp|[<-|[]]].
      * destruct (f_pd _ F v p Hp) as [dp [A B]]. exists dp; split; apply M; auto.
      * exists du; split; [apply M, (f_u _ F)|exact DV].
    + rewrite PN in Hp by auto. destruct (f_pd _ F w p Hp) as [dp [A B]]. exists dp; split; apply M; auto.
  - intros w k Dw. destruct (Nat.eq_dec w v) as [->|N].
    + rewrite PV. intros E. apply app_eq_nil in E as [_ E]. discriminate.
    + rewrite DN in Dw by auto. rewrite PN by auto. apply (f_hp _ F w k); auto.
  - intros w Dw. destruct (Nat.eq_dec w v) as [->|N]; [rewrite DV in Dw; discriminate|]. rewrite DN in Dw by auto. apply (f_z _ F); auto.
  - destruct (f_push _ F) as [pushed [Qe Pp]]. exists (pushed ++ qx). unfold st'; cbn [a_queue]. split; [rewrite Qe, app_assoc; auto|].
    intros x Hx. apply in_app_or in Hx as [Hx|Hx]; [apply M; auto|]. destruct Qx as [-> | ->]; [destruct Hx|destruct Hx as [<-|[]]; exact DV].
Qed.

Lemma avisit_FInv st v : FInv st -> v < n -> u < n ->
  FInv (avisit true u du st v) /\ dmono st (avisit true u du st v) /\ pot (avisit true u du st v) = pot st.
Proof.
  intros F Hv Hu. unfold avisit. destruct (nth v (a_proc st) true); [split; [auto|split; [intros x d; auto|auto]]|].
  destruct (nth v (a_dist st) None) as [d|] eqn:Dv.
  - destruct (olt_le (S du) (Some d) && negb (mem u (nth v (a_preds st) []))) eqn:C.
    + apply andb_prop in C as [C _]. cbn [olt_le] in C. apply Nat.leb_le in C. pose proof (f_bnd _ F v d Dv) as B. assert (d = S du) by lia. subst d.
      destruct (upd_FInv st v [] F Hv Hu (or_intror Dv) (or_introl eq_refl)) as [F' M]. rewrite app_nil_r in F', M.
      split; [exact F'|]. split; [exact M|]. unfold pot; cbn [a_dist a_queue]. rewrite (cn_set_some _ _ _ _ Dv). auto.
    + destruct st as [d0 p0 b0 q0]; cbn [a_dist a_preds a_proc a_queue] in *. split; [auto|split; [intros x dx; auto|auto]].
  - pose proof (f_np _ F v Dv) as Pv. rewrite Pv. cbn [olt_le mem existsb negb andb].
    destruct (upd_FInv st v [v] F Hv Hu (or_introl Dv) (or_intror eq_refl)) as [F' M]. rewrite Pv in F', M.
    split; [exact F'|]. split; [exact M|]. unfold pot; cbn [a_dist a_queue]. rewrite app_length; cbn [length].
    pose proof (cn_set_none (a_dist st) v (S du)) as CN. rewrite (f_ld _ F) in CN. specialize (CN Hv Dv). lia.
Qed.

Lemma afold_FInv es : forall st, FInv st -> (forall v, In v es -> v < n) -> u < n ->
  FInv (fold_left (avisit true u du) es st) /\ dmono st (fold_left (avisit true u du) es st) /\ pot (fold_left (avisit true u du) es st) = pot st.
Proof.
  induction es as [|e es IH]; intros st F R Hu; cbn [fold_left]; [split; [auto|split; [intros x d; auto|auto]]|].
  destruct (avisit_FInv st e F) as [F1 [M1 P1]]; [apply R; simpl; auto|auto|].
  destruct (IH _ F1) as [F2 [M2 P2]]; [intros; apply R; simpl; auto|auto|].
  split; [auto|split; [|congruence]]. intros x d Dx. apply M2, M1; auto.
Qed.
End AFold.

Section AInvS.
Variables (g : adjl) (s : nat).
Hypothesis Hwf : Bfs.wf g.
Record AInv (st : ast) : Prop := {
  i_ld : length (a_dist st) = length g;
  i_lp : length (a_preds st) = length g;
  i_q : forall x, In x (a_queue st) -> x < length g;
  i_pr : forall v p, In p (nth v (a_preds st) []) -> p < length g;
  i_np : forall v, nth v (a_dist st) None = None -> nth v (a_preds st) [] = [];
  i_qd : forall x, In x (a_queue st) -> exists dx, nth x (a_dist st) None = Some dx;
  i_srt : Bfs.qs (a_dist st) (a_queue st);
  i_bnd : forall h t, a_queue st = h :: t -> forall v dv dh, nth v (a_dist st) None = Some dv -> nth h (a_dist st) None = Some dh -> dv <= S dh;
  i_pd : forall v p, In p (nth v (a_preds st) []) -> exists dp, nth p (a_dist st) None = Some dp /\ nth v (a_dist st) None = Some (S dp);
  i_hp : forall v k, nth v (a_dist st) None = Some (S k) -> nth v (a_preds st) [] <> [];
  i_z : forall v, nth v (a_dist st) None = Some 0 -> v = s }.

Lemma astep_inv st u q : AInv st -> a_queue st = u :: q -> AInv (astep true g u q st) /\ S (pot (astep true g u q st)) = pot st.
Proof.
  intros I Q. destruct (i_qd _ I u) as [du Du]; [rewrite Q; left; auto|].
  assert (Hu : u < length g) by (apply (i_q _ I); rewrite Q; left; auto).
  unfold astep. rewrite Du.
  set (st0 := {| a_dist := a_dist st; a_preds := a_preds st; a_proc := a_proc st; a_queue := q |}).
  assert (F0 : FInv (length g) s u du q st0).
  { constructor; unfold st0; cbn [a_dist a_preds a_queue].
    - apply (i_ld _ I).
    - apply (i_lp _ I).
    - intros x Hx. apply (i_q _ I). rewrite Q; right; auto.
    - apply (i_pr _ I).
    - apply (i_np _ I).
    - intros v dv Dv. apply (i_bnd _ I u q Q v dv du Dv Du).
    - exact Du.
    - apply (i_pd _ I).
    - apply (i_hp _ I).
    - apply (i_z _ I).
    - exists []. rewrite app_nil_r. split; auto. intros x []. }
  destruct (afold_FInv (length g) s u du q (nth u g []) st0 F0) as [F1 [M P]]; [intros v Hv; apply (Hwf u v Hv)|exact Hu|].
  set (st1 := fold_left (avisit true u du) (nth u g []) st0) in *.
  split.
  - destruct (f_push _ _ _ _ _ _ F1) as [pushed [Qe PD]].
    assert (QOLD : forall x, In x q -> exists dx, nth x (a_dist st) None = Some dx /\ nth x (a_dist st1) None = Some dx /\ du <= dx).
    { intros x Hx. destruct (i_qd _ I x) as [dx Dx]; [rewrite Q; right; auto|]. exists dx. split; auto. split; [apply M; exact Dx|].
      pose proof (i_srt _ I) as Sr. rewrite Q in Sr. cbn [Bfs.qs] in Sr. destruct Sr as [A _]. apply (A x Hx du dx); auto. }
    constructor; cbn [a_dist a_preds a_queue].
    + apply (f_ld _ _ _ _ _ _ F1).
    + apply (f_lp _ _ _ _ _ _ F1).
    + apply (f_q _ _ _ _ _ _ F1).
    + apply (f_pr _ _ _ _ _ _ F1).
    + apply (f_np _ _ _ _ _ _ F1).
    + intros x Hx. rewrite Qe in Hx. apply in_app_or in Hx as [Hx|Hx].
      * destruct (QOLD x Hx) as [dx [_ [E _]]]; eauto.
      * rewrite (PD x Hx); eauto.
    + rewrite Qe. apply Bfs.qs_app.
      * apply (Bfs.qs_ext (a_dist st)).
        -- intros x Hx. destruct (QOLD x Hx) as [dx [A [B _]]]. unfold Bfs.getd. congruence.
        -- pose proof (i_srt _ I) as Sr. rewrite Q in Sr. cbn [Bfs.qs] in Sr. tauto.
      * apply (Bfs.qs_const _ _ (S du)). exact PD.
      * intros x y Hx Hy da db Ha Hb. unfold Bfs.getd in *. rewrite (PD y Hy) in Hb. injection Hb as <-. apply (f_bnd _ _ _ _ _ _ F1 x da Ha).
    + intros h t Hq v dv dh Dv Dh. pose proof (f_bnd _ _ _ _ _ _ F1 v dv Dv) as B. assert (du <= dh); [|lia].
      assert (Hh : In h (q ++ pushed)) by (rewrite <- Qe, Hq; left; auto). apply in_app_or in Hh as [Hh|Hh].
      * destruct (QOLD h Hh) as [d [_ [E L]]]. congruence.
      * rewrite (PD h Hh) in Dh. injection Dh as <-. lia.
    + apply (f_pd _ _ _ _ _ _ F1).
    + apply (f_hp _ _ _ _ _ _ F1).
    + apply (f_z _ _ _ _ _ _ F1).
  - unfold pot in *. cbn [a_dist a_queue]. rewrite P. unfold st0; cbn [a_dist a_queue]. rewrite Q. cbn [length]. lia.
Qed.

Lemma abfs_inv fuel : forall st k, AInv st -> AInv (fst (fst (abfs true fuel g st k))).
Proof. induction fuel as [|f IH]; intros st k I; cbn [abfs]; destruct (a_queue st) as [|u q] eqn:Q; cbn [fst]; auto.
  apply IH. apply astep_inv; auto. Qed.

Lemma abfs_spec fuel : forall st k, AInv st -> pot st <= fuel ->
  exists st' p, abfs true fuel g st k = (st', p, true) /\ AInv st' /\ a_queue st' = [] /\ p <= k + pot st.
Proof.
  induction fuel as [|f IH]; intros st k I H; cbn [abfs].
  - destruct (a_queue st) as [|u q] eqn:Q; [exists st, k; split; [reflexivity|split; [exact I|split; [exact Q|lia]]]|]. unfold pot in H. rewrite Q in H. simpl in H. lia.
  - destruct (a_queue st) as [|u q] eqn:Q; [exists st, k; split; [reflexivity|split; [exact I|split; [exact Q|lia]]]|].
    destruct (astep_inv st u q I Q) as [I' P']. destruct (IH (astep true g u q st) (S k) I') as [st' [p [E [I2 [Q2 L]]]]]; [lia|].
    exists st', p. split; [exact E|split; [exact I2|split; [exact Q2|lia]]].
Qed.

Lemma ainit_inv : s < length g -> AInv (ainit (length g) s) /\ pot (ainit (length g) s) = length g.
Proof.
  intros Hs.
  assert (D : forall v, nth v (a_dist (ainit (length g) s)) None = if Nat.eq_dec s v then Some 0 else None).
  { intros v; cbn [ainit a_dist]. destruct (Nat.eq_dec s v) as [<-|N]; [apply Bfs.nth_set_nth_eq; rewrite repeat_length; auto|rewrite Bfs.nth_set_nth_neq, Bfs.nth_repeat; auto]. }
  assert (P : forall v, nth v (a_preds (ainit (length g) s)) [] = []) by (intros v; cbn [ainit a_preds]; apply Bfs.nth_repeat).
  split; [constructor|].
  - cbn [ainit a_dist]. rewrite Bfs.set_nth_length, repeat_length; auto.
  - cbn [ainit a_preds]. rewrite repeat_length; auto.
  - cbn [ainit a_queue]. intros x [<-|[]]; auto.
  - intros v p. rewrite P. intros [].
  - intros v _. apply P.
  - cbn [ainit a_queue]. intros x [<-|[]]. rewrite D. destruct (Nat.eq_dec s s); [eauto|congruence].
  - cbn [ainit a_queue Bfs.qs]. split; auto. intros x [].
  - cbn [ainit a_queue]. intros h t E v dv dh. injection E as <- <-. rewrite !D. destruct (Nat.eq_dec s v); [|discriminate]. intros A _. injection A as <-. lia.
  - intros v p. rewrite P. intros [].
  - intros v k. rewrite D. destruct (Nat.eq_dec s v); discriminate.
  - intros v. rewrite D. destruct (Nat.eq_dec s v); [auto|discriminate].
  - unfold pot. cbn [ainit a_queue a_dist length]. pose proof (cn_set_none (repeat None (length g)) s 0) as CN.
    rewrite repeat_length, Bfs.nth_repeat, cn_repeat in CN. specialize (CN Hs eq_refl). lia.
Qed.
End AInvS.

(* a finished search does not depend on the amount of fuel it was given *)
Lemma abfs_fuel_mono once g f : forall st k st' p, abfs once f g st k = (st', p, true) -> forall f', f <= f' -> abfs once f' g st k = (st', p, true).
Proof. induction f as [|f IH]; intros st k st' p E f' L; cbn [abfs] in E.
  - destruct (a_queue st) eqn:Q; [|discriminate]. destruct f'; cbn [abfs]; rewrite Q; auto.
  - destruct f' as [|f']; [lia|]. cbn [abfs]. destruct (a_queue st) eqn:Q; auto. apply IH; auto; lia. Qed.

(* what the all-predecessor search guarantees about its output *)
Definition all_facts (g : adjl) (s : nat) (o : all_out) : Prop :=
  length (ao_dist o) = length g /\ length (ao_preds o) = length g /\
  (forall v p, In p (nth v (ao_preds o) []) -> p < length g) /\
  (forall v p, In p (nth v (ao_preds o) []) -> exists dp, nth p (ao_dist o) None = Some dp /\ nth v (ao_dist o) None = Some (S dp)) /\
  (forall v, nth v (ao_dist o) None = None -> nth v (ao_preds o) [] = []) /\
  (forall v k, nth v (ao_dist o) None = Some (S k) -> nth v (ao_preds o) [] <> []) /\
  (forall v, nth v (ao_dist o) None = Some 0 -> v = s).
Lemma AInv_facts g s st p : AInv g s st -> all_facts g s {| ao_dist := a_dist st; ao_preds := a_preds st; ao_scans := p |}.
Proof. intros I. unfold all_facts; cbn [ao_dist ao_preds].
  split; [apply (i_ld _ _ _ I)|]. split; [apply (i_lp _ _ _ I)|]. split; [apply (i_pr _ _ _ I)|]. split; [apply (i_pd _ _ _ I)|].
  split; [apply (i_np _ _ _ I)|]. split; [apply (i_hp _ _ _ I)|apply (i_z _ _ _ I)]. Qed.

Theorem bfs_all_oor once fuel g s : length g <= s -> bfs_all true once fuel g s = Raise OutOfRange.
Proof. intros H. unfold bfs_all. apply (checked_out _ _ _ s); simpl; auto. Qed.
(* V units of fuel suffice; at most V neighbourhood scans *)
Theorem bfs_all_val fuel g s : Bfs.wf g -> s < length g -> length g <= fuel ->
  exists o, bfs_all true true fuel g s = Val o /\ ao_scans o <= length g /\ all_facts g s o.
Proof. intros W Hs Hf. unfold bfs_all. rewrite checked_in by (intros v [<-|[]]; auto).
  destruct (ainit_inv g s Hs) as [I0 P0].
  destruct (abfs_spec g s W fuel (ainit (length g) s) 0 I0) as [st [p [E [I [Q L]]]]]; [lia|]. rewrite E.
  eexists; split; [reflexivity|]. cbn [ao_scans]. split; [lia|]. apply AInv_facts; auto. Qed.
Theorem bfs_all_safe fuel g s : Bfs.wf g -> length g <= fuel -> safe (bfs_all true true fuel g s).
Proof. intros W Hf. destruct (Nat.lt_ge_cases s (length g)) as [H|H].
  - destruct (bfs_all_val fuel g s W H Hf) as [o [-> _]]. exact I.
  - rewrite bfs_all_oor by auto. exact I. Qed.
Theorem bfs_all_fuel_indep fuel g s : Bfs.wf g -> length g <= fuel -> bfs_all true true fuel g s = bfs_all true true (length g) g s.
Proof. intros W Hf. destruct (Nat.lt_ge_cases s (length g)) as [Hs|Hs]; [|rewrite !bfs_all_oor; auto].
  unfold bfs_all. rewrite !checked_in by (intros v [<-|[]]; auto).
  destruct (ainit_inv g s Hs) as [I0 P0].
  destruct (abfs_spec g s W (length g) (ainit (length g) s) 0 I0) as [st [p [E _]]]; [lia|]. rewrite E.
  rewrite (abfs_fuel_mono true g (length g) _ _ _ _ E fuel Hf). reflexivity. Qed.
(* whatever the fuel: a search that finished satisfies the facts *)
Theorem bfs_all_facts fuel g s o : Bfs.wf g -> bfs_all true true fuel g s = Val o -> all_facts g s o.
Proof. intros W. destruct (Nat.lt_ge_cases s (length g)) as [Hs|Hs]; [|rewrite bfs_all_oor by auto; discriminate].
  unfold bfs_all. rewrite checked_in by (intros v [<-|[]]; auto).
  pose proof (abfs_inv g s W fuel (ainit (length g) s) 0 (proj1 (ainit_inv g s Hs))) as I.
  destruct (abfs true fuel g (ainit (length g) s) 0) as [[st p] fin]. cbn [fst] in I. destruct fin; [|discriminate].
  intros E; injection E as <-. apply AInv_facts; auto. Qed.

(* ================= 6. findAllGeodesics: the stack loop ================= *)
Fixpoint cost (preds : list (list nat)) (depth c : nat) : nat :=        (* iterations of the stack loop caused by pushing c *)
  match depth with O => 1 | S d => 1 + list_sum (map (cost preds d) (nth c preds [])) end.
Definition geo_cost (o : all_out) (t : nat) : nat := match nth t (ao_dist o) None with Some d => cost (ao_preds o) d t | None => 0 end.

(* the only undefined outcome is running out of fuel (in particular: no out-of-range index) *)
Definition only_fuel {A} (o : outcome A) : Prop := match o with Undef k => k = Fuel | _ => True end.
Lemma only_fuel_no_oob {A} (o : outcome A) : only_fuel o -> o <> Undef IndexOOB.
Proof. intros H E. rewrite E in H. discriminate. Qed.

Section Stack.
Variables (g : adjl) (s t : nat) (o : all_out).
Hypothesis F : all_facts g s o.
Notation preds := (ao_preds o).
Notation dist := (ao_dist o).

Lemma push_in (l : list nat) ps : forall (rest : list (nat * list nat)) e, In e (fold_left (fun st p => (p, l) :: st) ps rest) -> In e rest \/ In (fst e) ps.
Proof. induction ps as [|p ps IH]; intros rest e H; cbn [fold_left] in H; auto.
  apply IH in H as [[<-|H]|H]; simpl; auto. Qed.

(* 6a: the loop only dereferences in-range vertices *)
Lemma stack_loop_only_fuel fuel : forall stack paths, (forall e, In e stack -> fst e < length g) -> only_fuel (stack_loop fuel preds s t stack paths).
Proof.
  destruct F as [LD [LP [PR _]]].
  induction fuel as [|f IH]; intros stack paths R; destruct stack as [|[c lst] rest]; cbn [stack_loop]; try exact I; try reflexivity.
  assert (Hc : c < length preds) by (rewrite LP; apply (R (c, lst)); left; auto). rewrite (nth_error_nth' _ [] Hc).
  destruct ((match nth c preds [] with [] => true | _ => false end) && negb (Nat.eqb c s)); [exact I|].
  apply IH. intros e He. apply push_in in He as [He|He]; [apply R; right; auto|apply (PR c); auto]. Qed.

(* 6b: with enough fuel the loop ends with a value *)
Definition costv (c : nat) : nat := geo_cost o c.
Definition stot (stack : list (nat * list nat)) : nat := list_sum (map (fun e => costv (fst e)) stack).
Lemma costv_unfold c dc : nth c dist None = Some dc -> costv c = 1 + list_sum (map costv (nth c preds [])).
Proof.
  destruct F as [LD [LP [PR [PD _]]]]. intros Dc. unfold costv at 1, geo_cost. rewrite Dc. destruct dc as [|d]; cbn [cost].
  - destruct (nth c preds []) as [|p ps] eqn:E; auto. destruct (PD c p) as [dp [_ B]]; [rewrite E; left; auto|congruence].
  - f_equal. f_equal. apply map_ext_in. intros p Hp. destruct (PD c p Hp) as [dp [A B]]. assert (dp = d) by congruence. subst dp.
    unfold costv, geo_cost. rewrite A. reflexivity. Qed.
Lemma list_sum_cons a l : list_sum (a :: l) = a + list_sum l.
Proof. reflexivity. Qed.
Lemma push_stot (l : list nat) ps : forall rest, stot (fold_left (fun st p => (p, l) :: st) ps rest) = list_sum (map costv ps) + stot rest.
Proof. induction ps as [|p ps IH]; intros rest; cbn [fold_left map]; auto. rewrite IH. unfold stot; cbn [map fst]. rewrite !list_sum_cons. lia. Qed.
Lemma stack_loop_val fuel : forall stack paths, (forall e, In e stack -> exists d, nth (fst e) dist None = Some d) -> stot stack <= fuel ->
  exists r, stack_loop fuel preds s t stack paths = Val r.
Proof.
  pose proof F as [LD [LP [PR [PD [NP [HP Z]]]]]].
  induction fuel as [|f IH]; intros stack paths R H; destruct stack as [|[c lst] rest]; cbn [stack_loop]; eauto.
  - destruct (R (c, lst)) as [dc Dc]; [left; auto|]. cbn [fst] in Dc. unfold stot in H; cbn [map fst] in H; rewrite list_sum_cons in H. rewrite (costv_unfold c dc Dc) in H. lia.
  - destruct (R (c, lst)) as [dc Dc]; [left; auto|]. cbn [fst] in Dc. unfold stot in H; cbn [map fst] in H; rewrite list_sum_cons in H. rewrite (costv_unfold c dc Dc) in H.
    assert (Hc : c < length preds) by (rewrite LP, <- LD; eapply nth_some_lt; eauto). rewrite (nth_error_nth' _ [] Hc).
    assert (C : (match nth c preds [] with [] => true | _ => false end) && negb (Nat.eqb c s) = false).
    { destruct (nth c preds []) eqn:E; auto. destruct dc as [|k]; [rewrite (Z c Dc), Nat.eqb_refl; auto|]. exfalso; apply (HP c k Dc); auto. }
    rewrite C. apply IH.
    + intros e He. apply push_in in He as [He|He]; [apply R; right; auto|]. destruct (PD c _ He) as [dp [A _]]; eauto.
    + rewrite push_stot. fold (stot rest) in H. lia.
Qed.

Lemma all_paths_only_fuel fuel : t < length g -> only_fuel (all_paths_from_preds fuel preds s t).
Proof. intros Ht. pose proof F as [LD [LP [PR _]]]. unfold all_paths_from_preds. destruct (Nat.eqb s t); [exact I|].
  rewrite <- LP in Ht. rewrite (nth_error_nth' _ [] Ht). apply stack_loop_only_fuel.
  intros e He. apply push_in in He as [[]|He]. apply (PR t); auto. Qed.
Lemma all_paths_val fuel : t < length g -> geo_cost o t <= S fuel -> exists r, all_paths_from_preds fuel preds s t = Val r.
Proof. intros Ht C. pose proof F as [LD [LP [PR [PD _]]]]. unfold all_paths_from_preds. destruct (Nat.eqb s t); [eauto|].
  rewrite <- LP in Ht. rewrite (nth_error_nth' _ [] Ht).
  destruct (nth t dist None) as [dt|] eqn:Dt.
  - apply stack_loop_val.
    + intros e He. apply push_in in He as [[]|He]. destruct (PD t _ He) as [dp [A _]]; eauto.
    + rewrite push_stot. fold (costv t) in C. rewrite (costv_unfold t dt Dt) in C. change (stot []) with 0. lia.
  - destruct F as [_ [_ [_ [_ [NP _]]]]]. rewrite (NP t Dt). cbn [fold_left]. destruct fuel; cbn [stack_loop]; eauto. Qed.
End Stack.

Lemma reached_in d t : t < length d -> reached d t = Val (nth t d None).
Proof. intros H. unfold reached. rewrite (nth_error_nth' _ None H). reflexivity. Qed.

Theorem find_all_geodesics_oor once fuel g s t : length g <= s \/ length g <= t -> find_all_geodesics true once fuel g s t = Raise OutOfRange.
Proof. intros [H|H]; unfold find_all_geodesics; [apply (checked_out _ _ _ s)|apply (checked_out _ _ _ t)]; simpl; auto. Qed.
Theorem all_geodesics_from_vertex_oor once fuel g s : length g <= s -> all_geodesics_from_vertex true once fuel g s = Raise OutOfRange.
Proof. intros H. unfold all_geodesics_from_vertex. rewrite bfs_all_oor by auto. reflexivity. Qed.

(* 6a. whatever the fuel, the repaired code never indexes out of range: the only undefined outcome left is running out of fuel *)
Lemma geo_entry_only_fuel fuel g s o j : all_facts g s o -> j < length g ->
  only_fuel (obind (reached (ao_dist o) j) (fun r => match r with Some _ => all_paths_from_preds fuel (ao_preds o) s j | None => Val [] end)).
Proof. intros F Hj. pose proof F as [LD _]. rewrite reached_in by lia. cbn [obind].
  destruct (nth j (ao_dist o) None); [|exact I]. apply (all_paths_only_fuel g s j o F); auto. Qed.
Lemma bfs_all_only_fuel once fuel g s : only_fuel (bfs_all true once fuel g s).
Proof. unfold bfs_all, checked. destruct (forallb _ [s]); [|exact I]. destruct (abfs once fuel g (ainit (length g) s) 0) as [[st p] [|]]; [exact I|reflexivity]. Qed.
Theorem find_all_geodesics_only_fuel fuel g s t : Bfs.wf g -> only_fuel (find_all_geodesics true true fuel g s t).
Proof. intros W. destruct (Nat.lt_ge_cases s (length g)) as [Hs|Hs]; [destruct (Nat.lt_ge_cases t (length g)) as [Ht|Ht]|];
    [|rewrite find_all_geodesics_oor by auto; exact I..].
  unfold find_all_geodesics. rewrite checked_in by (intros v [<-|[<-|[]]]; auto). destruct (Nat.eqb s t); [exact I|].
  pose proof (bfs_all_only_fuel true fuel g s) as OF.
  destruct (bfs_all true true fuel g s) as [o| |k] eqn:E; cbn [obind]; [|exact I|exact OF].
  apply (geo_entry_only_fuel fuel g s o t); auto. apply (bfs_all_facts fuel g s o W E). Qed.
Theorem find_all_geodesics_no_oob_partial fuel g s t : Bfs.wf g -> find_all_geodesics true true fuel g s t <> Undef IndexOOB.
Proof. intros W. apply only_fuel_no_oob, find_all_geodesics_only_fuel; auto. Qed.
Lemma omapM_only_fuel {A B} (f : A -> outcome B) l : (forall x, In x l -> only_fuel (f x)) -> only_fuel (omapM f l).
Proof. induction l as [|x t IH]; intros H; cbn [omapM]; [exact I|].
  pose proof (H x (or_introl eq_refl)) as Hx. destruct (f x) as [y|e|k']; cbn [obind]; [|exact I|exact Hx].
  assert (Ht : only_fuel (omapM f t)) by (apply IH; intros; apply H; right; auto). destruct (omapM f t); cbn [obind]; [exact I|exact I|exact Ht]. Qed.
Theorem all_geodesics_from_vertex_only_fuel fuel g s : Bfs.wf g -> only_fuel (all_geodesics_from_vertex true true fuel g s).
Proof. intros W. destruct (Nat.lt_ge_cases s (length g)) as [Hs|Hs]; [|rewrite all_geodesics_from_vertex_oor by auto; exact I].
  unfold all_geodesics_from_vertex. pose proof (bfs_all_only_fuel true fuel g s) as OF.
  destruct (bfs_all true true fuel g s) as [o| |k] eqn:E; cbn [obind]; [|exact I|exact OF].
  apply omapM_only_fuel. intros j Hj. apply in_seq in Hj. apply (geo_entry_only_fuel fuel g s o j); [apply (bfs_all_facts fuel g s o W E)|lia]. Qed.
Theorem all_geodesics_from_vertex_no_oob_partial fuel g s : Bfs.wf g -> all_geodesics_from_vertex true true fuel g s <> Undef IndexOOB.
Proof. intros W. apply only_fuel_no_oob, all_geodesics_from_vertex_only_fuel; auto. Qed.

(* 6b. with V units of fuel for the search and cost - 1 units for the stack loop, the result is a value.  The cost is stated on the output
   of the search run with exactly V units of fuel (the search does not depend on fuel beyond V). *)
Theorem find_all_geodesics_val fuel g s t o : Bfs.wf g -> s < length g -> t < length g -> length g <= fuel ->
  bfs_all true true (length g) g s = Val o -> geo_cost o t <= S fuel ->
  exists ps, find_all_geodesics true true fuel g s t = Val ps.
Proof. intros W Hs Ht Hf E C. unfold find_all_geodesics. rewrite checked_in by (intros v [<-|[<-|[]]]; auto). destruct (Nat.eqb s t); [eauto|].
  rewrite (bfs_all_fuel_indep fuel g s W Hf), E. cbn [obind]. pose proof (bfs_all_facts _ g s o W E) as F. pose proof F as [LD _].
  rewrite reached_in by lia. cbn [obind]. destruct (nth t (ao_dist o) None); [|eauto]. apply (all_paths_val g s t o F fuel Ht C). Qed.
Theorem find_all_geodesics_safe fuel g s t : Bfs.wf g -> length g <= fuel ->
  (forall o, bfs_all true true (length g) g s = Val o -> geo_cost o t <= S fuel) -> safe (find_all_geodesics true true fuel g s t).
Proof. intros W Hf C. destruct (Nat.lt_ge_cases s (length g)) as [Hs|Hs]; [destruct (Nat.lt_ge_cases t (length g)) as [Ht|Ht]|];
    [|rewrite find_all_geodesics_oor by auto; exact I..].
  destruct (bfs_all_val (length g) g s W Hs (le_n _)) as [o [E _]].
  destruct (find_all_geodesics_val fuel g s t o W Hs Ht Hf E (C o E)) as [ps ->]. exact I. Qed.
Theorem all_geodesics_from_vertex_val fuel g s o : Bfs.wf g -> s < length g -> length g <= fuel ->
  bfs_all true true (length g) g s = Val o -> (forall j, j < length g -> geo_cost o j <= S fuel) ->
  exists ps, all_geodesics_from_vertex true true fuel g s = Val ps /\ length ps = length g.
Proof. intros W Hs Hf E C. unfold all_geodesics_from_vertex. rewrite (bfs_all_fuel_indep fuel g s W Hf), E. cbn [obind].
  pose proof (bfs_all_facts _ g s o W E) as F. pose proof F as [LD _].
  match goal with |- exists ps, omapM ?f ?l = _ /\ _ => destruct (omapM_val f l) as [ys [E2 L]] end.
  - intros j Hj. apply in_seq in Hj. rewrite reached_in by lia. cbn [obind]. destruct (nth j (ao_dist o) None); [|eauto].
    apply (all_paths_val g s j o F fuel); [lia|apply C; lia].
  - exists ys. split; auto. rewrite L, seq_length. auto. Qed.
Theorem all_geodesics_from_vertex_safe fuel g s : Bfs.wf g -> length g <= fuel ->
  (forall o j, bfs_all true true (length g) g s = Val o -> j < length g -> geo_cost o j <= S fuel) -> safe (all_geodesics_from_vertex true true fuel g s).
Proof. intros W Hf C. destruct (Nat.lt_ge_cases s (length g)) as [Hs|Hs]; [|rewrite all_geodesics_from_vertex_oor by auto; exact I].
  destruct (bfs_all_val (length g) g s W Hs (le_n _)) as [o [E _]].
  destruct (all_geodesics_from_vertex_val fuel g s o W Hs Hf E (fun j Hj => C o j E Hj)) as [ps [-> _]]. exact I. Qed.

(* ================= closed examples ================= *)
(* without the range checks (strict = false) an out-of-range vertex is undefined behaviour *)
Example bfs_single_unchecked_ub : bfs_single false [[]] 3 = Undef IndexOOB. Proof. vm_compute. reflexivity. Qed.
Example find_geodesics_unchecked_ub : find_geodesics false [[1]; []] 0 5 = Undef IndexOOB. Proof. vm_compute. reflexivity. Qed.
Example dijkstra_unchecked_ub : dijkstra false [[]] 2 [] = Undef IndexOOB. Proof. vm_compute. reflexivity. Qed.
Example geodesics_from_vertex_unchecked_ub : geodesics_from_vertex false [[]] 1 = Undef IndexOOB. Proof. vm_compute. reflexivity. Qed.
Example bfs_all_unchecked_ub : bfs_all false true 5 [[]] 1 = Undef IndexOOB. Proof. vm_compute. reflexivity. Qed.
Example find_all_geodesics_unchecked_ub : find_all_geodesics false true 5 [[1]; []] 0 2 = Undef IndexOOB. Proof. vm_compute. reflexivity. Qed.
(* the fuel hypothesis of bfs_all_val is sharp: a path on 3 vertices needs 3 pops *)
Example bfs_all_fuel_needed : bfs_all true true 2 [[1]; [2]; []] 0 = Undef Fuel. Proof. vm_compute. reflexivity. Qed.
Example bfs_all_fuel_enough : exists o, bfs_all true true 3 [[1]; [2]; []] 0 = Val o. Proof. vm_compute. eauto. Qed.
(* V units of fuel are not enough for the stack loop: two diamonds in a row, 7 vertices, cost 13 *)
Definition diamonds : adjl := [[1; 2]; [3]; [3]; [4; 5]; [6]; [6]; []].
Example find_all_geodesics_fuel_needed : find_all_geodesics true true 7 diamonds 0 6 = Undef Fuel. Proof. vm_compute. reflexivity. Qed.
Example diamonds_cost : exists o, bfs_all true true 7 diamonds 0 = Val o /\ geo_cost o 6 = 13. Proof. vm_compute. eauto. Qed.
Example find_all_geodesics_fuel_sharp : find_all_geodesics true true 11 diamonds 0 6 = Undef Fuel /\ exists ps, find_all_geodesics true true 12 diamonds 0 6 = Val ps /\ length ps = 4.
Proof. vm_compute. eauto. Qed.

Print Assumptions bfs_single_safe.
Print Assumptions find_geodesics_safe.
Print Assumptions dijkstra_safe.
Print Assumptions geodesics_from_vertex_safe.
Print Assumptions bfs_all_val.
Print Assumptions bfs_all_safe.
Print Assumptions bfs_all_fuel_indep.
Print Assumptions find_all_geodesics_only_fuel.
Print Assumptions all_geodesics_from_vertex_only_fuel.
Print Assumptions find_all_geodesics_no_oob_partial.
Print Assumptions all_geodesics_from_vertex_no_oob_partial.
Print Assumptions find_all_geodesics_val.
Print Assumptions find_all_geodesics_safe.
Print Assumptions all_geodesics_from_vertex_val.
Print Assumptions all_geodesics_from_vertex_safe.
