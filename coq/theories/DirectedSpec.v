(* Abstract spec of a labelled directed simple graph, and the refinement theorem for the repaired model. *)
From BG Require Import Base DirectedModel.
Local Open Scope Z_scope.

Section Spec.
Context {L : Type}.
Record sgraph := { sn : nat; se : @lmap L }.            (* the set of pairs, each with its label *)
Definition smem (e : edge) (a : sgraph) : bool := match lfind e (se a) with Some _ => true | None => false end.
Definition s_add a s d (l : L) := if smem (s, d) a then a else {| sn := sn a; se := ((s, d), l) :: se a |}.
Definition s_remove a s d := {| sn := sn a; se := lerase (s, d) (se a) |}.
Definition s_filter a (p : edge -> bool) := {| sn := sn a; se := filter (fun kv => p (fst kv)) (se a) |}.
Definition s_loops a := s_filter a (fun e => negb (Nat.eqb (fst e) (snd e))).
Definition s_rmv a v := s_filter a (fun e => negb (Nat.eqb (fst e) v || Nat.eqb (snd e) v)).
Definition s_clear a := {| sn := sn a; se := [] |}.
Definition s_resize a n := {| sn := n; se := se a |}.
Definition s_setlabel a s d (l : L) := if smem (s, d) a then {| sn := sn a; se := lset (s, d) l (se a) |} else a.
Definition s_init n : sgraph := {| sn := n; se := [] |}.

Definition spec_step (a : sgraph) (o : @dop L) : sgraph :=
  match o with
  | AddEdge s d l _ => s_add a s d l | AddReciprocal x y l _ => s_add (s_add a x y l) y x l
  | RemoveEdge s d => s_remove a s d | RemoveSelfLoops => s_loops a | RemoveVertex v => s_rmv a v
  | ClearEdges => s_clear a | Resize n => s_resize a n | SetLabel s d l _ => s_setlabel a s d l | RemoveDuplicates => a end.
(* a call is valid when the documentation allows it: indices in range, force off, no shrinking, label set on an existing edge *)
Definition valid_op (a : sgraph) (o : @dop L) : bool :=
  match o with
  | AddEdge s d _ f | AddReciprocal s d _ f => Nat.ltb s (sn a) && Nat.ltb d (sn a) && negb f
  | RemoveEdge s d => Nat.ltb s (sn a) && Nat.ltb d (sn a)
  | RemoveSelfLoops | ClearEdges | RemoveDuplicates => true | RemoveVertex v => Nat.ltb v (sn a) | Resize n => Nat.leb (sn a) n
  | SetLabel s d _ f => Nat.ltb s (sn a) && Nat.ltb d (sn a) && negb f && smem (s, d) a end.
Fixpoint valid_history (a : sgraph) (ops : list dop) : bool :=
  match ops with [] => true | o :: ops' => valid_op a o && valid_history (spec_step a o) ops' end.
Fixpoint spec_run (a : sgraph) (ops : list dop) : sgraph :=
  match ops with [] => a | o :: ops' => spec_run (spec_step a o) ops' end.

Lemma lfind_filter_key (p : edge -> bool) (m : @lmap L) e : lfind e (filter (fun kv => p (fst kv)) m) = if p e then lfind e m else None.
Proof. induction m as [|[k v] m IH]; simpl; [destruct (p e); auto|].
  destruct (p k) eqn:P; simpl; rewrite IH; destruct (edge_eqb_spec k e) as [->|]; auto; rewrite P; auto. Qed.
Lemma lfind_s_filter a p e : lfind e (se (s_filter a p)) = if p e then lfind e (se a) else None.
Proof. unfold s_filter; simpl. apply lfind_filter_key. Qed.
End Spec.
Arguments s_add : simpl never. Arguments s_remove : simpl never. Arguments s_filter : simpl never. Arguments s_loops : simpl never.
Arguments s_rmv : simpl never. Arguments s_clear : simpl never. Arguments s_resize : simpl never. Arguments s_setlabel : simpl never.


(* ---- what every observer must report for the graph a history denotes (same layout as DirectedModel.observe) ---- *)
Section SpecObs.
Context {L : Type}.
Variable leqb : L -> L -> bool.
Variable ldef : L.
Variable has_store : bool.
Variable lcode : L -> Z.
Variable lalpha : list L.
Definition sout (a : @sgraph L) (i : nat) : nat := length (filter (fun j => smem (i, j) a) (seq 0 (sn a))).
Definition sin (a : @sgraph L) (j : nat) : nat := length (filter (fun i => smem (i, j) a) (seq 0 (sn a))).
Definition sobserve (a : @sgraph L) : list (list Z) :=
  let n := sn a in let vs := seq 0 n in
  [ [zn n; zn (length (se a))];
    map (fun e => zbool (smem e a)) (pairs n);
    flat_map (fun i => zn (sout a i) :: map (fun j => zn (if smem (i, j) a then 1 else 0)) vs) vs;
    flat_map (fun e => if has_store then match lfind e (se a) with Some l => [lcode l; 1] | None => [lcode ldef; zexn InvalidArgument] end
                       else [lcode ldef; 1]) (pairs n);
    flat_map (fun e => map (fun l => zbool (match lfind e (se a) with Some l' => leqb (if has_store then l' else ldef) l | None => false end)) lalpha) (pairs n);
    map (fun j => zn (sin a j)) vs ++ map (fun j => zn (sin a j)) vs ++ map (fun i => zn (sout a i)) vs;
    map (fun e => zn (if smem e a then 1 else 0)) (pairs n);
    zn (length (se a)) :: map (fun e => zn (if smem e a then 1 else 0)) (pairs n);
    map Z.of_nat (seq 0 n) ++ [1; 1; zbool (Nat.eqb (length (se a)) 0)] ].
(* per call: Some (how it must end :: observations) when the property has an opinion, None otherwise (forced calls) *)
Definition rejected_code (a : @sgraph L) (o : @dop L) : option Z :=
  let oor := Some (zexn OutOfRange) in let inv := Some (zexn InvalidArgument) in
  let bad (v : nat) := negb (Nat.ltb v (sn a)) in
  match o with
  | AddEdge s d _ f | AddReciprocal s d _ f => if bad s || bad d then oor else if f then None else Some 0%Z
  | RemoveEdge s d => if bad s || bad d then oor else Some 0%Z
  | RemoveVertex v => if bad v then oor else Some 0%Z
  | Resize n => if Nat.ltb n (sn a) then inv else Some 0%Z
  | SetLabel s d _ f => if bad s || bad d then oor else if f then None else if smem (s, d) a then Some 0%Z else inv
  | RemoveSelfLoops | ClearEdges | RemoveDuplicates => Some 0%Z end.
Fixpoint spec_trace (a : @sgraph L) (ops : list (@dop L)) : list (option (list (list Z))) :=
  match ops with [] => [] | o :: ops' =>
    match rejected_code a o with
    | None => map (fun _ => None) ops
    | Some c => if Z.eqb c 0 then let a' := spec_step a o in Some ([0%Z] :: sobserve a') :: spec_trace a' ops'
                else Some ([c] :: sobserve a) :: spec_trace a ops' end end.
End SpecObs.
