(* Executable model of algorithms/paths.hpp (C11, C12, C19, and the path-search part of C07).  The single-parent BFS and the
   choice-driven Dijkstra are the ones proved correct in Bfs.v / Dj.v; this file adds the all-predecessor BFS (repaired: one enqueue per
   vertex; pinned: one per discovery), path reconstruction (the parent walk, the stack loop), the wrappers with their range checks, scan
   counters, and the brute-force spec oracles used to search for failing inputs.  Definitions only. *)
From Coq Require Import List Arith NArith ZArith Lia Bool.
From BG Require Import Base Bfs Dj.
Import ListNotations.
Local Open Scope nat_scope.

Definition adjl := list (list nat).
Definition vmax : Z := 4294967295%Z.                       (* BASEGRAPH_VERTEX_MAX *)
Definition zopt (o : option nat) : Z := match o with Some k => Z.of_nat k | None => vmax end.

(* ---------- findVertexPredecessors: Bfs.bfs with a pop counter ---------- *)
Fixpoint bfs_count (fuel : nat) (g : adjl) (st : Bfs.bst) (pops : nat) : Bfs.bst * nat * bool :=      (* state, scans, finished *)
  match Bfs.queue st with
  | [] => (st, pops, true)
  | u :: q => match fuel with O => (st, pops, false) | S f => bfs_count f g (Bfs.step g u q st) (S pops) end end.
Record bfs_out := { bo_dist : list (option nat); bo_pred : list (option nat); bo_scans : nat }.
Definition checked (strict : bool) (n : nat) (vs : list nat) {A} (k : outcome A) : outcome A :=
  if forallb (fun v => Nat.ltb v n) vs then k else if strict then Raise OutOfRange else Undef IndexOOB.
Definition bfs_single (strict : bool) (g : adjl) (s : nat) : outcome bfs_out :=
  let n := length g in
  checked strict n [s]
    (let '(st, pops, fin) := bfs_count n g (Bfs.init n s) 0 in
     if fin then Val {| bo_dist := Bfs.dist st; bo_pred := Bfs.pred st; bo_scans := pops |} else Undef Fuel).

(* ---------- findAllVertexPredecessors ---------- *)
Record ast := { a_dist : list (option nat); a_preds : list (list nat); a_proc : list bool; a_queue : list nat }.
Definition olt_le (k : nat) (d : option nat) : bool := match d with None => true | Some d => Nat.leb k d end.
(* one neighbour; [once] = enqueue on first discovery only (repaired); otherwise on every visit of a not-yet-expanded vertex (pinned) *)
Definition avisit (once : bool) (u du : nat) (st : ast) (v : nat) : ast :=
  if nth v (a_proc st) true then st
  else
    let q' := if once then (match nth v (a_dist st) None with None => a_queue st ++ [v] | Some _ => a_queue st end) else a_queue st ++ [v] in
    if olt_le (S du) (nth v (a_dist st) None) && negb (mem u (nth v (a_preds st) []))
    then {| a_dist := Bfs.set_nth v (Some (S du)) (a_dist st); a_preds := Bfs.set_nth v (nth v (a_preds st) [] ++ [u]) (a_preds st);
            a_proc := a_proc st; a_queue := q' |}
    else {| a_dist := a_dist st; a_preds := a_preds st; a_proc := a_proc st; a_queue := q' |}.
Definition astep (once : bool) (g : adjl) (u : nat) (q : list nat) (st : ast) : ast :=
  match nth u (a_dist st) None with
  | Some du =>
    let st1 := fold_left (avisit once u du) (nth u g []) {| a_dist := a_dist st; a_preds := a_preds st; a_proc := a_proc st; a_queue := q |} in
    {| a_dist := a_dist st1; a_preds := a_preds st1; a_proc := Bfs.set_nth u true (a_proc st1); a_queue := a_queue st1 |}
  | None => {| a_dist := a_dist st; a_preds := a_preds st; a_proc := Bfs.set_nth u true (a_proc st); a_queue := q |} end.
Fixpoint abfs (once : bool) (fuel : nat) (g : adjl) (st : ast) (pops : nat) : ast * nat * bool :=
  match a_queue st with
  | [] => (st, pops, true)
  | u :: q => match fuel with O => (st, pops, false) | S f => abfs once f g (astep once g u q st) (S pops) end end.
Definition ainit (n s : nat) : ast :=
  {| a_dist := Bfs.set_nth s (Some 0) (repeat None n); a_preds := repeat [] n; a_proc := Bfs.set_nth s true (repeat false n); a_queue := [s] |}.
Record all_out := { ao_dist : list (option nat); ao_preds : list (list nat); ao_scans : nat }.
Definition bfs_all (strict once : bool) (fuel : nat) (g : adjl) (s : nat) : outcome all_out :=
  let n := length g in
  checked strict n [s]
    (let '(st, pops, fin) := abfs once fuel g (ainit n s) 0 in
     if fin then Val {| ao_dist := a_dist st; ao_preds := a_preds st; ao_scans := pops |} else Undef Fuel).

(* ---------- path reconstruction ---------- *)
(* findPathToVertexFromPredecessors: walk the parent chain from destination until source *)
Fixpoint parent_walk (fuel : nat) (pred : list (option nat)) (s : nat) (cur : option nat) (path : list nat) : outcome (list nat) :=
  match fuel with O => Undef Fuel | S f =>
    match cur with
    | None => Raise RuntimeError                                      (* currentVertex == BASEGRAPH_VERTEX_MAX *)
    | Some c =>
      match nth_error pred c with
      | None => Undef IndexOOB
      | Some p => if (match p with Some p' => Nat.eqb p' s | None => false end) then Val (s :: c :: path) else parent_walk f pred s p (c :: path) end end end.
Definition path_from_preds (fuel : nat) (pred : list (option nat)) (s t : nat) : outcome (list nat) :=
  if Nat.eqb s t then Val [s] else parent_walk fuel pred s (Some t) [].
(* findMultiplePathsToVertexFromPredecessors: the two stacks as one list of (vertex, partial path), top first *)
Fixpoint stack_loop (fuel : nat) (preds : list (list nat)) (s t : nat) (stack : list (nat * list nat)) (paths : list (list nat)) : outcome (list (list nat)) :=
  match stack with
  | [] => Val paths
  | (c, lst) :: rest =>
    match fuel with O => Undef Fuel | S f =>
      match nth_error preds c with
      | None => Undef IndexOOB
      | Some ps =>
        if (match ps with [] => true | _ => false end) && negb (Nat.eqb c s) then Raise RuntimeError
        else let lst' := c :: lst in
             let stack' := fold_left (fun st p => (p, lst') :: st) ps rest in
             stack_loop f preds s t stack' (if Nat.eqb c s then paths ++ [lst' ++ [t]] else paths) end end end.
Definition all_paths_from_preds (fuel : nat) (preds : list (list nat)) (s t : nat) : outcome (list (list nat)) :=
  if Nat.eqb s t then Val [[s]]
  else match nth_error preds t with None => Undef IndexOOB
       | Some ps => stack_loop fuel preds s t (fold_left (fun st p => (p, []) :: st) ps []) [] end.

(* ---------- wrappers ---------- *)
Definition reached (d : list (option nat)) (t : nat) : outcome (option nat) := match nth_error d t with None => Undef IndexOOB | Some x => Val x end.
(* the parent walk is given dist[destination] + 1 units of fuel: every step lowers the distance by one (the C++ loop has no counter) *)
Definition find_geodesics (strict : bool) (g : adjl) (s t : nat) : outcome (list nat) :=
  checked strict (length g) [s; t]
   (if Nat.eqb s t then Val [s] else
    obind (bfs_single strict g s) (fun o => obind (reached (bo_dist o) t) (fun r => match r with Some k => path_from_preds (S k) (bo_pred o) s t | None => Val [] end))).
Definition find_all_geodesics (strict once : bool) (fuel : nat) (g : adjl) (s t : nat) : outcome (list (list nat)) :=
  checked strict (length g) [s; t]
   (if Nat.eqb s t then Val [[s]] else
    obind (bfs_all strict once fuel g s) (fun o => obind (reached (ao_dist o) t) (fun r => match r with Some _ => all_paths_from_preds fuel (ao_preds o) s t | None => Val [] end))).
Definition geodesics_from_vertex (strict : bool) (g : adjl) (s : nat) : outcome (list (list nat)) :=
  obind (bfs_single strict g s) (fun o => omapM (fun j => obind (reached (bo_dist o) j) (fun r => match r with Some k => path_from_preds (S k) (bo_pred o) s j | None => Val [] end)) (seq 0 (length g))).
Definition all_geodesics_from_vertex (strict once : bool) (fuel : nat) (g : adjl) (s : nat) : outcome (list (list (list nat))) :=
  obind (bfs_all strict once fuel g s) (fun o => omapM (fun j => obind (reached (ao_dist o) j) (fun r => match r with Some _ => all_paths_from_preds fuel (ao_preds o) s j | None => Val [] end)) (seq 0 (length g))).

(* ---------- findGeodesicsDijkstra: Dj.run driven by the sequence of vertices the implementation popped ---------- *)
Record dj_out := { do_dist : list (option N); do_pred : list (option nat); do_pops : nat; do_legal : bool; do_done : bool }.
Fixpoint dj_follow (g : Dj.wadj) (st : Dj.dj) (cs : list nat) (k : nat) : Dj.dj * nat * bool :=        (* stops at the first illegal pop *)
  match cs with [] => (st, k, true) | c :: t => match Dj.step g st c with Some st' => dj_follow g st' t (S k) | None => (st, k, false) end end.
Definition dijkstra (strict : bool) (g : Dj.wadj) (s : nat) (cs : list nat) : outcome dj_out :=
  checked strict (length g) [s]
    (let '(st, k, ok) := dj_follow g (Dj.init (length g) s) cs 0 in
     Val {| do_dist := Dj.dist st; do_pred := Dj.pred st; do_pops := k; do_legal := ok; do_done := match Dj.work st with [] => true | _ => false end |}).

(* ---------- brute-force spec oracles (executable; used only to look for failing inputs) ---------- *)
(* hop distance: least k such that v is in the k-th iterated successor set of {s} *)
Definition succs (g : adjl) (l : list nat) : list nat := nodup Nat.eq_dec (flat_map (fun u => nth u g []) l).
Fixpoint layers (g : adjl) (k : nat) (cur : list nat) : list (list nat) := match k with O => [] | S k' => cur :: layers g k' (succs g cur) end.
Definition hopdist (g : adjl) (s v : nat) : option nat :=
  (fix find (ls : list (list nat)) (k : nat) := match ls with [] => None | l :: t => if mem v l then Some k else find t (S k) end) (layers g (S (length g)) [s]) 0.
(* all walks with exactly k edges from s *)
Fixpoint walks (g : adjl) (k : nat) (s : nat) : list (list nat) :=
  match k with O => [[s]] | S k' => flat_map (fun w => map (fun v => w ++ [v]) (nth (last w s) g [])) (walks g k' s) end.
Definition shortest_paths (g : adjl) (s t : nat) : list (list nat) :=
  match hopdist g s t with None => [] | Some k => nodup (list_eq_dec Nat.eq_dec) (filter (fun w => Nat.eqb (last w s) t) (walks g k s)) end.      (* a path is a vertex sequence: parallel (forced) edges do not multiply it *)
Definition is_walk (g : adjl) (p : list nat) : bool :=
  (fix ok (p : list nat) := match p with a :: ((b :: _) as t) => mem b (nth a g []) && ok t | _ => true end) p.
(* weighted distances: |V| rounds of relaxing every edge (Bellman-Ford), None = unreachable *)
Definition relax_all (g : Dj.wadj) (d : list (option N)) : list (option N) :=
  fold_left (fun d u => match nth u d None with None => d | Some du =>
      fold_left (fun d e => if Dj.dlt (du + snd e)%N (nth (fst e) d None) then Dj.set_nth (fst e) (Some (du + snd e)%N) d else d) (nth u g []) d end) (seq 0 (length g)) d.
Definition bf_dist (g : Dj.wadj) (s : nat) : list (option N) :=
  Nat.iter (length g) (relax_all g) (Dj.set_nth s (Some 0%N) (repeat None (length g))).
