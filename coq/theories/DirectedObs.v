(* Observers of the repaired directed model agree with the spec after every valid history (C01, C03), and the pinned model does not (C03_refuted). *)
From BG Require Import Base DirectedModel DirectedProofs DirectedIter DirectedSpec DirectedRefine.
Local Open Scope Z_scope.

Section Obs.
Context {L : Type}.
Variable leqb : L -> L -> bool.
Variable ldef : L.
Variable has_store : bool.
Notation dgraph := (@dgraph L).
Notation sgraph := (@sgraph L).
Implicit Types (g : dgraph) (a : sgraph).

Definition SInv a := NoDup (map fst (se a)) /\ forall e, smem e a = true -> (fst e < sn a)%nat /\ (snd e < sn a)%nat.

Lemma smem_In_keys a e : smem e a = true <-> In e (map fst (se a)).
Proof. unfold smem. induction (se a) as [|[k v] m IH]; simpl; [split; [discriminate|tauto]|].
  destruct (edge_eqb_spec k e) as [->|NE]; [split; auto|]. rewrite IH. split; auto. intros [?|?]; auto; congruence. Qed.

Lemma In_flatten g i j : Inv has_store g -> In (i, j) (flatten g) <-> In j (nb g i).
Proof. intros I. unfold flatten, rows_from, row. rewrite in_flat_map. split.
  - intros [x [_ H]]. apply in_map_iff in H as [y [E H]]. injection E as -> ->; auto.
  - intros H. exists i; split; [apply in_seq; apply (i_rng _ _ I) in H; lia|apply in_map; auto]. Qed.
Lemma NoDup_flat_map_pair (f : nat -> list nat) l : NoDup l -> (forall i, NoDup (f i)) -> NoDup (flat_map (fun i => map (pair i) (f i)) l).
Proof. induction 1 as [|x l Hx ND IH]; intros F; simpl; [constructor|]. apply NoDup_app_intro; auto.
  - apply FinFun.Injective_map_NoDup; [intros u v E; congruence|apply F].
  - intros [i j] H1 H2. apply in_map_iff in H1 as [y [E _]]. injection E as <- <-.
    apply in_flat_map in H2 as [z [Hz H2]]. apply in_map_iff in H2 as [y' [E _]]. injection E as <- _. contradiction.
Qed.
Lemma NoDup_flatten g : Inv has_store g -> NoDup (flatten g).
Proof. intros I. unfold flatten, rows_from, row. apply NoDup_flat_map_pair; [apply seq_NoDup|apply (i_nodup _ _ I)]. Qed.

Lemma length_flat_total (a : list (list nat)) : forall k,
  Z.of_nat (length (flat_map (fun i => map (pair i) (nth (i - k) a [])) (seq k (length a)))) = total a.
Proof. induction a as [|x t IH]; intros k; simpl; auto.
  rewrite app_length, map_length, Nat.sub_diag, Nat2Z.inj_add. f_equal. rewrite <- (IH (S k)). f_equal. f_equal.
  apply flat_map_ext_in'. intros i Hi. apply in_seq in Hi. replace (i - k)%nat with (S (i - S k)) by lia. reflexivity.
Qed.
Lemma length_flatten g : Inv has_store g -> Z.of_nat (length (flatten g)) = total (adj g).
Proof. intros I. unfold flatten, rows_from, row, nb. rewrite <- (i_len _ _ I), <- (length_flat_total (adj g) 0).
  f_equal. f_equal. apply flat_map_ext_in'. intros i _. rewrite Nat.sub_0_r; auto. Qed.

Theorem edge_number_is_cardinal g a : Rf has_store g a -> SInv a -> enum g = Z.of_nat (length (se a)).
Proof. intros [I S M LB] [ND _]. rewrite (i_enum _ _ I), <- (length_flatten g I), <- (map_length fst (se a)). f_equal.
  apply Permutation_length, NoDup_Permutation; auto using NoDup_flatten.
  intros [i j]. rewrite (In_flatten g i j I), M. apply smem_In_keys. Qed.
(* the spec keeps its keys unique and in range *)
Lemma SInv_filter a p : SInv a -> SInv (s_filter a p).
Proof. intros [ND R]. split.
  - unfold s_filter; cbn [se]. induction (se a) as [|[k v] m IH]; simpl; [constructor|]. inversion ND; subst.
    destruct (p k); simpl; auto. constructor; auto. intros H. apply H1. apply in_map_iff in H as [[k' v'] [E H]]. simpl in E; subst.
    apply filter_In in H as [H _]. apply in_map_iff. exists (k, v'); auto.
  - intros e. unfold smem. rewrite lfind_s_filter. destruct (p e); [apply R|discriminate]. Qed.
Lemma SInv_step a o : SInv a -> valid_op a o = true -> SInv (spec_step a o).
Proof.
  assert (ADD : forall a s d l, SInv a -> (s < sn a)%nat -> (d < sn a)%nat -> SInv (s_add a s d l)).
  { intros b s d l [ND R] Hs Hd. unfold s_add. destruct (smem (s, d) b) eqn:M; [split; auto|]. split; cbn [se sn].
    - simpl. constructor; auto. rewrite <- smem_In_keys. congruence.
    - intros e. unfold smem; simpl. destruct (edge_eqb_spec (s, d) e) as [<-|]; [simpl; auto|apply R]. }
  assert (SN : forall a s d l, sn (s_add a s d l) = sn a) by (intros; unfold s_add; destruct smem; auto).
  intros SI Vd. destruct o as [s d l f|x y l f|s d| |v| |n|s d l f|]; simpl in Vd |- *.
  - apply andb_prop in Vd as [Vd _]. apply andb_prop in Vd as [Hs Hd]. apply Nat.ltb_lt in Hs, Hd. auto.
  - apply andb_prop in Vd as [Vd _]. apply andb_prop in Vd as [Hs Hd]. apply Nat.ltb_lt in Hs, Hd. apply ADD; auto; rewrite SN; auto.
  - destruct SI as [ND R]. split; unfold s_remove; cbn [se sn].
    + unfold lerase. induction (se a) as [|[k v] m IH]; simpl; [constructor|]. inversion ND; subst.
      destruct (edge_eqb k (s, d)); simpl; auto. constructor; auto. intros H. apply H1.
      apply in_map_iff in H as [[k' v'] [E H]]. simpl in E; subst. apply filter_In in H as [H _]. apply in_map_iff. exists (k, v'); auto.
    + intros e. unfold smem; cbn [se]. rewrite lfind_lerase. destruct (edge_eqb (s, d) e); [discriminate|apply R].
  - apply SInv_filter; auto.
  - apply SInv_filter; auto.
  - split; [constructor|intros e; unfold smem; simpl; discriminate].
  - apply Nat.leb_le in Vd. destruct SI as [ND R]. split; auto. intros e H. apply R in H. unfold s_resize; cbn [sn]. lia.
  - apply andb_prop in Vd as [Vd P]. unfold s_setlabel. rewrite P. destruct SI as [ND R]. split; cbn [se sn].
    + simpl. constructor.
      * intros H. apply in_map_iff in H as [[k' v'] [E H]]. simpl in E; subst. apply filter_In in H as [_ H]. simpl in H.
        rewrite edge_eqb_refl in H. discriminate.
      * unfold lerase. induction (se a) as [|[k v] m IH]; simpl; [constructor|]. inversion ND; subst.
        destruct (edge_eqb k (s, d)); simpl; auto. constructor; auto. intros H. apply H1.
        apply in_map_iff in H as [[k' v'] [E H]]. simpl in E; subst. apply filter_In in H as [H _]. apply in_map_iff. exists (k, v'); auto.
    + intros e. unfold smem; cbn [se]. rewrite lfind_lset. destruct (edge_eqb_spec (s, d) e) as [<-|]; [intros _; apply R; auto|apply R].
  - auto.
Qed.
Lemma SInv_run ops : forall a, SInv a -> valid_history a ops = true -> SInv (spec_run a ops).
Proof. induction ops as [|o ops IH]; intros a SI Vd; simpl in *; auto. apply andb_prop in Vd as [V1 V2]. apply IH; auto using SInv_step. Qed.
Lemma SInv_init n : SInv (@s_init L n).
Proof. split; [constructor|intros e; unfold smem; simpl; discriminate]. Qed.

(* ---- C01 / C03: after ANY valid history, every observer reports the graph the history denotes ---- *)
Theorem C01_C03_directed_faithful (n : nat) (ops : list (@dop L)) :
  valid_history (s_init n) ops = true ->
  exists g, run has_store repaired (init n) ops = (g, Done) /\
    let a := spec_run (s_init n) ops in
    size g = sn a /\
    enum g = Z.of_nat (length (se a)) /\
    (forall i j, (i < sn a)%nat -> (j < sn a)%nat -> has_edge g i j = Val (smem (i, j) a)) /\
    (forall i, (i < sn a)%nat -> exists l, out_neighbours g i = Val l /\ NoDup l /\ forall j, In j l <-> smem (i, j) a = true) /\
    (has_store = true -> forall i j thr, (i < sn a)%nat -> (j < sn a)%nat ->
       get_label ldef has_store g i j thr =
       match lfind (i, j) (se a) with Some l => Val l | None => if thr then Raise InvalidArgument else Val ldef end) /\
    (has_store = true -> forall i j l, (i < sn a)%nat -> (j < sn a)%nat ->
       has_edge_l leqb ldef has_store g i j l = Val (match lfind (i, j) (se a) with Some l' => leqb l' l | None => false end)).
Proof.
  intros Vd. pose proof (run_refines has_store ops (init n) (s_init n) (init_refines has_store n) Vd) as H.
  destruct (run has_store repaired (init n) ops) as [g r]. destruct H as [-> R]. exists g; split; auto.
  pose proof (SInv_run ops _ (SInv_init n) Vd) as SI. cbv zeta. set (a := spec_run (s_init n) ops) in *.
  pose proof R as [I S M LB].
  assert (HE : forall i j, (i < sn a)%nat -> (j < sn a)%nat -> has_edge g i j = Val (smem (i, j) a)).
  { intros i j Hi Hj. rewrite <- S in Hi, Hj. rewrite (has_edge_val has_store g i j I Hi Hj). f_equal.
    destruct (smem (i, j) a) eqn:X; [apply mem_In, M; auto|apply mem_false; rewrite M; congruence]. }
  assert (GL : has_store = true -> forall i j thr, (i < sn a)%nat -> (j < sn a)%nat ->
       get_label ldef has_store g i j thr = match lfind (i, j) (se a) with Some l => Val l | None => if thr then Raise InvalidArgument else Val ldef end).
  { intros HS i j thr Hi Hj. rewrite <- S in Hi, Hj. unfold get_label.
    rewrite (proj2 (in_range_true g i) Hi), (proj2 (in_range_true g j) Hj), HS; simpl. rewrite (LB HS). reflexivity. }
  split; auto. split; [apply edge_number_is_cardinal; auto|]. split; auto. split; [|split; auto].
  - intros i Hi. rewrite <- S in Hi. exists (nb g i). split; [|split; [apply (i_nodup _ _ I)|apply M]].
    unfold out_neighbours. rewrite (proj2 (in_range_true g i) Hi), (i_len _ _ I), (proj2 (Nat.ltb_lt _ _) Hi). reflexivity.
  - intros HS i j l Hi Hj. unfold has_edge_l. rewrite (HE i j Hi Hj), (GL HS i j false Hi Hj). unfold smem.
    destruct (lfind (i, j) (se a)); auto.
Qed.
End Obs.
Print Assumptions C01_C03_directed_faithful.

(* ---- the pinned commit: a label outlives its edge (C03 refuted, witness computed in the kernel) ---- *)
Example C03_refuted_pinned_clearEdges :
  let '(g, r) := run true pinned (init 3) [AddEdge 0 1 7%Z false; ClearEdges] in
  r = Done /\ has_edge g 0 1 = Val false /\ get_label 0%Z true g 0 1 true = Val 7%Z.
Proof. vm_compute. auto. Qed.
Example C03_refuted_pinned_removeVertex :
  let '(g, r) := run true pinned (init 3) [AddEdge 0 1 7%Z false; RemoveVertex 0] in
  r = Done /\ has_edge g 0 1 = Val false /\ get_label 0%Z true g 0 1 false = Val 7%Z.
Proof. vm_compute. auto. Qed.
(* non-vacuity: a non-trivial valid history *)
Example valid_history_example :
  valid_history (@s_init Z 3) [AddEdge 0 1 7%Z false; AddReciprocal 1 2 5%Z false; RemoveVertex 1; Resize 5; AddEdge 4 4 1%Z false; RemoveSelfLoops; ClearEdges] = true.
Proof. vm_compute. auto. Qed.
