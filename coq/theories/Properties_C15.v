(* C15 — Loaders stay safe and invent nothing on truncated or malformed files.  Statements only; proofs in IOProofs.v / TextProofs.v / TextLoadProofs.v. *)
From Coq Require Import List NArith.
From BG Require Import Base DirectedModel IOModel IOProofs TextProofs.
Import ListNotations.

(* for EVERY list of records, EVERY label width and EVERY cut offset k (every crash point of the writer): the loader returns exactly the
   graph of the k / record-size complete records before the cut - nothing pieced together from the partial record *)
Theorem C15_truncated_binary : forall V und w rs k, Forall (rec_ok w) rs -> k <= length (enc_records w rs) ->
  load_binary V und w (firstn k (enc_records w rs)) = build_graph V und w (firstn (k / rec_size w) rs).
Proof. exact load_binary_cut. Qed.
Print Assumptions C15_truncated_binary.

(* for EVERY byte string, both text loaders (numeric indices or vertex names; any label parser that itself only returns or throws) end
   with a graph or a C++ exception: the model never reaches an unchecked index, whatever the input *)
Theorem C15_text_loaders_total : forall (L : Type) und strict hs (label_of_text : bytes -> outcome L), (forall t, safe (label_of_text t)) ->
  forall b, safe (load_text repaired und strict hs label_of_text b) /\ safe (load_text_names repaired und hs label_of_text b).
Proof. intros L und strict hs lot H b. split; [apply load_text_safe|apply load_text_names_safe]; exact H. Qed.
Print Assumptions C15_text_loaders_total.

(* the pinned commit: the file (0,5,11)(1,2,22)(3,4,33) cut at byte 16 yields the invented edge (1,5) labelled 11 *)
Example C15_refuted_on_pinned :
  let file := enc_records 4 [(0, 5, 11); (1, 2, 22); (3, 4, 33)]%N in
  omap (fun g => (adj g, labels g)) (load_binary_pinned repaired false 4 (firstn 16 file)) = Val ([[5]; [5]; []; []; []; []], [((1, 5), 11%N); ((0, 5), 11%N)]) /\
  omap (fun g => (adj g, labels g)) (load_binary repaired false 4 (firstn 16 file)) = Val ([[5]; []; []; []; []; []], [((0, 5), 11%N)]) /\
  load_binary_pinned repaired false 4 (firstn 4 file) = Undef StaleRead.
Proof. vm_compute. auto. Qed.

(* "invent nothing" for text: whatever the bytes, every edge of a graph a text loader returns comes from some non-comment line of the file
   whose first two tokens denote its endpoints *)
From Coq Require Import Arith.
From BG Require Import DirectedProofs TextLoadProofs.
Theorem C15_text_loader_invents_nothing :
  forall (L : Type) (V : variant) (und strict hs : bool) (label_of_text : bytes -> outcome L) (b : bytes) (g : (@dgraph L)) (names : list bytes),
        load_text V und strict hs label_of_text b = Val (g, names) ->
        forall i j : nat,
        In j (nb g i) ->
        exists line t1 t2 rest : bytes,
          In line (lines_of b []) /\
          is_comment line = false /\
          find_edge_from_string line = Val (t1, t2, rest) /\
          (vertex_of_text strict t1 = Val i /\ vertex_of_text strict t2 = Val j \/ und = true /\ vertex_of_text strict t1 = Val j /\ vertex_of_text strict t2 = Val i).
Proof. intros L. exact (@TextLoadProofs.load_text_invents_nothing L). Qed.
Print Assumptions C15_text_loader_invents_nothing.
Theorem C15_name_loader_invents_nothing :
  forall (L : Type) (V : variant) (und hs : bool) (label_of_text : bytes -> outcome L) (b : bytes) (g : (@dgraph L)) (names : list bytes),
        load_text_names V und hs label_of_text b = Val (g, names) ->
        forall i j : nat,
        In j (nb g i) ->
        exists line t1 t2 rest : bytes,
          In line (lines_of b []) /\
          is_comment line = false /\
          find_edge_from_string line = Val (t1, t2, rest) /\
          (name_index t1 names 0 = Some i /\ name_index t2 names 0 = Some j \/ und = true /\ name_index t1 names 0 = Some j /\ name_index t2 names 0 = Some i).
Proof. intros L. exact (@TextLoadProofs.load_text_names_invents_nothing L). Qed.
Print Assumptions C15_name_loader_invents_nothing.
