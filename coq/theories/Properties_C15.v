(* C15 — Loaders stay safe and invent nothing on truncated or malformed files.  Statements only; proofs in IOProofs.v / TextProofs.v. *)
From Coq Require Import List NArith.
From BG Require Import Base DirectedModel IOModel IOProofs TextProofs.
Import ListNotations.

(* for EVERY list of records, EVERY label width and EVERY cut offset k (every crash point of the writer): the loader returns exactly the
   graph of the k / record-size complete records before the cut - nothing pieced together from the partial record *)
Theorem C15_truncated_binary : forall V und w rs k, Forall (rec_ok w) rs -> k <= length (enc_records w rs) ->
  load_binary V und w (firstn k (enc_records w rs)) = build_graph V und w (firstn (k / rec_size w) rs).
Proof. exact load_binary_cut. Qed.
Print Assumptions C15_truncated_binary.

(* for EVERY byte string, both text loaders (numeric indices or vertex names; any label parser that itself only returns or throws) end
   with a graph or a C++ exception: the model never reaches an unchecked index, whatever the input *)
Theorem C15_text_loaders_total : forall (L : Type) und strict hs (label_of_text : bytes -> outcome L), (forall t, safe (label_of_text t)) ->
  forall b, safe (load_text repaired und strict hs label_of_text b) /\ safe (load_text_names repaired und hs label_of_text b).
Proof. intros L und strict hs lot H b. split; [apply load_text_safe|apply load_text_names_safe]; exact H. Qed.
Print Assumptions C15_text_loaders_total.

(* the pinned commit: the file (0,5,11)(1,2,22)(3,4,33) cut at byte 16 yields the invented edge (1,5) labelled 11 *)
Example C15_refuted_on_pinned :
  let file := enc_records 4 [(0, 5, 11); (1, 2, 22); (3, 4, 33)]%N in
  omap (fun g => (adj g, labels g)) (load_binary_pinned repaired false 4 (firstn 16 file)) = Val ([[5]; [5]; []; []; []; []], [((1, 5), 11%N); ((0, 5), 11%N)]) /\
  omap (fun g => (adj g, labels g)) (load_binary repaired false 4 (firstn 16 file)) = Val ([[5]; []; []; []; []; []], [((0, 5), 11%N)]) /\
  load_binary_pinned repaired false 4 (firstn 4 file) = Undef StaleRead.
Proof. vm_compute. auto. Qed.
