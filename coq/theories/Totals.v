(* Shared core of the directed multigraph and weighted models: a labelled directed graph (labels = Z) plus a running total that always
   equals the sum of the stored labels.  Each mutator is shown to act on the graph part exactly like the labelled-graph mutator. *)
From BG Require Import Base DirectedModel DirectedProofs DirectedIter DirectedUsers DirectedSpec DirectedRefine DirectedObs Equality MultiModel WeightedModel.
Local Open Scope Z_scope.
Local Arguments Z.of_nat : simpl never.

Definition msum (m : @lmap Z) : Z := fold_right (fun kv acc => snd kv + acc) 0 m.
Lemma lget_notin e (m : @lmap Z) : ~ In e (map fst m) -> lget e m = 0.
Proof. intros H. unfold lget. destruct (lfind e m) eqn:F; auto. exfalso. apply H, lfind_some_in_keys. congruence. Qed.
Lemma lerase_notin e (m : @lmap Z) : ~ In e (map fst m) -> lerase e m = m.
Proof. unfold lerase. induction m as [|[k v] m IH]; simpl; auto. intros H. destruct (edge_eqb_spec k e) as [->|]; [exfalso; apply H; auto|].
  simpl. rewrite IH; auto. Qed.
Lemma msum_lerase e (m : @lmap Z) : NoDup (map fst m) -> msum (lerase e m) = msum m - lget e m.
Proof. induction m as [|[k v] m IH]; simpl; intros H; [reflexivity|]. inversion H; subst. unfold lget; simpl.
  destruct (edge_eqb_spec k e) as [->|Ne]; simpl.
  - fold (lerase e m). rewrite lerase_notin by auto. lia.
  - fold (lerase e m). rewrite IH by auto. unfold lget. lia. Qed.
Lemma msum_lset e v (m : @lmap Z) : NoDup (map fst m) -> msum (lset e v m) = msum m - lget e m + v.
Proof. intros H. unfold lset; simpl. rewrite msum_lerase by auto. lia. Qed.

Section Tot.
Notation Inv := (@Inv Z true).
Notation V := repaired.
Implicit Types m : mgraph.
Record TInv m : Prop := { t_inv : Inv (mg m); t_keys : KeysOK (mg m); t_tot : mtot m = msum (labels (mg m)) }.

Lemma lget_absent (g : @dgraph Z) s d : Inv g -> ~ In d (nb g s) -> lget (s, d) (labels g) = 0.
Proof. intros I N. unfold lget. destruct (lfind (s, d) (labels g)) eqn:F; auto. exfalso. apply N, (i_lab _ _ I). congruence. Qed.
Lemma in2_true m s d : (s < size (mg m))%nat -> (d < size (mg m))%nat -> dm_in2 m s d = true.
Proof. intros A B. unfold dm_in2, in_range. rewrite (proj2 (Nat.ltb_lt _ _) A), (proj2 (Nat.ltb_lt _ _) B). reflexivity. Qed.

(* removeAllEdges (multigraph) = removeEdge (weighted): the graph part is removeEdge of the labelled graph *)
Lemma remove_all_spec m s d : TInv m -> (s < size (mg m))%nat -> (d < size (mg m))%nat ->
  exists m', dm_remove_all m s d = (m', Done) /\ mg m' = fst (remove_edge (mg m) s d) /\ TInv m' /\
             mtot m' = mtot m - lget (s, d) (labels (mg m)).
Proof.
  intros [I K T] Hs Hd. unfold dm_remove_all. rewrite (in2_true m s d Hs Hd), (i_len _ _ I), (proj2 (Nat.ltb_lt _ _) Hs).
  eexists; split; [reflexivity|].
  assert (PR : mg (mk (set_adj_lab (mg m) (upd s (fun _ => remove_all d (nbl (mg m) s)) (adj (mg m)))
                (enum (mg m) - (Z.of_nat (length (nbl (mg m) s)) - Z.of_nat (length (remove_all d (nbl (mg m) s))))) (lerase (s, d) (labels (mg m))))
                (mtot m - lget (s, d) (labels (mg m)) * (Z.of_nat (length (nbl (mg m) s)) - Z.of_nat (length (remove_all d (nbl (mg m) s))))))
            = fst (remove_edge (mg m) s d)).
  { unfold remove_edge, in_range. rewrite (proj2 (Nat.ltb_lt _ _) Hs), (proj2 (Nat.ltb_lt _ _) Hd), (i_len _ _ I), (proj2 (Nat.ltb_lt _ _) Hs). reflexivity. }
  split; [exact PR|].
  assert (TOT : mtot m - lget (s, d) (labels (mg m)) * (Z.of_nat (length (nbl (mg m) s)) - Z.of_nat (length (remove_all d (nbl (mg m) s)))) = mtot m - lget (s, d) (labels (mg m))).
  { change (nbl (mg m) s) with (nb (mg m) s). rewrite (remove_all_length_nodup d (nb (mg m) s) (i_nodup _ _ I s)).
    destruct (mem d (nb (mg m) s)) eqn:M; [rewrite Nat2Z.inj_add; lia|]. apply mem_false in M. rewrite (lget_absent _ s d I M). lia. }
  split; [|cbn [mtot mk]; exact TOT].
  pose proof (remove_edge_spec true (mg m) s d I Hs Hd) as RS. pose proof (keys_remove_edge (mg m) s d K) as KR.
  rewrite <- PR in KR. destruct (remove_edge (mg m) s d) as [g' r] eqn:RE. cbn [fst] in PR. destruct RS as [_ [I' _]].
  constructor; [rewrite PR; exact I'|exact KR|]. cbn [mtot mk mg set_adj_lab labels]. rewrite TOT, msum_lerase, T by exact K. reflexivity.
Qed.

(* the loops of removeAllEdges / removeEdge *)
Lemma remove_all_loop (tgt : nat -> nat) vs : forall m, TInv m -> (forall i, In i vs -> (i < size (mg m))%nat /\ (tgt i < size (mg m))%nat) ->
  exists m', m_for (fun m i => dm_remove_all m i (tgt i)) vs m = (m', Done) /\
             mg m' = fst (for_vertices (fun g i => remove_edge g i (tgt i)) vs (mg m)) /\ TInv m'.
Proof.
  induction vs as [|v vs IH]; intros m TI R; cbn [m_for for_vertices].
  - exists m; auto.
  - destruct (R v (or_introl eq_refl)) as [Hv Ht]. destruct (remove_all_spec m v (tgt v) TI Hv Ht) as [m1 [E1 [P1 [T1 _]]]]. rewrite E1.
    pose proof (remove_edge_spec true (mg m) v (tgt v) (t_inv _ TI) Hv Ht) as RS.
    destruct (remove_edge (mg m) v (tgt v)) as [g1 r1]. cbn [fst] in P1. destruct RS as [-> [_ [S1 _]]].
    destruct (IH m1 T1) as [m' [E' [P' T']]]. { intros i Hi. rewrite P1, S1. apply R; simpl; auto. }
    exists m'. rewrite E'. rewrite P1 in P'. auto.
Qed.

(* relabel an existing edge / insert an absent one *)
Lemma relabel_spec m s d v : TInv m -> In d (nb (mg m) s) ->
  TInv (mk (set_adj_lab (mg m) (adj (mg m)) (enum (mg m)) (lset (s, d) v (labels (mg m)))) (mtot m + (v - lget (s, d) (labels (mg m))))).
Proof. intros [I K T] H. constructor; cbn [mg mk mtot set_adj_lab labels].
  - exact (set_label_inv true (mg m) s d v I H).
  - unfold KeysOK; cbn [labels]. apply NoDup_keys_lset; exact K.
  - rewrite msum_lset, T by exact K. lia. Qed.
Lemma insert_spec m s d v f : TInv m -> (s < size (mg m))%nat -> (d < size (mg m))%nat -> ~ In d (nb (mg m) s) ->
  exists g', add_edge true V (mg m) s d v f = (g', Done) /\ g' = fst (add_edge true V (mg m) s d v false) /\ enum g' = enum (mg m) + 1 /\ TInv (mk g' (mtot m + v)).
Proof.
  intros [I K T] Hs Hd N.
  assert (E : add_edge true V (mg m) s d v f = add_edge true V (mg m) s d v false).
  { unfold add_edge. cbn [v_force_checks V]. rewrite (has_edge_val true (mg m) s d I Hs Hd), (proj2 (mem_false _ _) N).
    unfold in_range. rewrite (proj2 (Nat.ltb_lt _ _) Hs), (proj2 (Nat.ltb_lt _ _) Hd). destruct f; reflexivity. }
  pose proof (add_edge_spec true (mg m) s d v I Hs Hd) as AS. pose proof (keys_add_edge true V (mg m) s d v false K) as KA.
  assert (EN : enum (fst (add_edge true V (mg m) s d v false)) = enum (mg m) + 1 /\ labels (fst (add_edge true V (mg m) s d v false)) = lset (s, d) v (labels (mg m))).
  { unfold add_edge. rewrite (has_edge_val true (mg m) s d I Hs Hd), (proj2 (mem_false _ _) N). unfold push_edge.
    rewrite (i_len _ _ I), (proj2 (Nat.ltb_lt _ _) Hs). cbn [fst enum labels set_label]. auto. }
  rewrite E. destruct (add_edge true V (mg m) s d v false) as [g' r]. cbn [fst] in *. destruct AS as [-> [I' _]]. destruct EN as [EN LB].
  exists g'; split; auto. split; auto. split; auto. constructor; cbn [mg mk mtot]; auto.
  rewrite LB, msum_lset, T, (lget_absent _ s d I N) by exact K. lia.
Qed.

(* removeVertexFromEdgeList: the erase loop over the out-list, then removeAllEdges(i, v) for every i *)
Lemma drain_spec v (succ : list nat) : NoDup succ -> forall (lab : @lmap Z) t e, NoDup (map fst lab) ->
  dm_drain V v succ lab t e =
    (fold_left (fun acc j => lerase (v, j) acc) succ lab, t - (msum lab - msum (fold_left (fun acc j => lerase (v, j) acc) succ lab)), e - Z.of_nat (length succ)).
Proof.
  induction 1 as [|j r Hj ND IH]; intros lab t e K; cbn [dm_drain fold_left length].
  - f_equal; [f_equal|]; lia.
  - cbn [v_rmv_labels V]. rewrite IH by (apply NoDup_keys_lerase; auto). rewrite (msum_lerase (v, j) lab K). f_equal; [f_equal|]; lia.
Qed.
Lemma remove_vertex_spec_t m v : TInv m -> (v < size (mg m))%nat ->
  exists m', dm_remove_vertex V m v = (m', Done) /\ mg m' = fst (remove_vertex V (mg m) v) /\ TInv m'.
Proof.
  intros TI Hv. pose proof TI as [I K T]. unfold dm_remove_vertex, remove_vertex, in_range.
  rewrite (proj2 (Nat.ltb_lt _ _) Hv), (i_len _ _ I), (proj2 (Nat.ltb_lt _ _) Hv). cbn [v_rmv_labels V].
  change (nbl (mg m) v) with (nb (mg m) v). rewrite (drain_spec v (nb (mg m) v) (i_nodup _ _ I v) (labels (mg m)) (mtot m) (enum (mg m)) K).
  set (lab1 := fold_left (fun acc j => lerase (v, j) acc) (nb (mg m) v) (labels (mg m))).
  set (g1 := {| adj := upd v (fun _ => []) (adj (mg m)); size := size (mg m); enum := enum (mg m) - Z.of_nat (length (nth v (adj (mg m)) [])); labels := lab1 |}).
  set (m1 := mk (set_adj_lab (mg m) (upd v (fun _ => []) (adj (mg m))) (enum (mg m) - Z.of_nat (length (nb (mg m) v))) lab1) (mtot m - (msum (labels (mg m)) - msum lab1))).
  assert (G1 : mg m1 = g1) by reflexivity.
  assert (Hv' : (v < length (adj (mg m)))%nat) by (rewrite (i_len _ _ I); auto).
  assert (NB : forall i, nb g1 i = if Nat.eqb i v then [] else nb (mg m) i).
  { intros i. unfold nb, g1; cbn [adj]. rewrite nth_upd by auto. reflexivity. }
  assert (LF : forall e, lfind e lab1 = if existsb (fun j => edge_eqb (v, j) e) (nb (mg m) v) then None else lfind e (labels (mg m))).
  { intros e. unfold lab1. apply lfind_fold_erase. }
  assert (I1 : Inv g1).
  { constructor.
    - unfold g1; cbn [adj size]. rewrite upd_length. apply (i_len _ _ I).
    - intros i. rewrite NB. destruct (Nat.eqb i v); [constructor|apply (i_nodup _ _ I)].
    - intros i j. rewrite NB. unfold g1; cbn [size]. destruct (Nat.eqb i v); [intros []|apply (i_rng _ _ I)].
    - unfold g1; cbn [enum adj]. rewrite total_upd by auto. rewrite (i_enum _ _ I). cbn [length]. lia.
    - intros i j. rewrite NB. unfold g1; cbn [labels]. rewrite LF. pose proof (i_lab _ _ I) as IL. cbn in IL.
      destruct (Nat.eqb_spec i v) as [->|Ne].
      + destruct (existsb (fun j0 => edge_eqb (v, j0) (v, j)) (nb (mg m) v)) eqn:X; [split; [congruence|intros []]|].
        split; [|intros []]. intros F. apply IL in F. exfalso. assert (existsb (fun j0 => edge_eqb (v, j0) (v, j)) (nb (mg m) v) = true); [|congruence].
        apply existsb_exists. exists j; split; auto. apply edge_eqb_refl.
      + replace (existsb (fun j0 => edge_eqb (v, j0) (i, j)) (nb (mg m) v)) with false; [apply IL|].
        symmetry. apply not_true_is_false. rewrite existsb_exists. intros [x [_ X]]. destruct (edge_eqb_spec (v, x) (i, j)) as [E|]; [|discriminate]. congruence. }
  assert (T1 : TInv m1).
  { constructor; [rewrite G1; exact I1| |cbn [mtot m1 mk mg set_adj_lab labels]; rewrite T; lia].
    unfold KeysOK, m1; cbn [mg mk set_adj_lab labels]. unfold lab1. apply keys_fold_erase. exact K. }
  destruct (remove_all_loop (fun _ => v) (seq 0 (size (mg m))) m1 T1) as [m' [E' [P' T']]].
  { intros i Hi. apply in_seq in Hi. rewrite G1. unfold g1; cbn [size]. lia. }
  exists m'. change (size (mg m)) with (size (mg m1)) at 1. split; [exact E'|split; [|exact T']]. rewrite P', G1. reflexivity.
Qed.

(* clearEdges, resize, removeDuplicateEdges *)
Lemma clear_spec_t m : TInv m -> exists m', dm_clear V m = (m', Done) /\ mg m' = fst (clear_edges V (mg m)) /\ TInv m' /\ mtot m' = 0.
Proof. intros [I K T]. unfold dm_clear, dm_ok_rows, clear_edges. rewrite (i_len _ _ I), Nat.leb_refl. cbn [v_clear_labels V].
  eexists; split; [reflexivity|]. split; [reflexivity|]. split; [|reflexivity].
  pose proof (clear_edges_spec true (mg m) I) as CS. unfold clear_edges in CS. rewrite (i_len _ _ I), Nat.leb_refl in CS. cbn [v_clear_labels V] in CS.
  destruct CS as [_ [I' _]]. constructor; [exact I'|unfold KeysOK; cbn; constructor|reflexivity]. Qed.
Lemma resize_spec_t m n : TInv m -> (size (mg m) <= n)%nat -> exists m', dm_resize m n = (m', Done) /\ mg m' = fst (resize (mg m) n) /\ TInv m' /\ mtot m' = mtot m.
Proof. intros [I K T] Hn. unfold dm_resize, with_g. pose proof (resize_spec true (mg m) n I Hn) as RS. destruct (resize (mg m) n) as [g' r]. cbn [fst snd].
  destruct RS as [-> [I' [_ [_ LB]]]]. eexists; split; [reflexivity|]. split; [reflexivity|]. split; [|reflexivity].
  constructor; cbn [mg mk mtot]; [exact I'|unfold KeysOK; rewrite LB; exact K|rewrite LB; exact T]. Qed.
Lemma dedup_noop_t m : TInv m -> dm_remove_duplicates m = (m, Done).
Proof.
  intros [I K T]. unfold dm_remove_duplicates, dm_ok_rows. rewrite (i_len _ _ I), Nat.leb_refl.
  assert (A : forall (a : list (list nat)) k lab, (forall l, In l a -> NoDup l) -> dm_dedup_rows k lab a = (a, 0, 0)).
  { assert (R : forall i lab (l : list nat) seen, NoDup l -> (forall x, In x l -> ~ In x seen) -> dm_dedup_row i lab seen l = (l, 0, 0)).
    { intros i lab. induction l as [|x t IHl]; intros seen ND D; cbn [dm_dedup_row]; auto. inversion ND; subst.
      assert (mem x seen = false) as -> by (apply mem_false, D; simpl; auto). rewrite IHl; auto.
      intros y Hy [<-|Hs]; [contradiction|]. apply (D y); simpl; auto. }
    induction a as [|x t IH]; intros k lab H; cbn [dm_dedup_rows]; auto. rewrite R by (auto; apply H; simpl; auto).
    rewrite IH by (intros; apply H; simpl; auto). reflexivity. }
  rewrite A. { rewrite !Z.sub_0_r. destruct m as [[a s e l] t]; reflexivity. }
  intros l Hl. apply In_nth with (d := []) in Hl as [i [_ <-]]. apply (i_nodup _ _ I).
Qed.
End Tot.
