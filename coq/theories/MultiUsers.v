(* Derived observers of the multigraph models (DirectedMultigraph: getOutDegree, getOutDegrees, getInDegree, getInDegrees,
   getAdjacencyMatrix; UndirectedMultigraph: getDegree, getDegrees, getAdjacencyMatrix).  Under the class invariants [TInv] / [UTInv]
   they are defined (Val) and equal to the sums of multiplicities one expects.
   Notation of the statements: [zsum f l] = sum of f x over the entries x of the list l, so
   [zsum (fun j => mult m v j) (seq 0 n)] is "sum over all vertices j of the multiplicity of (v, j)". *)
From BG Require Import Base DirectedModel DirectedProofs DirectedIter DirectedUsers Equality UndirectedModel UndirectedProofs UndirectedUsers
  MultiModel Totals UTotals.
Local Open Scope Z_scope.
Local Arguments Z.of_nat : simpl never.
Local Arguments Z.mul : simpl never.
Local Arguments Z.add : simpl never.

Definition zsum {A} (f : A -> Z) (l : list A) : Z := fold_right Z.add 0 (map f l).

Lemma zsum_nil {A} (f : A -> Z) : zsum f [] = 0. Proof. reflexivity. Qed.
Lemma zsum_cons {A} (f : A -> Z) x l : zsum f (x :: l) = f x + zsum f l. Proof. reflexivity. Qed.
Lemma zsum_app {A} (f : A -> Z) l1 l2 : zsum f (l1 ++ l2) = zsum f l1 + zsum f l2.
Proof. induction l1 as [|x t IH]; [rewrite zsum_nil; reflexivity|]. cbn [app]. rewrite !zsum_cons, IH. lia. Qed.
Lemma zsum_perm {A} (f : A -> Z) l1 l2 : Permutation l1 l2 -> zsum f l1 = zsum f l2.
Proof. induction 1; rewrite ?zsum_cons; auto; lia. Qed.
Lemma zsum_ext {A} (f h : A -> Z) l : (forall x, In x l -> f x = h x) -> zsum f l = zsum h l.
Proof. induction l as [|x t IH]; intros H; [reflexivity|]. rewrite !zsum_cons, (H x) by (simpl; auto). rewrite IH; [reflexivity|]. intros; apply H; simpl; auto. Qed.
Lemma zsum_zero {A} (f : A -> Z) l : (forall x, In x l -> f x = 0) -> zsum f l = 0.
Proof. induction l as [|x t IH]; intros H; [reflexivity|]. rewrite zsum_cons, (H x) by (simpl; auto). rewrite IH; [reflexivity|]. intros; apply H; simpl; auto. Qed.
Lemma zsum_filter {A} (f : A -> Z) (p : A -> bool) l : zsum f (filter p l) = zsum (fun x => if p x then f x else 0) l.
Proof. induction l as [|x t IH]; [reflexivity|]. cbn [filter]. rewrite zsum_cons. destruct (p x); rewrite ?zsum_cons, IH; lia. Qed.
(* the form used by the spec oracle (MultiSpec.rowsum) *)
Lemma zsum_fold (f : nat -> Z) l : zsum f l = fold_right (fun j acc => f j + acc) 0 l.
Proof. induction l as [|x t IH]; [reflexivity|]. rewrite zsum_cons, IH. reflexivity. Qed.
(* a duplicate-free list of vertices below n, summed as a subset of 0..n-1 *)
Lemma zsum_nodup_seq (f : nat -> Z) l n : NoDup l -> (forall j, In j l -> (j < n)%nat) -> zsum f l = zsum (fun j => if mem j l then f j else 0) (seq 0 n).
Proof. intros ND R. rewrite <- zsum_filter. apply zsum_perm, NoDup_Permutation; auto; [apply NoDup_filter, seq_NoDup|].
  intros j. rewrite filter_In, in_seq, mem_In. split; [intros H; split; auto; apply R in H; lia|tauto]. Qed.
(* ... and when f vanishes outside the list the sum is the sum over all vertices *)
Lemma zsum_support (f : nat -> Z) l n : NoDup l -> (forall j, In j l -> (j < n)%nat) -> (forall j, ~ In j l -> f j = 0) -> zsum f l = zsum f (seq 0 n).
Proof. intros ND R Z0. rewrite (zsum_nodup_seq f l n ND R). apply zsum_ext. intros j _. destruct (mem j l) eqn:M; auto. symmetry. apply Z0, mem_false; auto. Qed.
Lemma zsum_indicator (c : nat -> Z) v l : NoDup l -> zsum (fun i => if Nat.eqb i v then c i else 0) l = if mem v l then c v else 0.
Proof. induction 1 as [|x l Hx ND IH]; [reflexivity|]. rewrite zsum_cons, IH. cbn [mem existsb]. fold (mem v l). rewrite (Nat.eqb_sym v x).
  destruct (Nat.eqb_spec x v) as [->|Ne]; cbn [orb]; [|lia]. rewrite (proj2 (mem_false _ _) Hx). lia. Qed.
(* a sum over the enumerated edges, regrouped by source vertex *)
Lemma zsum_flat_map (h : edge -> Z) (f : nat -> list nat) vs :
  zsum h (flat_map (fun i => map (pair i) (f i)) vs) = zsum (fun i => zsum (fun j => h (i, j)) (f i)) vs.
Proof. induction vs as [|x t IH]; [reflexivity|]. cbn [flat_map]. rewrite zsum_app, zsum_cons, IH. f_equal.
  unfold zsum. rewrite map_map. reflexivity. Qed.

(* ---- the two accumulation loops shared by the observers ---- *)
(* vec[key e] += value e over a list of edges *)
Lemma wdeg_acc (key : edge -> nat) (getter : edge -> outcome Z) (val : edge -> Z) n (es : list edge) :
  (forall e, In e es -> (key e < n)%nat /\ getter e = Val (val e)) -> forall d, length d = n ->
  exists d', fold_left (fun acc e => obind acc (fun d => obind (getter e) (fun k =>
         match nth_error d (key e) with None => Undef IndexOOB | Some x => Val (upd (key e) (fun _ => x + k) d) end))) es (Val d) = Val d' /\
     length d' = n /\ forall v, nth v d' 0 = nth v d 0 + zsum (fun e => if Nat.eqb (key e) v then val e else 0) es.
Proof.
  induction es as [|e es IH]; intros H d Ln; cbn [fold_left].
  - exists d; split; [reflexivity|split; [exact Ln|]]. intros v. rewrite zsum_nil. lia.
  - destruct (H e (or_introl eq_refl)) as [Hk Hg]. cbn [obind]. rewrite Hg. cbn [obind].
    assert (Hk' : (key e < length d)%nat) by (rewrite Ln; exact Hk). rewrite (nth_error_nth' d 0 Hk').
    destruct (IH (fun e' He' => H e' (or_intror He')) (upd (key e) (fun _ => nth (key e) d 0 + val e) d)) as [d' [F [Ln' N]]]; [rewrite upd_length; exact Ln|].
    exists d'; split; [exact F|split; [exact Ln'|]]. intros v. rewrite N, zsum_cons, nth_upd by exact Hk'. rewrite (Nat.eqb_sym v (key e)).
    destruct (Nat.eqb_spec (key e) v) as [<-|]; lia.
Qed.
Lemma wdeg_val (key : edge -> nat) (getter : edge -> outcome Z) (val : edge -> Z) n (es : list edge) :
  (forall e, In e es -> (key e < n)%nat /\ getter e = Val (val e)) ->
  fold_left (fun acc e => obind acc (fun d => obind (getter e) (fun k =>
         match nth_error d (key e) with None => Undef IndexOOB | Some x => Val (upd (key e) (fun _ => x + k) d) end))) es (Val (repeat 0 n))
  = Val (map (fun v => zsum (fun e => if Nat.eqb (key e) v then val e else 0) es) (seq 0 n)).
Proof.
  intros H. destruct (wdeg_acc key getter val n es H (repeat 0 n) (repeat_length 0 n)) as [d' [F [Ln N]]]. rewrite F. f_equal.
  apply (nth_ext _ _ 0 0); [rewrite map_length, seq_length; exact Ln|]. intros v Hv. rewrite Ln in Hv. rewrite N, nth_repeat, nth_map_seq by exact Hv. lia.
Qed.
(* row[j] += w j over a neighbour list: entry j = (occurrences of j) * (w j) *)
Lemma m_matrix_row_acc n (w : nat -> outcome Z) (wv : nat -> Z) (l : list nat) : (forall j, In j l -> (j < n)%nat /\ w j = Val (wv j)) ->
  forall row, length row = n ->
  exists row', fold_left (fun acc j => obind acc (fun row => obind (w j) (fun k => match nth_error row j with None => Undef IndexOOB
      | Some x => Val (upd j (fun _ => x + k) row) end))) l (Val row) = Val row' /\
    length row' = n /\ forall j, nth j row' 0 = nth j row 0 + Z.of_nat (count j l) * wv j.
Proof.
  induction l as [|x l IH]; intros H row Ln; cbn [fold_left].
  - exists row; split; [reflexivity|split; [exact Ln|]]. intros j. unfold count; cbn [filter length]. lia.
  - destruct (H x (or_introl eq_refl)) as [Hx Hw]. cbn [obind]. rewrite Hw. cbn [obind].
    assert (Hx' : (x < length row)%nat) by (rewrite Ln; exact Hx). rewrite (nth_error_nth' row 0 Hx').
    destruct (IH (fun j Hj => H j (or_intror Hj)) (upd x (fun _ => nth x row 0 + wv x) row)) as [row' [F [Ln' N]]]; [rewrite upd_length; exact Ln|].
    exists row'; split; [exact F|split; [exact Ln'|]]. intros j. rewrite N, nth_upd by exact Hx'. rewrite count_cons.
    destruct (Nat.eqb_spec j x) as [->|]; lia.
Qed.
Lemma m_matrix_row_gen n (w : nat -> outcome Z) (wv : nat -> Z) (l : list nat) : (forall j, In j l -> (j < n)%nat /\ w j = Val (wv j)) ->
  m_matrix_row n w l = Val (map (fun j => Z.of_nat (count j l) * wv j) (seq 0 n)).
Proof.
  intros H. unfold m_matrix_row. destruct (m_matrix_row_acc n w wv l H (repeat 0 n) (repeat_length 0 n)) as [row' [F [Ln N]]]. rewrite F. f_equal.
  apply (nth_ext _ _ 0 0); [rewrite map_length, seq_length; exact Ln|]. intros j Hj. rewrite Ln in Hj. rewrite N, nth_repeat, nth_map_seq by exact Hj. lia.
Qed.
(* on a duplicate-free list, when wv vanishes outside it: the row is wv itself *)
Lemma m_matrix_row_val n (w : nat -> outcome Z) (wv : nat -> Z) (l : list nat) : NoDup l ->
  (forall j, In j l -> (j < n)%nat /\ w j = Val (wv j)) -> (forall j, ~ In j l -> wv j = 0) ->
  m_matrix_row n w l = Val (map wv (seq 0 n)).
Proof. intros ND H Z0. rewrite (m_matrix_row_gen n w wv l H). f_equal. apply map_ext. intros j. rewrite (count_nodup j l ND).
  destruct (mem j l) eqn:M; [lia|]. rewrite (Z0 j) by (apply mem_false; exact M). lia. Qed.

Lemma get_label_present (g : @dgraph Z) i j : (i < size g)%nat -> (j < size g)%nat -> lfind (i, j) (labels g) <> None ->
  get_label 0 true g i j true = Val (lget (i, j) (labels g)).
Proof. intros Hi Hj F. unfold get_label, in_range, lget. rewrite (proj2 (Nat.ltb_lt _ _) Hi), (proj2 (Nat.ltb_lt _ _) Hj). cbn [andb].
  destruct (lfind (i, j) (labels g)); [reflexivity|congruence]. Qed.

(* ================= DirectedMultigraph ================= *)
Section DMUsers.
Notation V := repaired.
Implicit Types m : mgraph.
(* the multiplicity of (i, j) as stored: 0 for an absent edge *)
Definition mult m (i j : nat) : Z := lget (i, j) (labels (mg m)).
Definition dm_outdeg m (v : nat) : Z := zsum (fun j => mult m v j) (seq 0 (size (mg m))).      (* sum over j of multiplicity(v, j) *)
Definition dm_indeg m (v : nat) : Z := zsum (fun i => mult m i v) (seq 0 (size (mg m))).       (* sum over i of multiplicity(i, v) *)

Lemma mult_absent m i j : TInv m -> ~ In j (nb (mg m) i) -> mult m i j = 0.
Proof. intros TI N. apply (lget_absent (mg m) i j (t_inv _ TI) N). Qed.
Lemma mult_oor m i j : TInv m -> (size (mg m) <= i)%nat \/ (size (mg m) <= j)%nat -> mult m i j = 0.
Proof. intros TI H. apply mult_absent; auto. intros X. apply (i_rng _ _ (t_inv _ TI)) in X. lia. Qed.
Lemma dm_get_multiplicity_val m i j : (i < size (mg m))%nat -> (j < size (mg m))%nat -> dm_get_multiplicity m i j = Val (mult m i j).
Proof. intros Hi Hj. unfold dm_get_multiplicity. rewrite (in2_true m i j Hi Hj). reflexivity. Qed.
Lemma get_label_edge m i j : TInv m -> In j (nb (mg m) i) -> get_label 0 true (mg m) i j true = Val (mult m i j).
Proof. intros TI H. pose proof (t_inv _ TI) as I. destruct (i_rng _ _ I i j H) as [Hi Hj]. apply get_label_present; auto.
  pose proof (i_lab _ _ I) as IL. cbn in IL. apply IL. exact H. Qed.

(* sums over the enumerated edges *)
Lemma zsum_flatten_fst m (h : nat -> nat -> Z) v : (v < size (mg m))%nat ->
  zsum (fun e : edge => if Nat.eqb (fst e) v then h (fst e) (snd e) else 0) (flatten (mg m)) = zsum (fun j => h v j) (nb (mg m) v).
Proof.
  intros Hv. unfold flatten, rows_from, row. rewrite zsum_flat_map. cbn [fst snd].
  rewrite (zsum_ext _ (fun i => if Nat.eqb i v then zsum (fun j => h i j) (nb (mg m) i) else 0)).
  - rewrite zsum_indicator by apply seq_NoDup. assert (mem v (seq 0 (size (mg m))) = true) as -> by (apply mem_In, in_seq; lia). reflexivity.
  - intros i _. destruct (Nat.eqb i v); [reflexivity|]. apply zsum_zero; auto.
Qed.
Lemma zsum_flatten_snd m (h : nat -> nat -> Z) v : (forall i, NoDup (nb (mg m) i)) ->
  zsum (fun e : edge => if Nat.eqb (snd e) v then h (fst e) (snd e) else 0) (flatten (mg m)) =
  zsum (fun i => if mem v (nb (mg m) i) then h i v else 0) (seq 0 (size (mg m))).
Proof. intros ND. unfold flatten, rows_from, row. rewrite zsum_flat_map. cbn [fst snd]. apply zsum_ext. intros i _.
  apply (zsum_indicator (fun j => h i j) v (nb (mg m) i) (ND i)). Qed.

(* ---- getOutDegree ---- *)
Lemma dm_out_degree_nb m v : TInv m -> (v < size (mg m))%nat -> dm_out_degree m v = Val (zsum (fun j => mult m v j) (nb (mg m) v)).
Proof. intros TI Hv. pose proof (t_inv _ TI) as I. unfold dm_out_degree. rewrite (out_nb (mg m) v (i_len _ _ I) Hv). cbn [obind].
  rewrite (omapM_val _ (fun j => mult m v j)); [reflexivity|]. intros j Hj. apply dm_get_multiplicity_val; auto. apply (i_rng _ _ I v j Hj). Qed.
Lemma outdeg_nb m v : TInv m -> zsum (fun j => mult m v j) (nb (mg m) v) = dm_outdeg m v.
Proof. intros TI. pose proof (t_inv _ TI) as I. apply zsum_support; [apply (i_nodup _ _ I)|intros j H; apply (i_rng _ _ I) in H; tauto|intros j; apply mult_absent; auto]. Qed.
Theorem dm_out_degree_val m v : TInv m -> (v < size (mg m))%nat -> dm_out_degree m v = Val (dm_outdeg m v).
Proof. intros TI Hv. rewrite (dm_out_degree_nb m v TI Hv), (outdeg_nb m v TI). reflexivity. Qed.
Theorem dm_out_degree_oor m v : (size (mg m) <= v)%nat -> dm_out_degree m v = Raise OutOfRange.
Proof. intros H. unfold dm_out_degree, out_neighbours, in_range. destruct (Nat.ltb_spec v (size (mg m))); [lia|reflexivity]. Qed.

(* ---- getOutDegrees / getInDegrees (loops over edges()) ---- *)
Theorem dm_out_degrees_val m : TInv m -> dm_out_degrees V m = Val (map (dm_outdeg m) (seq 0 (size (mg m)))).
Proof.
  intros TI. pose proof (t_inv _ TI) as I. unfold dm_out_degrees, dm_weighted_degrees. rewrite (iterate_flatten (mg m) (i_len _ _ I)). cbn [obind].
  etransitivity; [apply (wdeg_val fst (fun e => dm_get_multiplicity m (fst e) (snd e)) (fun e => mult m (fst e) (snd e)))|].
  - intros [i j] H. apply DirectedUsers.In_flatten in H as [Hi H]. cbn [fst snd]. split; auto. apply dm_get_multiplicity_val; auto. apply (i_rng _ _ I i j H).
  - f_equal. apply map_ext_in. intros v Hv. apply in_seq in Hv. rewrite (zsum_flatten_fst m (mult m) v) by lia. apply outdeg_nb; auto.
Qed.
Lemma indeg_flatten m v : TInv m -> zsum (fun e : edge => if Nat.eqb (snd e) v then mult m (fst e) (snd e) else 0) (flatten (mg m)) = dm_indeg m v.
Proof. intros TI. pose proof (t_inv _ TI) as I. rewrite (zsum_flatten_snd m (mult m) v (i_nodup _ _ I)). apply zsum_ext. intros i _.
  destruct (mem v (nb (mg m) i)) eqn:M; [reflexivity|]. symmetry. apply mult_absent; auto. apply mem_false; exact M. Qed.
Theorem dm_in_degrees_val m : TInv m -> dm_in_degrees V m = Val (map (dm_indeg m) (seq 0 (size (mg m)))).
Proof.
  intros TI. pose proof (t_inv _ TI) as I. unfold dm_in_degrees, dm_weighted_degrees. rewrite (iterate_flatten (mg m) (i_len _ _ I)). cbn [obind].
  etransitivity; [apply (wdeg_val snd (fun e => get_label 0 true (mg m) (fst e) (snd e) true) (fun e => mult m (fst e) (snd e)))|].
  - intros [i j] H. apply DirectedUsers.In_flatten in H as [Hi H]. cbn [fst snd]. split; [apply (i_rng _ _ I i j H)|]. apply get_label_edge; auto.
  - f_equal. apply map_ext. intros v. apply indeg_flatten; auto.
Qed.

(* ---- getInDegree ---- *)
Lemma in_degree_acc m v (es : list edge) : (forall e, In e es -> get_label 0 true (mg m) (fst e) (snd e) true = Val (mult m (fst e) (snd e))) -> forall d,
  fold_left (fun acc e => obind acc (fun d => if Nat.eqb (snd e) v then omap (fun k => d + k) (get_label 0 true (mg m) (fst e) (snd e) true) else Val d)) es (Val d)
  = Val (d + zsum (fun e : edge => if Nat.eqb (snd e) v then mult m (fst e) (snd e) else 0) es).
Proof.
  induction es as [|e es IH]; intros H d; cbn [fold_left]; [rewrite zsum_nil; apply f_equal; lia|].
  cbn [obind]. rewrite zsum_cons. destruct (Nat.eqb (snd e) v).
  - rewrite (H e (or_introl eq_refl)). cbn [omap obind]. rewrite IH by (intros; apply H; simpl; auto). apply f_equal; lia.
  - rewrite IH by (intros; apply H; simpl; auto). apply f_equal; lia.
Qed.
Theorem dm_in_degree_val m v : TInv m -> (v < size (mg m))%nat -> dm_in_degree V m v = Val (dm_indeg m v).
Proof.
  intros TI Hv. pose proof (t_inv _ TI) as I. unfold dm_in_degree. rewrite (proj2 (in_range_true (mg m) v) Hv), (iterate_flatten (mg m) (i_len _ _ I)). cbn [obind].
  rewrite in_degree_acc.
  - rewrite (indeg_flatten m v TI). apply f_equal; lia.
  - intros [i j] H. apply DirectedUsers.In_flatten in H as [_ H]. apply get_label_edge; auto.
Qed.
Theorem dm_in_degree_oor m v : (size (mg m) <= v)%nat -> dm_in_degree V m v = Raise OutOfRange.
Proof. intros H. unfold dm_in_degree, in_range. destruct (Nat.ltb_spec v (size (mg m))); [lia|reflexivity]. Qed.

(* ---- getAdjacencyMatrix: entry (i, j) = multiplicity(i, j), 0 when the edge is absent ---- *)
Theorem dm_adjacency_matrix_val m : TInv m ->
  dm_adjacency_matrix m = Val (map (fun i => map (fun j => mult m i j) (seq 0 (size (mg m)))) (seq 0 (size (mg m)))).
Proof.
  intros TI. pose proof (t_inv _ TI) as I. unfold dm_adjacency_matrix. apply omapM_val. intros i Hi. apply in_seq in Hi.
  rewrite (out_nb (mg m) i (i_len _ _ I)) by lia. cbn [obind]. apply m_matrix_row_val.
  - apply (i_nodup _ _ I).
  - intros j Hj. destruct (i_rng _ _ I i j Hj) as [Hi' Hj']. split; auto. apply dm_get_multiplicity_val; auto.
  - intros j; apply mult_absent; auto.
Qed.
Corollary dm_adjacency_matrix_entry m M i j : TInv m -> dm_adjacency_matrix m = Val M -> (i < size (mg m))%nat -> (j < size (mg m))%nat ->
  nth j (nth i M []) 0 = mult m i j.
Proof. intros TI E Hi Hj. rewrite (dm_adjacency_matrix_val m TI) in E. injection E as <-.
  rewrite (nth_map_seq (fun i => map (fun j => mult m i j) (seq 0 (size (mg m)))) (size (mg m)) i [] Hi).
  apply (nth_map_seq (fun j => mult m i j) (size (mg m)) j 0 Hj). Qed.
(* sanity links: total = sum of all out-degrees = sum of all in-degrees is NOT claimed here (it needs the key set = edge set, see Totals) *)
End DMUsers.

(* ================= UndirectedMultigraph ================= *)
Section UMUsers.
Notation V := repaired.
Implicit Types m : mgraph.
(* the multiplicity of the unordered pair {i, j} as stored (under the key (min, max)): 0 for an absent edge *)
Definition umult m (i j : nat) : Z := lget (ordered i j) (labels (mg m)).
(* the value at (i, j) of the adjacency matrix / the contribution of j to the degree of i: doubled on the diagonal iff [twice] *)
Definition umcell m (twice : bool) (i j : nat) : Z := if Nat.eqb i j && twice then 2 * umult m i j else umult m i j.
Definition um_deg m (twice : bool) (v : nat) : Z := zsum (umcell m twice v) (seq 0 (size (mg m))).

Lemma umult_sym m i j : umult m i j = umult m j i.
Proof. unfold umult. rewrite (ordered_sym i j). reflexivity. Qed.
Lemma umcell_sym m twice i j : umcell m twice i j = umcell m twice j i.
Proof. unfold umcell. rewrite (Nat.eqb_sym j i), (umult_sym m j i). reflexivity. Qed.
Lemma umult_absent m i j : UTInv m -> ~ In j (nb (mg m) i) -> umult m i j = 0.
Proof. intros TI N. apply (u_lget_absent (mg m) i j (ut_inv _ TI) N). Qed.
Lemma umcell_absent m twice i j : UTInv m -> ~ In j (nb (mg m) i) -> umcell m twice i j = 0.
Proof. intros TI N. unfold umcell. rewrite (umult_absent m i j TI N). destruct (Nat.eqb i j && twice); reflexivity. Qed.
Lemma um_get_multiplicity_val m i j : (i < size (mg m))%nat -> (j < size (mg m))%nat -> um_get_multiplicity m i j = Val (umult m i j).
Proof. intros Hi Hj. unfold um_get_multiplicity. rewrite (in2_true m i j Hi Hj). reflexivity. Qed.
Lemma u_get_label_edge m i j : UTInv m -> In j (nb (mg m) i) -> u_get_label 0 true (mg m) i j true = Val (umult m i j).
Proof. intros TI H. pose proof (ut_inv _ TI) as I. destruct (u_rng _ _ I i j H) as [Hi Hj]. unfold u_get_label, umult.
  rewrite (surjective_pairing (ordered i j)) at 3. apply get_label_present.
  - destruct (ordered_cases i j) as [[-> _]|[-> _]]; cbn [fst]; auto.
  - destruct (ordered_cases i j) as [[-> _]|[-> _]]; cbn [snd]; auto.
  - rewrite <- surjective_pairing. apply (u_lab_in (mg m) i j I). exact H. Qed.

(* ---- getDegree ---- *)
Theorem um_degree_val m v twice : UTInv m -> (v < size (mg m))%nat -> um_degree m v twice = Val (um_deg m twice v).
Proof.
  intros TI Hv. pose proof (ut_inv _ TI) as I. unfold um_degree. rewrite (out_nb (mg m) v (u_len _ _ I) Hv). cbn [obind].
  rewrite (omapM_val _ (umcell m twice v)).
  - cbn [omap obind]. f_equal. change (fold_right Z.add 0 (map (umcell m twice v) (nb (mg m) v))) with (zsum (umcell m twice v) (nb (mg m) v)).
    apply zsum_support; [apply (u_nodup _ _ I)|intros j H; apply (u_rng _ _ I) in H; tauto|intros j; apply umcell_absent; auto].
  - intros j Hj. rewrite um_get_multiplicity_val by (auto; apply (u_rng _ _ I v j Hj)). cbn [omap obind]. unfold umcell. rewrite andb_comm. reflexivity.
Qed.
Theorem um_degree_oor m v twice : (size (mg m) <= v)%nat -> um_degree m v twice = Raise OutOfRange.
Proof. intros H. unfold um_degree, out_neighbours, in_range. destruct (Nat.ltb_spec v (size (mg m))); [lia|reflexivity]. Qed.
Theorem um_degrees_val m twice : UTInv m -> um_degrees m twice = Val (map (um_deg m twice) (seq 0 (size (mg m)))).
Proof. intros TI. unfold um_degrees. apply omapM_val. intros i Hi. apply in_seq in Hi. apply um_degree_val; auto; lia. Qed.

(* ---- getAdjacencyMatrix: entry (i, j) = multiplicity{i, j}, doubled on the diagonal iff twice ---- *)
Theorem um_adjacency_matrix_val m twice : UTInv m ->
  um_adjacency_matrix m twice = Val (map (fun i => map (fun j => umcell m twice i j) (seq 0 (size (mg m)))) (seq 0 (size (mg m)))).
Proof.
  intros TI. pose proof (ut_inv _ TI) as I. unfold um_adjacency_matrix. apply omapM_val. intros i Hi. apply in_seq in Hi.
  rewrite (out_nb (mg m) i (u_len _ _ I)) by lia. cbn [obind]. apply m_matrix_row_val.
  - apply (u_nodup _ _ I).
  - intros j Hj. destruct (u_rng _ _ I i j Hj) as [Hi' Hj']. split; auto. rewrite (u_get_label_edge m i j TI Hj). reflexivity.
  - intros j; apply umcell_absent; auto.
Qed.
Corollary um_adjacency_matrix_entry m twice M i j : UTInv m -> um_adjacency_matrix m twice = Val M -> (i < size (mg m))%nat -> (j < size (mg m))%nat ->
  nth j (nth i M []) 0 = umcell m twice i j.
Proof. intros TI E Hi Hj. rewrite (um_adjacency_matrix_val m twice TI) in E. injection E as <-.
  rewrite (nth_map_seq (fun i => map (fun j => umcell m twice i j) (seq 0 (size (mg m)))) (size (mg m)) i [] Hi).
  apply (nth_map_seq (fun j => umcell m twice i j) (size (mg m)) j 0 Hj). Qed.
Corollary um_adjacency_matrix_symmetric m twice M i j : UTInv m -> um_adjacency_matrix m twice = Val M -> (i < size (mg m))%nat -> (j < size (mg m))%nat ->
  nth j (nth i M []) 0 = nth i (nth j M []) 0.
Proof. intros TI E Hi Hj. rewrite (um_adjacency_matrix_entry m twice M i j TI E Hi Hj), (um_adjacency_matrix_entry m twice M j i TI E Hj Hi). apply umcell_sym. Qed.
End UMUsers.

(* closed checks of the conventions.  Directed: 0->1 three times, 0->0 twice, 2->1 once.  Undirected: {0,0} twice, {0,1} three times. *)
Example dm_conventions :
  let m := fst (dm_step repaired (fst (dm_step repaired (fst (dm_step repaired (dm_init 3) (MAddMulti 0 1 3 false))) (MAddMulti 0 0 2 false))) (MAdd 2 1 false)) in
  dm_out_degree m 0 = Val 5 /\ dm_in_degree repaired m 1 = Val 4 /\ dm_out_degrees repaired m = Val [5; 0; 1] /\ dm_in_degrees repaired m = Val [2; 4; 0] /\
  dm_adjacency_matrix m = Val [[2; 3; 0]; [0; 0; 0]; [0; 1; 0]].
Proof. vm_compute. repeat split. Qed.
Example um_conventions :
  let m := fst (um_step repaired true (fst (um_step repaired true (dm_init 3) (MAddMulti 0 0 2 false))) (MAddMulti 1 0 3 false)) in
  um_degree m 0 true = Val 7 /\ um_degree m 0 false = Val 5 /\ um_degrees m true = Val [7; 3; 0] /\ um_degrees m false = Val [5; 3; 0] /\
  um_adjacency_matrix m true = Val [[4; 3; 0]; [3; 0; 0]; [0; 0; 0]] /\ um_adjacency_matrix m false = Val [[2; 3; 0]; [3; 0; 0]; [0; 0; 0]].
Proof. vm_compute. repeat split. Qed.

Print Assumptions dm_out_degree_val.
Print Assumptions dm_out_degrees_val.
Print Assumptions dm_in_degree_val.
Print Assumptions dm_in_degrees_val.
Print Assumptions dm_adjacency_matrix_val.
Print Assumptions um_degree_val.
Print Assumptions um_degrees_val.
Print Assumptions um_adjacency_matrix_val.
