(* C17 (the part a model can carry): in the models every container access is checked - adjacencyList[i] is nth_error, *it at end() is an
   explicit outcome, fuel exhaustion is an explicit outcome - and "undefined behaviour" is the UBk / Undef outcome.  Here: starting from
   ANY state whose adjacency vector has getSize() lists (every constructor establishes it), NO call of the directed or undirected class -
   valid or invalid arguments, force on or off, any order - ever ends in UBk, and the length invariant is kept; every observer is defined. *)
From Coq Require Import List Arith ZArith Lia Bool.
From BG Require Import Base DirectedModel DirectedProofs DirectedIter UndirectedModel UndirectedProofs IOModel TextProofs.
Import ListNotations.

Section NoUB.
Context {L : Type}.
Variable hs : bool.
Notation dgraph := (@dgraph L).
Implicit Types g : dgraph.
Notation V := repaired.
Definition fine (r : res) : Prop := match r with UBk _ => False | _ => True end.
Definition OK (p : dgraph * res) : Prop := fine (snd p) /\ LenOK (fst p).

Lemma lift_ok (p : dgraph * res) : OK p -> match DirectedModel.lift p with Val h => LenOK h | Raise _ => True | Undef _ => False end.
Proof. destruct p as [h [|e|k]]; cbn; intros [A B]; auto. Qed.
Lemma ok_of_lift (p : dgraph * res) : LenOK (fst p) -> match DirectedModel.lift p with Undef _ => False | _ => True end -> OK p.
Proof. destruct p as [h [|e|k]]; cbn; intros A B; split; auto. Qed.

Lemma has_edge_fine g s d : LenOK g -> safe (has_edge g s d).
Proof. intros H. unfold has_edge, in_range. destruct (Nat.ltb_spec s (size g)); cbn [andb]; [|exact I]. destruct (Nat.ltb d (size g)); cbn [andb]; [|exact I].
  rewrite H. rewrite (proj2 (Nat.ltb_lt _ _) H0). exact I. Qed.
Lemma out_neighbours_fine g v : LenOK g -> safe (out_neighbours g v).
Proof. intros H. unfold out_neighbours, in_range. destruct (Nat.ltb_spec v (size g)); [|exact I]. rewrite H, (proj2 (Nat.ltb_lt _ _) H0). exact I. Qed.

Lemma add_edge_ok g s d l f : LenOK g -> OK (add_edge hs V g s d l f).
Proof.
  intros H. unfold add_edge. cbn [v_force_checks V]. destruct f.
  - unfold in_range. destruct (Nat.ltb_spec s (size g)); cbn [andb]; [|split; cbn; auto]. destruct (Nat.ltb d (size g)); cbn [andb]; [|split; cbn; auto].
    destruct (push_ok hs g s d l H H0) as [h' [E K]]. rewrite E. split; cbn; auto.
  - pose proof (has_edge_fine g s d H) as F. unfold has_edge, in_range in *. destruct (Nat.ltb_spec s (size g)); cbn [andb] in *; [|split; cbn; auto].
    destruct (Nat.ltb d (size g)); cbn [andb] in *; [|split; cbn; auto]. rewrite H, (proj2 (Nat.ltb_lt _ _) H0) in *.
    destruct (mem d (nth s (adj g) [])); [split; cbn; auto|]. destruct (push_ok hs g s d l H H0) as [h' [E K]]. rewrite E. split; cbn; auto.
Qed.
Lemma remove_edge_ok g s d : LenOK g -> OK (remove_edge g s d).
Proof. intros H. unfold remove_edge, in_range. destruct (Nat.ltb_spec s (size g)); cbn [andb]; [|split; cbn; auto]. destruct (Nat.ltb d (size g)); cbn [andb]; [|split; cbn; auto].
  rewrite H, (proj2 (Nat.ltb_lt _ _) H0). split; cbn; auto. unfold LenOK; cbn [adj size]. rewrite upd_length; exact H. Qed.
Lemma for_vertices_ok (f : dgraph -> nat -> dgraph * res) vs : (forall g v, LenOK g -> OK (f g v)) -> forall g, LenOK g -> OK (for_vertices f vs g).
Proof. intros Hf. induction vs as [|v t IH]; intros g H; cbn [for_vertices]; [split; cbn; auto|].
  pose proof (Hf g v H) as [A B]. destruct (f g v) as [g1 [|e|k]]; cbn in *; auto; split; cbn; auto. Qed.
Theorem step_ok g o : LenOK g -> OK (step hs V g o).
Proof.
  intros H. destruct o as [s d l f|x y l f|s d| |v| |n|s d l f|]; cbn [step].
  - apply add_edge_ok; auto.
  - unfold add_reciprocal. pose proof (add_edge_ok g x y l f H) as [A B]. destruct (add_edge hs V g x y l f) as [g1 [|e|k]]; cbn in *; try (split; cbn; auto; fail).
    apply add_edge_ok; auto.
  - apply remove_edge_ok; auto.
  - unfold remove_self_loops. apply for_vertices_ok; auto. intros; apply remove_edge_ok; auto.
  - unfold remove_vertex, in_range. destruct (Nat.ltb_spec v (size g)); [|split; cbn; auto]. rewrite H, (proj2 (Nat.ltb_lt _ _) H0).
    apply for_vertices_ok; [intros; apply remove_edge_ok; auto|]. unfold LenOK; cbn [adj size]. rewrite upd_length; exact H.
  - unfold clear_edges. rewrite H, Nat.leb_refl. split; [exact I|]. unfold LenOK; cbn [fst adj size]. rewrite map_length; exact H.
  - pose proof (resize_ok g n H) as R. unfold resize in *. destruct (Nat.ltb n (size g)); cbn in *; split; cbn; auto.
  - unfold set_edge_label, in_range. destruct (Nat.ltb_spec s (size g)); cbn [andb]; [|split; cbn; auto]. destruct (Nat.ltb_spec d (size g)); cbn [andb]; [|split; cbn; auto].
    destruct f; [split; cbn; auto|]. unfold has_edge, in_range. rewrite (proj2 (Nat.ltb_lt _ _) H0), (proj2 (Nat.ltb_lt _ _) H1), H, (proj2 (Nat.ltb_lt _ _) H0). cbn [andb].
    destruct (mem d (nth s (adj g) [])); split; cbn; auto.
  - unfold remove_duplicates. rewrite H, Nat.leb_refl. split; [exact I|]. unfold LenOK; cbn [fst adj size]. rewrite map_length; exact H.
Qed.
(* any number of calls, in any order, with any arguments *)
Theorem any_history_ok ops : forall g, LenOK g -> LenOK (fold_left (fun g o => fst (step hs V g o)) ops g) /\ Forall (fun go => fine (snd (step hs V (fst go) (snd go))))
    (combine ((fix states g ops := match ops with [] => [] | o :: t => g :: states (fst (step hs V g o)) t end) g ops) ops).
Proof. induction ops as [|o t IH]; intros g H; cbn [fold_left combine]; [split; auto|]. pose proof (step_ok g o H) as [A B].
  destruct (IH (fst (step hs V g o)) B) as [C D]. split; auto. Qed.

(* edges() and everything built on it is defined *)
Theorem iterate_fine g : LenOK g -> safe (iterate V g).
Proof. intros H. rewrite (iterate_flatten g H). exact I. Qed.

(* ---- the undirected class ---- *)
Lemma u_has_edge_fine g a b : LenOK g -> safe (u_has_edge g a b).
Proof. intros H. apply has_edge_fine; auto. Qed.
Lemma u_push_ok g a b l : LenOK g -> a < size g -> b < size g -> exists h', u_push hs g a b l = (h', Done) /\ LenOK h'.
Proof. intros H Ha Hb. unfold u_push. rewrite H, (proj2 (Nat.ltb_lt _ _) Ha), (proj2 (Nat.ltb_lt _ _) Hb). cbn [andb]. eexists; split; [reflexivity|].
  unfold LenOK in *; cbn [adj size]. destruct (Nat.eqb a b); rewrite !upd_length; exact H. Qed.
Lemma u_add_edge_ok g a b l f : LenOK g -> OK (u_add_edge hs V g a b l f).
Proof.
  intros H. unfold u_add_edge. cbn [v_force_checks V]. destruct f.
  - unfold in_range. destruct (Nat.ltb_spec a (size g)); cbn [andb]; [|split; cbn; auto]. destruct (Nat.ltb_spec b (size g)); cbn [andb]; [|split; cbn; auto].
    destruct (u_push_ok g a b l H H0 H1) as [h' [E K]]. rewrite E. split; cbn; auto.
  - unfold u_has_edge, has_edge, in_range.
    destruct (ordered_cases a b) as [[-> _]|[-> _]]; cbn [fst snd].
    + destruct (Nat.ltb_spec a (size g)); cbn [andb]; [|split; cbn; auto]. destruct (Nat.ltb_spec b (size g)); cbn [andb]; [|split; cbn; auto].
      rewrite H, (proj2 (Nat.ltb_lt _ _) H0). destruct (mem b (nth a (adj g) [])); [split; cbn; auto|].
      destruct (u_push_ok g a b l H H0 H1) as [h' [E K]]. rewrite E. split; cbn; auto.
    + destruct (Nat.ltb_spec b (size g)); cbn [andb]; [|split; cbn; auto]. destruct (Nat.ltb_spec a (size g)); cbn [andb]; [|split; cbn; auto].
      rewrite H, (proj2 (Nat.ltb_lt _ _) H0). destruct (mem a (nth b (adj g) [])); [split; cbn; auto|].
      destruct (u_push_ok g a b l H H1 H0) as [h' [E K]]. rewrite E. split; cbn; auto.
Qed.
Lemma u_remove_edge_ok g a b : LenOK g -> OK (u_remove_edge g a b).
Proof. intros H. unfold u_remove_edge, in_range. destruct (Nat.ltb_spec a (size g)); cbn [andb]; [|split; cbn; auto]. destruct (Nat.ltb_spec b (size g)); cbn [andb]; [|split; cbn; auto].
  rewrite H, (proj2 (Nat.ltb_lt _ _) H0), (proj2 (Nat.ltb_lt _ _) H1). cbn [andb].
  match goal with |- OK (if ?c then _ else _) => destruct c end; (split; [exact I|]); unfold LenOK in *; cbn [fst adj size]; rewrite ?upd_length; exact H. Qed.
Lemma u_rmv_rows_length v : forall rows i, length (fst (fst (u_rmv_rows v i rows))) = length rows.
Proof. induction rows as [|r rs IH]; intros i; cbn [u_rmv_rows]; auto. unfold u_rmv_row. specialize (IH (S i)). destruct (u_rmv_rows v (S i) rs) as [[a b] c]. cbn in *. lia. Qed.
Lemma u_dedup_rows_length : forall rows i, length (fst (u_dedup_rows i rows)) = length rows.
Proof. induction rows as [|r rs IH]; intros i; cbn [u_dedup_rows]; auto. destruct (u_dedup i [] r) as [r' c]. specialize (IH (S i)). destruct (u_dedup_rows (S i) rs) as [a b]. cbn in *. lia. Qed.
Theorem ustep_ok g o : LenOK g -> OK (ustep hs V g o).
Proof.
  intros H. destruct o as [a b l f|a b| |v| |n|a b l f|]; cbn [ustep].
  - apply u_add_edge_ok; auto.
  - apply u_remove_edge_ok; auto.
  - unfold u_remove_self_loops. apply for_vertices_ok; auto. intros; apply u_remove_edge_ok; auto.
  - unfold u_remove_vertex, in_range. destruct (Nat.ltb_spec v (size g)); [|split; cbn; auto]. rewrite H, Nat.leb_refl.
    pose proof (u_rmv_rows_length v (adj g) 0) as LR. destruct (u_rmv_rows v 0 (adj g)) as [[rows c] es]. cbn [fst] in LR.
    split; [exact I|]. unfold LenOK in *; cbn [fst adj size]. lia.
  - unfold clear_edges. rewrite H, Nat.leb_refl. split; [exact I|]. unfold LenOK; cbn [fst adj size]. rewrite map_length; exact H.
  - pose proof (resize_ok g n H) as R. unfold resize in *. destruct (Nat.ltb n (size g)); cbn in *; split; cbn; auto.
  - unfold u_set_edge_label, set_edge_label, in_range.
    destruct (ordered_cases a b) as [[-> _]|[-> _]]; cbn [fst snd].
    + destruct (Nat.ltb_spec a (size g)); cbn [andb]; [|split; cbn; auto]. destruct (Nat.ltb_spec b (size g)); cbn [andb]; [|split; cbn; auto].
      destruct f; [split; cbn; auto|]. unfold has_edge, in_range. rewrite (proj2 (Nat.ltb_lt _ _) H0), (proj2 (Nat.ltb_lt _ _) H1), H, (proj2 (Nat.ltb_lt _ _) H0). cbn [andb].
      destruct (mem b (nth a (adj g) [])); split; cbn; auto.
    + destruct (Nat.ltb_spec b (size g)); cbn [andb]; [|split; cbn; auto]. destruct (Nat.ltb_spec a (size g)); cbn [andb]; [|split; cbn; auto].
      destruct f; [split; cbn; auto|]. unfold has_edge, in_range. rewrite (proj2 (Nat.ltb_lt _ _) H0), (proj2 (Nat.ltb_lt _ _) H1), H, (proj2 (Nat.ltb_lt _ _) H0). cbn [andb].
      destruct (mem a (nth b (adj g) [])); split; cbn; auto.
  - unfold u_remove_duplicates. rewrite H, Nat.leb_refl. pose proof (u_dedup_rows_length (adj g) 0) as LR. destruct (u_dedup_rows 0 (adj g)) as [rows c]. cbn [fst] in LR.
    split; [exact I|]. unfold LenOK in *; cbn [fst adj size]. lia.
Qed.
End NoUB.

(* ---- the binary loader: whatever the bytes ---- *)
Lemma build_graph_safe und w (rs : list brecord) : safe (build_graph repaired und w rs).
Proof.
  unfold build_graph.
  assert (G : forall rs o, match o with Val h => LenOK h | Raise _ => True | Undef _ => False end ->
     match fold_left (fun acc r => obind acc (fun h => let '(s, d, l) := r in
        let i := N.to_nat s in let j := N.to_nat d in
        obind (if Nat.leb (size h) i then DirectedModel.lift (resize h (S i)) else Val h) (fun h1 =>
        obind (if Nat.leb (size h1) j then DirectedModel.lift (resize h1 (S j)) else Val h1) (fun h2 => b_add repaired und w h2 i j l)))) rs o
     with Val h => LenOK h | Raise _ => True | Undef _ => False end).
  { clear rs. induction rs as [|[[s d] l] t IH]; intros o H; cbn [fold_left]; auto. apply IH. destruct o as [h| |]; cbn [obind]; auto.
    assert (R1 : match (if Nat.leb (size h) (N.to_nat s) then DirectedModel.lift (resize h (S (N.to_nat s))) else Val h) with Val h1 => LenOK h1 | Raise _ => True | Undef _ => False end).
    { destruct (Nat.leb (size h) (N.to_nat s)); [apply resize_ok; auto|auto]. }
    destruct (if Nat.leb (size h) (N.to_nat s) then _ else _) as [h1| |]; cbn [obind]; auto.
    assert (R2 : match (if Nat.leb (size h1) (N.to_nat d) then DirectedModel.lift (resize h1 (S (N.to_nat d))) else Val h1) with Val h2 => LenOK h2 | Raise _ => True | Undef _ => False end).
    { destruct (Nat.leb (size h1) (N.to_nat d)); [apply resize_ok; auto|auto]. }
    destruct (if Nat.leb (size h1) (N.to_nat d) then _ else _) as [h2| |]; cbn [obind]; auto.
    unfold b_add. destruct und; [apply u_add_forced_ok|apply add_forced_ok]; auto. }
  specialize (G rs (Val (init 0))). cbn in G. specialize (G eq_refl). destruct (fold_left _ _ _); cbn; auto.
Qed.
Theorem load_binary_safe und w b : safe (load_binary repaired und w b).
Proof. unfold load_binary. apply build_graph_safe. Qed.
