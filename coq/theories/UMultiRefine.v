(* C04 (undirected class): the UndirectedMultigraph model refines the multiplicity-function spec keyed by unordered pairs. *)
From BG Require Import Base DirectedModel DirectedProofs DirectedIter DirectedUsers DirectedSpec DirectedRefine DirectedObs Equality
  UndirectedModel UndirectedProofs UndirectedIter UndirectedSpec UndirectedRefine UndirectedObs
  MultiModel WeightedModel MultiSpec Totals MultiRefine UTotals.
Local Open Scope Z_scope.
Local Arguments Z.of_nat : simpl never.

Section UMRefine.
Notation V := repaired.
Notation sgraph := (@sgraph Z).
Implicit Types (m : mgraph) (a : sgraph).
Notation RfU := (@RfU Z true).
Notation InvU := (@InvU Z true).

Record RfUM m a : Prop := { rum_t : UTInv m; rum_rf : RfU (mg m) a; rum_pos : forall e v, lfind e (se a) = Some v -> 0 < v }.

Lemma rfu_lget m a i j : RfU (mg m) a -> lget (ordered i j) (labels (mg m)) = mval true a i j.
Proof. intros R. unfold lget, mval, key. rewrite (ru_lab _ _ _ R eq_refl). reflexivity. Qed.
Lemma rfu_in m a i j : RfU (mg m) a -> (In j (nb (mg m) i) <-> mhas true a i j = true).
Proof. intros R. apply (ru_mem _ _ _ R). Qed.
Lemma rfu_of (g : @dgraph Z) a : InvU g -> size g = sn a -> (forall e, lfind e (labels g) = lfind e (se a)) -> RfU g a.
Proof. intros I S E. constructor; auto. intros i j. rewrite <- (u_lab_in g i j I), E. unfold umem, okey, smem.
  destruct (lfind (ordered i j) (se a)); split; congruence. Qed.
Lemma rfu_absent m a i j : RfU (mg m) a -> ~ In j (nb (mg m) i) -> lfind (ordered i j) (se a) = None.
Proof. intros R N. destruct (lfind (ordered i j) (se a)) eqn:F; auto. exfalso. apply N, (ru_mem _ _ _ R). unfold umem, okey, smem. rewrite F; auto. Qed.

Fixpoint um_valid_history a (ops : list mop) : bool :=
  match ops with [] => true | o :: t => valid_mop a o && um_valid_history (mspec_step true a o) t end.
Fixpoint umspec_run a (ops : list mop) : sgraph := match ops with [] => a | o :: t => umspec_run (mspec_step true a o) t end.
Fixpoint um_run m (ops : list mop) : mgraph * res :=
  match ops with [] => (m, Done) | o :: t => match um_step V true m o with (m1, Done) => um_run m1 t | r => r end end.

(* the insertion branch shared by addMultiedge and setEdgeMultiplicity *)
Lemma um_insert_refines m a s d k (f : bool) : RfUM m a -> (s < size (mg m))%nat -> (d < size (mg m))%nat -> ~ In d (nb (mg m) s) -> 0 < k ->
  exists g', u_add_edge true V (mg m) s d k f = (g', Done) /\ RfUM (mk g' (mtot m + k)) (with_se a (lset (ordered s d) k (se a))).
Proof.
  intros [TI R P] Hs Hd M Hk. destruct (u_insert_spec m s d k f TI Hs Hd M) as [g' [E [_ [_ [S' [LB T']]]]]]. exists g'; split; auto.
  constructor; [exact T'| |].
  - apply rfu_of; cbn [mg mk with_se sn se]; [exact (ut_inv _ T')|rewrite S'; apply (ru_size _ _ _ R)|].
    intros e. rewrite LB, !lfind_lset, (ru_lab _ _ _ R eq_refl). reflexivity.
  - intros e v. cbn [with_se se]. rewrite lfind_lset. destruct (edge_eqb (ordered s d) e); [|apply P]. intros X; injection X as <-. exact Hk.
Qed.

(* addMultiedge (force off) *)
Lemma um_add_multi_refines m a s d k : RfUM m a -> (s < sn a)%nat -> (d < sn a)%nat -> 0 <= k ->
  exists m', um_add_multiedge V m s d k false = (m', Done) /\ RfUM m' (ms_add true a s d k).
Proof.
  intros RM Hs Hd Hk. pose proof RM as [TI R P]. pose proof TI as [I K T]. rewrite <- (ru_size _ _ _ R) in Hs, Hd.
  unfold um_add_multiedge, ms_add, um_has_edge. rewrite (in2_true m s d Hs Hd). destruct (Z.eqb_spec k 0) as [->|Nk]; [exists m; split; auto|].
  rewrite (u_has_edge_val true (mg m) s d I Hs Hd). destruct (mem d (nb (mg m) s)) eqn:M; cbn [orb negb].
  - apply mem_In in M.
    pose proof (u_relabel_spec m s d (lget (ordered s d) (labels (mg m)) + k) TI M) as T'. eexists; split; [reflexivity|].
    constructor.
    + eapply UTInv_tot; [exact T'|lia].
    + apply rfu_of; cbn [mg mk set_adj_lab size labels with_se sn se].
      * exact (u_set_label_inv true (mg m) s d _ I M).
      * apply (ru_size _ _ _ R).
      * intros e. unfold key. rewrite !lfind_lset, (rfu_lget m a s d R), (ru_lab _ _ _ R eq_refl). reflexivity.
    + intros e v. cbn [with_se se]. rewrite lfind_lset. unfold key. destruct (edge_eqb (ordered s d) e); [|apply P].
      intros X; injection X as <-. unfold mval, lget, key. apply (rfu_in m a s d R) in M. unfold mhas, smem, key in M.
      destruct (lfind (ordered s d) (se a)) as [c|] eqn:F; [|discriminate]. pose proof (P _ _ F). lia.
  - apply mem_false in M. destruct (um_insert_refines m a s d k true RM Hs Hd M) as [g' [E R']]; [lia|]. rewrite E.
    eexists; split; [reflexivity|]. unfold mval, lget, key. rewrite (rfu_absent m a s d R M). rewrite Z.add_0_l. exact R'.
Qed.

(* removal-type calls: the graph part is a labelled undirected step, the spec step is the labelled spec step *)
Lemma u_removal_refines m a m' (oU : @uop Z) : RfUM m a -> uvalid_op a oU = true -> UTInv m' -> mg m' = fst (ustep true V (mg m) oU) ->
  (forall e v, lfind e (se (uspec_step a oU)) = Some v -> lfind e (se a) = Some v) -> RfUM m' (uspec_step a oU).
Proof.
  intros [TI R P] Vd T' PR SUB. pose proof (ustep_refines true (mg m) a oU R Vd) as SR. destruct (ustep true V (mg m) oU) as [g' r]. cbn [fst] in PR.
  destruct SR as [_ R']. constructor; auto; [rewrite PR; exact R'|]. intros e v F. apply (P e v), SUB, F. Qed.
Lemma erase_is_uremove a s d : with_se a (lerase (ordered s d) (se a)) = uspec_step a (URemove s d).
Proof. cbn [uspec_step]. unfold s_remove, okey, with_se. rewrite <- surjective_pairing. reflexivity. Qed.
Lemma usub_remove a s d e (v : Z) : lfind e (se (uspec_step a (URemove s d))) = Some v -> lfind e (se a) = Some v.
Proof. rewrite <- erase_is_uremove. cbn [with_se se]. rewrite lfind_lerase. destruct (edge_eqb (ordered s d) e); [discriminate|auto]. Qed.
Lemma uvalid_remove a s d : (s < sn a)%nat -> (d < sn a)%nat -> uvalid_op a (@URemove Z s d) = true.
Proof. intros Hs Hd. cbn [uvalid_op]. rewrite (proj2 (Nat.ltb_lt _ _) Hs), (proj2 (Nat.ltb_lt _ _) Hd). reflexivity. Qed.

Lemma um_remove_all_refines m a s d : RfUM m a -> (s < sn a)%nat -> (d < sn a)%nat ->
  exists m', um_remove_all m s d = (m', Done) /\ RfUM m' (with_se a (lerase (ordered s d) (se a))).
Proof.
  intros RM Hs Hd. pose proof RM as [TI R P]. pose proof Hs as Hs'. pose proof Hd as Hd'. rewrite <- (ru_size _ _ _ R) in Hs, Hd.
  destruct (u_remove_all_spec m s d TI Hs Hd) as [m1 [E1 [P1 [T1 _]]]]. exists m1; split; auto. rewrite erase_is_uremove.
  apply (u_removal_refines m a m1 (URemove s d) RM (uvalid_remove a s d Hs' Hd') T1 P1). intros e v; apply usub_remove.
Qed.

Lemma um_remove_multi_refines m a s d k : RfUM m a -> (s < sn a)%nat -> (d < sn a)%nat -> 0 <= k ->
  exists m', um_remove_multiedge m s d k = (m', Done) /\ RfUM m' (ms_remove true a s d k).
Proof.
  intros RM Hs Hd Hk. pose proof RM as [TI R P]. pose proof TI as [I K T]. pose proof Hs as Hs'. pose proof Hd as Hd'. rewrite <- (ru_size _ _ _ R) in Hs, Hd.
  unfold um_remove_multiedge, ms_remove. rewrite (in2_true m s d Hs Hd), (len2_true (mg m) s d I Hs Hd).
  change (nbl (mg m) s) with (nb (mg m) s). destruct (mem d (nb (mg m) s)) eqn:M.
  - pose proof M as Min. apply mem_In in Min. rewrite (proj1 (rfu_in m a s d R) Min), (rfu_lget m a s d R).
    destruct (Z.ltb_spec k (mval true a s d)) as [Lt|Ge].
    + pose proof (u_relabel_spec m s d (mval true a s d - k) TI Min) as T'. eexists; split; [reflexivity|]. constructor.
      * eapply UTInv_tot; [exact T'|rewrite (rfu_lget m a s d R); lia].
      * apply rfu_of; cbn [mg mk set_adj_lab size labels with_se sn se]; [exact (u_set_label_inv true (mg m) s d _ I Min)|apply (ru_size _ _ _ R)|].
        intros e. unfold key. rewrite !lfind_lset, (ru_lab _ _ _ R eq_refl). reflexivity.
      * intros e v. cbn [with_se se]. rewrite lfind_lset. unfold key. destruct (edge_eqb (ordered s d) e); [|apply P]. intros X; injection X as <-. lia.
    + (* the last copies go: same state as removeAllEdges *)
      destruct (um_remove_all_refines m a s d RM Hs' Hd') as [m1 [E1 R1]].
      assert (EQ : mk (set_adj_lab (mg m) (if Nat.eqb s d then upd s (remove_first d) (adj (mg m)) else upd d (remove_all s) (upd s (remove_first d) (adj (mg m))))
                         (enum (mg m) - 1) (lerase (ordered s d) (labels (mg m)))) (mtot m - mval true a s d) = m1).
      { unfold um_remove_all in E1. rewrite (in2_true m s d Hs Hd), (len2_true (mg m) s d I Hs Hd) in E1.
        change (nbl (mg m) s) with (nb (mg m) s) in E1. rewrite (remove_all_length_nodup d (nb (mg m) s) (u_nodup _ _ I s)), M in E1.
        replace (Z.of_nat (length (remove_all d (nb (mg m) s)) + 1) - Z.of_nat (length (remove_all d (nb (mg m) s)))) with 1 in E1 by lia.
        cbn [Z.ltb Z.compare] in E1. injection E1 as <-.
        f_equal; [|rewrite (rfu_lget m a s d R); lia]. unfold set_adj_lab. f_equal.
        rewrite (upd_const s (remove_first d) (adj (mg m)) []). fold (nb (mg m) s). rewrite (remove_first_nodup d _ (u_nodup _ _ I s)).
        destruct (Nat.eqb_spec s d) as [<-|Ne]; [|reflexivity].
        rewrite upd_upd_same, remove_all_idem. reflexivity. }
      rewrite EQ. exists m1; split; auto.
  - apply mem_false in M. assert (mhas true a s d = false) as ->.
    { destruct (mhas true a s d) eqn:X; auto. exfalso. apply M, (rfu_in m a s d R); auto. }
    exists m; auto.
Qed.

Lemma um_set_multi_refines m a s d k : RfUM m a -> (s < sn a)%nat -> (d < sn a)%nat -> 0 <= k ->
  exists m', um_set_multiplicity V true m s d k = (m', Done) /\ RfUM m' (ms_set true a s d k).
Proof.
  intros RM Hs Hd Hk. pose proof RM as [TI R P]. pose proof TI as [I K T]. pose proof Hs as Hs'. pose proof Hd as Hd'. rewrite <- (ru_size _ _ _ R) in Hs, Hd.
  unfold um_set_multiplicity, ms_set, um_has_edge. rewrite (in2_true m s d Hs Hd). destruct (Z.eqb_spec k 0) as [->|Nk].
  - apply um_remove_all_refines; auto.
  - rewrite (u_has_edge_val true (mg m) s d I Hs Hd). destruct (mem d (nb (mg m) s)) eqn:M.
    + apply mem_In in M. pose proof (u_relabel_spec m s d k TI M) as T'. eexists; split; [reflexivity|]. constructor; [exact T'| |].
      * apply rfu_of; cbn [mg mk set_adj_lab size labels with_se sn se]; [exact (u_set_label_inv true (mg m) s d _ I M)|apply (ru_size _ _ _ R)|].
        intros e. unfold key. rewrite !lfind_lset, (ru_lab _ _ _ R eq_refl). reflexivity.
      * intros e v. cbn [with_se se]. rewrite lfind_lset. unfold key. destruct (edge_eqb (ordered s d) e); [|apply P]. intros X; injection X as <-. lia.
    + apply mem_false in M. unfold um_add_multiedge, um_has_edge.
      rewrite (in2_true m s d Hs Hd), (proj2 (Z.eqb_neq _ _) Nk), (u_has_edge_val true (mg m) s d I Hs Hd). cbn [orb].
      destruct (um_insert_refines m a s d k true RM Hs Hd M) as [g' [E R']]; [lia|]. rewrite E. eexists; split; [reflexivity|]. exact R'.
Qed.

Theorem um_step_refines m a o : RfUM m a -> valid_mop a o = true -> exists m', um_step V true m o = (m', Done) /\ RfUM m' (mspec_step true a o).
Proof.
  intros RM Vd. pose proof RM as [TI R P]. pose proof TI as [I K T].
  destruct o as [s d f|s d f|s d k f|s d k f|s d|s d k|s d k| |v| |n|]; cbn [valid_mop um_step mspec_step] in Vd |- *;
    repeat (match type of Vd with (_ && _ = true) => apply andb_prop in Vd as [Vd ?] end);
    repeat (match goal with H : Nat.ltb _ _ = true |- _ => apply Nat.ltb_lt in H | H : Z.leb _ _ = true |- _ => apply Z.leb_le in H | H : negb ?f = true |- _ => destruct f; [discriminate|clear H] end).
  - apply um_add_multi_refines; auto; lia.
  - apply um_add_multi_refines; auto; lia.
  - apply um_add_multi_refines; auto.
  - apply um_add_multi_refines; auto.
  - apply um_remove_multi_refines; auto; lia.
  - apply um_remove_multi_refines; auto.
  - apply um_set_multi_refines; auto.
  - (* removeSelfLoops *) unfold um_remove_self_loops.
    destruct (u_remove_all_loop (seq 0 (size (mg m))) m TI) as [m' [E' [P' T']]]. { intros i Hi; apply in_seq in Hi; lia. }
    exists m'; split; auto. apply (u_removal_refines m a m' USelfLoops RM eq_refl T' P'). intros e v; apply sub_filter.
  - (* removeVertexFromEdgeList *) rewrite <- (ru_size _ _ _ R) in Vd. destruct (u_remove_vertex_spec_t m v TI Vd) as [m' [E' [P' T']]].
    exists m'; split; auto. assert (VD : uvalid_op a (@URemoveVertex Z v) = true) by (cbn; apply Nat.ltb_lt; rewrite <- (ru_size _ _ _ R); auto).
    apply (u_removal_refines m a m' (URemoveVertex v) RM VD T' P'). intros e w; apply sub_filter.
  - (* clearEdges *) destruct (u_clear_spec_t m TI) as [m' [E' [P' [T' _]]]]. exists m'; split; auto.
    apply (u_removal_refines m a m' UClear RM eq_refl T' P'). intros e w; cbn; discriminate.
  - (* resize *) apply Nat.leb_le in Vd. pose proof Vd as Vd'. rewrite <- (ru_size _ _ _ R) in Vd. destruct (u_resize_spec_t m n TI Vd) as [m' [E' [P' [T' _]]]]. exists m'; split; auto.
    assert (VD : uvalid_op a (@UResize Z n) = true) by (cbn; apply Nat.leb_le; auto). apply (u_removal_refines m a m' (UResize n) RM VD T' P'). intros e w; cbn; auto.
  - (* removeDuplicateEdges *) rewrite (u_dedup_noop_t m TI). exists m; auto.
Qed.
Lemma um_init_refines n : RfUM (dm_init n) (s_init n).
Proof. constructor; [|apply u_init_refines|intros e v; cbn; discriminate].
  pose proof (u_init_refines (L := Z) true n) as [I _ _ _]. constructor; [exact I|unfold KeysOK; cbn; constructor|reflexivity]. Qed.
Theorem um_run_refines ops : forall m a, RfUM m a -> um_valid_history a ops = true -> exists m', um_run m ops = (m', Done) /\ RfUM m' (umspec_run a ops).
Proof. induction ops as [|o t IH]; intros m a RM Vd; cbn [um_run umspec_run um_valid_history] in *; [exists m; auto|].
  apply andb_prop in Vd as [V1 V2]. destruct (um_step_refines m a o RM V1) as [m1 [E1 R1]]. rewrite E1. apply IH; auto. Qed.

(* ---- what the observers report ---- *)
Lemma SKeys_ustep a o : SKeys a -> SKeys (mspec_step true a o).
Proof.
  unfold SKeys. intros H.
  assert (ADD : forall a i j k, NoDup (map fst (se a)) -> NoDup (map fst (se (ms_add true a i j k)))).
  { intros b i j k Hb. unfold ms_add. destruct (Z.eqb k 0); auto. cbn [with_se se]. apply NoDup_keys_lset; auto. }
  assert (FIL : forall a p, NoDup (map fst (se a)) -> NoDup (map fst (se (@s_filter Z a p)))).
  { intros b p Hb. unfold s_filter; cbn [se]. induction (se b) as [|[k v] l IH]; simpl; [constructor|]. inversion Hb; subst.
    destruct (p k); simpl; auto. constructor; auto. intros X. apply H2. apply in_map_iff in X as [[k' v'] [E X]]. simpl in E; subst.
    apply filter_In in X as [X _]. apply in_map_iff. exists (k, v'); auto. }
  destruct o as [s d f|s d f|s d k f|s d k f|s d|s d k|s d k| |v| |n|]; cbn [mspec_step]; auto.
  - unfold ms_remove. destruct (mhas true a s d); auto. destruct (Z.ltb 1 (mval true a s d)); cbn [with_se se]; [apply NoDup_keys_lset|apply NoDup_keys_lerase]; auto.
  - unfold ms_remove. destruct (mhas true a s d); auto. destruct (Z.ltb k (mval true a s d)); cbn [with_se se]; [apply NoDup_keys_lset|apply NoDup_keys_lerase]; auto.
  - unfold ms_set. destruct (Z.eqb k 0); cbn [with_se se]; [apply NoDup_keys_lerase|apply NoDup_keys_lset]; auto.
  - apply FIL; auto.
  - apply FIL; auto.
  - cbn; constructor.
Qed.
Lemma SKeys_urun ops : forall a, SKeys a -> SKeys (umspec_run a ops).
Proof. induction ops as [|o t IH]; intros a H; cbn [umspec_run]; auto. apply IH, SKeys_ustep; auto. Qed.

(* the spec map of a refined state: unique keys give the cardinality and sum identities *)
Lemma rfu_SInv (g : @dgraph Z) a : RfU g a -> SKeys a -> SInv a /\ Canon a.
Proof.
  intros [I S M LB] SK.
  assert (X : forall e, smem e a = true -> (fst e <= snd e)%nat /\ In (snd e) (nb g (fst e))).
  { intros e H. pose proof (u_lab _ _ I) as IL. cbn in IL. apply IL. rewrite <- surjective_pairing, (LB eq_refl). unfold smem in H.
    destruct (lfind e (se a)); congruence. }
  split; [split; [exact SK|]|].
  - intros e H. destruct (X e H) as [_ Hin]. apply (u_rng _ _ I) in Hin. rewrite <- S. exact Hin.
  - intros e H. apply (X e H).
Qed.
Lemma rfu_enum (g : @dgraph Z) a : RfU g a -> SKeys a -> enum g = Z.of_nat (length (se a)).
Proof. intros R SK. destruct (rfu_SInv g a R SK) as [SI CN]. exact (u_edge_number_is_cardinal Z.eqb 0 true g a R SI CN). Qed.
Lemma rfu_total m a : UTInv m -> RfU (mg m) a -> SKeys a -> mtot m = ssum a.
Proof. intros [I K T] R SK. rewrite T. apply msum_ext; auto. intros e. apply (ru_lab _ _ _ R eq_refl). Qed.

Theorem C04_undirected_run (n : nat) (ops : list mop) : um_valid_history (s_init n) ops = true ->
  exists m, um_run (dm_init n) ops = (m, Done) /\
    let a := umspec_run (s_init n) ops in
    (forall i j, (i < sn a)%nat -> (j < sn a)%nat -> um_get_multiplicity m i j = Val (mval true a i j) /\ um_has_edge m i j = Val (Z.ltb 0 (mval true a i j))) /\
    enum (mg m) = Z.of_nat (length (se a)) /\ mtot m = ssum a.
Proof.
  intros Vd. destruct (um_run_refines ops (dm_init n) (s_init n) (um_init_refines n) Vd) as [m [E RM]]. exists m; split; auto.
  cbv zeta. set (a := umspec_run (s_init n) ops) in *. pose proof RM as [TI R P]. pose proof TI as [I K T].
  assert (SK : SKeys a) by (apply SKeys_urun; unfold SKeys; cbn; constructor).
  split; [|split; [apply rfu_enum; auto|apply rfu_total; auto]].
  intros i j Hi Hj. rewrite <- (ru_size _ _ _ R) in Hi, Hj.
  unfold um_get_multiplicity, um_has_edge. rewrite (in2_true m i j Hi Hj), (rfu_lget m a i j R), (u_has_edge_val true (mg m) i j I Hi Hj).
  split; auto. f_equal. unfold mval, lget, key. destruct (lfind (ordered i j) (se a)) as [v|] eqn:F.
  - pose proof (P _ _ F). rewrite (proj2 (Z.ltb_lt _ _)) by lia. apply mem_In, (ru_mem _ _ _ R). unfold umem, okey, smem. rewrite F; auto.
  - cbn. apply mem_false. rewrite (ru_mem _ _ _ R). unfold umem, okey, smem. rewrite F. discriminate.
Qed.
End UMRefine.


(* every reachable state of the undirected multigraph keeps the invariant *)
Theorem C04_undirected_invariant : forall (n : nat) (ops : list mop), um_valid_history (s_init n) ops = true ->
  exists m, um_run (dm_init n) ops = (m, Done) /\ UTInv m.
Proof. intros n ops Vd. destruct (um_run_refines ops (dm_init n) (s_init n) (um_init_refines n) Vd) as [m [E [T _ _]]]. exists m; auto. Qed.
Print Assumptions C04_undirected_invariant.
