(* C16, last clause, for the weighted classes: a history of forced insertions whose repeated pairs agree on the weight, followed by
   removeDuplicateEdges, gives a graph that is == to the one the same history builds without force AND has the same totalWeight
   (both states satisfy the full invariant TInv / UTInv: totalWeight = sum of the stored weights). *)
From BG Require Import Base DirectedModel DirectedProofs DirectedIter DirectedUsers DirectedSpec DirectedRefine DirectedObs Equality EqualityMore
  UndirectedModel UndirectedProofs UndirectedIter UndirectedSpec UndirectedRefine UndirectedObs MultiModel WeightedModel Totals UTotals MultiRefine
  WeightedRefine UWeightedRefine Forced UForced ForcedEq MForced MForcedInv UMForcedInv WForced.
Local Open Scope Z_scope.
Local Arguments Z.of_nat : simpl never.
Local Arguments Z.add : simpl never.
Local Arguments Z.sub : simpl never.
Local Arguments Z.mul : simpl never.

Notation wins := (@ins Z).
Definition wadds (f : bool) (ops : list wins) : list wop := map (fun o => WAdd (fst (fst o)) (snd (fst o)) (snd o) f) ops.
(* every insertion carries the weight a fixed function assigns to its key *)
Definition weights_by (key : nat -> nat -> edge) (wt : edge -> Z) (ops : list wins) : Prop :=
  forall o, In o ops -> snd o = wt (key (fst (fst o)) (snd (fst o))).
Lemma same_labels_by (ops : list wins) : same_labels Z.eqb ops -> exists wt, weights_by pair wt ops.
Proof. intros SL. exists (fun e => match first_lab e ops with Some l => l | None => 0 end). intros [[s d] l] Hin; cbn [fst snd].
  destruct (first_lab (s, d) ops) as [z|] eqn:F.
  - apply first_lab_In in F. symmetry. apply Z.eqb_eq. apply (SL (s, d) z l F Hin).
  - exfalso. assert (X : first_lab (s, d) ops <> None) by (apply first_lab_some; exists l; auto). congruence. Qed.
Lemma same_labels_by_u (ops : list wins) : same_labels Z.eqb (map norm ops) -> exists wt, weights_by ordered wt ops.
Proof. intros SL. destruct (same_labels_by (map norm ops) SL) as [wt WB]. exists wt. intros o Hin.
  specialize (WB (norm o) (in_map norm ops o Hin)). unfold norm in WB. cbn [fst snd] in WB. rewrite <- surjective_pairing in WB. exact WB. Qed.
(* two stores with the same keys and ==-equal values have the same sum *)
Lemma lfind_eq_of_agree (g h : @dgraph Z) : (forall e, lfind e (labels g) <> None <-> lfind e (labels h) <> None) -> labels_agree Z.eqb g h ->
  forall e, lfind e (labels g) = lfind e (labels h).
Proof. intros DOM LA e. specialize (DOM e). specialize (LA e).
  destruct (lfind e (labels g)) as [v|], (lfind e (labels h)) as [v'|]; auto.
  - f_equal. apply Z.eqb_eq. apply LA; reflexivity.
  - exfalso. apply (proj1 DOM); congruence.
  - exfalso. apply (proj2 DOM); congruence. Qed.

Section WEq.
Notation V := repaired.
Implicit Types m : mgraph.

(* ================= DirectedWeightedGraph ================= *)
Lemma dw_run_forced wt ops : forall m, MWInv m -> in_rng (size (mg m)) ops -> weights_by pair wt ops ->
  (forall i j, In j (nb (mg m) i) -> lget (i, j) (labels (mg m)) = wt (i, j)) ->
  exists m', dw_run m (wadds true ops) = (m', Done) /\ MWInv m' /\ run true V (mg m) (adds true ops) = (mg m', Done).
Proof.
  induction ops as [|[[s d] w] t IH]; intros m MI R WB ST; cbn [wadds adds map dw_run run].
  - exists m; auto.
  - apply in_rng_cons in R as [[Hs Hd] R]. cbn [fst snd] in *. cbn [dw_step step].
    assert (Ww : w = wt (s, d)) by (apply (WB ((s, d), w)); simpl; auto).
    destruct (dw_forced_add_keeps m s d w MI Hs Hd) as [m1 [E1 [MI1 _]]]. { intros H. rewrite Ww. apply ST; auto. }
    destruct (dw_forced_add_spec m s d w (mw_inv _ MI) Hs Hd) as [m1' [E1' [AE [_ [S1 [_ [_ [C1 [_ [LG _]]]]]]]]]]. rewrite E1 in E1'. injection E1' as <-.
    rewrite E1, AE. fold (wadds true t) (adds true t).
    apply IH; auto.
    + rewrite S1; auto.
    + intros o Ho; apply WB; simpl; auto.
    + intros i j Hj. rewrite LG. destruct (edge_eqb_spec (s, d) (i, j)) as [E|NE]; [injection E as <- <-; auto|]. apply ST.
      apply count_In. apply count_In in Hj. rewrite C1 in Hj.
      destruct (Nat.eqb_spec i s) as [Eis|Nis], (Nat.eqb_spec j d) as [Ejd|Njd]; cbn [andb] in Hj; try lia. subst. congruence.
Qed.
Lemma dw_run_unforced ops : forall m, TInv m -> in_rng (size (mg m)) ops ->
  exists m', dw_run m (wadds false ops) = (m', Done) /\ TInv m' /\ run true V (mg m) (adds false ops) = (mg m', Done).
Proof.
  induction ops as [|[[s d] w] t IH]; intros m TI R; cbn [wadds adds map dw_run run].
  - exists m; auto.
  - apply in_rng_cons in R as [[Hs Hd] R]. cbn [fst snd] in *. cbn [dw_step step]. fold (wadds false t) (adds false t).
    pose proof TI as [I K T]. unfold dw_add_edge.
    destruct (mem d (nb (mg m) s)) eqn:M.
    + assert (AE : add_edge true V (mg m) s d w false = (mg m, Done)).
      { unfold add_edge. rewrite (has_edge_val true (mg m) s d I Hs Hd), M. reflexivity. }
      rewrite AE, Z.eqb_refl. destruct m as [g tt]. cbn [mg mtot mk] in *. apply IH; auto.
    + apply mem_false in M. destruct (insert_spec m s d w false TI Hs Hd M) as [g' [AE [_ [N' TI']]]]. rewrite AE.
      destruct (Z.eqb_spec (enum g') (enum (mg m))) as [X|_]; [lia|].
      assert (S' : size g' = size (mg m)).
      { pose proof (add_edge_spec true (mg m) s d w I Hs Hd) as AS. rewrite AE in AS. tauto. }
      destruct (IH (mk g' (mtot m + w)) TI') as [m' [E' [TI2 RU]]]; [cbn [mg mk]; rewrite S'; auto|].
      exists m'. auto.
Qed.

Theorem dw_forced_dedup_equals_unforced n (ops : list wins) : in_rng n ops -> same_labels Z.eqb ops ->
  exists mf md mu,
    dw_run (dm_init n) (wadds true ops) = (mf, Done) /\ dw_remove_duplicates mf = (md, Done) /\
    dw_run (dm_init n) (wadds false ops) = (mu, Done) /\
    TInv md /\ TInv mu /\ graph_eqb Z.eqb (mg md) (mg mu) = Val true /\ mtot md = mtot mu.
Proof.
  intros R SL. destruct (same_labels_by ops SL) as [wt WB].
  assert (T0 : TInv (dm_init n)) by (exact (rw_t _ _ (dw_init_refines n))).
  assert (NB0 : forall i, nb (mg (dm_init n)) i = []) by (intros i; unfold nb, dm_init, init; cbn [mg mk adj]; apply nth_repeat).
  destruct (dw_run_forced wt ops (dm_init n) (TInv_MWInv _ T0) R WB) as [mf [Ef [MIf RFf]]]. { intros i j H. rewrite NB0 in H. destruct H. }
  destruct (dw_remove_duplicates_restores mf MIf) as [md [Ed [TId [_ [Ld [_ Td]]]]]].
  destruct (dw_remove_duplicates_spec mf (mw_inv _ MIf)) as [md' [Ed' [RD _]]]. rewrite Ed in Ed'. injection Ed' as <-.
  destruct (dw_run_unforced ops (dm_init n) T0 R) as [mu [Eu [TIu RFu]]].
  destruct (forced_dedup_equals_unforced Z.eqb true n ops R (or_intror SL)) as [gf [gd [gu [A [B [C D]]]]]].
  change (mg (dm_init n)) with (@init Z n) in RFf, RFu. rewrite RFf in A. injection A as <-. rewrite RD in B. injection B as <-.
  rewrite RFu in C. injection C as <-.
  exists mf, md, mu. repeat (split; auto).
  destruct (graph_eqb_spec Z.eqb true (mg md) (mg mu) (t_inv _ TId) (t_inv _ TIu) (t_keys _ TId) (t_keys _ TIu)) as [b [EB HB]].
  rewrite D in EB. injection EB as <-. destruct (proj1 HB eq_refl) as [_ [SE LA]].
  rewrite (t_tot _ TId), (t_tot _ TIu). apply msum_ext; [exact (t_keys _ TId)|exact (t_keys _ TIu)|].
  apply lfind_eq_of_agree; auto. intros [i j].
  pose proof (i_lab _ _ (t_inv _ TId)) as L1. pose proof (i_lab _ _ (t_inv _ TIu)) as L2. cbn in L1, L2. rewrite L1, L2. apply SE.
Qed.

(* ================= UndirectedWeightedGraph ================= *)
Lemma uw_run_forced wt ops : forall m, UMWInv m -> in_rng (size (mg m)) ops -> weights_by ordered wt ops ->
  (forall i j, In j (nb (mg m) i) -> lget (ordered i j) (labels (mg m)) = wt (ordered i j)) ->
  exists m', uw_run m (wadds true ops) = (m', Done) /\ UMWInv m' /\ urun true V (mg m) (uadds true ops) = (mg m', Done).
Proof.
  induction ops as [|[[a b] w] t IH]; intros m MI R WB ST; cbn [wadds uadds map uw_run urun].
  - exists m; auto.
  - apply in_rng_cons in R as [[Ha Hb] R]. cbn [fst snd] in *. cbn [uw_step ustep].
    assert (Ww : w = wt (ordered a b)) by (apply (WB ((a, b), w)); simpl; auto).
    destruct (uw_forced_add_keeps m a b w MI Ha Hb) as [m1 [E1 [MI1 _]]]. { intros H. rewrite Ww. apply ST; auto. }
    destruct (uw_forced_add_spec m a b w (umw_inv _ MI) Ha Hb) as [m1' [E1' [AE [_ [S1 [_ [_ [C1 [_ [LG _]]]]]]]]]]. rewrite E1 in E1'. injection E1' as <-.
    rewrite E1, AE. fold (wadds true t) (uadds true t).
    apply IH; auto.
    + rewrite S1; auto.
    + intros o Ho; apply WB; simpl; auto.
    + intros i j Hj. rewrite LG. destruct (edge_eqb_spec (ordered a b) (ordered i j)) as [E|NE]; [rewrite <- E; auto|]. apply ST.
      apply count_In. apply count_In in Hj. rewrite C1 in Hj.
      destruct (hit a b i j) eqn:HT; [|lia]. exfalso. apply NE. apply ordered_eq_iff. apply hit_true. exact HT.
Qed.
Lemma uw_run_unforced ops : forall m, UTInv m -> in_rng (size (mg m)) ops ->
  exists m', uw_run m (wadds false ops) = (m', Done) /\ UTInv m' /\ urun true V (mg m) (uadds false ops) = (mg m', Done).
Proof.
  induction ops as [|[[a b] w] t IH]; intros m TI R; cbn [wadds uadds map uw_run urun].
  - exists m; auto.
  - apply in_rng_cons in R as [[Ha Hb] R]. cbn [fst snd] in *. cbn [uw_step ustep]. fold (wadds false t) (uadds false t).
    pose proof TI as [I K T]. unfold uw_add_edge.
    destruct (mem b (nb (mg m) a)) eqn:M.
    + assert (AE : u_add_edge true V (mg m) a b w false = (mg m, Done)).
      { unfold u_add_edge. rewrite (u_has_edge_val true (mg m) a b I Ha Hb), M. reflexivity. }
      rewrite AE, Z.eqb_refl. destruct m as [g tt]. cbn [mg mtot mk] in *. apply IH; auto.
    + apply mem_false in M. destruct (u_insert_spec m a b w false TI Ha Hb M) as [g' [AE [_ [N' [S' [_ TI']]]]]]. rewrite AE.
      destruct (Z.eqb_spec (enum g') (enum (mg m))) as [X|_]; [lia|].
      destruct (IH (mk g' (mtot m + w)) TI') as [m' [E' [TI2 RU]]]; [cbn [mg mk]; rewrite S'; auto|].
      exists m'. auto.
Qed.

Theorem uw_forced_dedup_equals_unforced n (ops : list wins) : in_rng n ops -> same_labels Z.eqb (map norm ops) ->
  exists mf md mu,
    uw_run (dm_init n) (wadds true ops) = (mf, Done) /\ uw_remove_duplicates mf = (md, Done) /\
    uw_run (dm_init n) (wadds false ops) = (mu, Done) /\
    UTInv md /\ UTInv mu /\ graph_eqb Z.eqb (mg md) (mg mu) = Val true /\ mtot md = mtot mu.
Proof.
  intros R SL. destruct (same_labels_by_u ops SL) as [wt WB].
  assert (T0 : UTInv (dm_init n)) by (exact (ruw_t _ _ (uw_init_refines n))).
  assert (NB0 : forall i, nb (mg (dm_init n)) i = []) by (intros i; unfold nb, dm_init, init; cbn [mg mk adj]; apply nth_repeat).
  destruct (uw_run_forced wt ops (dm_init n) (UTInv_UMWInv _ T0) R WB) as [mf [Ef [MIf RFf]]]. { intros i j H. rewrite NB0 in H. destruct H. }
  destruct (uw_remove_duplicates_restores mf MIf) as [md [Ed [TId [_ [Ld [_ Td]]]]]].
  destruct (uw_remove_duplicates_spec mf (umw_inv _ MIf)) as [md' [Ed' [RD _]]]. rewrite Ed in Ed'. injection Ed' as <-.
  destruct (uw_run_unforced ops (dm_init n) T0 R) as [mu [Eu [TIu RFu]]].
  destruct (u_forced_dedup_equals_unforced Z.eqb true n ops R (or_intror SL)) as [gf [gd [gu [A [B [C D]]]]]].
  change (mg (dm_init n)) with (@init Z n) in RFf, RFu. rewrite RFf in A. injection A as <-. rewrite RD in B. injection B as <-.
  rewrite RFu in C. injection C as <-.
  exists mf, md, mu. repeat (split; auto).
  destruct (ForcedEq.u_graph_eqb_spec Z.eqb true (mg md) (mg mu) (ut_inv _ TId) (ut_inv _ TIu) (ut_keys _ TId) (ut_keys _ TIu)) as [b [EB HB]].
  rewrite D in EB. injection EB as <-. destruct (proj1 HB eq_refl) as [_ [SE LA]].
  rewrite (ut_tot _ TId), (ut_tot _ TIu). apply msum_ext; [exact (ut_keys _ TId)|exact (ut_keys _ TIu)|].
  apply lfind_eq_of_agree; auto. intros [i j].
  pose proof (u_lab _ _ (ut_inv _ TId)) as L1. pose proof (u_lab _ _ (ut_inv _ TIu)) as L2. cbn in L1, L2. rewrite L1, L2, (SE i j). reflexivity.
Qed.
End WEq.

(* non-vacuity, and the necessity of "agree on the weight" for the total (== already fails on the weights: ForcedEq.v) *)
Example dw_forced_eq_example :
  let ops := [((0, 1)%nat, 3); ((1, 1)%nat, 2); ((0, 1)%nat, 3); ((1, 1)%nat, 2); ((1, 1)%nat, 2)] in
  let '(mf, _) := dw_run (dm_init 2) (wadds true ops) in
  let '(md, _) := dw_remove_duplicates mf in
  let '(mu, _) := dw_run (dm_init 2) (wadds false ops) in
  mtot mf = 12 /\ enum (mg mf) = 5 /\ mtot md = 5 /\ md = mu.
Proof. vm_compute. repeat split; reflexivity. Qed.
Example uw_forced_eq_example :
  let ops := [((0, 1)%nat, 3); ((1, 1)%nat, 2); ((1, 0)%nat, 3); ((1, 1)%nat, 2); ((1, 1)%nat, 2)] in
  let '(mf, _) := uw_run (dm_init 2) (wadds true ops) in
  let '(md, _) := uw_remove_duplicates mf in
  let '(mu, _) := uw_run (dm_init 2) (wadds false ops) in
  mtot mf = 12 /\ enum (mg mf) = 5 /\ mtot md = 5 /\ graph_eqb Z.eqb (mg md) (mg mu) = Val true /\ mtot mu = 5.
Proof. vm_compute. repeat split; reflexivity. Qed.
