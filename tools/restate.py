#!/usr/bin/env python3
# helper used while writing Properties_Cxx.v: prints `Theorem name : stmt. Proof. exact Mod.name. Qed. Print Assumptions name.` for closed theorems of a proof file
import re, sys
src = sys.argv[1]; mod = src.split('/')[-1][:-2]; s = open(src).read()
for name in sys.argv[2:]:
    m = re.search(r'^(?:Theorem|Corollary|Lemma)\s+%s\s*:\s*(.*?)\.\s*\nProof' % re.escape(name), s, re.S | re.M)
    if not m: print('(* %s: not found or has binders *)' % name); continue
    print('Theorem %s : %s.\nProof. exact %s.%s. Qed.\nPrint Assumptions %s.' % (name, m.group(1), mod, name, name))
