#!/usr/bin/env python3
# helper: restate theorems proved inside Sections (closed types obtained from Check) for a Properties file
# usage: restate_check.py "<imports>" prefix Mod.name[=NewName] ...
import re, subprocess, sys, os, tempfile
imports, prefix, names = sys.argv[1], sys.argv[2], sys.argv[3:]
src = 'From Coq Require Import List Arith ZArith NArith.\nFrom BG Require Import %s.\nSet Printing Width 170.\nSet Printing Depth 1000.\n' % imports
for n in names: src += 'Check %s.\n' % n.split('=')[0]
d = tempfile.mkdtemp(); f = os.path.join(d, 'chk.v'); open(f, 'w').write(src)
out = subprocess.run(['coqc', '-Q', '/verif/coq/theories', 'BG', f], capture_output=True, text=True, cwd='/verif/coq').stdout
blocks = re.split(r'\n(?=\S)', out)
res = {}
for b in blocks:
    m = re.match(r'([\w.]+)\s*\n\s+: (.*)', b, re.S)
    if m: res[m.group(1).split('.')[-1]] = m.group(2).rstrip()
for n in names:
    q, _, new = n.partition('='); short = q.split('.')[-1]; new = new or (prefix + short)
    if short not in res: print('(* %s not found *)' % q); continue
    ty = res[short].replace('\n', '\n ')
    proof = 'exact %s.' % q
    if '?L' in ty or re.search(r'\b(dgraph|dop|uop|sgraph)\b', ty):
        # the label type is an implicit argument of the original: make it explicit
        ty = ty.replace('?L', 'L')
        for w in ('dgraph', 'dop', 'uop', 'sgraph'): ty = re.sub(r'(?<![@\w])%s\b' % w, '(@%s L)' % w, ty)
        ty = re.sub(r'^forall ', 'forall (L : Type) ', ty, count=1)
        proof = 'intros L. exact (@%s L).' % q
    print('Theorem %s :\n  %s.\nProof. %s Qed.\nPrint Assumptions %s.' % (new, ty, proof, new))
